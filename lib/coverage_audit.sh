#!/bin/bash
# coverage_audit.sh [cfg...]: run every bounded model (spec/MC_*.cfg) with -coverage 1 in a scratch copy and list
# actions that were never taken (0 states) -- a vacuity audit of the models, not part of any check.
cd /verif/spec
JAR=/opt/veriftools/tla/tla2tools.jar:/opt/veriftools/tla/CommunityModules-deps.jar
cfgs=${@:-$(ls MC_*.cfg)}
for c in $cfgs; do
  b=${c%.cfg}; m=$b
  while [ ! -f $m.tla ]; do m=${m%_*}; done
  S=/tmp/cov/$b; rm -rf $S; mkdir -p $S; cp *.tla $c $S/
  (cd $S && timeout 1200 java -Xmx8g -Xss512m -cp $JAR tlc2.TLC -workers 8 -coverage 1 -metadir $S/meta -config $c -noGenerateSpecTE $m.tla > tlc.out 2>&1)
  gen=$(grep -o '[0-9]* states generated, [0-9]* distinct' $S/tlc.out | tail -1)
  never=$(grep -E '^<[A-Za-z0-9_]+ line .*>: 0:0$' $S/tlc.out | sed 's/ line.*//; s/<//' | sort | uniq -c | tr '\n' ';')
  nact=$(grep -cE '^<[A-Za-z0-9_]+ line .*>: [0-9]+:[0-9]+$' $S/tlc.out)
  echo "$c ($m): $gen; actions=$nact never-taken: ${never:-none}"
  rm -rf $S/meta $S/states
done
