#!/usr/bin/env python3
"""Regenerates MANIFEST.json from the table below (one place to edit)."""
import json, os
V = os.path.dirname(os.path.dirname(os.path.abspath(__file__)))
props = [json.loads(l) for l in open(os.path.join(V, "properties.jsonl"))]

CLAIMED = {
 "C03": dict(technique="TLA+ spec Names.tla: TLC model checking (MC_Names) + TLC-generated vectors replayed into PackDomainName/UnpackDomainName/IsDomainName/IsFqdn + trace validation of recorded unpack/pack events (Trace_Names)",
             text="Names.tla states wire form, presentation form and the validity judge once; TLC checks it exhaustively with limits 2/8, enumerates all texts over an 8-symbol alphabet and all boundary label shapes (wire length 250..260) with the real limits, and the real functions must agree with every vector; recorded events of the real unpacker/packer on random wire names are validated by TLC against the same operators.",
             note="Trusted: TLC, the JSON bridge, the harness' calls of the public API. Escapes RFC 1035 leaves undefined are outside the universe.", ref="4/C03"),
 "C19": dict(technique="TLA+ spec Names.tla (helpers defined from one parser): TLC model checking + TLC-generated name/pair vectors replayed into labels.go/defaults.go/dnsutil + trace validation of recorded helper results",
             text="Every helper is defined in TLA+ from Parse(s).labels/starts; TLC enumerates all names over a 7-octet alphabet up to a size bound and all pairs, the real helpers must return the spec's values; helper results recorded on random long names are validated by TLC.",
             note="Trusted: TLC, JSON bridge. Names are in the library's own presentation form.", ref="4/C19"),
 "C09": dict(technique="TLA+ spec Truncate.tla: relation TruncOK over measurable facts + abstract algorithm TruncImpl model-checked against it (with must-fail broken variants); TLC-enumerated (reply shape, size selector) cases executed on the real Truncate, facts judged by TLC (Trace_Truncate); random replies likewise",
             text="The statement is written once as the relation TruncOK (prefixes, later-sections-empty, OPT kept, TC iff dropped, fits=>keep, fits-after, first-dropped-would-not-fit). TLC proves an abstract model of msg_truncate.go satisfies it for every small message x size and that three broken variants do not; every enumerated (shape, exact-fit -1/0/+1 size) case and tens of thousands of random replies are run through the real Truncate and the measured facts are judged by TLC with the same relation.",
             note="Trusted: TLC, JSON bridge, packed lengths measured with the real Pack (fidelity of Pack is C01/C04/C08). 'Fits' means fits when packed with compression.", ref="4/C09"),
 "C02": dict(technique="TLA+ specs Names.tla (DecName) + Framing.tla (framing walk): TLC-classified hostile inputs (all pointer graphs in a short window, chains to 1000 hops, names around 255 octets, reserved label types) replayed into the decoders; every ACCEPTED decode of those and of mutated valid messages validated by TLC (Trace_Framing); panics/time/allocation observed by the harness",
             text="The spec decides which inputs no reading of RFC 1035 accepts and what an accepted decode must look like (records = prefix of the framing walk of the same octets, all names valid). TLC enumerates the hostile universe; the harness runs the real decoders on it and on ~10^4..10^6 mutations of valid messages of ~85 RR types under panic/time/allocation guards, and TLC judges every accepted result.",
             note="Trusted: TLC, JSON bridge. Panics, wall time and allocation are runtime observations outside TLA+ (bounds: 2 s reproduced 3x, 512*len+64KiB). Errors are always allowed; only acceptance is judged.", ref="4/C02"),
}

def _doc(i):
    import ast
    try:
        d = ast.get_docstring(ast.parse(open(os.path.join(V, "checks", i.lower() + ".py")).read())) or ""
    except Exception:
        d = ""
    return " ".join(d.split())[:1500]

AUTO = {
 "C05": ("TLA+ spec PresentRR.tla on top of Present.tla (independent reader of master-file text: lexer, header, per-field-kind interpreters for 74 typed forms, RFC 3597 generic form, OnlyMasterSyntax) + WireRR.tla: TLC model checking of the interpreters and all 2x65536 type/class spellings + the C01 vector universe with nasty string values round-tripped String() -> NewRR -> PackRR + trace validation: TLC reads the text the real String() printed and must obtain the record's header and RDATA octets", "4/C05"),
 "C04": ("TLA+ spec Compress.tla (permissive PackAny: where a pointer may be emitted and what it must point at; decoder-side judge over both packings using Framing/Names/WireRR.Layout): TLC model checking of the refinement PackImpl => PackAny with the pointer limit lowered + TLC-generated messages (name families, every type with an RDATA name, 16384 crossings, hand-compressed RDATA) packed with and without compression by the real Pack and judged by TLC + trace validation of item streams of large random messages (independent Go walker cross-checked against TLC's walk)", "4/C04"),
 "C10": ("TLA+ spec Dnssec.tla (RFC 4034 canonical RR form and ordering, RRSIG signed data, pre-checks; signature primitive uninterpreted): TLC model checking of invariance/sensitivity + two trace-validation passes around the harness (real RRSIG.Sign events -> TLC emits the signed octets -> stdlib crypto verifies the real signature over the SPEC's octets and forges signatures over them -> real Verify on equivalent / altered / bit-flipped variants judged by PreChecks /\\ data equality)", "4/C10"),
 "C06": ("TLA+ specs Present.tla (RFC 1035 5.1 lexer) and Zone.tla (zone-file denotation machine: origin, owner/TTL/class inheritance, $ORIGIN/$TTL/$INCLUDE/$GENERATE with modifiers): TLC model checking over line sequences + every behaviour exported with the records it denotes, rendered by the harness in several equivalent spellings and parsed by ZoneParser under each configuration + the renderings re-lexed by the spec + trace validation of random zones", "4/C06"),
 "C07": ("TLA+ specs Present.tla / Zone.tla (safety side: sticky error, include gate and depth, nested $GENERATE ban, 65536 bound): TLC-enumerated hostile texts classified by the spec lexer + structured include/generate families replayed into ZoneParser under recover/time/allocation guards with an fs.FS wrapper counting opens + trace validation of next/err/open histories", "4/C07"),
 "C13": ("TLA+ spec Server.tla (one action per critical section of server.go; starter, serve loops, workers, shutdown caller, second starter, clients): TLC model checking of safety + liveness with 15 must-fail broken variants + tlc -simulate behaviours forced onto the real server through gate hooks (fakenet transports, quiescence from goroutine stacks, projection compared after each step) + trace validation of un-gated scenario runs (hook events numbered inside the critical sections), also in a -race build, goroutine/conn census", "4/C13"),
 "C01": ("TLA+ spec WireRR.tla (hand-written RFC wire layout table for all 80 registry types, EDNS0 options, SVCB keys, header/RCODE split; encoders, length arithmetic, reference decoder): TLC model checking + TLC-generated boundary vectors with expected octets replayed into Pack/Unpack/PackRR/UnpackRR + trace validation of random messages (EncMsg(msg) = bytes)", "4/C01"),
 "C08": ("TLA+ specs WireRR.tla (LenMsg, true length) and CompressLen.tla (PackImpl / LenImpl models of packDomainName and the length predictor): TLC model checking LenImpl >= PackImpl with the pointer limit lowered + vectors and recorded {msg, compress, len, packlen} events judged against the models; PackBuffer in-place clause observed", "4/C08"),
 "C11": ("TLA+ spec Tsig.tla (RFC 8945 digest input, signed-message layout, MAC-chain session machine; HMAC uninterpreted): TLC model checking of envelope chains with faults + TLC-generated vectors and chain behaviours replayed into TsigGenerate / VerifTsigVerifyAt / Transfer.ReadMsg / Conn + trace validation; the harness applies crypto/hmac to the SPEC's octets", "4/C11"),
 "C12": ("TLA+ specs Stream.tla (framing under any segmentation, reply-ID machine) and Exchange.tla (clients, server, buffer pool): TLC model checking with must-fail variants + MC behaviours scaled to real sizes replayed through Conn/Server over scripted in-memory conns + trace validation of concurrent exchanges (pool hook events)", "4/C12"),
 "C14": ("TLA+ spec Admission.tla (accept policy table, outcome trichotomy, reply shapes, mux routing incl. DS): TLC model checking over all 8192 headers and pattern sets + TLC-generated packets/routing vectors replayed into a real Server (PacketConn, TCP, UDP loopback) and ServeMux + trace validation of mutated packets and concurrent mux operations (also -race)", "4/C14"),
 "C15": ("TLA+ spec Xfr.tla (AXFR/IXFR grammar, envelope partitions, faults, receiver machine; TSIG chain from Tsig.tla): TLC model checking + every bounded behaviour replayed into Transfer.In over scripted in-memory conns + trace validation of random transfers and of Transfer.Out chains", "4/C15"),
 "C16": ("TLA+ spec Heap.tla (objects, mutable regions, Copy/Unpack/Mutate/ReadOnly/Scribble, non-interference): TLC model checking with must-fail variants + TLC-exported operation sequences replayed on every RR type and whole messages with a reflection/unsafe region walker + trace validation of random op sequences", "4/C16"),
 "C17": ("TLA+ specs Dnssec17.tla (key tag arithmetic, DS input, NSEC3 iterated-hash plan, Match/Cover order predicates, RFC 1982 ValidAt) and KeyLife17.tla: TLC model checking + TLC-generated vectors replayed into KeyTag/ToDS/HashName/Cover/Match/ValidityPeriod/key import-export + trace validation; hashes applied by the harness to the SPEC's octets", "4/C17"),
 "C18": ("TLA+ spec Sig0.tla (signed octets, output layout, Accept): TLC model checking + two trace-validation passes around the harness (layout of real SIG.Sign output; Verify verdicts on right/wrong key, every single-bit flip and truncation); stdlib crypto verifies the real signature over the SPEC's octets", "4/C18"),
 "C20": ("TLA+ spec Dup.tla (IsDup key, Dedup grouping): TLC model checking (equivalence, Dedup laws) + TLC-exported pairs/triples/lists instantiated by reflection for every field of every RR type and replayed into IsDuplicate/Dedup + trace validation of from-the-wire pairs and an RDATA octet sweep", "4/C20"),
}
for _i, (_t, _r) in AUTO.items():
    if os.path.exists(os.path.join(V, "checks", _i.lower() + ".py")):
        CLAIMED[_i] = dict(technique=_t, text=_doc(_i), note="Trusted: TLC, the JSON bridge, the harness' use of the public API; cryptographic primitives and runtime observations (panic, race detector, allocation) are outside TLA+ and are applied/observed by the harness on spec-chosen inputs. See the driver's docstring and DESIGN.md.", ref=_r)

PENDING = "check not built yet in this round (the specification module is planned in DESIGN.md section 4); will be claimed when its check runs clean"

checks, na = [], []
for p in props:
    i = p["id"]
    if i in CLAIMED:
        c = CLAIMED[i]
        checks.append({
            "property_id": i,
            "quick_cmd": "bin/check %s quick" % i,
            "thorough_cmd": "bin/check %s thorough" % i,
            "evidence_file": "evidence/%s.json" % i,
            "replay_cmd_template": "bin/check %s --replay {path}" % i,
            "engine": "tlc+harness",
            "level_claimed": {"category": "model_checking", "text": c["text"], "design_ref": c["ref"]},
            "level_note": c["note"],
            "technique": c["technique"],
        })
    else:
        na.append({"property_id": i, "reason": PENDING})
m = {
 "version": 1,
 "setup_cmd": "bin/setup",
 "hooks": {
   "guard": "verif",
   "enable": "go build -tags verif (the harness under /verif/harness is always built with -tags verif against /repo's working tree)",
   "baseline_off_cmd": "cd /repo && GOFLAGS=-mod=mod GOPROXY=off go test -vet=off -count=1 -timeout 25m ./...",
   "source_commits": ["db3d4c2", "6ec2b84", "d419294"],
   "add_only": True,
 },
 "engines": [{"name": "tlc+harness", "path": "bin/check", "serves_properties": sorted(CLAIMED),
              "kind_free_text": "TLA+ specifications in spec/ checked by TLC; Go harness in harness/ replays TLC-generated vectors/behaviours into miekg/dns and records traces that TLC validates"}],
 "checks": checks,
 "not_applicable": na,
 "notes": "See DESIGN.md. Exit 2 from a check means an infrastructure problem, never a verdict.",
}
json.dump(m, open(os.path.join(V, "MANIFEST.json"), "w"), indent=1)
print("claimed", len(checks), "not_applicable", len(na))
