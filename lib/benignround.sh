#!/bin/bash
# benignround.sh <ID>... : scratch worktree /tmp/bgn-<id> per property + agent prompt /tmp/benignprompt-<id>.txt
for P in "$@"; do
  p=$(echo $P | tr A-Z a-z); W=/tmp/bgn-$p
  git -C /repo worktree remove --force $W 2>/dev/null; rm -rf $W /tmp/benign-out-$P
  git -C /repo worktree add -q --detach $W HEAD || exit 1
  python3 /verif/lib/benignprompt.py $P $W 3 > /tmp/benignprompt-$p.txt
done
git -C /repo worktree list | wc -l
