#!/bin/bash
# seedrecheck.sh <NAME>...: re-run the property's quick check on /verif/seeded/<NAME>/patch.diff and record the outcome in meta.json
cd /verif
for NAME in "$@"; do
  PID=${NAME%%-*}; W=/tmp/seedre-$NAME
  rm -rf $W; cp -r /repo $W; rm -rf $W/.git
  if ! (cd $W && patch -p1 -s < /verif/seeded/$NAME/patch.diff); then echo "$NAME: patch no longer applies"; rm -rf $W; continue; fi
  VERIF_REPO=$W timeout 1800 bin/check $PID quick > /tmp/seedre-$NAME.log 2>&1; rc=$?
  python3 - "$NAME" "$rc" <<'PY'
import json,sys,re
name,rc=sys.argv[1],int(sys.argv[2])
p='/verif/seeded/%s/meta.json'%name
m=json.load(open(p))
log=open('/tmp/seedre-%s.log'%name).read()
keys=sorted(set(re.findall(r'^  key=(\S+)',log,re.M)))
m['recheck']={'rc':rc,'keys':keys[:6]}
first=m.get('confirmed_by_coordinator','')
if 'check_rc=0' in first and rc==1:
    m['status_note']='missed at filing time; caught after strengthening: '+', '.join(keys[:3])
elif rc==1:
    m['status_note']='caught: '+', '.join(keys[:3])
elif rc==0:
    m['status_note']='MISSED (recheck)'
else:
    m['status_note']='recheck exit %d (infrastructure)'%rc
json.dump(m,open(p,'w'),indent=1)
print(name,rc,keys[:3])
PY
  rm -rf $W /tmp/seedre-$NAME.log
done
