#!/usr/bin/env python3
"""Markdown table of /verif/seeded-benign/*: independently written property-PRESERVING changes and what the checks said (want exit 0)."""
import json, glob, os, re
rows = []
for d in sorted(glob.glob('/verif/seeded-benign/*')):
    try:
        m = json.load(open(os.path.join(d, 'meta.json')))
    except Exception:
        continue
    conf = m.get('confirmed_by_coordinator', '')
    rc = re.search(r'check_rc=(\d+)', conf)
    rc = rc.group(1) if rc else '?'
    status = m.get('status_note') or ('quiet (exit 0)' if rc == '0' else 'ALARM (exit %s) at filing time' % rc)
    rows.append('| %s | %s | %s | %s |' % (os.path.basename(d), (m.get('summary') or '')[:170].replace('|', '/').replace('\n', ' '),
                                          (m.get('difference') or '')[:170].replace('|', '/').replace('\n', ' '), status[:200].replace('|', '/')))
print('| Change | What changes | Observable difference | `bin/check <ID> quick` |\n|---|---|---|---|')
print('\n'.join(rows))
