#!/usr/bin/env python3
"""Prints the prompt given to an independent sub-agent that writes property-PRESERVING changes (the checks must stay quiet).
Usage: benignprompt.py <ID> <worktree> [n]"""
import json, sys
pid, wt = sys.argv[1], sys.argv[2]
n = sys.argv[3] if len(sys.argv) > 3 else "3"
p = [json.loads(l) for l in open('/verif/properties.jsonl') if json.loads(l)['id'] == pid][0]
print(f"""You are helping to evaluate a verification tool for a Go library, miekg/dns (a DNS library). The tool is supposed to raise an alarm when a semantic property of the library is broken, and to stay QUIET on any code for which the property still holds - even if that code behaves differently from today's code in ways the property does not care about. Your job is to write changes of the second kind. You have your own scratch git worktree of the library at {wt} - work ONLY there (do not touch /repo or /verif, do not read /verif).

The property (call it {pid}): "{p['title']}"

Statement: {p['statement']}

It is quantified over: {p['quantifier']['text']}

Relevant files: {', '.join(p['anchors']['files'])}

YOUR TASK: produce {n} DIFFERENT, independent, realistic changes to the library's non-test source code in the area this property is about, each of which
  (a) CHANGES some observable behaviour of the library (other octets on the wire where the format leaves a choice, other but equally valid text, another order of internal steps or of checks, another error value or message, other buffer sizes / allocation strategy, another but still correct locking or goroutine structure, stricter or laxer handling of inputs the property says nothing about, ...), and
  (b) PRESERVES the property exactly as stated above, for every input / schedule it quantifies over - read the statement carefully, clause by clause, and do not touch anything it fixes; when in doubt whether a clause is affected, pick another change, and
  (c) still compiles and passes the ENTIRE existing test suite (`cd {wt} && GOFLAGS=-mod=mod GOPROXY=off go test -vet=off -count=1 ./...` - never set GOTOOLCHAIN or GOSUMDB; the sandbox is offline).
Aim at places where a verification tool that has been fitted too closely to the present implementation would cry wolf: a different but legal choice where the statement leaves freedom, a restructuring that moves work between functions, a rewritten algorithm with the same contract. Do not make trivial edits (renames, comments, dead code): each change must make at least one observable difference, which you demonstrate.

NOTES: lines calling `vhook(...)` and the files verif_on.go / verif_off.go in the source tree are inert instrumentation - keep every one of these calls, at the same point relative to the statements around it (same lock held, same order); do not delete, move or add any. `git log` shows recent `fix:` commits: do not revert any of them.

For each change i = 1..{n} deliver, under /tmp/benign-out-{pid}/<i>/ (create the directory; it is outside the worktree):
  - patch.diff : `git diff` of the change against the pinned HEAD (source files only, no test files), applying cleanly with `git apply` on a clean checkout
  - demo_test.go : a deterministic Go test in package dns (or dns_test) that shows the behavioural DIFFERENCE: it PASSES on the clean checkout and FAILS with the change applied (or the other way round - say which in meta.json). It is kept outside the repo; copy it into the worktree temporarily to run it.
  - meta.json : {{"property": "{pid}", "summary": "<one line: what changes>", "difference": "<the observable difference the demo shows>", "why_property_holds": "<clause-by-clause argument that the property as stated still holds>", "files": [...], "ran": ["<commands you ran and their outcome>"]}}

PROCEDURE for each change: make the edit in the worktree; run the full suite (must pass; run it twice); run the demo with and without the change; save patch.diff; `git checkout -- . && git clean -fd`. Leave the worktree clean at the end. Never use `git stash` (the stash is shared by all worktrees of the repository and other people work in theirs at the same time): save a change with `git diff > file` and undo it with `git checkout -- .`.

Final answer: for each change, the one-line summary, the observable difference, and the argument why the property still holds.""")
