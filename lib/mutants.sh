#!/bin/bash
# mutants.sh <ID> [tier]: apply each checks/mutants/<ID>/*.diff to a scratch copy of /repo and run the check; expect exit 1.
PID=$1; TIER=${2:-quick}
cd /verif
for d in checks/mutants/$PID/*.diff; do
  n=$(basename $d .diff); W=/tmp/mut-$PID-$n
  rm -rf $W; cp -r /repo $W; rm -rf $W/.git
  if ! (cd $W && patch -p1 -s < /verif/$d); then echo "$PID/$n: PATCH FAILED"; rm -rf $W; continue; fi
  if ! (cd $W && GOFLAGS=-mod=mod GOPROXY=off go build ./... 2>/dev/null); then echo "$PID/$n: does not compile"; rm -rf $W; continue; fi
  VERIF_REPO=$W timeout 1500 bin/check $PID $TIER > /tmp/mut-$PID-$n.log 2>&1; rc=$?
  keys=$(grep -E "^  key=" /tmp/mut-$PID-$n.log | sed 's/ :.*//' | tr -d ' ' | tr '\n' ' ')
  echo "$PID/$n: rc=$rc $keys"
  rm -rf $W /tmp/mut-$PID-$n.log
done
