#!/usr/bin/env python3
"""Re-inserts docs/sec10.md (with the generated seed table) as section 10 of DESIGN.md."""
import subprocess
s = open('/verif/DESIGN.md').read()
sec = open('/verif/docs/sec10.md').read()
i = s.index('## Appendix A.')
if '## 10. Build record' in s:
    j = s.index('## 10. Build record'); s = s[:j] + s[i:]; i = s.index('## Appendix A.')
tab = subprocess.run(['python3', '/verif/lib/seedtable.py'], capture_output=True, text=True).stdout
btab = subprocess.run(['python3', '/verif/lib/benigntable.py'], capture_output=True, text=True).stdout
open('/verif/DESIGN.md', 'w').write(s[:i] + sec.replace('@@SEEDTABLE@@', tab).replace('@@BENIGNTABLE@@', btab) + '\n\n' + s[i:])
