#!/bin/bash
# seedcheck.sh <PROPERTY> <seed-dir> <name> [tier]
# Confirms a seeded change (suite passes with it, demo fails with it, demo passes without it),
# runs the property's check against a scratch copy carrying the change, and files it under /verif/seeded/<name>/.
set -u
PID=$1; SD=$2; NAME=$3; TIER=${4:-quick}
export GOFLAGS=-mod=mod GOPROXY=off
W=/tmp/seedchk-$NAME
rm -rf $W; cp -r /repo $W; rm -rf $W/.git
cd $W
demo=$(basename $(ls $SD/*_test.go | head -1))
sub=.
grep -q '^package dnsutil' $SD/$demo && sub=dnsutil
tname=$(grep -o 'func Test[A-Za-z0-9_]*' $SD/$demo | head -1 | sed 's/func //')
res=""
# clean tree: demo passes
cp $SD/$demo $sub/zz_seed_demo_test.go
go test -vet=off -count=1 -run "^${tname}\$" ./$sub >/tmp/seedchk-$NAME.clean.log 2>&1 && res="$res clean_demo=pass" || res="$res clean_demo=FAIL"
rm $sub/zz_seed_demo_test.go
# apply
if ! patch -p1 -s < $SD/patch.diff; then echo "patch does not apply"; exit 3; fi
go build ./... || { echo "does not compile"; exit 3; }
# the repository's suite has load-sensitive tests (TestTimeout, TestInProgressQueriesAtShutdown*): retry before calling it a failure
sres=FAIL
for try in 1 2 3; do
  if go test -vet=off -count=1 ./... >/tmp/seedchk-$NAME.suite.log 2>&1; then sres=pass; [ $try -gt 1 ] && sres="pass(try$try)"; break; fi
done
res="$res suite=$sres"
cp $SD/$demo $sub/zz_seed_demo_test.go
go test -vet=off -count=1 -run "^${tname}\$" ./$sub >/tmp/seedchk-$NAME.mut.log 2>&1 && res="$res mutant_demo=PASS(bad)" || res="$res mutant_demo=fail"
rm $sub/zz_seed_demo_test.go
cd /verif
VERIF_REPO=$W bin/check $PID $TIER >/tmp/seedchk-$NAME.check.log 2>&1; rc=$?
res="$res check_rc=$rc"
echo "$NAME: $res"
grep -E "^VIOLATION|^  key=" /tmp/seedchk-$NAME.check.log | head -6
mkdir -p /verif/seeded/$NAME
cp $SD/patch.diff /verif/seeded/$NAME/patch.diff
cp $SD/$demo /verif/seeded/$NAME/demo_test.go.txt
python3 - "$PID" "$NAME" "$SD" "$res" "$TIER" <<'PY'
import json,sys,os
pid,name,sd,res,tier=sys.argv[1:6]
m={}
try: m=json.load(open(os.path.join(sd,'meta.json')))
except Exception as e: m={"note":"meta.json unreadable: %s"%e}
m["property"]=pid
m["confirmed_by_coordinator"]=res.strip()
m["check_tier_run"]=tier
log=open('/tmp/seedchk-%s.check.log'%name).read()
m["check_output_tail"]=[l for l in log.splitlines() if l.startswith(('VIOLATION','  key=','KNOWN','INFRA'))][:8]
json.dump(m,open('/verif/seeded/%s/meta.json'%name,'w'),indent=1)
PY
rm -rf $W
