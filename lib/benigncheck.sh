#!/bin/bash
# benigncheck.sh <PROPERTY> <dir> <name> [tier]
# Confirms an independently written property-PRESERVING change (suite passes with it, the demonstration behaves
# differently with and without it), runs the property's check against a scratch copy carrying it (want exit 0)
# and files it under /verif/seeded-benign/<name>/.
set -u
PID=$1; SD=$2; NAME=$3; TIER=${4:-quick}
export GOFLAGS=-mod=mod GOPROXY=off
W=/tmp/bgnchk-$NAME
rm -rf $W; cp -r /repo $W; rm -rf $W/.git
cd $W
demo=$(basename $(ls $SD/*_test.go | head -1))
sub=.
grep -q '^package dnsutil' $SD/$demo && sub=dnsutil
tname=$(grep -o 'func Test[A-Za-z0-9_]*' $SD/$demo | head -1 | sed 's/func //')
res=""
cp $SD/$demo $sub/zz_seed_demo_test.go
go test -vet=off -count=1 -run "^${tname}\$" ./$sub >/tmp/bgnchk-$NAME.clean.log 2>&1 && c=pass || c=fail
rm $sub/zz_seed_demo_test.go
if ! patch -p1 -s < $SD/patch.diff; then echo "$NAME: patch does not apply"; exit 3; fi
go build ./... || { echo "$NAME: does not compile"; exit 3; }
sres=FAIL
for try in 1 2 3; do
  if go test -vet=off -count=1 ./... >/tmp/bgnchk-$NAME.suite.log 2>&1; then sres=pass; [ $try -gt 1 ] && sres="pass(try$try)"; break; fi
done
cp $SD/$demo $sub/zz_seed_demo_test.go
go test -vet=off -count=1 -run "^${tname}\$" ./$sub >/tmp/bgnchk-$NAME.mut.log 2>&1 && m=pass || m=fail
rm $sub/zz_seed_demo_test.go
res="clean_demo=$c changed_demo=$m suite=$sres"
cd /verif
VERIF_REPO=$W bin/check $PID $TIER >/tmp/bgnchk-$NAME.check.log 2>&1; rc=$?
res="$res check_rc=$rc"
echo "$NAME: $res"
grep -E "^VIOLATION|^  key=|^INFRA" /tmp/bgnchk-$NAME.check.log | head -8
mkdir -p /verif/seeded-benign/$NAME
cp $SD/patch.diff /verif/seeded-benign/$NAME/patch.diff
cp $SD/$demo /verif/seeded-benign/$NAME/demo_test.go.txt
python3 - "$PID" "$NAME" "$SD" "$res" "$TIER" <<'PY'
import json,sys,os
pid,name,sd,res,tier=sys.argv[1:6]
m={}
try: m=json.load(open(os.path.join(sd,'meta.json')))
except Exception as e: m={"note":"meta.json unreadable: %s"%e}
m["property"]=pid
m["kind"]="property-preserving"
m["confirmed_by_coordinator"]=res.strip()
m["check_tier_run"]=tier
log=open('/tmp/bgnchk-%s.check.log'%name).read()
m["check_output_tail"]=[l for l in log.splitlines() if l.startswith(('VIOLATION','  key=','INFRA'))][:8]
json.dump(m,open('/verif/seeded-benign/%s/meta.json'%name,'w'),indent=1)
PY
[ "${KEEP_W:-}" = 1 ] || rm -rf $W
