#!/usr/bin/env python3
"""Prints a markdown table of /verif/seeded/*: change, what it needs, whether the check caught it (at filing time)."""
import json, glob, os, re
rows = []
for d in sorted(glob.glob('/verif/seeded/*')):
    try:
        m = json.load(open(os.path.join(d, 'meta.json')))
    except Exception:
        continue
    conf = m.get('confirmed_by_coordinator', '')
    rc = re.search(r'check_rc=(\d+)', conf)
    keys = [re.sub(r'^\s*key=', '', l).split(' : ')[0] for l in m.get('check_output_tail', []) if 'key=' in l]
    status = m.get('status_note') or ('caught: ' + ', '.join(sorted(set(keys))[:3]) if rc and rc.group(1) == '1' else 'MISSED at filing time')
    rows.append('| %s | %s | %s | %s |' % (os.path.basename(d), (m.get('summary') or '')[:140].replace('|', '/'), (m.get('needs') or '')[:140].replace('|', '/'), status[:160].replace('|', '/')))
print('| Seed | Change | Needs | Result of `bin/check <ID> quick` |\n|---|---|---|---|')
print('\n'.join(rows))
