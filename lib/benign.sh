#!/bin/bash
# benign.sh <ID>: apply each checks/benign/<ID>/*.diff (property-PRESERVING changes) to a scratch copy; the check must exit 0.
PID=$1; TIER=${2:-quick}
cd /verif
for d in checks/benign/$PID/*.diff; do
  n=$(basename $d .diff); W=/tmp/ben-$PID-$n
  rm -rf $W; cp -r /repo $W; rm -rf $W/.git
  if ! (cd $W && patch -p1 -s < /verif/$d); then echo "$PID/$n: PATCH FAILED"; rm -rf $W; continue; fi
  if ! (cd $W && GOFLAGS=-mod=mod GOPROXY=off go build ./... 2>/dev/null); then echo "$PID/$n: does not compile"; rm -rf $W; continue; fi
  VERIF_REPO=$W timeout 1500 bin/check $PID $TIER > /tmp/ben-$PID-$n.log 2>&1; rc=$?
  echo "$PID/$n: rc=$rc (want 0) $(grep -E '^  key=' /tmp/ben-$PID-$n.log | sed 's/ :.*//' | tr -d ' ' | tr '\n' ' ')"
  rm -rf $W /tmp/ben-$PID-$n.log
done
