"""Shared driver library for /verif/bin/check.

One run of a check = Ctx.  The per-property drivers in checks/cNN.py use:

  ctx.build(cmd, race=False)           -> path of harness binary built against $VERIF_REPO (default /repo), -tags verif
  ctx.tlc(module, cfg=None, ...)       -> TlcResult (states, distinct, stdout, ok) ; spec-level failure => Infra (exit 2)
  ctx.tlc_vectors(module, ...)         -> (TlcResult, list of decoded vectors) ; vectors emitted by the spec with Emit(..)
  ctx.tlc_trace(module, events, ...)   -> TraceResult (accepted, hwm, bad indices, printed values)
  ctx.run(binary, args, stdin=None)    -> CompletedProcess of the harness ; crash/timeout => Infra
  ctx.candidate(key, what, case)       -> registers a discrepancy between spec and real code
  ctx.finish(...)                      -> writes evidence, prints KNOWN-FINDING / VIOLATION lines, exits 0/1

Exit codes: 0 held (or only known findings), 1 violation, 2 infrastructure problem
(never a verdict).
"""
import json, os, re, shutil, subprocess, sys, time, hashlib, glob

VERIF = os.path.dirname(os.path.dirname(os.path.abspath(__file__)))
JAR = "/opt/veriftools/tla/tla2tools.jar:/opt/veriftools/tla/CommunityModules-deps.jar"


import threading as _threading
_scratch_lock = _threading.Lock()


try:
    import ctypes as _ctypes
    _libc = _ctypes.CDLL("libc.so.6", use_errno=True)
except Exception:
    _libc = None


def _die_with_parent():
    """preexec_fn: the child gets SIGKILL when the check process dies (even by SIGKILL / OOM), so no
    TLC JVM or harness process outlives its check.  Only a pre-loaded libc call happens after fork."""
    if _libc is not None:
        _libc.prctl(1, 9)   # PR_SET_PDEATHSIG, SIGKILL


class Infra(Exception):
    """Infrastructure failure: exit 2, never a VIOLATION."""


def log(*a):
    print("[vp]", *a, file=sys.stderr, flush=True)


class TlcResult:
    def __init__(self, rc, out, wall):
        self.rc, self.out, self.wall = rc, out, wall
        m = re.findall(r"(\d+) states generated, (\d+) distinct states found", out)
        self.generated = int(m[-1][0]) if m else 0
        self.distinct = int(m[-1][1]) if m else 0
        # simulation mode prints a different summary
        m2 = re.findall(r"The number of states generated: (\d+)", out)
        if m2 and not m:
            self.generated = self.distinct = int(m2[-1])
        self.ok = (rc == 0) and ("Error:" not in out)
        self.printed = re.findall(r'^"?VP:(.*?)"?$', out, flags=re.M)

    def summary(self):
        return {"generated": self.generated, "distinct": self.distinct, "wall_s": round(self.wall, 2)}


class Ctx:
    def __init__(self, pid, tier, seed, replay=None):
        self.id, self.tier, self.seed, self.replay = pid, tier, seed, replay
        self.repo = os.environ.get("VERIF_REPO", "/repo")
        self.out = os.path.join(VERIF, "out", "%s.%s" % (pid, tier if not replay else "replay"))
        # two runs of the same check at the same time must not delete each other's scratch directory
        lock = os.path.join(self.out, ".lock")
        try:
            other = int(open(lock).read().strip())
            os.kill(other, 0)
            if other != os.getpid():
                self.out += ".%d" % os.getpid()
        except Exception:
            pass
        shutil.rmtree(self.out, ignore_errors=True)
        os.makedirs(self.out, exist_ok=True)
        open(os.path.join(self.out, ".lock"), "w").write(str(os.getpid()))
        self.t0 = time.time()
        self.cands = []          # candidate violations
        self.states = 0
        self.transitions = 0
        self.traces = 0          # vectors replayed + trace events accepted
        self.evaluations = 0
        self.nontrivial = 0
        self.samples = []
        self.assumptions = []
        self.notes = {}
        self.tlc_runs = []
        self.ntlc = 0
        self.quick = tier == "quick"
        self.ncpu = min(16, os.cpu_count() or 4)

    # ------------------------------------------------------------------ Go
    def goenv(self):
        e = dict(os.environ)
        e.update({"GOFLAGS": "-mod=mod", "GOPROXY": "off", "GONOSUMDB": "pgregory.net", "GOPRIVATE": "pgregory.net"})
        e.pop("GOTOOLCHAIN", None)   # auto toolchain switch to cached go1.25.0 is required
        e.pop("GOSUMDB", None)
        if os.path.realpath(self.repo) != "/repo" and not os.environ.get("VERIF_SHARED_GOCACHE"):
            # a scratch copy (mutant, seeded change): its build output must not pile up in the shared Go build cache
            # (85 MB per run, 39 GB after a few hundred runs); a private cache costs ~20 s and is removed at exit
            gc = os.path.join(self.out, "gocache")
            if not getattr(self, "_gocache", None):
                self._gocache = gc
                import atexit
                atexit.register(lambda: shutil.rmtree(gc, ignore_errors=True))
            e["GOCACHE"] = gc
        return e

    def build(self, cmd, race=False, tags="verif"):
        """Build harness/cmd/<cmd> against self.repo.  Returns binary path."""
        hdir = os.path.join(VERIF, "harness")
        moddir = os.path.join(self.out, "mod")
        os.makedirs(moddir, exist_ok=True)
        gomod = open(os.path.join(hdir, "go.mod.tmpl")).read().replace("@REPO@", self.repo)
        open(os.path.join(moddir, "go.mod"), "w").write(gomod)
        # go.sum: the repo's plus the harness' extra deps (rapid)
        s = open(os.path.join(self.repo, "go.sum")).read()
        extra = os.path.join(hdir, "go.sum.extra")
        if os.path.exists(extra):
            s += open(extra).read()
        open(os.path.join(moddir, "go.sum"), "w").write(s)
        binp = os.path.join(self.out, "bin", cmd + ("-race" if race else ""))
        os.makedirs(os.path.dirname(binp), exist_ok=True)
        args = ["go", "build", "-modfile=" + os.path.join(moddir, "go.mod"), "-tags", tags]
        if race:
            args.append("-race")
        args += ["-o", binp, "./cmd/" + cmd]
        t = time.time()
        p = subprocess.run(args, cwd=hdir, env=self.goenv(), capture_output=True, text=True)
        if p.returncode != 0:
            raise Infra("harness build failed (repo=%s):\n%s" % (self.repo, p.stdout + p.stderr))
        log("built %s in %.1fs" % (cmd, time.time() - t))
        return binp

    def run(self, binp, args, stdin=None, timeout=3600, env=None, ok_codes=(0,)):
        e = dict(os.environ)
        e["VERIF_SEED"] = str(self.seed)
        e["VERIF_TIER"] = self.tier
        if env:
            e.update(env)
        try:
            p = subprocess.run([binp] + args, input=stdin, capture_output=True, text=True, timeout=timeout, env=e, cwd=self.out,
                               preexec_fn=_die_with_parent)
        except subprocess.TimeoutExpired:
            raise Infra("harness %s %s timed out after %ds" % (binp, args, timeout))
        if p.returncode not in ok_codes:
            raise Infra("harness %s %s exited %d:\n%s" % (os.path.basename(binp), args, p.returncode, (p.stdout[-2000:] + p.stderr[-4000:])))
        return p

    def run_json(self, binp, args, **kw):
        """Run harness; stdout's last line must be a JSON object (the result summary)."""
        p = self.run(binp, args, **kw)
        if p.stderr.strip():
            for ln in p.stderr.strip().splitlines()[-5:]:
                log("harness:", ln)
        try:
            return json.loads(p.stdout.strip().splitlines()[-1])
        except Exception as ex:
            raise Infra("harness %s produced no JSON summary: %s\n%s" % (binp, ex, p.stdout[-2000:]))

    # ------------------------------------------------------------------ TLC
    def _scratch(self, name):
        with _scratch_lock:
            self.ntlc += 1
            n = self.ntlc
        d = os.path.join(self.out, "tlc", "%02d-%s" % (n, name))
        os.makedirs(d)
        for f in glob.glob(os.path.join(VERIF, "spec", "*.tla")) + glob.glob(os.path.join(VERIF, "spec", "*.cfg")):
            shutil.copy(f, d)
        return d

    def tlc(self, module, cfg=None, workers=None, timeout=1800, simulate=None, depth=None, files=None,
            consts=None, xmx="6g", must_pass=True, extra=None, dfs=False, keep=False, count=True):
        """Run TLC on spec/<module>.tla with spec/<cfg or module>.cfg in a scratch copy.

        consts: dict of CONSTANT overrides appended to the cfg (name -> TLA+ expression text).
        files:  dict name -> text written into the scratch dir before the run (trace files, inputs).
        must_pass: a spec-level error (invariant violated on the model alone, parse error,
                   timeout) raises Infra -- it is a bug in the spec, never a verdict about the code.
        """
        d = self._scratch(module)
        cfgname = (cfg or module) + ".cfg"
        if consts:
            with open(os.path.join(d, cfgname), "a") as f:
                f.write("\nCONSTANTS\n")
                for k, v in consts.items():
                    f.write("  %s = %s\n" % (k, v))
        for k, v in (files or {}).items():
            open(os.path.join(d, k), "w").write(v)
        w = workers or self.ncpu
        args = ["java", "-Xmx" + xmx, "-Xss512m", "-XX:+UseParallelGC"]
        if dfs:
            args.append("-Dtlc2.tool.queue.IStateQueue=StateDeque")
        args += ["-cp", JAR, "tlc2.TLC", "-workers", str(w), "-metadir", os.path.join(d, "meta"),
                 "-config", cfgname, "-noGenerateSpecTE"]
        if simulate:
            args += ["-simulate", simulate]
            if depth:
                args += ["-depth", str(depth)]
            args += ["-seed", str(self.seed)]
        args += extra or []
        cov_audit = bool(os.environ.get("VERIF_COVERAGE")) and module.startswith("MC_") and not simulate
        if cov_audit:       # vacuity audit (lib/coverage_audit.sh): which actions does the bounded model never take?
            args += ["-coverage", "1"]
        args.append(module + ".tla")
        slot = _jvm_slot()      # machine-wide bound on concurrent JVMs (several checks running at once must not exhaust memory)
        t = time.time()
        try:
            p = subprocess.run(args, cwd=d, capture_output=True, text=True, timeout=timeout, preexec_fn=_die_with_parent)
            rc, out = p.returncode, p.stdout + p.stderr
        except subprocess.TimeoutExpired as ex:
            if simulate:   # simulation under an outer timeout is the documented way to bound it
                rc, out = 0, (ex.stdout or b"").decode() if isinstance(ex.stdout, bytes) else (ex.stdout or "")
            else:
                raise Infra("TLC %s timed out after %ds" % (module, timeout))
        finally:
            slot.close()
        r = TlcResult(rc, out, time.time() - t)
        r.dir = d
        open(os.path.join(d, "tlc.out"), "w").write(out)
        self.tlc_runs.append({"module": module, "cfg": cfgname, **r.summary(), "rc": rc})
        if count:
            self.states += r.distinct
            self.transitions += r.generated
        log("TLC %s/%s: %d generated, %d distinct, rc=%d, %.1fs" % (module, cfgname, r.generated, r.distinct, rc, r.wall))
        if cov_audit:
            acts = re.findall(r"^<(\w+) line (\d+), col \d+ to line \d+, col \d+ of module (\w+)(?: \((\d+) \d+ \d+ \d+\))?>: (\d+):(\d+)$", out, re.M)
            never = ["%s@%s:%s" % (a, m, l2 or l1) for a, l1, m, l2, d, t in acts if t == "0" and a != "Init"]
            with open(os.path.join(VERIF, "out", "coverage-audit.txt"), "a") as f:
                f.write("%s %s %s consts=%s ok=%s generated=%d distinct=%d actions=%d never-taken=%s\n" % (
                    self.id, module, cfgname, json.dumps(consts or {}, sort_keys=True), r.ok, r.generated, r.distinct, len(acts), ",".join(never) or "-"))
        if must_pass and not r.ok:
            raise Infra("TLC reported a spec-level error in %s (%s):\n%s" % (module, cfgname, _tail_err(out)))
        if not keep:
            shutil.rmtree(os.path.join(d, "meta"), ignore_errors=True)
        return r

    def tlc_vectors(self, module, outfile="vectors.ndjson", **kw):
        """Run a Gen_* spec that appends vectors via Emit (CSVWrite of ToJson) and return them decoded."""
        r = self.tlc(module, **kw)
        vecs = read_emitted(os.path.join(r.dir, outfile))
        return r, vecs

    def tlc_trace(self, module, events, cfg=None, timeout=1800, consts=None, xmx="6g", dfs=False, fname="trace.ndjson"):
        """Validate recorded events (list of dicts, or path to ndjson) with a Trace_* spec.

        Conventions of Trace specs (spec/TraceBase.tla): they print
          VP:hwm=<n>         highest trace index consumed
          VP:bad=<json list> indices (1-based) of events the spec judged wrong (pure-function events)
        and the POSTCONDITION holds iff the whole trace was consumed.
        """
        if isinstance(events, str):
            text = open(events).read()
            n = text.count("\n")
        else:
            text = "".join(json.dumps(e, separators=(",", ":")) + "\n" for e in events)
            n = len(events)
        r = self.tlc(module, cfg=cfg, workers=1, timeout=timeout, files={fname: text}, consts=consts,
                     xmx=xmx, must_pass=False, dfs=dfs)
        tr = TraceResult(r, n)
        if tr.infra:
            raise Infra("trace validation of %s did not run to a verdict:\n%s" % (module, _tail_err(r.out)))
        return tr

    # ------------------------------------------------------------------ findings
    def candidate(self, key, what, case):
        """A discrepancy between the spec and the observed real-code behaviour."""
        self.cands.append({"key": key, "what": what, "case": case})

    def add_samples(self, xs, limit=6):
        for x in xs:
            if len(self.samples) < limit:
                self.samples.append(x)

    def finish(self, level="model_checking", rule="", extra_cov=None, confirm=None):
        known = load_known()
        viol = 0
        seen_known = {}
        reported = set()
        for c in self.cands:
            k = c["key"]
            if (self.id, k) in known:
                seen_known.setdefault(k, c)
                continue
            if k in reported:
                continue
            if confirm is not None:
                ok = confirm(c)
                if ok is None:
                    raise Infra("candidate %s could not be re-executed" % k)
                if not ok:
                    raise Infra("candidate %s did not reproduce against the real code; not a verdict" % k)
            reported.add(k)
            viol += 1
            path = os.path.join(self.out, "replay-%s.json" % re.sub(r"[^A-Za-z0-9_.-]+", "_", k)[:80])
            json.dump({"property": self.id, "key": k, "what": c["what"], "case": c["case"], "seed": self.seed, "tier": self.tier},
                      open(path, "w"), indent=1)
            print("VIOLATION property=%s replay=%s" % (self.id, path))
            print("  key=%s : %s" % (k, c["what"]))
        for k, c in seen_known.items():
            print("KNOWN-FINDING: property=%s %s : %s" % (self.id, k, known[(self.id, k)]))
        cov = {
            "states": max(self.states, 0),
            "transitions": max(self.transitions, 0),
            "traces_validated_against_impl": self.traces,
            "evaluations": self.evaluations,
            "distinct_nontrivial": self.nontrivial,
            "rule": rule,
            "samples": self.samples[:8] or ["(none)"],
            "tlc_runs": self.tlc_runs,
            "known_findings_seen": sorted(seen_known.keys()),
            "exhaustive": False,
        }
        cov.update(self.notes)
        if extra_cov:
            cov.update(extra_cov)
        ev = {
            "property_id": self.id, "tier": self.tier, "seed": self.seed, "level": level,
            "coverage": cov, "assumptions": self.assumptions, "wall_s": round(time.time() - self.t0, 2),
            "violations": viol,
        }
        if (not self.replay and self.repo == "/repo") or os.environ.get("VERIF_EVIDENCE"):
            os.makedirs(os.path.join(VERIF, "evidence"), exist_ok=True)
            tmp = os.path.join(VERIF, "evidence", ".%s.json.tmp" % self.id)
            json.dump(ev, open(tmp, "w"), indent=1)
            os.replace(tmp, os.path.join(VERIF, "evidence", "%s.json" % self.id))
        if not viol and not os.environ.get("VERIF_KEEP"):
            # scratch data (vectors, traces, TLC copies) can reach gigabytes per run: keep it only when something was found
            for name in os.listdir(self.out):
                if name.startswith("replay-") or name == ".lock":
                    continue
                pth = os.path.join(self.out, name)
                if os.path.isdir(pth):
                    shutil.rmtree(pth, ignore_errors=True)
                else:
                    try:
                        os.remove(pth)
                    except OSError:
                        pass
        log("%s %s: states=%d transitions=%d traces=%d evaluations=%d violations=%d known=%d wall=%.1fs" % (
            self.id, self.tier, self.states, self.transitions, self.traces, self.evaluations, viol, len(seen_known), time.time() - self.t0))
        return 1 if viol else 0


class TraceResult:
    def __init__(self, r, n):
        self.r, self.n = r, n
        self.hwm = None
        self.bad = []
        self.vals = {}
        for ln in r.printed:
            ln = ln.replace('\\"', '"')
            if "=" in ln:
                k, v = ln.split("=", 1)
                self.vals[k] = v
        if "hwm" in self.vals:
            self.hwm = int(self.vals["hwm"])
        if "bad" in self.vals:
            try:
                self.bad = json.loads(self.vals["bad"])
            except Exception:
                self.bad = None
        post_fail = "Post-condition" in r.out or "POSTCONDITION" in r.out or "postcondition" in r.out.lower()
        self.accepted = r.rc == 0 and "Error:" not in r.out
        # a verdict needs the high-water mark; everything else is infrastructure
        self.infra = self.hwm is None or self.bad is None or (not self.accepted and not post_fail)
        self.rejected_at = None if self.accepted else (self.hwm + 1 if self.hwm is not None else None)


def _tail_err(out):
    i = out.find("Error:")
    return out[i:i + 3000] if i >= 0 else out[-3000:]


def read_emitted(path):
    """Lines written by Emit(): a TLA+ string literal holding JSON (so JSON inside a JSON string)."""
    vecs = []
    if not os.path.exists(path):
        return vecs
    with open(path) as f:
        for ln in f:
            ln = ln.strip()
            if not ln:
                continue
            v = json.loads(ln)
            if isinstance(v, str):
                v = json.loads(v)
            vecs.append(v)
    return vecs


def _jvm_slot():
    """Take one of VERIF_JVM_SLOTS (default 24) lock files under out/.slots; blocks until one is free.
    The lock is released when the returned file is closed (or the process dies)."""
    import fcntl
    d = os.path.join(VERIF, "out", ".slots")
    os.makedirs(d, exist_ok=True)
    k = max(1, int(os.environ.get("VERIF_JVM_SLOTS", "24") or "24"))
    start = (os.getpid() * 7 + int(time.time() * 1000)) % k
    while True:
        for i in range(k):
            f = open(os.path.join(d, str((start + i) % k)), "w")
            try:
                fcntl.flock(f, fcntl.LOCK_EX | fcntl.LOCK_NB)
                return f
            except OSError:
                f.close()
        time.sleep(0.3)


def load_known():
    """known-findings.txt: 'known: property=C05 key=<key> <text>'; 'fixed:' lines suppress nothing."""
    known = {}
    paths = [os.path.join(VERIF, "known-findings.txt")] + sorted(glob.glob(os.path.join(VERIF, "known-findings.d", "*.txt")))
    for p in paths:
        if not os.path.exists(p):
            continue
        for ln in open(p):
            m = re.match(r"known:\s+property=(\S+)\s+key=(\S+)\s*(.*)", ln.strip())
            if m:
                known[(m.group(1), m.group(2))] = m.group(3)
    return known


def write_ndjson(path, rows):
    with open(path, "w") as f:
        for r in rows:
            f.write(json.dumps(r, separators=(",", ":")) + "\n")


def read_ndjson(path):
    return [json.loads(l) for l in open(path) if l.strip()]


def shard(ctx, n):
    return list(range(n))


# ---------------------------------------------------------------------- helpers shared by the drivers
import threading
from concurrent.futures import ThreadPoolExecutor

_lock = threading.Lock()


def parallel(fns, maxpar=16):
    """Run callables concurrently (they spawn subprocesses); re-raise the first exception."""
    with ThreadPoolExecutor(max_workers=maxpar) as ex:
        futs = [ex.submit(f) for f in fns]
        return [f.result() for f in futs]


def absorb(ctx, summ, traces=True):
    """Fold a harness Summary into the run: counts, samples, candidate violations."""
    with _lock:
        ctx.evaluations += summ.get("evaluations", 0)
        ctx.nontrivial += summ.get("distinct_nontrivial", 0)
        if traces:
            ctx.traces += summ.get("evaluations", 0)
        ctx.add_samples(summ.get("samples", []))
        for m in summ.get("mismatches", []):
            ctx.candidate(m["key"], m["what"], m["case"])
        for k, v in (summ.get("notes") or {}).items():
            if k == "mismatch_counts":
                d = ctx.notes.setdefault("mismatch_counts", {})
                for kk, vv in v.items():
                    d[kk] = d.get(kk, 0) + vv
            else:
                ctx.notes[k] = v


def absorb_trace(ctx, tr, events, keyfn, what="recorded event rejected by the specification"):
    """Fold a trace validation result: accepted events count as validated traces, bad ones become candidates."""
    with _lock:
        bad = set(tr.bad or [])
        ctx.traces += max(0, (tr.hwm or 0) - len(bad))
        for i in sorted(bad):
            e = events[i - 1]
            ctx.candidate(keyfn(e), what, {"event": e})
        if not tr.accepted and tr.rejected_at is not None and tr.rejected_at <= len(events) and tr.rejected_at not in bad:
            e = events[tr.rejected_at - 1]
            ctx.candidate(keyfn(e), what + " (trace stuck at line %d)" % tr.rejected_at, {"event": e, "line": tr.rejected_at})
