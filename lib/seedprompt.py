#!/usr/bin/env python3
"""Prints the prompt given to an independent sub-agent that seeds a property-breaking change.
Usage: seedprompt.py <ID> <worktree> [n]"""
import json, sys
pid, wt = sys.argv[1], sys.argv[2]
n = sys.argv[3] if len(sys.argv) > 3 else "3"
first = int(sys.argv[4]) if len(sys.argv) > 4 else 1      # number of the first change of this round
import glob, os
prev = []
for d in sorted(glob.glob('/verif/seeded/%s-*' % pid)):
    try:
        prev.append(json.load(open(os.path.join(d, 'meta.json'))).get('summary', '')[:300])
    except Exception:
        pass
p = [json.loads(l) for l in open('/verif/properties.jsonl') if json.loads(l)['id'] == pid][0]
last = first + int(n) - 1
AVOID = ""
if first > 1 and prev:
    AVOID = "Earlier rounds already produced the changes summarised below - yours must be DIFFERENT in mechanism (other functions, other clauses of the property, other kinds of trigger), not variations of them:\n" + "\n".join("  - " + x for x in prev) + "\n\n"
print(f"""You are testing how well a Go library's test suite protects one of its semantic properties. The library is miekg/dns (a DNS library). You have your own scratch git worktree of it at {wt} — work ONLY there (do not touch /repo or /verif, do not read /verif).

The property (call it {pid}): "{p['title']}"

Statement: {p['statement']}

It is quantified over: {p['quantifier']['text']}

Relevant files: {', '.join(p['anchors']['files'])}

YOUR TASK: produce {n} DIFFERENT, independent, realistic changes to the library's non-test source code, each of which BREAKS this property while the package still compiles and the ENTIRE existing test suite still passes (`cd {wt} && GOFLAGS=-mod=mod GOPROXY=off go test -vet=off -count=1 ./...` — never set GOTOOLCHAIN or GOSUMDB; the sandbox is offline). Each change should look like a plausible refactoring slip or "optimisation" a maintainer could make, and should need something SPECIFIC to manifest — an unusual input, a boundary value, a multi-step sequence of operations, a particular interleaving or fault position, or two cooperating sites that each look fine alone — NOT something ordinary use would expose at once. Prefer subtle breaks in different mechanisms/files over several variants of one.

{AVOID}For each change i = {first}..{last} deliver, under /tmp/seed-out-{pid}/<i>/ (create the directory; it is outside the worktree):
  - patch.diff : `git diff` of the change against the pinned HEAD (source files only, no test files), applying cleanly with `git apply` on a clean checkout
  - demo_test.go : a Go test in package dns (or dns_test) that FAILS with the change applied and PASSES on the clean checkout; it must be deterministic. (It is kept outside the repo; to run it copy it into the worktree temporarily.)
  - meta.json : {{"property": "{pid}", "summary": "<one line>", "needs": "<what specific input/sequence/schedule is needed for it to manifest>", "files": [...], "ran": ["<commands you ran and their outcome>"]}}

PROCEDURE for each change: make the edit in the worktree; run the full suite (must pass); copy in demo_test.go and run `go test -vet=off -count=1 -run <YourTestName> .` (must FAIL); save patch.diff (excluding the demo test); `git checkout -- . && git clean -fd` in the worktree; copy demo_test.go in again and run it (must PASS on the clean tree); remove it. Only keep changes for which you observed all three outcomes yourself. Leave the worktree clean at the end. Never use `git stash` (the stash is shared by all worktrees of the repository and other people work in theirs at the same time): save a change with `git diff > file` and undo it with `git checkout -- .`.

Final answer: for each kept change, the one-line summary, what it needs to manifest, and the three observed outcomes.""")
