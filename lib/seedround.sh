#!/bin/bash
# seedround.sh <first> <ID>... : create a scratch worktree /tmp/seed-<id> per property and write the agent prompt to /tmp/seedprompt-<id>.txt
first=$1; shift
for P in "$@"; do
  p=$(echo $P | tr A-Z a-z); W=/tmp/seed-$p
  git -C /repo worktree remove --force $W 2>/dev/null; rm -rf $W /tmp/seed-out-$P
  git -C /repo worktree add -q --detach $W HEAD || exit 1
  python3 /verif/lib/seedprompt.py $P $W 3 $first > /tmp/seedprompt-$p.txt
  python3 -c "import json;print('\n\n'+json.load(open('/verif/lib/seednotes.json'))['$P'])" >> /tmp/seedprompt-$p.txt
done
git -C /repo worktree list | wc -l
