"""X14 (extra)  The OUTGOING side of zone transfers: Transfer.Out(w, q, ch) as a state machine.       spec/XfrOut.tla

One action per envelope taken from the channel (build the reply, sign it in the RFC 8945 5.3.1 chain, one Write), channel
close, an envelope that carries Error, a message that does not fit a frame, a transport that refuses a write, a producer
that leaves without closing.  (C15 binds Transfer.In and, in its "TV out" stage, the answer sections and the MAC chain of
clean outgoing transfers; this module is about the life cycle of the call.)

MC      MC_XfrOut: producer (put / close / leave), fault position and AMBIG outcomes nondeterministic, toy messages
        signed with Tsig!MacModel; 334 k states (3 envelopes; quick: 2): OneFramePerEnvelope (ID, QR, AA, RCODE, counts,
        records in order, length prefix), ChainVerifies (an independent Tsig!VerifyEnv receiver walks the frames from
        Session(request MAC); nothing signed for unsigned / unverified requests), TimersFromSecond, NilOnlyWhenDrained,
        ErrorIsFirstAndLast, NothingAfterReturn, WaitsWhileOpen, Abandoned, Broken
GEN     Gen_XfrOut: every sequence of <= 2 (quick; thorough 3) envelopes over 7 kinds (1 / 2 / 3 records, empty, Error,
        Error + record, too big) x request {unsigned, signed, signed with the wrong secret, signed but the server has no
        secrets} x producer {closes, leaves} x transport refusing its k-th write, (+ <= 3 envelopes for signed requests
        in quick) -> harness `xfrout run`: a fresh dns.Server per script on harness/lib/obsnet, handler = producer +
        Transfer.Out.  Outcome (messages on the wire, nil / error / never returns, envelopes that could not be handed
        over) must be one the specification admits.  Producer and Out are serialised WITHOUT clocks: after each
        hand-over the producer waits until Out's goroutine is parked in the channel receive (runtime.Stack) or returned;
        "never returns" = parked in the receive with the channel open.
TV      the events of those runs and of `xfrout record` (random scripts: <= 6 envelopes of <= 12 records, opcodes 0 / 4) -> Trace_XfrOut: every frame = length prefix + exactly the reply the envelope calls for (request ID, QR,
        opcode, RD / CD copied for QUERY, AA, RCODE 0, first question, the records' own octets in order); TSIG variables
        (key, algorithm, fudge, original ID, time inside the window); event order (no frame after an error, return only
        after close).  For every signed frame the specification writes the RFC 8945 4.3 digest input (request MAC + full
        variables first, previous MAC + timers only later) and `xfrout judge` applies crypto/hmac.

Finding on the unchanged tree (known-findings.d/X14.txt): a server WITHOUT TsigSecret answering a TSIG-signed request
through Transfer.Out puts a TSIG record with an EMPTY MAC on every envelope.

Mutants (checks/mutants/X14), all exit 1:
  no-aa                  Authoritative not set                                  TV xfrout/trace:frame:*
  timers-not-set         w.TsigTimersOnly(true) dropped                         judge xfrout/mac:later
  timers-from-first      timers only already on the first envelope              judge xfrout/mac:first
  ignore-write-error     a failed WriteMsg does not end Out                     GEN xfrout/outcome:*:ret=nil|... , TV
  return-after-first     Out returns after one envelope                         GEN xfrout/outcome (ret=nil, undelivered), TV
  drain-on-error         Out drains the channel after an error                  GEN xfrout/outcome (undelivered differs)
  records-reversed       answer section in reverse order                        TV xfrout/trace:frame:*
  sign-unverified        signs although TsigStatus() is an error                TV xfrout/trace:frame:bad
  error-envelope-stops-silently  an envelope with Error ends Out with nil       GEN xfrout/outcome:*:ret=nil
  id-zero                replies carry ID 0                                     TV xfrout/trace:frame:*
"""
import os, json
import vp


def keyfn(e):
    return "xfrout/trace:" + e["ev"] + ":" + e.get("cls", "?")


def judge_trace(ctx, binp, events_path):
    tr = ctx.tlc_trace("Trace_XfrOut", events_path, xmx="3g", timeout=3000)
    evs = vp.read_ndjson(events_path)
    vp.absorb_trace(ctx, tr, evs, keyfn)
    side = os.path.join(tr.r.dir, "vectors.ndjson")
    if os.path.exists(side):
        vp.absorb(ctx, ctx.run_json(binp, ["judge", events_path, side]))
    elif any(e["ev"] == "frame" and e.get("cls") == "good" for e in evs) and not tr.bad:
        raise vp.Infra("Trace_XfrOut wrote no digest inputs although signed frames were recorded and accepted")


def gen(ctx, binp, mode, n, nshards, sh):
    def one():
        r, _ = ctx.tlc_vectors("Gen_XfrOut", workers=1, xmx="2g", timeout=1800,
                               consts={"Mode": '"%s"' % mode, "N": n, "Shard": sh, "NShards": nshards})
        path = os.path.join(r.dir, "vectors.ndjson")
        if not os.path.exists(path):
            raise vp.Infra("Gen_XfrOut produced no scripts")
        out = os.path.join(ctx.out, "events-%s-%d-%d.ndjson" % (mode, n, sh))
        vp.absorb(ctx, ctx.run_json(binp, ["run", path, out], env={"VERIF_SEED": str(ctx.seed * 100 + sh)}))
        judge_trace(ctx, binp, out)
    return one


def tv(ctx, binp, n, k):
    def one():
        out = os.path.join(ctx.out, "trace-%d.ndjson" % k)
        vp.absorb(ctx, ctx.run_json(binp, ["record", out, str(n)], env={"VERIF_SEED": str(ctx.seed * 1000 + k)}), traces=False)
        judge_trace(ctx, binp, out)
    return one


def run(ctx):
    binp = ctx.build("xfrout")
    if ctx.quick:
        ctx.tlc("MC_XfrOut", consts={"MaxEnv": 2}, workers=4, xmx="3g", timeout=900)
        jobs = [gen(ctx, binp, "all", 2, 1, 0), gen(ctx, binp, "good", 3, 1, 0), tv(ctx, binp, 400, 0)]
    else:
        ctx.tlc("MC_XfrOut", workers=4, xmx="4g", timeout=1800)
        jobs = [gen(ctx, binp, "all", 3, 4, sh) for sh in range(4)] + [tv(ctx, binp, 1500, k) for k in range(2)]
    vp.parallel(jobs, maxpar=4)
    ctx.assumptions += [
        "AMBIG: Envelope.Error on the sending side (documented for the receiving side only): ignoring it or ending with an error are admitted",
        "AMBIG: a request whose TSIG did not verify or was never checked: unsigned messages or a refusal are admitted (Out leaves the BADSIG/BADKEY answer to its caller); a TSIG record that does not verify is not",
        "the sequence of records is the caller's business (\"The server is responsible for sending the correct sequence of RRs\"): not judged",
        "the transport fault is a Write that fails outright (nothing of the frame reaches the wire); partial writes are C12's",
        "'never returns' is observed as: Out's goroutine parked in the channel receive of Transfer.Out while the channel is open",
    ]
    return ctx.finish(rule="scripts: every sequence of <= 2 (quick) / 3 envelopes over 7 kinds x 4 request signings x close/leave x fault position "
                      "(quick: + <= 3 envelopes for signed requests); random scripts; every frame's octets and MAC judged. distinct = scripts")


def replay(ctx, path):
    binp = ctx.build("xfrout")
    rp = json.load(open(path))
    case = rp["case"]
    out = os.path.join(ctx.out, "events.ndjson")
    if "event" in case or "first" in case:
        # an event of a recorded run: re-record with the seed and ask again
        n = "400" if ctx.quick else "1500"
        ctx.run_json(binp, ["record", out, n], env={"VERIF_SEED": str(rp.get("seed", 1) * 1000)})
    else:
        p = os.path.join(ctx.out, "one.ndjson")
        vp.write_ndjson(p, [case])
        s = ctx.run_json(binp, ["run", p, out])
        if any(m["key"] == rp["key"] for m in s["mismatches"]):
            print("VIOLATION property=%s replay=%s" % (ctx.id, path))
            return 1
    n0 = len(ctx.cands)
    judge_trace(ctx, binp, out)
    if any(c["key"] == rp["key"] for c in ctx.cands[n0:]):
        print("VIOLATION property=%s replay=%s" % (ctx.id, path))
        return 1
    print("replay: discrepancy no longer present")
    return 0
