"""C09  Truncate makes a reply fit, keeps section prefixes and OPT, sets TC correctly.

MC      MC_Truncate: abstract algorithm (records whose length depends on names already seen) satisfies the
        relation TruncOK for every small message x size, and TruncOK pins the result down (Unique);
        four broken algorithm variants MUST violate it (non-vacuity; "optover" = the OPT measured one octet
        too long).
GEN     Gen_Truncate enumerates (reply shape, size selector) cases; harness `truncate exec` builds each reply,
        resolves the selector with the real Pack (exact packed length of each prefix -1/0/+1, ...), runs the
        real Truncate and records facts.
GEN-OPTS  Gen_Truncate in mode "opts" (gen_opts): the OPT record is drawn from the universe of EDNS0 options the
        library has - client subnet of every family x source netmask {0,1,7,8,9,15,16,17,20,24,25,31,32 /
        0,1,8,48,56,63,64,65,120,127,128} and family 0, NSID, COOKIE, UL (with/without key lease), LLQ, DAU/DHU/N3U,
        EXPIRE (set/empty), TCP keep-alive (zero timeout packs nothing), PADDING, EDE, ESU, LOCAL, REPORTING,
        ZONEVERSION with boundary parameters; alone, before and after a neighbour, three in one OPT (253 option
        lists) - i.e. options whose packed length is not a fixed function of the struct's field lengths, while
        Truncate reserves room for the OPT with Len().  Every option list x every size selector (packed length of
        every prefix -1/0/+1, uncompressed length -1/0/+1, 512) runs on the shard's share of reply bodies; the
        oracle is the same TruncOK (fitskeeps / greedy / fitsafter) judged by TLC.  Catches seed C09-20
        (OPT.len counts the full address of a client subnet: key truncate/fitskeeps:plain:OPT(SUBNET)) and mutant
        optexpire.diff.  A finding caused by the OPT is keyed by the option kinds whose Len() exceeds what Pack
        writes (harness overCause/overOptions), so it is not hidden behind the known NSEC3 / escapes keys.
TV      Trace_Truncate judges every fact line with TruncOK (also for `truncate record`: random replies of
        ~23 RR types with escapes, bitmaps, up to 100 records, random/boundary sizes; half of the OPTs carry one
        to three random options of the same option universe, e.g. every source netmask 0..32 / 0..128).
Mutants (checks/mutants/C09): ge.diff (l >= size) GEN; noopt.diff (OPT length not subtracted) GEN;
        tcanswer.diff (TC only when Answer is cut) GEN+TV; nofloor.diff (512 floor removed) GEN;
        laterkept.diff (later section walked after a cut) GEN+TV; optexpire.diff (OPT.len counts 4 value octets for
        the empty EXPIRE option) GEN-OPTS (+TV by chance).
"""
import os, json
import vp


def key_of(e, clause):
    cls = "escapes" if e.get("esc") else ("plain" if e.get("plain") else "noescape-othertypes")
    if clause in ("fitskeeps", "greedy") and cls != "escapes" and e.get("over"):
        # a fitting reply (greedy: a fitting record) was cut because Len() over-estimates: keep distinct causes apart
        # (types whose Len() is off > victim; for an OPT the option kinds, e.g. OPT(SUBNET))
        return "truncate/%s:%s:%s" % (clause, cls, e["over"])
    return "truncate/%s:%s" % (clause, cls)


def judge(ctx, path, label):
    tr = ctx.tlc_trace("Trace_Truncate", path, xmx="3g", timeout=3000)
    nlines = sum(1 for _ in open(path))
    if tr.hwm != nlines:
        raise vp.Infra("Trace_Truncate consumed %s of %d fact lines" % (tr.hwm, nlines))
    bad = tr.bad or []
    want = {i for i, _ in bad}
    evs = {}
    if want:      # only the judged-bad lines are loaded (thorough shards hold > 10^5 lines)
        for n, ln in enumerate(open(path), 1):
            if n in want:
                evs[n - 1] = json.loads(ln)
    with vp._lock:
        ctx.traces += nlines - len(bad)
        for i, clauses in bad:
            e = evs[i - 1]
            small = {k: v for k, v in e.items()}
            for c in clauses:
                ctx.candidate(key_of(e, c), "Truncate(%d): clause '%s' of TruncOK fails: %s" % (
                    e["size"], c, {k: v for k, v in e.items() if k != "wire"}), small)


def gen(ctx, binp, nshards, shards, more=()):
    def one(sh):
        r, vecs = ctx.tlc_vectors("Gen_Truncate", workers=1, xmx="3g", timeout=3000,
                                  consts={"MaxAn": 2, "MaxNs": 1, "MaxAr": 2, "Shard": sh, "NShards": nshards})
        facts = os.path.join(r.dir, "facts.ndjson")
        s = ctx.run_json(binp, ["exec", os.path.join(r.dir, "vectors.ndjson"), facts])
        vp.absorb(ctx, s, traces=False)
        judge(ctx, facts, "gen")
    vp.parallel(list(more) + [lambda sh=sh: one(sh) for sh in shards], maxpar=8)


K1, INNER_O = 43, 2304      # Gen_Truncate: K1, and the range of InnerO (one section/position/flags combination per residue)


def gen_opts(ctx, binp, k2, shards):
    """Mode "opts" of Gen_Truncate: every option list x every size selector on the shard's share of reply bodies."""
    def one(sh):
        for attempt in range(8):    # a share without any reply body (not seen so far) says nothing: take the next one
            r, vecs = ctx.tlc_vectors("Gen_Truncate", workers=1, xmx="3g", timeout=3000,
                                      consts={"MaxAn": 2, "MaxNs": 1, "MaxAr": 2, "Shard": (sh + attempt) % (K1 * k2),
                                              "NShards": K1 * k2, "Mode": '"opts"'})
            if r.distinct > 0:
                break
        else:
            raise vp.Infra("Gen_Truncate mode opts: eight consecutive empty shards")
        facts = os.path.join(r.dir, "facts.ndjson")
        s = ctx.run_json(binp, ["exec", os.path.join(r.dir, "vectors.ndjson"), facts])
        if s.get("evaluations", 0) != r.distinct:
            raise vp.Infra("truncate exec ran %s of %d option cases" % (s.get("evaluations"), r.distinct))
        vp.absorb(ctx, s, traces=False)
        judge(ctx, facts, "gen-opts")
    return [lambda sh=sh: one(sh) for sh in shards]


def rec(ctx, binp, n, nproc):
    def one(k):
        facts = os.path.join(ctx.out, "facts-rec-%d.ndjson" % k)
        s = ctx.run_json(binp, ["record", facts, str(n)], env={"VERIF_SEED": str(ctx.seed * 1000 + k)})
        vp.absorb(ctx, s, traces=False)
        judge(ctx, facts, "rec")
    vp.parallel([lambda k=k: one(k) for k in range(nproc)], maxpar=8)


def mc(ctx, full):
    c = {} if not full else {"MaxNs": 2, "MaxAr": 2}
    ctx.tlc("MC_Truncate", consts=c or None, timeout=3000)
    for variant in ("ge", "noopt", "optover", "tcanswer"):
        r = ctx.tlc("MC_Truncate", consts={"Variant": '"%s"' % variant}, must_pass=False, count=False, workers=4)
        if r.ok or "Invariant Holds is violated" not in r.out:
            raise vp.Infra("broken variant %s of the truncation algorithm satisfies TruncOK: the relation is vacuous" % variant)


def run(ctx):
    binp = ctx.build("truncate")
    if ctx.quick:
        mc(ctx, False)
        gen(ctx, binp, 817, [(ctx.seed * 7) % 817, (ctx.seed * 7 + 77) % 817, (ctx.seed * 7 + 401) % 817],   # 817 = 43 * 19
            more=gen_opts(ctx, binp, INNER_O, [(ctx.seed * 7919) % (K1 * INNER_O)]))
        rec(ctx, binp, 5000, 4)
    else:
        mc(ctx, True)
        gen(ctx, binp, 301, [(ctx.seed + 19 * k) % 301 for k in range(16)],   # 301 = 43 * 7
            more=gen_opts(ctx, binp, INNER_O // 8, [(ctx.seed * 7919 + 4099 * k) % (K1 * (INNER_O // 8)) for k in range(6)]))
        rec(ctx, binp, 40000, 16)
    ctx.assumptions += [
        "packed lengths are measured with the real Pack (its fidelity is property C01/C04/C08)",
        "'fits' = the reply packed with compression enabled is <= max(size,512)",
        "replies carrying a TSIG record are outside the statement",
    ]
    return ctx.finish(rule="cases: all replies with <=2 answer, <=1 authority, <=2 additional records over 6 record shapes x question section {one, none, two, one of 181 octets} x OPT "
                      "none/bare/with options/with 300 octets of padding/with each of 253 lists of EDNS0 options (all option kinds, client subnets of every "
                      "family x boundary netmask) at every position x TC x Compress x size selectors {0,511,512,513,65535, packed length of "
                      "every prefix -1/0/+1, uncompressed length -1/0/+1} (sharded sample per run), plus random replies over 23 RR types. "
                      "non-trivial = at least one record was cut; distinct by (shape, size)")


def replay(ctx, path):
    binp = ctx.build("truncate")
    rp = json.load(open(path))
    p = os.path.join(ctx.out, "case.json")
    json.dump(rp["case"], open(p, "w"))
    facts = os.path.join(ctx.out, "facts.ndjson")
    ctx.run_json(binp, ["one", p, facts])
    judge(ctx, facts, "replay")
    if any(c["key"] == rp["key"] for c in ctx.cands):
        print("VIOLATION property=%s replay=%s" % (ctx.id, path))
        return 1
    print("replay: discrepancy no longer present")
    return 0
