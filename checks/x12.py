"""X12 (extra)  Message builders and predicates of defaults.go on WireRR's abstract message.   spec/Builders.tla

MC      MC_Builders: every request flag word (quick: every 16th) x 0..2 questions x fresh/used receiver x 4 AMBIG policies:
        the reply is a response to the request, survives encode / reference decode, idempotent, untouched fields, TSIG last
GEN     Gen_Builders (messages travel as octets; the harness makes *dns.Msg with the real Unpack, applies the real builder,
        compares header struct, question entries, section sizes AND the real Pack's octets with the admissible results):
          reply   every flag word (quick: 4 of 16 shards) x 0..2 questions: SetReply; every 16th word also on a used
                  receiver, SetRcode(3 | 16 = unpackable without OPT), SetRcodeFormatError; reply owns its question slice
          chain   every sequence of <= 3 of 12 builder calls (SetQuestion SetNotify SetUpdate SetAxfr SetIxfr SetTsig SetReply
                  SetRcode SetRcodeFormatError) from a fresh and a used message, compared after every step
          pos     additional sections <= 3 over {A, OPT, TSIG}: IsTsig (last only) / IsEdns0 (anywhere)
          rrset   <= 3 (owner, type, class) over 4 owner spellings: IsRRset
          text    every text of <= 5 symbols over {a A Z . \\ 0xC8 e-acute}: IsFqdn, Fqdn, CanonicalName
          ismsg   0..14 octets

Findings on the unchanged tree (known-findings.d/X12.txt): IsRRset is case-sensitive on owners; CanonicalName replaces
non-UTF-8 octets by U+FFFD; IsFqdn mis-counts backslashes after a multi-octet UTF-8 character.

Mutants (checks/mutants/X12), all exit 1:
  reply-no-cd           SetReply does not copy CD                      builders/SetReply:hdr.Cd
  reply-copies-aa       SetReply copies AA from the request            builders/SetReply:hdr.Aa
  reply-question-alias  reply shares the request's question slice      builders/SetReply:question-aliased
  notify-no-aa          SetNotify leaves AA                            builders/SetNotify:hdr.Aa
  formerr-keeps-opcode  SetRcodeFormatError keeps the opcode           builders/SetRcodeFormatError:hdr.Opcode
  ixfr-soa-in-answer    SetIxfr puts the SOA into the answer section   builders/SetIxfr:section-sizes
  tsig-first            SetTsig prepends                               builders/SetTsig:octets
  tsig-origid           SetTsig leaves OrigId 0                        builders/SetTsig:octets
  istsig-anywhere       IsTsig accepts a TSIG that is not last         builders/istsig
  ismsg-11              IsMsg accepts 11 octets                        builders/ismsg
  ixfr-ttl-zero         SetIxfr's SOA has TTL 0                        builders/SetIxfr:octets
"""
import os, json
import vp


def gen(ctx, binp, mode, shard=0, nshards=1):
    def one():
        r, vecs = ctx.tlc_vectors("Gen_Builders", workers=1, xmx="3g", timeout=1800,
                                  consts={"Mode": '"%s"' % mode, "Shard": shard, "NShards": nshards})
        path = os.path.join(r.dir, "vectors.ndjson")
        if not os.path.exists(path):
            raise vp.Infra("Gen_Builders %s produced no vectors" % mode)
        vp.absorb(ctx, ctx.run_json(binp, ["replay", path]))
    return one


def run(ctx):
    binp = ctx.build("builders")
    jobs = [gen(ctx, binp, m) for m in ("chain", "pos", "rrset", "text", "ismsg")]
    if ctx.quick:
        ctx.tlc("MC_Builders", consts={"Stride": 16, "Off": ctx.seed % 16}, workers=4, xmx="3g", timeout=900)
        jobs += [gen(ctx, binp, "reply", (ctx.seed * 4 + k) % 16, 16) for k in range(4)]
    else:
        ctx.tlc("MC_Builders", consts={"Stride": 1, "Off": 0}, workers=4, xmx="4g", timeout=3000)
        jobs += [gen(ctx, binp, "reply", k, 16) for k in range(16)]
    vp.parallel(jobs, maxpar=4)
    ctx.assumptions += [
        "AMBIG, admitted: SetReply copies RD/CD for every opcode or for QUERY only; copies the whole question section or its first entry",
        "IsEdns0 with several OPT records may return any of them; IsRRset of the empty list is not judged; owners that differ only by a missing final dot: either answer",
        "builders that call Id() leave the id unconstrained; messages reach the builders through the real Unpack (C01 judges that)",
    ]
    return ctx.finish(rule="vectors: request flag words x 0..2 questions (quick 16 384 words, thorough all 65 536) + used receiver / SetRcode / "
                      "SetRcodeFormatError on every 16th; 3 768 builder chains; 40 additional-section shapes; 2 320 RR lists; 19 608 texts. "
                      "distinct = distinct inputs")


def replay(ctx, path):
    binp = ctx.build("builders")
    rp = json.load(open(path))
    p = os.path.join(ctx.out, "one.ndjson")
    vp.write_ndjson(p, [rp["case"]])
    s = ctx.run_json(binp, ["replay", p])
    if any(m["key"] == rp["key"] for m in s["mismatches"]):
        print("VIOLATION property=%s replay=%s" % (ctx.id, path))
        return 1
    print("replay: discrepancy no longer present")
    return 0
