"""C12  Each exchange gets its own reply intact under any segmentation / concurrency.

MC      MC_Stream: frames of body sizes 0..3 (3 > MaxBody = 2: refused), every chunking, short reads, a write failing at
        every offset, the stream cut at every offset: delivered messages are a prefix of the sent ones, each intact; the
        reader ends exactly as the closed form ReaderResult says; the reply-ID machine against its closed form for every
        inbox of length <= 4 x deadline position x {stream, datagram}.  Non-vacuity: with ReadFullSem = FALSE (one Read taken
        for the whole body) the run MUST fail.
        MC_Exchange: 3 clients (one resend), 2 receive buffers, all interleavings of Send/Recv/Decode/Release/Handle/Reply/
        ClientRecv, VIEW hiding history; requests of different sizes, buffers with a length: NoMixing (the handler sees every
        octet of its client's request; the reply leaves from the local address the request was sent to).  Non-vacuity: with
        Swapped = TRUE (Release before Decode), KeepLen = TRUE (the released buffer keeps the length of the last datagram) and
        SessShared = TRUE (the session data is overwritten by the next datagram) and DoubleRelease = TRUE (the path of
        datagrams that never reach a handler releases its buffer twice; PoolOnce) it MUST fail.
GEN     Gen_Stream: the MC behaviours laid over the real sizes {12, 13, 255, 256, 257, 512, 4096, 65535} (+ 65536: refused):
        chunkings over the meaningful offsets of each frame, end of stream at each of them, a write failing at each of them
        -> `exchange replay` through Conn.ReadMsgHeader / Read / ReadMsg / Write / WriteMsg and, on a real server over an
        in-memory listener, readTCP (seen through a DecorateReader) and response.Write / WriteMsg (also two handler goroutines
        answering pipelined queries on one connection: Write with the fake alternating the writers; WriteMsg with distinct
        replies, once with a DecorateWriter gate forcing "A packed, B packed and written, A written", once freely -- the
        free run also in a -race build).  Reply-ID vectors through Client.ExchangeWithConn on stream and datagram fakes (simulated
        deadline; a few with a real one; the fakes record every read deadline they are given: after the request is written it
        must not move later -- Stream.MaxDeadlineExtensions), Client.ExchangeContext on real loopback sockets, and ExchangeWithConn over a real socket
        of every transport KIND the spec names (Stream.KindRules): tcp, unix stream, the two wrapped in another conn type, udp,
        unixgram, wrapped udp, unixpacket (both rules admitted); a kind the OS refuses is counted as skipped.  "repoint":
        one Conn value makes an exchange over one kind, is pointed at another (co.Conn = ...) and makes a second one: every
        ordered pair of kinds; framing and rule of the second exchange are those of the second kind.  Datagram reads
        (ReadMsgHeader / ReadMsg, several datagrams on one Conn) are held and compared only after the last read.
TV      `exchange record`: N in {8, 64} concurrent clients against a real UDP loopback server (ReadFromSessionUDP + buffer
        pool), a real UDP server on a wildcard socket whose clients talk to 127.0.0.1/2/3 from unconnected sockets and log
        which address each reply came from ("udpmulti"), an in-memory PacketConn server (pool) and TCP servers (in-memory and loopback); the handler snapshots the
        request, waits until later packets were received, snapshots again -> Trace_Exchange.
        A client that got no reply in time (UDP loss, a loaded machine) is logged as "lost" with err = "timeout" and is never a
        verdict; an exchange that FAILS (ErrId, undecodable reply, connection ended) on a transport that loses nothing (tcp,
        tcpreal, pc) is `exchange-failed-on-lossless-transport`.  On the stream transports every other request travels
        compressed (seed C12-19: WriteMsg framing zeros behind a correct length).  The in-memory tcp server's
        DecorateReader returns a reader WITH per-connection state (bufio bound to its first connection; seed C12-18: one reader
        shared by all connections).  "tcptsig": per-connection request sequences none / badmac / none / good / badkey / ...
        against a server with a TSIG secret; the handler's TsigStatus() must be that of the request in its hands
        (Trace_Exchange!StatusFor; seed C12-20: the status of an earlier request on the connection).

        Mode "runt": frames whose body is shorter than a DNS header (0, 1, 2, 11 octets) before, between and behind real
        messages, whole / cut at every meaningful offset / octet by octet: the raw readers (Conn.Read, readTCP) deliver them
        like any frame; the header-decoding readers (ReadMsgHeader, ReadMsg) are asked for more after every error and must hand
        out Stream!HdrReader.carryon or .stop (AMBIG: carry on after a runt or give up), never octets that are not one whole
        frame's body (seed C12-16: the runt's body left in the stream and taken for the next length prefix).

Mutants (checks/mutants/C12) and the stage that catches each:
  readfull-to-read-client.diff   io.ReadFull -> Read in Conn.ReadMsgHeader      [GEN stream/ReadMsgHeader|ReadMsg/message-mangled]
  readfull-to-read-server.diff   io.ReadFull -> Read in Server.readTCP          [GEN stream/readTCP/message-mangled]
  prefix-separate-write.diff     response.Write: prefix and body in two Writes  [GEN stream/response.Write-concurrent/frames-interleaved]
  udp-id-loop-breaks.diff        datagram ID loop ends at the first reply        [GEN idmatch/dgram/...]
  pool-put-before-unpack.diff    buffer returned to the pool before unpack       [TV exchange-pc|udp/handler-saw-foreign-request:* /
                                                                                  handler-saw-request-from-recycled-buffer; needs the
                                                                                  recorder's private-use RR whose Unpack waits for later
                                                                                  packets in the middle of decoding]
  no-cloneslice-unpackA.diff     A rdata aliases the receive buffer              [TV exchange-pc|udp/request-changed-under-handler]
  oversize-not-refused.diff      Conn.Write / response.Write accept 65536 octets [GEN stream/Write|response.Write/oversize-accepted]
"""
import os, json
import vp


def override(cfgtext, consts):
    """cfg text with some CONSTANT lines replaced (the base cfg gives the defaults)."""
    out = []
    for ln in cfgtext.splitlines():
        k = ln.strip().split("=")[0].strip()
        if k in consts:
            ln = "  %s = %s" % (k, consts[k])
        out.append(ln)
    return "\n".join(out) + "\n"


def mc(ctx, module, consts, must_pass=True):
    base = open(os.path.join(vp.VERIF, "spec", module + ".cfg")).read()
    name = "%s_v%d" % (module, ctx.ntlc + 1)
    return ctx.tlc(module, cfg=name, files={name + ".cfg": override(base, consts)}, workers=4, timeout=1800,
                   must_pass=must_pass, count=must_pass)


def mc_all(ctx):
    sizes = {} if ctx.quick else {"MaxFrames": 4}
    mc(ctx, "MC_Stream", dict(sizes))
    r = mc(ctx, "MC_Stream", {"ReadFullSem": "FALSE"}, must_pass=False)
    if r.ok or "Invariant StreamSound is violated" not in r.out:
        raise vp.Infra("non-vacuity: MC_Stream with a single Read for the body must violate StreamSound:\n" + r.out[-800:])
    # quick: two local addresses + one unhandled datagram, no resend; one address with a resend
    # thorough: also two addresses with a resend, and one address with two resends
    mc(ctx, "MC_Exchange", {})
    mc(ctx, "MC_Exchange", {"Locals": "{1}", "MaxResend": 1 if ctx.quick else 2, "MaxJunk": 0})
    if not ctx.quick:
        mc(ctx, "MC_Exchange", {"MaxResend": 1, "MaxJunk": 0})
    for const, what in (("Swapped", "Release before Decode"),
                        ("KeepLen", "a released buffer keeping the last datagram's length"),
                        ("SessShared", "session data that the next datagram overwrites"),
                        ("DoubleRelease", "the unhandled-datagram path releasing its buffer twice")):
        r = mc(ctx, "MC_Exchange", {const: "TRUE"}, must_pass=False)
        if r.ok or "Invariant Inv is violated" not in r.out:
            raise vp.Infra("non-vacuity: MC_Exchange with %s must violate NoMixing:\n%s" % (what, r.out[-800:]))


def extra_sizes(ctx):
    """body sizes beyond the fixed boundary ones, derived from the seed (23..65534)"""
    import random
    rnd = random.Random(ctx.seed)
    n = 2 if ctx.quick else 5
    return sorted({rnd.choice([rnd.randrange(23, 600), rnd.randrange(600, 16384), rnd.randrange(16384, 65535)]) for _ in range(n)} | {65534})


def gen_replay(ctx, binp, mode, nshards=1, shards=(0,)):
    extra = "{" + ", ".join(map(str, extra_sizes(ctx))) + "}"

    def one(sh):
        r, vecs = ctx.tlc_vectors("Gen_Stream", workers=1, xmx="3g", timeout=3000,
                                  consts={"Mode": '"%s"' % mode, "NShards": nshards, "Shard": sh, "Extra": extra})
        path = os.path.join(r.dir, "vectors.ndjson")
        if not os.path.exists(path):
            raise vp.Infra("Gen_Stream mode %s produced no vectors" % mode)
        s = ctx.run_json(binp, ["replay", path], timeout=1800)
        vp.absorb(ctx, s)
    vp.parallel([lambda sh=sh: one(sh) for sh in shards], maxpar=4)


def race_run(ctx):
    """Two handler goroutines answering pipelined queries on one TCP connection with WriteMsg, in a -race build:
    a race report naming miekg/dns code is a violation."""
    binr = ctx.build("exchange", race=True)
    r, vecs = ctx.tlc_vectors("Gen_Stream", workers=1, xmx="3g", timeout=3000,
                              consts={"Mode": '"frames2"', "NShards": 16, "Shard": ctx.seed % 16, "Extra": "{}"})
    path = os.path.join(r.dir, "vectors.ndjson")
    p = ctx.run(binr, ["replay", path, "response.WriteMsg-concurrent"], env={"GORACE": "halt_on_error=0 exitcode=66"},
                ok_codes=(0, 66), timeout=1800)
    if "DATA RACE" in p.stderr:
        if "github.com/miekg/dns." in p.stderr:
            ctx.candidate("stream/response.WriteMsg-concurrent/data-race",
                          "race detector report while two goroutines answer pipelined queries on one TCP connection with WriteMsg",
                          {"race": True, "report": p.stderr[:4000]})
        else:
            raise vp.Infra("race report inside the harness itself:\n" + p.stderr[:3000])
    elif p.returncode != 0:
        raise vp.Infra("race build exited %d:\n%s" % (p.returncode, p.stderr[-2000:]))
    try:
        vp.absorb(ctx, json.loads(p.stdout.strip().splitlines()[-1]))
    except Exception as ex:
        raise vp.Infra("race build produced no summary: %s" % ex)


def tv(ctx, binp, tr, n, rounds, k):
    out = os.path.join(ctx.out, "trace-%s-%d-%d.ndjson" % (tr, n, k))
    s = ctx.run_json(binp, ["record", tr, out, str(n), str(rounds)], env={"VERIF_SEED": str(ctx.seed * 100 + k)}, timeout=600)
    vp.absorb(ctx, s, traces=False)
    bad = judge(ctx, out)
    return bad


def judge(ctx, path):
    evs = vp.read_ndjson(path)
    if not evs:
        ctx.notes.setdefault("skipped_transports", []).append(os.path.basename(path))   # the OS refused the sockets: no verdict
        return []
    insts = sorted({e["c"] * 8 + e["round"] for e in evs if e["ev"] == "send"}) or [0]
    bufs = sorted({e.get("buf", 0) for e in evs} | {0})
    tr = ctx.tlc_trace("Trace_Exchange", path, xmx="3g", timeout=1800,
                       consts={"Clients": "{" + ", ".join(map(str, insts)) + "}", "Buffers": "{" + ", ".join(map(str, bufs)) + "}"})
    cls = {}
    try:
        for i, c in json.loads(tr.vals.get("cls", "[]")):
            cls[i] = c
    except Exception:
        raise vp.Infra("Trace_Exchange printed no class list")
    idx = {id(e): i + 1 for i, e in enumerate(evs)}
    keys = []

    def keyfn(e):
        k = "exchange-%s/%s" % (e.get("tr"), cls.get(idx[id(e)], "rejected"))
        keys.append(k)
        return k
    # the whole trace goes into the replay case: one event means nothing without the sends before it
    for e in evs:
        e["_trace"] = path
    vp.absorb_trace(ctx, tr, evs, keyfn)
    return keys


def run(ctx):
    binp = ctx.build("exchange")
    ctx.build("exchange", race=True)      # warm: race_run builds again from the cache
    mc_all(ctx)
    if ctx.quick:
        jobs = [
            lambda: gen_replay(ctx, binp, "frames1"),
            lambda: gen_replay(ctx, binp, "frames2", 4, [ctx.seed % 4]),
            lambda: gen_replay(ctx, binp, "eof", 2, [ctx.seed % 2]),
            lambda: gen_replay(ctx, binp, "shortw", 2, [ctx.seed % 2]),
            lambda: gen_replay(ctx, binp, "refuse"),
            lambda: gen_replay(ctx, binp, "runt", 2, [ctx.seed % 2]),
            lambda: gen_replay(ctx, binp, "id"),
            lambda: gen_replay(ctx, binp, "repoint"),
            lambda: race_run(ctx),
        ]
        k = 0
        for tr in ("udp", "udpmulti", "pc", "tcp", "tcpreal"):
            for n, rounds in ((8, 6), (64, 3)):
                if tr == "tcpreal" and n == 64:
                    continue
                k += 1
                jobs.append(lambda tr=tr, n=n, rounds=rounds, k=k: tv(ctx, binp, tr, n, rounds, k))
        jobs.append(lambda: tv(ctx, binp, "tcptsig", 8, 8, 90))
        vp.parallel(jobs, maxpar=4)
    else:
        jobs = [
            lambda: gen_replay(ctx, binp, "frames1"),
            lambda: gen_replay(ctx, binp, "frames2", 4, range(4)),
            lambda: gen_replay(ctx, binp, "eof", 2, range(2)),
            lambda: gen_replay(ctx, binp, "shortw", 2, range(2)),
            lambda: gen_replay(ctx, binp, "refuse"),
            lambda: gen_replay(ctx, binp, "runt", 2, range(2)),
            lambda: gen_replay(ctx, binp, "id"),
            lambda: gen_replay(ctx, binp, "repoint"),
            lambda: race_run(ctx),
        ]
        k = 0
        for rep in range(6):
            for tr in ("udp", "udpmulti", "pc", "tcp", "tcpreal"):
                for n, rounds in ((8, 8), (64, 4), (32, 8)):
                    k += 1
                    jobs.append(lambda tr=tr, n=n, rounds=rounds, k=k: tv(ctx, binp, tr, n, rounds, k))
        jobs.append(lambda: tv(ctx, binp, "tcptsig", 8, 8, 90))
        jobs.append(lambda: tv(ctx, binp, "tcptsig", 40, 8, 91))
        vp.parallel(jobs, maxpar=8)
    ctx.assumptions += [
        "a write that fails half way ends the use of the connection (the caller gets the error); nothing is said about frames after it",
        "which error a reader reports at the end of the stream is not constrained, only that it reports one and delivers nothing partial",
        "buffer identities come from the repo's pool.get / pool.put hooks (build tag verif) and the recorder's DecorateReader; the moment of "
        "decoding is not observable: the machine decodes at the release",
        "real UDP: an exchange that times out is logged as lost, the client retries; loss is never a verdict",
        "the datagram deadline is simulated by the fake conn returning a timeout error (the client loop consults no clock itself); "
        "cases with a real deadline all expect a timeout and assert only that",
    ]
    return ctx.finish(rule="vectors: 1 or 2 frames over 8 real sizes; chunkings = subsets (single frame: all 32, two frames: up to 2 cut points, all "
                      "11, octet-by-octet for small sizes) of {inside the prefix, prefix|body, first/middle/last body octet, frame end}; end of stream and "
                      "failing write at each such offset; 65536-octet messages; each through up to 9 API paths; 1094 reply-ID cases.  events: "
                      "send/handle/crecv of N x R exchanges per transport.  distinct = distinct scenarios; non-trivial = answered exchanges")


def replay(ctx, path):
    binp = ctx.build("exchange")
    rp = json.load(open(path))
    case = rp["case"]
    if case.get("race"):
        n0 = len(ctx.cands)
        race_run(ctx)
        bad = any(c["key"] == rp["key"] for c in ctx.cands[n0:])
    elif "event" in case:
        ev = case["event"]
        # concurrency finding: run the same recorder again (up to 5 times) and look for the same key
        bad = False
        for k in range(5):
            n0 = len(ctx.cands)
            tv(ctx, binp, ev["tr"], 64, 4, 900 + k)
            if any(c["key"] == rp["key"] for c in ctx.cands[n0:]):
                bad = True
                break
    else:
        p = os.path.join(ctx.out, "one.ndjson")
        vp.write_ndjson(p, [case])
        s = ctx.run_json(binp, ["replay", p])
        bad = any(m["key"] == rp["key"] for m in s["mismatches"])
    if bad:
        print("VIOLATION property=%s replay=%s" % (ctx.id, path))
        return 1
    print("replay: discrepancy no longer present")
    return 0
