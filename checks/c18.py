"""C18  SIG(0): any message can be signed; only untampered, timely messages verify.

MC      MC_Sig0: Sig0.tla on itself -- every small section shape with/without a compression pointer and messages
        with 255 / 256 additional records are built, laid out with a toy signature, located again (View), every
        layout fault is named, no proper prefix is accepted; names compare as domain names (KELVIN SIGN is no k, "{" no "[");
        VerifyOn: the SIG value Verify is called on does not enter the verdict
TV      one pipeline per shard, two trace-validation passes around the harness:
          sig0 record   seeded random messages (all section shapes, Compress on/off, ARCOUNT 0..3 and 255/256/257,
                        37 octets .. ~8 kB, four signer names; windows: wide, tight, expired, not yet valid and three
                        INVERTED ones (inception > expiration: both past, both future, around now; >= 1 h margins))
                        x algorithms -> real SIG.Sign.  RR types include SIG, RRSIG and KEY records carried as data.
                        Every run starts with six messages of 254, 255, 256, 257, 511, 512 additional records and a
                        window that holds (quick: first algorithm only), a ~3 kB and a ~20 kB message signed with ALL SIX
                        algorithms, and a message that already carries SIG/RRSIG/KEY records in answer and additional,
                        the last additional record being a SIG(0)-shaped SIG (as after signing twice)
          Trace_Sig0    pass 1: layout / ARCOUNT of each result; Sign must succeed; emits the signed octets, the
                        specified result with a placeholder signature and the tamper regions
          sig0 finish   (1) crypto/rsa|ecdsa|ed25519 verify the REAL signature over the SPEC's octets; (2) a second
                        signed message is completed from the specified result with a stdlib signature (independent
                        of SIG.Sign, so Verify is exercised even where Sign fails); (3) real Verify with right/wrong
                        key, owner-name case variant, wrong owner, the signer's KEY with a damaged public key (one octet
                        short / long, empty, another algorithm's length), all windows -> "verify" events; (4) every single-bit
                        flip (message, SIG RDATA: must be rejected; SIG RR header: no panic) and every truncation >= 12
                        (must be rejected, no panic), directly and through Unpack
          Trace_Sig0    pass 2: Accept0(View(buf), key owner, now, primitive verdict) = what the real Verify said
                        Every verification runs on its own copy of the message; the copy must be unchanged afterwards
                        (field `unchanged`; key sig0/verify-modifies-input), and after every FAILED verification the
                        matching KEY is tried on the very same copy ("after-<variant>" events: must give the verdict of
                        the message as received).  Tampered / truncated copies are checked for modification as well.
                        RSA keys: a second KEY with the same owner, algorithm and KEY TAG (two modulus words exchanged)
                        is tried before / after the signer's own KEY, alternating per (signer, key): it never verifies.
                        A small message is signed with committed 4096-bit (algorithms 5, 8, 10) and 512-bit (5, 8) keys.
                        Every fourth random message is signed with a SIG value that has signed another message before.
                        Every fourth random message (i % 4 = 2) is signed with a SIG value that arrives with MORE than the five fields
                        Sign reads: an owner name ("owner"), a whole RR header with the signer's name, class IN, a TTL ("header"),
                        type covered / labels / original TTL ("rdata-fields"), all of it with a long owner ("all") -- the result is
                        the specification's all the same (event field `preset', key suffix :preset-sig-struct).
                        Verify on a SIG value that is NOT the record in the message (variants struct-window-<k>, called directly):
                        the signing template after it has signed a later message with another window -- one whose own window holds,
                        one whose window is expired / not yet valid / inverted (in turn) -- on every real and built message of every
                        window kind: the verdict is VerifyOn(rr, octets, ...) = that of the octets (key suffix :other-sig-struct).
                        KEY owners that only another notion of letter case takes for the signer (five signer names, each with an s or
                        a k, one with [ ] ^): U+017F for s, U+212A for k (raw UTF-8 in the Go string, also on the case-swapped name),
                        a non-letter moved by 0x20: other domain names, never accepted (sig0/verify-accepts-invalid:signer).
                        Signer names whose TEXT is not as long as their wire form (every fourth random message, i % 4 = 3, all four in
                        any 16): an escaped dot, quote and backslash, octets spelled \\DDD, and the root -- a buffer sized from
                        len(SignerName) is wrong for these; the layout of the result is LayoutFault's as for any name, and the KEY owner
                        variants are built below them.
                        The octets Sign returns are the caller's (Sig0!ResultStable, event field `stable'): after every Sign the next caller
                        signs another small message with a SIG value of his own and the same key, and at the end of the run every result
                        is compared with what it was when it was returned (key sig0/sign-result-changed-by-later-sign).
                        Every OTHER VALUE of an octet (finish (4), ranges Sig0!RdataFields emitted by pass 1): algorithm and labels -- all
                        255 other values, on every accepted message: numbers of supported algorithms, of ones the library only has a name
                        for (1, 3, 12, 16, 252 ..) and of none; all fields in front of the signature on the first two accepted messages
                        of a pipeline (one for P-384): rejected, no panic (keys sig0/verify-panics:octet-value:<field>,
                        sig0/verify-accepts-altered-octet:<field>).  A single bit never turns a supported number into 16.
        Quick = three parallel pipelines: the ten fixed messages; 2 x 16 random messages.
        Times: no assertion closer than 90 s to a window edge; the pipeline dies (exit 2) if it takes > 600 s.

Mutants (checks/mutants/C18), stage that catches each on the quick tier:
  rdlength-off-by-one.diff         pass 1 (sig0/sign-layout:rdlength)
  arcount-not-incremented.diff     pass 1 (sig0/sign-layout:arcount)
  hash-order-swapped.diff          finish (1) (sig0/sign-signature-not-over-specified-octets); the same swap in Verify would show
                                   in pass 2 (the independently built message rejected)
  signer-case-sensitive.diff       pass 2 (sig0/verify-rejects-valid, owner-case variant)
  bounds-check-loosened.diff       finish (4) (sig0/verify-panics:truncated)
  window-from-sig-struct.diff      (seed C18-16: the window is read from the SIG value, not from the octets) pass 2
                                   sig0/verify-accepts-invalid:{expired,not-yet-valid,inverted-window}:other-sig-struct and
                                   sig0/verify-rejects-valid:other-sig-struct (struct-window variants)
  signer-equalfold.diff            (seed C18-17: strings.EqualFold on signer / KEY owner) pass 2 sig0/verify-accepts-invalid:signer
                                   (owner-unicode-fold-s / -k variants)
  signer-xor20-overfold.diff       (any two octets 0x20 apart, >= 'a' after folding, taken for one letter) pass 2
                                   sig0/verify-accepts-invalid:signer (owner-xor20-nonletter, signer Sig[0]^k.example.)
  sign-keeps-owner.diff            (seed C18-18: Sign keeps a preset owner name, offsets assume the root) pass 1
                                   sig0/sign-layout:rr-header:preset-sig-struct
  sign-keeps-rdata-fields.diff     (Sign does not reset type covered / labels / original TTL) pass 1
                                   sig0/sign-layout:rdata:preset-sig-struct
  sign-buffer-from-text-length.diff  (seed C18-19: buffer sized from len(SignerName)+1, not resliced to PackRR's end) pass 1
                                   sig0/sign-layout:rdlength (signers host\\.name.example.org., ., \\000\\255s.k.example., quo\\"te\\\\k.example.)
  hash-table-off-by-one.diff       (seed C18-20: hashFromAlgorithm indexes a 16-entry table with alg <= 16) finish (4)
                                   sig0/verify-panics:octet-value:algorithm (value 16, every accepted message)
  sign-result-in-pooled-buffer.diff  (seed C18-21: the result aliases a sync.Pool scratch buffer) pass 1
                                   sig0/sign-result-changed-by-later-sign (every message that fits 4096 octets with its SIG)
"""
import os, json
import vp
from checks.c17 import safe_scratch, keys_of

PAIRS = [["RSASHA256", "ED25519"], ["RSASHA1", "ECDSAP256SHA256"], ["RSASHA512", "ECDSAP384SHA384"]]
ALL = ["RSASHA1", "RSASHA256", "RSASHA512", "ECDSAP256SHA256", "ECDSAP384SHA384", "ED25519"]


def absorb_pass(ctx, tr, events, shard):
    keys = keys_of(tr)
    bad = tr.bad or []
    if len(keys) != len(bad) or not tr.accepted:
        raise vp.Infra("Trace_Sig0: %d bad events, %d keys, accepted=%s" % (len(bad), len(keys), tr.accepted))
    with vp._lock:
        ctx.traces += max(0, (tr.hwm or 0) - len(bad))
        for i, k in zip(bad, keys):
            e = events[i - 1]
            if k.startswith("trace/"):
                raise vp.Infra("event the trace spec cannot read: %s (event id %s)" % (k, e.get("id")))
            brief = {f: e[f] for f in ("ev", "id", "variant", "compress", "algname", "window", "reused", "preset", "stable", "rr", "ok", "err", "errclass", "accepted", "sigvalid") if f in e}
            brief["msglen"] = len(e.get("msg") or e.get("buf") or [])
            ctx.candidate(k, "recorded %s event rejected by the specification" % e["ev"], dict(shard, id=e["id"], event=brief))


def pipeline(ctx, binp, tag, seed, n, algs, only=None, ar=False):
    """record -> Trace_Sig0 -> finish -> Trace_Sig0.  Returns nothing; candidates go to ctx."""
    shard = {"seed": seed, "n": n, "algs": algs, "ar": ar}
    ev = os.path.join(ctx.out, "sig0-%s-sign.ndjson" % tag)
    kf = os.path.join(ctx.out, "sig0-%s-keys.json" % tag)
    vf = os.path.join(ctx.out, "sig0-%s-verify.ndjson" % tag)
    args = ["record", ev, kf, str(n), ",".join(algs), "1" if ar else "0"] + ([str(only)] if only is not None else [])
    s = ctx.run_json(binp, args, env={"VERIF_SEED": str(seed)}, timeout=3000)
    vp.absorb(ctx, s, traces=False)
    tr = ctx.tlc_trace("Trace_Sig0", ev, xmx="3g", timeout=3000)
    absorb_pass(ctx, tr, vp.read_ndjson(ev), shard)
    emit = os.path.join(tr.r.dir, "emit.ndjson")
    if not os.path.exists(emit):
        raise vp.Infra("Trace_Sig0 wrote no emit.ndjson")
    f = ctx.run_json(binp, ["finish", ev, emit, kf, vf], env={"VERIF_SEED": str(seed)}, timeout=6000)
    for m in f.get("mismatches", []):
        if isinstance(m.get("case"), dict):
            keep = {k: v for k, v in m["case"].items() if k in ("id", "buf", "offset", "bit", "region", "length", "of", "variant", "algname", "compress", "value", "field")}
            m["case"] = dict(shard, **keep)
    vp.absorb(ctx, f)
    os.remove(kf)
    if os.path.getsize(vf) > 0:
        tr2 = ctx.tlc_trace("Trace_Sig0", vf, xmx="3g", timeout=3000)
        absorb_pass(ctx, tr2, vp.read_ndjson(vf), shard)


def run(ctx):
    safe_scratch(ctx)
    binp = ctx.build("sig0")
    ctx.tlc("MC_Sig0", workers=2, xmx="3g", timeout=900)
    if ctx.quick:
        algs = PAIRS[ctx.seed % 3]
        # shard 0 starts with the six ARCOUNT-boundary messages (254..257, 511, 512 additional records, valid window)
        # (pipeline 0 is just those ten fixed messages; 1 and 2 are 16 random messages each: every window kind twice)
        jobs = [lambda k=k: pipeline(ctx, binp, str(k), ctx.seed * 1000 + k, 10 if k == 0 else 16, algs, ar=(k == 0)) for k in range(3)]
        vp.parallel(jobs, maxpar=3)
    else:
        jobs = [lambda k=k: pipeline(ctx, binp, str(k), ctx.seed * 1000 + k, 50, ALL, ar=(k % 4 == 0)) for k in range(12)]
        vp.parallel(jobs, maxpar=4)
    ctx.assumptions += [
        "the message octets are an input (m.Pack() taken just before Sign); the wire codec is property C01",
        "the signature primitives and hash functions are Go's standard library, applied to the octets the specification fixes",
        "the SIG validity window is compared as plain unsigned 32-bit numbers (all windows lie within an hour of the current time, far from 2106)",
        "every timing assertion keeps at least 90 s between the wall clock and a window edge; a pipeline slower than 600 s is an infrastructure failure",
        "quick tier: messages longer than 700 octets are bit-flipped with a stride of at most 37 octets over the whole message (header, region boundaries and the last 90 octets of every region always); thorough flips every bit up to 1200 octets and strides (<= 37) beyond; messages over 2500 octets are truncated at every 37th length, around the SIG RR header and at the last 200",
        "bit flips in the SIG RR's own owner/type/class/TTL/RDLENGTH are only required not to panic (AMBIG: neither message nor SIG RDATA)",
        "whether the signer name keeps its case in the SIG RDATA is AMBIG: both spellings are admitted; a compressed signer name is not refused",
        "messages whose signed form would exceed 65535 octets are outside the universe",
        "AMBIG: the SIG value Verify is called on supplies the algorithm (the hash to apply) in the library; the values used carry the algorithm, "
        "key tag and signer of the message and differ from it in the validity window, the header fields and the signature",
    ]
    return ctx.finish(rule="events: seeded random messages x algorithms; per message one sign event, 6-12 verify events (right/wrong key, "
                      "owner variants, both the real and the independently built signed message), every bit flip and every truncation of the "
                      "accepted ones. distinct = distinct (message, algorithm) + tampered/truncated inputs + verify events; all non-trivial")


def replay(ctx, path):
    safe_scratch(ctx)
    binp = ctx.build("sig0")
    rp = json.load(open(path))
    case, key = rp["case"], rp["key"]
    if not all(k in case for k in ("seed", "n", "algs", "id")):
        raise vp.Infra("replay file has no (seed, n, algs, id)")
    pipeline(ctx, binp, "replay", case["seed"], case["n"], case["algs"], only=case["id"], ar=case.get("ar", False))
    if any(c["key"] == key for c in ctx.cands):
        print("VIOLATION property=%s replay=%s" % (ctx.id, path))
        return 1
    print("replay: discrepancy no longer present")
    return 0
