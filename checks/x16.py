"""X16 (extra)  Sub-encodings shared by many records, as pure operators over exhaustive small universes.  spec/Bitmaps.tla

The sending side of the wire forms is WireRR's (EncBitmap, EncApl -- reused, not repeated); Bitmaps.tla adds the RECEIVING
side with strictness classes ("ok" a conforming sender's form: accepted to this value; "lax" decodable but non-conforming:
AMBIG refuse / accept to this value; "bad": refused) and the text forms, each as a reader:
  type bitmaps (NSEC, NSEC3, CSYNC; RFC 4034 4.1.2)   windows increasing, length 1..32, no empty block, no trailing zero octet
  APL items (RFC 3123 4, 5)                           family 1 / 2, prefix and AFDLENGTH bounds, trailing zero octets, text
  LOC size octets (RFC 1876 2, 3)                     mantissa / exponent nibbles 0..9, value in cm, text in metres
  EUI-48 / EUI-64 (RFC 7043), ILNP NodeID / Locator64 (RFC 6742) texts

MC      MC_Bitmaps (3229 cases): a received bitmap is "ok" EXACTLY when it is the encoding of its types (canonical form);
        Dec(Enc(S)) = S for all 256 subsets of {0,1,7,8,255,256,511,65535}; every 1- and 2-block string over windows 0..1,
        lengths 0..2, octets {0,1,128,255}; blocks of 31 / 32 / 33 octets; reversed / repeated lists pack to the set's octets;
        APL Dec(Enc(item)) = masked item, "ok" => re-encoding identical, AplRead(AplText) round trip; the 100 valid size octets,
        uniqueness but for mantissa 0, <= 90000000.00 m, rounding neighbours; EUI / ILNP readers against writers of either
        case, wrong separators / lengths refused
GEN     Gen_Bitmaps -> harness `bitmaps replay` (wire side through PackRR / UnpackRR of real records, text side through
        String / NewRR):
          bmdec   1918 received bitmaps inside NSEC, NSEC3, CSYNC RDATA        bmenc  2380 type lists (any order, repeats,
          apldec  2326 APL RDATA strings                                               0 / 65535 / meta types) in NSEC + CSYNC,
          aplenc  617 item lists (+ String -> NewRR -> Pack)                           + String -> NewRR -> Pack
          apltext 68 item texts                                                size   all 256 octets x 3 positions; 129 texts
          hex     8 values; 262 texts (either case, 12 damages each) in EUI48 / EUI64 / NID / L64
TV      the texts String() produced (LOC size items, EUI, NID, L64, APL) -> Trace_Bitmaps reads them

Findings on the unchanged tree (known-findings.d/X16.txt): NID / L64 accept wrong separators and trailing characters
(stringToNodeID: && for ||, only the first 19 characters read); APL String() prints address bits beyond the prefix that Pack
masks (text not re-readable); type 0 / 65535 in a bitmap print as None / Reserved (C05's finding).

Mutants (checks/mutants/X16), all exit 1:
  nsec-window-equal      unpack accepts a repeated window                  bitmaps/bmdec:accepts-bad:*
  nsec-len-33            unpack accepts blocks of 33 octets                bitmaps/bmdec:accepts-bad:*
  nsec-empty-block       unpack accepts length 0                           bitmaps/bmdec:accepts-bad:*
  nsec-pack-window-skip  pack forgets to advance to a new window           bitmaps/bmenc:octets
  apl-afdlen             unpack accepts AFDLENGTH 5 for IPv4               bitmaps/apldec:accepts-bad
  apl-prefix-33          unpack accepts prefix 33 for IPv4                 bitmaps/apldec:accepts-bad
  apl-no-trim            pack keeps trailing zero octets                   bitmaps/aplenc:octets
  apl-neg-bit            negation packed as 0x40                           bitmaps/aplenc:octets, apltext:octets
  loc-exp-off            cmToM: exponent 2 printed with one more zero      TV bitmaps/trace:text:size:*
  loc-parse-cm           stringToCm: "n.5" read as 5 cm                    bitmaps/sizetext:octet:*
  eui-no-hyphen-check    EUI48 parser no longer checks the hyphens          bitmaps/hextext:accepts:EUI48:separator
"""
import os, json
import vp

MODES = ["bmdec", "bmenc", "apldec", "aplenc", "apltext", "size", "hex"]


def keyfn(e):
    return "bitmaps/trace:text:" + (e.get("cls") or e.get("kind", "?"))


def run(ctx):
    binp = ctx.build("bitmaps")
    ctx.tlc("MC_Bitmaps", workers=4, xmx="3g", timeout=900)

    def one(mode):
        r, _ = ctx.tlc_vectors("Gen_Bitmaps", workers=1, xmx="3g", timeout=1800, consts={"Mode": '"%s"' % mode})
        path = os.path.join(r.dir, "vectors.ndjson")
        if not os.path.exists(path):
            raise vp.Infra("Gen_Bitmaps %s produced no vectors" % mode)
        out = os.path.join(ctx.out, "events-%s.ndjson" % mode)
        s = ctx.run_json(binp, ["replay", path, out])
        vp.absorb(ctx, s)
        with vp._lock:
            ctx.notes.setdefault("vectors_per_mode", {})[mode] = s.get("evaluations", 0)
        evs = vp.read_ndjson(out)
        if evs:
            tr = ctx.tlc_trace("Trace_Bitmaps", out, xmx="3g", timeout=1800)
            vp.absorb_trace(ctx, tr, evs, keyfn)
    vp.parallel([lambda m=m: one(m) for m in MODES], maxpar=4)
    ctx.assumptions += [
        "AMBIG (lax): a received bitmap with trailing zero octets / an all-zero block, an APL item with trailing zero AFDPART octets or bits beyond the prefix, an APL family other than 1 and 2 (opaque per RFC 3123): refused, or accepted to the value the specification reads",
        "AMBIG: a type list that is not strictly increasing may be refused by Pack (C01) -- never packed as anything but its set",
        "AMBIG: size texts whose value has more than one significant digit: the representable neighbour below or above (RFC 1876 does not say how to round); LOC size octets with a nibble > 9: not judged (RFC 1876 gives them no meaning), only that printing does not panic and the wire keeps the octet",
        "the universes are small and exhaustive within their bounds (see MC_Bitmaps / Gen_Bitmaps); NSAP has no record type in this library",
    ]
    return ctx.finish(rule="vectors per mode in notes.vectors_per_mode: every case of the bounded universes through Pack/Unpack and String/NewRR; "
                      "String() texts read by the specification. distinct = vectors")


def replay(ctx, path):
    binp = ctx.build("bitmaps")
    rp = json.load(open(path))
    bad = False
    for mode in MODES:
        r, _ = ctx.tlc_vectors("Gen_Bitmaps", workers=1, xmx="3g", timeout=1800, consts={"Mode": '"%s"' % mode})
        out = os.path.join(ctx.out, "events-%s.ndjson" % mode)
        s = ctx.run_json(binp, ["replay", os.path.join(r.dir, "vectors.ndjson"), out])
        if any(m["key"] == rp["key"] for m in s["mismatches"]):
            bad = True
        evs = vp.read_ndjson(out)
        if evs and rp["key"].startswith("bitmaps/trace:"):
            tr = ctx.tlc_trace("Trace_Bitmaps", out, xmx="3g")
            if any(keyfn(evs[i - 1]) == rp["key"] for i in (tr.bad or [])):
                bad = True
        if bad:
            break
    if bad:
        print("VIOLATION property=%s replay=%s" % (ctx.id, path))
        return 1
    print("replay: discrepancy no longer present")
    return 0
