"""X15 (extra)  udp.go: SessionUDP out-of-band data -- the reply leaves from the address the request arrived at.
                                                                                            spec/UdpSession.tla

The ancillary data is stated for the platform the checks run on (Linux, 64-bit little-endian cmsg layout; IP_PKTINFO,
IPV6_PKTINFO): parseDstFromOOB = the destination the kernel reports; correctSource = exactly one packet-info control
message of the family of that address (IPv4-mapped => IPv4) naming it as SOURCE; an exchange on a socket answers from the
address the request was sent to (RFC 2181 4) to the peer it came from.

MC      MC_UdpSession: every combination of <= 2 of 37 control messages (IPv4 / IPv6 packet-infos over 4 + 4 addresses incl.
        0.0.0.0, ::, ::ffff:127.0.0.2, interface indices; TTL, HOPLIMIT, an unrelated level, packet-infos that are too short)
        whole and cut at 13 lengths, 9114 states: RoundTrip, Strict (never another address, the other family, the address
        in ipi_addr instead of ipi_spec_dst, or extra control messages), Cuts
PURE    Gen_UdpSession: the same buffers + damaged length fields (5051 distinct octet strings) -> harness `udpsession
        record`: parseDstFromOOB / correctSource (unexported: reached through go:linkname) -> Trace_UdpSession
SOCKETS the same run: real sockets udp4 0.0.0.0, udp4 127.0.0.1, udp6 [::], dual-stack "udp" (IPv4 and IPv6 clients), each
        prepared with setUDPSocketOptions; one datagram to EVERY local address of the family (127.0.0.1, 127.0.0.2,
        127.9.8.7, the interface addresses, ::1 ...) read with ReadFromSessionUDP, answered with WriteToSessionUDP; and the
        same through a real dns.Server on the wildcard *net.UDPConn -> Trace_UdpSession: the session's context reports the
        address the datagram was sent to, the answer arrives FROM it, RemoteAddr is the client.
        Families or addresses the sandbox lacks are listed in evidence notes ("uncovered"), never judged.  No assertion on
        time: the 5 s read deadlines only bound a failure.

Findings on the unchanged tree: none.

Mutants (checks/mutants/X15), all exit 1:
  mapped-as-v6          correctSource uses the IPv6 message for IPv4-mapped too   pure + exchange udp-dual-v4
  family-inverted       the To4 test inverted                                    pure, exchange, server
  src-is-dst-field      cm.Dst set instead of cm.Src                             pure (udpsession/trace:pure), sockets to 127.0.0.2
  v4-only               parseDstFromOOB looks at IPv4 messages only              pure, udp6 / dual sockets
  no-v4-sockopt         setUDPSocketOptions asks for IPv6 packet-info only       exchange udp4-any (no context), server
  server-no-sockopt     ActivateAndServe does not prepare the socket             server udp4-any:server (to 127.0.0.2)
  ifindex-99            reply pins interface 99                                  pure; udpsession/write-error
  oob-short             ReadFromSessionUDP keeps 8 octets less of the data       exchange (malformed context)
"""
import os, json
import vp


def keyfn(e):
    return "udpsession/trace:" + e["ev"] + ":" + e.get("cls", "?")


def run(ctx):
    binp = ctx.build("udpsession")
    ctx.tlc("MC_UdpSession", workers=4, xmx="3g", timeout=900)
    r, _ = ctx.tlc_vectors("Gen_UdpSession", workers=1, xmx="3g", timeout=1800)
    vec = os.path.join(r.dir, "vectors.ndjson")
    if not os.path.exists(vec):
        raise vp.Infra("Gen_UdpSession produced no inputs")
    out = os.path.join(ctx.out, "events.ndjson")
    s = ctx.run_json(binp, ["record", vec, out])
    os.remove(vec)
    vp.absorb(ctx, s, traces=False)
    evs = vp.read_ndjson(out)
    kinds = {}
    for e in evs:
        kinds[e["ev"] + ":" + e.get("cls", "")] = kinds.get(e["ev"] + ":" + e.get("cls", ""), 0) + 1
    ctx.notes["events"] = kinds
    if not any(e["ev"] == "exchange" for e in evs):
        raise vp.Infra("no socket exchange could be made in this sandbox: %s" % (s.get("notes") or {}).get("uncovered"))
    tr = ctx.tlc_trace("Trace_UdpSession", out, xmx="3g", timeout=1800)
    vp.absorb_trace(ctx, tr, evs, keyfn)
    ctx.assumptions += [
        "ancillary data is the Linux 64-bit little-endian cmsg layout (the platform of the checks); udp_no_control.go (windows, darwin) is not covered",
        "AMBIG: malformed ancillary data (a kernel never produces it): no destination, or any destination found in it; several different destinations: any",
        "AMBIG: the interface index of the reply (0, or the one the request arrived on); ipi_addr of an outgoing IP_PKTINFO",
        "socket runs need loopback UDP; what is missing is listed under notes.uncovered",
    ]
    return ctx.finish(rule="5051 ancillary-data strings through the pure functions; one exchange per (socket kind, local address) directly and through "
                      "a dns.Server. distinct = octet strings")


def replay(ctx, path):
    binp = ctx.build("udpsession")
    rp = json.load(open(path))
    r, _ = ctx.tlc_vectors("Gen_UdpSession", workers=1, xmx="3g", timeout=1800)
    out = os.path.join(ctx.out, "events.ndjson")
    s = ctx.run_json(binp, ["record", os.path.join(r.dir, "vectors.ndjson"), out])
    bad = any(m["key"] == rp["key"] for m in s["mismatches"])
    evs = vp.read_ndjson(out)
    tr = ctx.tlc_trace("Trace_UdpSession", out, xmx="3g")
    bad = bad or any(keyfn(evs[i - 1]) == rp["key"] for i in (tr.bad or []))
    if bad:
        print("VIOLATION property=%s replay=%s" % (ctx.id, path))
        return 1
    print("replay: discrepancy no longer present")
    return 0
