"""X09 (extra)  format.go: NumField(rr) / Field(rr, i) as a projection of WireRR's layout table.      spec/Fields.tla

The API fields of a type are the layout's entries in order (a gateway counts twice: address form, then name
form); Field(rr, 0) is "" (parse_test.go pins it); an index outside 0..NumField panics (documented).  The text of a
field is judged by READING it under the text encoding of its kind (decimal, dotted quad, RFC 4291 IPv6 text, RFC 1035
5.1 names and escapes, base16/32hex/64, type mnemonics or TYPEnnn, lists joined by ONE space), so that every spelling
an encoding allows is admitted and nothing is taken from how the library holds the value.

MC      MC_Fields: NumField against the layout for all 80 types of the registry (+ anchors A, SOA, IPSECKEY,
        AMTRELAY, NXNAME, ANY), index 0 / outside; each reader against an independent writer on boundary values
        (escapes, either hexadecimal case, base64 / base32hex, names with dots / spaces / backslashes in labels,
        lists whose elements contain spaces or are empty, 2^48-1, type lists with unknown codes), and what it rejects
TV      the vector sets of Gen_WireRR (through checks/c01.py: modes types, cross, gateway, unknown, svcb, opts,
        compress) -> harness `fields record`: every record becomes a Go value twice (built field by field by
        harness/lib/wire; unpacked by the library from the specification's octets), NumField and Field(rr, i) for
        i = -1, 0..NumField, NumField+1, NumField+5 -> Trace_Fields (duplicates of (type, i, value, text) dropped)

Findings on the unchanged tree (known-findings.d/X09.txt): Field prints reflect placeholders ("<uint8 Value> ...",
"<dns.APLPrefix Value>", "<dns.SVCBKeyValue Value>", "<dns.EDNS0 Value>") for net.IP gateway addresses and for the
APL / SVCB / HTTPS / OPT slices; an IPv4-mapped AAAA address is printed as a dotted quad.

Mutants (checks/mutants/X09), all exit 1:
  numfield-no-header     NumField counts the header                    fields/trace:numfield:*
  field0-header          Field(rr, 0) returns the owner name           fields/trace:field:*:0
  int-hex                integers printed in base 16                   fields/trace:field:*:<int fields>
  strs-comma             string slices joined by ", "                  fields/trace:field:TXT:Txt, ...
  nsec-numeric           type lists printed as numbers                 fields/trace:field:NSEC:TypeBitMap ...
  nsec-skip-first        type list drops its first element             fields/trace:field:*:TypeBitMap
  a-reversed             dotted quad in reverse order                  fields/trace:field:A:A, L32:Locator32
  aaaa-swap              the last two octets of an AAAA exchanged       fields/trace:field:AAAA:AAAA
  a16-first              a 16-octet IPv4 value shows its first 4 octets  fields/trace:field:A:A, L32:Locator32 (via build16)
  off-by-one             Field(rr, i) reads struct field i+1           everything
  no-panic               out-of-range index returns ""                 fields/trace:field:*:outside
"""
import os, json
import vp
from checks import c01


def mnemonic_class(e):
    k = "fields/trace:" + e["ev"] + ":" + e.get("key", "?")
    if e["ev"] == "field":
        t = bytes(e.get("text") or []).decode("latin1")
        if " Value>" in t:
            k += ":placeholder"
        elif e.get("key") == "AAAA:AAAA" and ":" not in t and t.count(".") == 3:
            k += ":v4mapped"
    return k


def run(ctx):
    binp = ctx.build("fields")
    lay = c01.layout(ctx)
    ctx.tlc("MC_Fields", workers=4, xmx="3g", timeout=1200)
    modes = [("types", 4, [0, 1, 2, 3]), ("gateway", 1, [0]), ("unknown", 1, [0]), ("svcb", 1, [0]), ("opts", 1, [0]), ("compress", 1, [0])]
    modes += [("cross", 4, [ctx.seed % 4])] if ctx.quick else [("cross", 4, [0, 1, 2, 3])]
    tier = 0 if ctx.quick else 1

    def one(mode, nsh, sh):
        r, _ = ctx.tlc_vectors("Gen_WireRR", workers=1, xmx="3g", timeout=3000, count=False,
                               consts={"Mode": '"%s"' % mode, "Tier": tier, "Shard": sh, "NShards": nsh})
        path = os.path.join(r.dir, "vectors.ndjson")
        if not os.path.exists(path):
            if nsh == 1:
                raise vp.Infra("Gen_WireRR mode %s produced no vectors" % mode)
            return
        out = os.path.join(ctx.out, "events-%s-%d.ndjson" % (mode, sh))
        s = ctx.run_json(binp, ["record", lay, path, out])
        vp.absorb(ctx, s, traces=False)
        os.remove(path)
        tr = ctx.tlc_trace("Trace_Fields", out, xmx="4g", timeout=3000)
        vp.absorb_trace(ctx, tr, vp.read_ndjson(out), mnemonic_class)
    vp.parallel([lambda m=m, n=n, sh=sh: one(m, n, sh) for m, n, shs in modes for sh in shs], maxpar=4)
    ctx.assumptions += [
        "the record values are those of Gen_WireRR's vector sets (C01): per type each-choice over the boundary values of every field",
        "AMBIG: the form of the text of APL / OPT / SVCB fields is not documented; demanded only: \"\" when empty, otherwise not empty and no reflect placeholder",
        "AMBIG: reserved type codes 0 and 65535 in a type list: any single word; other codes: the registered mnemonic or TYPEnnn",
        "AMBIG: the name form of a gateway that is no name: \"\" or \".\"",
        "records of the harness's private type (PrivateRR) and RDATA-less records are not in the universe",
    ]
    return ctx.finish(rule="events: NumField and Field(rr, i), i = -1..NumField+5, on every record of Gen_WireRR's modes types, cross, gateway, "
                      "unknown, svcb, opts, compress, each built two ways; distinct = types seen")


def replay(ctx, path):
    binp = ctx.build("fields")
    rp = json.load(open(path))
    e = rp["case"]["event"]
    # the event names the record only through (type, field value): regenerate the vector sets that contain the type
    lay = c01.layout(ctx)
    bad = False
    for mode in ("types", "gateway", "unknown", "svcb", "opts", "compress"):
        r, _ = ctx.tlc_vectors("Gen_WireRR", workers=4, xmx="3g", timeout=3000, count=False,
                               consts={"Mode": '"%s"' % mode, "Tier": 0, "Shard": 0, "NShards": 1})
        out = os.path.join(ctx.out, "events-%s.ndjson" % mode)
        ctx.run_json(binp, ["record", lay, os.path.join(r.dir, "vectors.ndjson"), out])
        evs = [x for x in vp.read_ndjson(out) if x["t"] == e["t"] and x["ev"] == e["ev"] and x.get("i") == e.get("i")]
        if not evs:
            continue
        tr = ctx.tlc_trace("Trace_Fields", evs, xmx="3g")
        if any(mnemonic_class(evs[i - 1]) == rp["key"] for i in (tr.bad or [])):
            bad = True
            break
    if bad:
        print("VIOLATION property=%s replay=%s" % (ctx.id, path))
        return 1
    print("replay: discrepancy no longer present")
    return 0
