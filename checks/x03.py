"""X03 (extra)  resolv.conf reading (ClientConfigFromReader) and ClientConfig.NameList.   spec/ClientConfig.tla

MC      MC_ClientConfig: the line machine on itself (every sequence of <= 2 (thorough 3) of 24 alphabet lines x 8
        AMBIG policies: ineffective lines can be dropped, last domain/search wins, clamps, split reading) and
        NameList over name shapes x ndots x search lists
GEN     Gen_ClientConfig "parse": every sequence of <= 3 lines of the alphabet (nameserver / domain / search /
        options ndots: timeout: attempts: with boundary numbers, comments `#' `;' glued or not, blank lines,
        leading white space, unknown keywords, a 70000-character comment) -> harness renders the text (two white
        space variants, with / without final newline), calls ClientConfigFromReader and requires the result to be
        one of the admissible configurations; + a reader that fails after k lines -> an error is required
        Gen_ClientConfig "names": 9 name shapes x 6 ndots x 7 search lists -> NameList
TV      `clientconfig record`: random files of up to 9 lines / random NameList calls -> Trace_ClientConfig

Findings on the unchanged tree (known-findings.d/X03.txt): read-error-swallowed, parse:long-line, namelist:search-root.

Mutants (checks/mutants/X03), all exit 1:
  ndots-clamp-16        ndots capped at 16 instead of 15            GEN clientconfig/parse:ndots
  ndots-off-by-one      NameList: CountLabel(name) >= Ndots          GEN clientconfig/namelist:order + TV
  domain-appends        `domain' appends to the search list          GEN clientconfig/parse:search + TV
  search-first-only     `search' keeps only the first element        GEN clientconfig/parse:search + TV
  timeout-floor         timeout:0 stays 0                            GEN clientconfig/parse:timeout
  comment-hash-keyword  a leading `#' is stripped before matching    GEN clientconfig/parse:servers + TV
  fq-still-searched     NameList appends the search list to a fully qualified name   GEN clientconfig/namelist:length + TV
"""
import os, json
import vp


def gen(ctx, binp, mode, n, nshards, shards):
    def one(sh):
        r, vecs = ctx.tlc_vectors("Gen_ClientConfig", workers=1, xmx="2g", timeout=1200,
                                  consts={"Mode": '"%s"' % mode, "N": n, "Shard": sh, "NShards": nshards})
        path = os.path.join(r.dir, "vectors.ndjson")
        if not os.path.exists(path):
            raise vp.Infra("Gen_ClientConfig %s produced no vectors" % mode)
        vp.absorb(ctx, ctx.run_json(binp, ["replay", path]))
    vp.parallel([lambda sh=sh: one(sh) for sh in shards], maxpar=4)


def keyfn(e):
    if e["ev"] == "names":
        return "clientconfig/trace:names" + (":search-root" if any(t["labels"] == [] for t in e["search"]) else "")
    return "clientconfig/trace:parse"


def tv(ctx, binp, n, nproc):
    def one(k):
        out = os.path.join(ctx.out, "trace-%d.ndjson" % k)
        s = ctx.run_json(binp, ["record", out, str(n)], env={"VERIF_SEED": str(ctx.seed * 1000 + k)})
        vp.absorb(ctx, s, traces=False)
        tr = ctx.tlc_trace("Trace_ClientConfig", out, xmx="2g", timeout=1800)
        evs = vp.read_ndjson(out)
        vp.absorb_trace(ctx, tr, evs, keyfn)
    vp.parallel([lambda k=k: one(k) for k in range(nproc)], maxpar=4)


def run(ctx):
    binp = ctx.build("clientconfig")
    if ctx.quick:
        ctx.tlc("MC_ClientConfig", consts={"MaxLines": 2}, workers=2, xmx="2g", timeout=900)
        gen(ctx, binp, "parse", 3, 2, [0, 1])
        gen(ctx, binp, "names", 0, 1, [0])
        tv(ctx, binp, 2500, 2)
    else:
        ctx.tlc("MC_ClientConfig", consts={"MaxLines": 3}, workers=4, xmx="3g", timeout=1800)
        gen(ctx, binp, "parse", 3, 4, [0, 1, 2, 3])
        gen(ctx, binp, "names", 0, 1, [0])
        tv(ctx, binp, 10000, 4)
    ctx.assumptions += [
        "AMBIG, all readings admitted: timeout/attempts above 30/5 capped (resolv.conf(5)) or kept; a bare `domain'/`search' empties the list or is ignored; "
        "a keyword after leading white space counts or not; the root in the search list yields the name again or nothing",
        "option values are decimal integers (ndots:x and the like are outside the universe); `#' / `;' only in the first column (trailing comments are values, as in resolv.conf(5))",
        "the empty string is not a name for NameList",
    ]
    return ctx.finish(rule="vectors: every sequence of <= 3 of 24 alphabet lines, each rendered twice (white space / final newline variants) "
                      "+ reader failures after 0..1 lines; 9 names x 6 ndots x 7 search lists; events: random files <= 9 lines, random "
                      "NameList calls. distinct = distinct rendered texts / NameList inputs")


def replay(ctx, path):
    binp = ctx.build("clientconfig")
    rp = json.load(open(path))
    case = rp["case"]
    if "event" in case:      # redo the recorded inputs against the real code, then let TLC judge the fresh observation
        pin, pout = os.path.join(ctx.out, "event-in.ndjson"), os.path.join(ctx.out, "event-out.ndjson")
        vp.write_ndjson(pin, [case["event"]])
        s = ctx.run_json(binp, ["reexec", pin, pout])
        tr = ctx.tlc_trace("Trace_ClientConfig", pout)
        bad = bool(tr.bad) or not tr.accepted or bool(s["mismatches"])
    else:
        p = os.path.join(ctx.out, "one.ndjson")
        vp.write_ndjson(p, [case])
        s = ctx.run_json(binp, ["replay", p])
        bad = any(m["key"] == rp["key"] for m in s["mismatches"])
    if bad:
        print("VIOLATION property=%s replay=%s" % (ctx.id, path))
        return 1
    print("replay: discrepancy no longer present")
    return 0
