"""C15  Zone transfers deliver the zone exactly, stop at the right SOA, hide no error.

MC      MC_Xfr (Xfr.tla on itself): every AXFR / IXFR stream of the bounded universe (single SOA, AXFR-style,
        1-2 difference sequences; serial pairs incl. RFC 1982 wrap-around) x every composition into envelopes
        x TSIG on/off x <= 1 fault (nosoa, rcode, id, close, cut, alter, unsign, wrongkey, drop, dup, swap; MAC field
        emptied / cut to 1, 9, 10 octets / extended = error, cut to half or by one octet = AMBIG, RFC 8945 5.2.2.1)
        x optional envelope after the end: the end point is unique (no proper prefix of a complete transfer is
        complete); the receiver machine (first, n, axfr, serial, macPrev, timersOnly) stops exactly where the
        grammar says; no fault => everything delivered, no error, nothing read past the closing SOA;
        fault => error, never "complete", exactly the envelopes before the fault delivered.  The consumer of the
        channel is a process of its own (Consumer = TRUE: actions Recv / Consume / Close): however slow it is, it
        holds every delivered envelope and the error when the channel closes (Handoff).
        Faults on signed transfers include hdrid: header ID rewritten after signing, original ID kept (MAC still
        verifies, the ID check must not).
        Time (Xfr!Late, TimeoutTicks): every envelope has a gap, the time the receiver waits for it; ReadTimeout bounds
        the wait for ONE envelope (fault "stall": a gap beyond it = the stream ended early, error), never the transfer:
        variant "paced" = every envelope 2 ticks after the previous one under a timeout of 3 ticks is a clean transfer.
        Names (Xfr!Spellings): the zone name spelled in another letter case in the query / in the owner names of the
        answer (RFC 4343) -- variants of every fault-free behaviour on which nothing depends.
        Serial rows 8-10: the server's serial wrapped to exactly 0 / the client's is 0 / both (the zero value of a
        counter is a serial like any other).
        Constant Focus: "base" = the faults without variants and stalls (the big quick universes, as before),
        "variants" = fault-free behaviours x all variants + stall + nosoa (small: quick stage VARQ, serial rows 1, 8, 10),
        "all" = both (thorough MC).  Quick: GEN stages VARQ (one shard of 4) and ZERO (the faults at serial 0, rows 8 and 10,
        MaxRecs 1, no TSIG); thorough: VART (MaxRecs 2, rows 1, 2, 8, 9, 10) and ZEROT (MaxRecs 2, rows 8-10, TSIG on/off).
GEN     Gen_Xfr (= MC_Xfr with EmitBehaviours, sharded, invariants on) exports every behaviour with the expected observation -> `xfr replay`: envelopes
        framed with the real Pack (+ real TsigGenerate chain) onto a scripted in-memory connection (closed or
        silent at the end; cut at 5 octet positions), real Transfer.In, channel drained: records per envelope,
        error, channel closed, connection closed, octets left unread.  Every behaviour is delivered as fed, one
        octet per read, and with a segment boundary between the two length octets of every envelope; a sample
        with one boundary at EVERY stream offset; a sample with the first / middle / last envelope padded (filler
        TXT in the additional section) to exactly 4095, 4096, 4097, 16383, 16384, 16385, 65534 and 65535 wire
        octets; envelopes after the first without question section / with two questions (RFC 5936 2.2.2), a third
        of the runs each; a sample run with ReadTimeout 40 ms and a consumer pausing 300 ms after its k-th envelope, every k.
        Paced / stalled behaviours run on a virtual clock (timedConn in the harness: a Read that has to wait moves the
        clock to the arrival of the frame or to the read deadline, whichever comes first; a tick is a minute, nothing
        sleeps): ReadTimeout = TimeoutTicks ticks.  The query names the zone in the spelling sq, the answer's owner
        names are spelled sa and must be delivered so.
TV in   `xfr record in`: random transfers beyond the bounds (<= 40 records, <= 5 difference sequences, empty
        envelopes, <= 2 faults) -> Trace_Xfr predicts the observation.  One transfer in three on the virtual clock
        (random gaps 0..2 ticks per envelope, stalls of 4 / 5 / 9 / 1000 ticks), random spellings of the zone name in
        query and answer, one in twelve with a server / client serial of exactly 0.
TV out  `xfr record out`: real dns.Server on an in-memory listener, handler = Transfer.Out, one to three requests
        (signed / wrong secret / unsigned; one in three with an EDNS0 OPT record, some with a cookie option, before the
        TSIG) back to back on every connection -> Trace_Xfr (wire =
        chunks fed, IDs, complete exactly at the last envelope, every envelope signed for a verified request) and
        Trace_Tsig + `tsig judge` (every MAC = HMAC over the specification's digest input chained on the previous
        MAC, timers only from the 2nd envelope, every answer validated from scratch on the MAC of its own request;
        TsigStatus of the request; single-bit alterations of the envelopes verified as Transfer.ReadMsg would).
        Transfers with an envelope of ninety 800-octet records (> 64 KiB): Out reports an error or every record arrives.
        One transfer whose last envelope is handed over 2.1 s late: the time signed of every envelope is not more than
        a second older than its hand-over (Tsig!SignedNotBefore).

Finding shared with C11, repaired in /repo by c2100c2: tsig/verify:accepts-invalid:tsig-class-altered (the class of the
TSIG record was not covered by the MAC; seen on the first envelope of signed transfers in TV out).

Findings of this check on the pinned tree, since repaired in /repo (`fixed:` in known-findings.txt; the keys are
still computed, so a regression is reported under the same name):
  xfr/in-axfr:rcode-not-reported:envelope>1                                  (fix 6af98ba)
      AXFR [SOA(s)] [Rec, RCODE=SERVFAIL] [SOA(s)] -> three envelopes delivered, no error (statement: "reports an
      error instead when ... the RCODE is non-zero")
  xfr/in-ixfr:incomplete-reported-complete:client-serial-numerically>=server (fix a3ad563)
      IXFR, client serial 4294967295, server [SOA(5)] [Rec] [SOA(5)] -> stopped after the first envelope, no error
  xfr/in-ixfr:uptodate-answer-not-recognised:client-serial-numerically<server (fix a3ad563)
      IXFR, client serial 5, server answers [SOA(4294967295)] alone -> error after the envelope (kept reading)

Reproduction vectors (one line each in a file, `out/C15.quick/bin/xfr replay <file>`; or as the "case" of a replay
file for `bin/check C15 --replay`):
  {"kind":"xfr","mode":"axfr","q":[0,0],"R":[[1,0,3],[0,1],[1,0,3]],"lens":[1,1,1],"tsig":false,"fault":{"kind":"rcode","pos":2},"tail":false,"delivered":[[[1,0,3]]],"err":true,"used":2}
  {"kind":"xfr","mode":"ixfr","q":[65535,65535],"R":[[1,0,5],[0,1],[1,0,5]],"lens":[1,1,1],"tsig":false,"fault":{"kind":"none","pos":0},"tail":false,"delivered":[[[1,0,5]],[[0,1]],[[1,0,5]]],"err":false,"used":3}
  {"kind":"xfr","mode":"ixfr","q":[0,5],"R":[[1,65535,65535]],"lens":[1],"tsig":false,"fault":{"kind":"none","pos":0},"tail":false,"delivered":[[[1,65535,65535]]],"err":false,"used":1}

Mutants (checks/mutants/C15, each must give exit 1):
  soalast-first-envelope-only   GEN (error-on-clean-transfer / fault-not-reported), TV in
  ixfr-n3-to-n2                 GEN (incremental streams whose last SOA is in a later envelope), TV in
  tsig-skipped-when-unsigned    GEN (fault-not-reported:unsign), TV in
  id-check-removed              GEN (fault-not-reported:id), TV in
  timersonly-never-set          GEN (error-on-clean-transfer with TSIG, >= 2 envelopes), C11 CHAINS
  out-timersonly-not-set        TV out (tsig judge: accepts-invalid:mac:server-out)
  rcode-ixfr-first-only         GEN (fault-not-reported:rcode in IXFR)
  axfr-rcode-first-envelope-only  (reverts fix 6af98ba) GEN (rcode-not-reported:envelope>1)
  ixfr-serial-integer-compare     (reverts fix a3ad563) GEN (incomplete-reported-complete / uptodate-answer-not-recognised)
  mac-truncation-accepted         (seeded change C15-2) GEN (fault-not-reported:macempty / mac1 / mac9 / mac10), TV in
  readmsg-small-buffer-retry      (seeded change C15-8: envelopes > 4096 octets mis-read) GEN (padded-envelope sample), TV in
  id-check-uses-origid            (seeded change C15-10) GEN (fault-not-reported:hdrid), TV in
  timed-handoff-drops-envelopes   (seeded change C15-11) GEN slow-consumer sample (xfr/in-slow-consumer-*), TV in
  frame-size-off-by-one           (seeded change C15-12) GEN (65535-octet envelopes), TV in
  out-truncates-big-envelope      (seeded change C15-13) TV out (Trace_Xfr: wire # chunks without an error from Out)
  striptsig-assumes-one-question  (seeded change C15-14) GEN (error-on-clean-transfer with later-questions "none" / "two", TSIG on), TV in
  out-shared-tsig-stub            (seeded change C15-15) TV out (tsig judge: tsig/sign:stale-time-signed:server-out)
  length-prefix-single-read       (seeded change C15-9) GEN ("prefix" / "byte" segmentation of every behaviour), TV in
  read-deadline-once              (seeded change C15-16: deadline armed once per transfer) GEN VARQ (error-on-clean-transfer:none:paced-sender), TV in
  out-opt-after-tsig              (seeded change C15-19: OPT appended after the TSIG stub, envelopes leave unsigned) TV out (Trace_Xfr: fewer
                                  signed envelopes than envelopes for a verified request; tsig judge)
  ixfr-first-by-serial-zero       (seeded change C15-20: serial == 0 as "first message") GEN VARQ (error-on-clean-transfer:none:server-serial-0 /
                                  records-differ), TV in
  zone-soa-case-sensitive         (seeded change C15-21: SOA owner compared with the query name as Go strings) GEN VARQ
                                  (error-on-clean-transfer:none:zone-name-case), TV in
  server-timersonly-not-reset     (seeded change C15-3) TV out (tsig judge: accepts-invalid:mac:server-out on the 2nd answer of a connection)
"""
import os, json
import vp

PAR = int(os.environ.get("VERIF_PAR", "8"))     # parallel TLC / harness processes per stage
from checks import c11

QUICK = {"MaxRecs": 2, "SerialIds": "{1, 2, 3, 4}", "TsigModes": "{FALSE, TRUE}", "Empties": "FALSE"}
SMALL = {"MaxRecs": 1, "SerialIds": "{2, 3, 4}", "TsigModes": "{FALSE, TRUE}", "Empties": "FALSE"}
EMPTQ = {"MaxRecs": 1, "SerialIds": "{1}", "TsigModes": "{FALSE, TRUE}", "Empties": "TRUE"}
EMPT = {"MaxRecs": 1, "SerialIds": "{1, 3, 5, 7}", "TsigModes": "{FALSE, TRUE}", "Empties": "TRUE"}
FULL = {"MaxRecs": 3, "SerialIds": "{1, 2, 3, 4, 5, 6, 7}", "TsigModes": "{FALSE, TRUE}", "Empties": "FALSE"}
# fault-free behaviours in every variant (zone name spelled differently in query / answer, pacing sender), stalls, and the
# serial cases with a serial of exactly 0 -- without the other faults this universe is small
VARQ = {"MaxRecs": 1, "SerialIds": "{1, 8, 10}", "TsigModes": "{FALSE, TRUE}", "Empties": "FALSE", "Focus": '"variants"'}
ZERO = {"MaxRecs": 1, "SerialIds": "{8, 10}", "TsigModes": "{FALSE}", "Empties": "FALSE", "Focus": '"base"'}
# thorough: the same two universes, larger
VART = {"MaxRecs": 2, "SerialIds": "{1, 2, 8, 9, 10}", "TsigModes": "{FALSE, TRUE}", "Empties": "FALSE", "Focus": '"variants"'}
ZEROT = {"MaxRecs": 2, "SerialIds": "{8, 9, 10}", "TsigModes": "{FALSE, TRUE}", "Empties": "FALSE", "Focus": '"base"'}
for _c in (QUICK, SMALL, EMPTQ, EMPT, FULL):
    _c["Focus"] = '"base"'


def mc(ctx, consts, workers=4):
    c = dict(consts)
    c.update({"EmitBehaviours": "FALSE", "Consumer": "TRUE", "Shard": 0, "NShards": 1})
    ctx.tlc("MC_Xfr", workers=workers, xmx="4g", timeout=3000, consts=c)


def gen(ctx, binp, consts, nshards, shards):
    def one(sh):
        c = dict(consts)
        c.update({"Shard": sh, "NShards": nshards})
        r, _ = ctx.tlc_vectors("Gen_Xfr", workers=1, xmx="3g", timeout=6000, consts=c)
        path = os.path.join(r.dir, "vectors.ndjson")
        if not os.path.exists(path):
            raise vp.Infra("Gen_Xfr shard %d exported no behaviour" % sh)
        s = ctx.run_json(binp, ["replay", path], timeout=6000)
        vp.absorb(ctx, s)
        os.remove(path)     # tens of MB per shard
    vp.parallel([lambda sh=sh: one(sh) for sh in shards], maxpar=PAR)


def tv_in(ctx, binp, n, nproc):
    def one(k):
        out = os.path.join(ctx.out, "in-%d.ndjson" % k)
        s = ctx.run_json(binp, ["record", "in", out, str(n)], env={"VERIF_SEED": str(ctx.seed * 1000 + k)})
        vp.absorb(ctx, s, traces=False)
        tr = ctx.tlc_trace("Trace_Xfr", out, xmx="3g", timeout=3000)
        evs = vp.read_ndjson(out)
        vp.absorb_trace(ctx, tr, evs, lambda e: "xfr/trace-in:" + e.get("mode", "?"),
                        what="Transfer.In observation differs from the specification's receiver")
    vp.parallel([lambda k=k: one(k) for k in range(nproc)], maxpar=PAR)


def tv_out(ctx, binp, tsigbin, n, nproc):
    def one(k):
        out = os.path.join(ctx.out, "out-%d.ndjson" % k)
        s = ctx.run_json(binp, ["record", "out", out, str(n)], env={"VERIF_SEED": str(ctx.seed * 1000 + 500 + k)})
        vp.absorb(ctx, s, traces=False)
        tr = ctx.tlc_trace("Trace_Xfr", out + ".xfr", xmx="3g", timeout=3000)
        evs = vp.read_ndjson(out + ".xfr")
        vp.absorb_trace(ctx, tr, evs, lambda e: "xfr/trace-out", what="Transfer.Out observation rejected by the specification")
        c11.judge_trace(ctx, tsigbin, out, keyprefix="xfr/trace-out-tsig:")
    vp.parallel([lambda k=k: one(k) for k in range(nproc)], maxpar=PAR)


def run(ctx):
    c11.safe(ctx)
    binp = ctx.build("xfr")
    tsigbin = ctx.build("tsig")
    if ctx.quick:
        sh = [(ctx.seed + 5 * i) % 16 for i in range(3)]
        vp.parallel([
            lambda: mc(ctx, SMALL),
            lambda: gen(ctx, binp, QUICK, 16, sh),
            lambda: gen(ctx, binp, EMPTQ, 4, [ctx.seed % 4]),
            lambda: gen(ctx, binp, VARQ, 4, [ctx.seed % 4]),
            lambda: gen(ctx, binp, ZERO, 2, [ctx.seed % 2]),
            lambda: tv_in(ctx, binp, 400, 2),
            lambda: tv_out(ctx, binp, tsigbin, 40, 1),
        ])
    else:
        mc(ctx, dict(QUICK, Focus='"all"'), workers=8)
        gen(ctx, binp, FULL, 32, range(32))
        gen(ctx, binp, EMPT, 8, range(8))
        gen(ctx, binp, VART, 8, range(8))
        gen(ctx, binp, ZEROT, 8, range(8))
        tv_in(ctx, binp, 3000, 12)
        tv_out(ctx, binp, tsigbin, 300, 4)
    ctx.assumptions += [
        "streams are valid transfers of their kind (plus at most one fault / one extra envelope); a closing SOA whose serial "
        "differs from the opening one and records after the closing SOA inside its envelope are outside the universe",
        "serial pairs at distance exactly 2^31 (RFC 1982: undefined) are outside the universe",
        "the first envelope is never empty; empty envelopes in the middle are delivered as empty envelopes",
        "TSIG: every envelope is signed (what the library sends and demands); a correctly chained envelope under another key "
        "the receiver also knows is not treated as a fault (RFC 8945 5.3 demands the same key; the statement says 'wrongly keyed')",
        "the records of an error envelope are not compared",
        "HMAC values: crypto/hmac over the specification's digest input (C11)",
    ]
    return ctx.finish(rule="behaviours: one per (stream, partition, TSIG, fault, tail) of MC_Xfr, each replayed with the connection "
                      "closed and silent at the end (cut faults: 5 octet positions); distinct = distinct behaviours; events: one per "
                      "random transfer (in) / per server-side transfer and per envelope on the wire (out)")


def replay(ctx, path):
    c11.safe(ctx)
    rp = json.load(open(path))
    case = rp["case"]
    if isinstance(case, dict) and "event" in case:
        ev = case["event"]
        tr = ctx.tlc_trace("Trace_Xfr", [ev])
        bad = bool(tr.bad) or not tr.accepted
    elif isinstance(case, dict) and case.get("ev") in ("verify", "env"):
        return c11.replay(ctx, path)
    else:
        binp = ctx.build("xfr")
        p = os.path.join(ctx.out, "one.ndjson")
        vp.write_ndjson(p, [case])
        s = ctx.run_json(binp, ["replay", p])
        bad = any(m["key"] == rp["key"] for m in s["mismatches"])
    if bad:
        print("VIOLATION property=%s replay=%s" % (ctx.id, path))
        return 1
    print("replay: discrepancy no longer present")
    return 0
