"""C07  Parsing hostile zone text is safe, bounded, opens no files unless allowed.

MC      MC_Present (which texts are lexically ill-formed: lexer total, classification equals an
        independent count of live quotes / parentheses); MC_Zone safety side: the error is sticky (no
        record, no Open after it), Open only when includes are allowed, a self-including file ends in
        an error within MaxDepth Opens, nested $GENERATE rejected, at most MaxGen records per $GENERATE.
GEN     Gen_Present: every string of length <= n over {a SP LF " ( ) ; \\ $ NUL .} (quick n = 5,
        thorough n = 6 and 12 of the 121 shards of n = 7) with the specification's classification
        -> harness `zone replay` under two configurations: termination (wall-clock budget, a time-out
        counts only if it reproduces three times), no panic, after the first (nil,false) Next keeps
        returning (nil,false) and Err stays the same error, errors are *dns.ParseError naming file (when
        one was given), line >= 1 and column (read from Error(): the type exports no accessor), no Open
        when includes are off, TotalAlloc <= 2048 len + 4 MiB (sampled), and: lexically ill-formed
        (unbalanced ")", "(" open at the end, unterminated quote; not `odd') => an error is reported.
        Gen_Zone "seq" N = 1: every line shape alone under every configuration (include disallowed /
        missing file / self-include / nested $GENERATE / bad range expected as errors by the spec).
TV      harness `zone hostile`: structured families ($INCLUDE in all 128 case variants x whitespace with
        includes disabled, look-alikes, the real file system behind an include FS, self / mutual include,
        chains 1..12, $GENERATE expanding to $GENERATE, ranges around 65535/65536, malformed modifiers,
        tokens / comments / parenthesised runs of 511..10^6 octets) observed under recover(); `zone prefixes`:
        every prefix (cut after every character) of every record text of harness/lib/zoo (77 RR types, ~19.6 k
        texts: as is, + newline, and at token boundaries + blank / parenthesis / comment / quote) through
        NewZoneParser(...).Next() and dns.ReadRR under the same guards (all of them in both tiers: 3 s); `zone insertions`:
        " )", " (", ")", "(", " ( ", " ) (", an unterminated quote, " ( )", " ;)" inserted at every token boundary of the RDATA
        of every zoo record + a second record (and a lone backslash / open parenthesis at end of input): ~4 k texts,
        classified by Gen_Present (Mode "file"), replayed like the generated texts: ill-formed => an error is due;
        every parse runs under a hang watchdog (20 s, re-run up to 3 times in fresh goroutines; a reproducible hang is
        recorded as zone/hostile:hang:<family>[:<TYPE>] and the harness process then ends, skipping its remaining cases);
        $GENERATE widths 3..3000000 with the allocation guard and the spec's verdict (width <= 255); the histories
        next -> rr | err | eof, open(path) of those runs and of a sample of the generated texts are
        validated by Trace_Zone's sticky-error machine (blocking), io-error family: the zone's reader / an included file / a file
        included at depth 2 / a 3 KiB include fails with an I/O error after k bytes (every k for the small ones), a directory as
        include target; the injecting wrapper logs `readfail', after which the machine admits only next -> err; and wherever a family text spells
        abstract lines the per-line events are judged by Zone.tla (error due or not, records).

Mutants (checks/mutants/C07/*.diff, run like C06's; exit 1 with seed 1 unless noted):
  include-gate-after-open          includeAllowed tested after the Open      families (harness: open-when-disallowed) + Trace_Zone (zone/sticky:open:) + Gen_Zone shapes
  include-depth-limit-removed      no maxIncludeDepth                        families self/mutual/chain: zone/hostile:opens>64 (the FS wrapper refuses after 200 Opens so that
                                                                             the process survives), Trace_Zone chain bound, zone/accepts:include (spec: self-include must fail)
  generate-nesting-not-propagated  sub-parser of $GENERATE may $GENERATE     families nested-generate (TLC confirms the text is a nested $GENERATE): ill-formed-accepted:nested-generate
  generate-range-guard-off-by-one  0-65536 accepted                          families generate: zone/hostile:gen>65536; Gen_Zone "gen"/shapes in C06: zone/accepts:generate:range>65536
  parse-error-not-sticky           Next goes on after an error               harness (not-sticky) + Trace_Zone (zone/sticky:next:rr, :next:err)
  lexer-error-not-sticky           zlexer.Next goes on after l.err           prefixes: zone/hostile:hang:prefix:APL (= seeded C07-4: with "(" open at end of input the lexer returns
                                                                             its error token for ever and the APL / SVCB rdata loops never end) -- I had first judged this
                                                                             mutant unobservable; the hang watchdog ends the harness process after reporting
  seeded C07-14 (buffer growth check split by comment state: com[512] written)   families buffer-boundary: zone/hostile:panic
  seeded C07-7 (I/O error of an included file's reader dropped by subNext)  families io-error: zone/hostile:io-error-lost:include, :nested, :include-big, :directory
  seeded C07-2 (LOC altitude indexes an empty token at end of input)         prefixes: zone/hostile:panic:prefix:LOC
  seeded C07-5 (endingToTxtSlice ignores l.err)                              insertions: zone/hostile:ill-formed-accepted:close:TXT etc.
  seeded C07-6 ($GENERATE width parsed with Atoi)                            families generate-width: zone/hostile:alloc:generate (12 MB for a 60-octet zone); zone/hostile-line:generate:generate-width (spec: width > 255 is an error)

Findings on the unchanged tree: known-findings.d/C07.txt.
"""
import os, json, random
import vp
from checks import c06


SAFETY_SHAPES = "{1,2,6,19,22,24,25,26,30,31,34,35}"


def sticky_key(e):
    if e.get("ev") == "line":
        return "zone/hostile-line:" + e["line"]["k"] + (":" + e["fam"] if e.get("fam") else "")
    if e.get("ev") in ("spell", "illtext"):
        return "INFRA"
    return "zone/sticky:%s:%s" % (e.get("ev"), e.get("res", ""))


def validate(ctx, path, what):
    if not os.path.exists(path) or os.path.getsize(path) == 0:
        return
    tr = ctx.tlc_trace("Trace_Zone", path, xmx="4g", timeout=3000)
    evs = vp.read_ndjson(path)
    for i in (tr.bad or []):
        if sticky_key(evs[i - 1]) == "INFRA":
            raise vp.Infra("harness %s: text is not what the harness says it spells (harness bug): %s" % (what, json.dumps(evs[i - 1])[:500]))
    if not tr.accepted and tr.rejected_at and tr.rejected_at <= len(evs):
        # blocking event: add the run it belongs to, for the reader of the replay file
        j = tr.rejected_at - 1
        k = j
        while k > 0 and evs[k]["ev"] != "parser":
            k -= 1
        key = sticky_key(evs[j])
        if any(e.get("ev") == "readfail" for e in evs[k:j + 1]):
            key += ":after-readfail"
        ctx.candidate(key, "history rejected by the sticky-error machine at event %d" % tr.rejected_at,
                      {"history": evs[k:j + 1][-12:], "family": what})
        with vp._lock:
            ctx.traces += max(0, (tr.hwm or 0))
        return
    vp.absorb_trace(ctx, tr, evs, sticky_key, what="per-line events of a hostile family rejected by Zone.tla")


def texts(ctx, binp, n, nshards, shards, par=4):
    def one(sh):
        r, _ = ctx.tlc_vectors("Gen_Present", workers=1 if nshards > 1 else 4, xmx="3g", timeout=3000,
                               consts={"N": n, "Shard": sh, "NShards": nshards, "Mode": '"enum"'})
        path = os.path.join(r.dir, "vectors.ndjson")
        hist = os.path.join(r.dir, "history.ndjson")
        s = ctx.run_json(binp, ["replay", path, "", hist], timeout=3000)
        vp.absorb(ctx, s)
        os.remove(path)          # hundreds of MB in the thorough tier
        validate(ctx, hist, "generated text")
    vp.parallel([lambda sh=sh: one(sh) for sh in shards], maxpar=par)


SAFETY_KEYS = ("zone/accepts:", "zone/panic", "zone/timeout", "zone/open-when-disallowed", "zone/generate:more-than-65536",
               "zone/hostile:", "zone/sticky:")


def shapes(ctx, binp):
    """Every line shape alone under every configuration: only the safety side counts here (a line the spec refuses --
    include not allowed, missing file, self-include, nested $GENERATE, bad range -- must be refused); what the
    accepted lines denote is C06's business."""
    r, _ = ctx.tlc_vectors("Gen_Zone", workers=1, xmx="3g", timeout=1200,
                           consts=dict(c06.CONSTS, Mode='"seq"', N=1, Shard=0, NShards=1))
    s = ctx.run_json(binp, ["replay", os.path.join(r.dir, "vectors.ndjson")], timeout=1200)
    s["mismatches"] = [m for m in s["mismatches"] if m["key"].startswith(SAFETY_KEYS)]
    s.get("notes", {}).pop("mismatch_counts", None)
    vp.absorb(ctx, s)


def prefixes(ctx, binp):
    """Every truncation point of every record text of harness/lib/zoo (~80 RR types), see cmd/zone/prefixes.go."""
    out = os.path.join(ctx.out, "prefixes.ndjson")
    s = ctx.run_json(binp, ["prefixes", out], timeout=3000)
    vp.absorb(ctx, s)
    validate(ctx, out, "record prefix")
    return s


def insertions(ctx, binp):
    """A stray parenthesis / unterminated quote / lone backslash inserted at every token boundary of the RDATA of every
    zoo record, followed by a second record.  The harness only writes the texts; Gen_Present classifies them (an
    insertion may fall inside a quoted string); lexically ill-formed => the parser must report an error (the pinned
    failure mode: the record is returned, Err() is nil and the rest of the zone is lost)."""
    tx = os.path.join(ctx.out, "insertion-texts.ndjson")
    s0 = ctx.run_json(binp, ["insertions", tx], timeout=600)
    r, _ = ctx.tlc_vectors("Gen_Present", workers=2, xmx="3g", timeout=3000, files={"texts.ndjson": open(tx).read()},
                           consts={"N": 0, "Shard": 0, "NShards": 1, "Mode": '"file"'})
    path = os.path.join(r.dir, "vectors.ndjson")
    hist = os.path.join(r.dir, "history.ndjson")
    s = ctx.run_json(binp, ["replay", path, "", hist], timeout=3000)
    s.setdefault("notes", {})["insertion_texts"] = s0["notes"]["texts"]
    vp.absorb(ctx, s)
    validate(ctx, hist, "insertion text")


def families(ctx, binp):
    out = os.path.join(ctx.out, "families.ndjson")
    s = ctx.run_json(binp, ["hostile", out], timeout=3000)
    vp.absorb(ctx, s)
    vp.parallel([lambda: validate(ctx, out, "family"), lambda: validate(ctx, out + ".io", "io-error family")])
    return s


def run(ctx):
    c06.serialise_scratch(ctx)
    binp = ctx.build("zone")
    rnd = random.Random(ctx.seed)
    if ctx.quick:
        vp.parallel([
            lambda: ctx.tlc("MC_Present", consts={"StrLen": 5, "OctLen": 3}, workers=3, timeout=900),
            lambda: ctx.tlc("MC_Zone", consts=dict(MaxLines=2, ShapeSet=SAFETY_SHAPES, PolSet="{0, 15}"), workers=3, timeout=900),
            lambda: texts(ctx, binp, 5, 1, [0]),
            lambda: shapes(ctx, binp),
            lambda: families(ctx, binp),
            lambda: prefixes(ctx, binp),
            lambda: insertions(ctx, binp),
        ])
    else:
        vp.parallel([
            lambda: ctx.tlc("MC_Present", consts={"StrLen": 6, "OctLen": 4}, workers=4, timeout=1800),
            lambda: ctx.tlc("MC_Zone", consts=dict(MaxLines=3, ShapeSet=SAFETY_SHAPES, PolSet="{0, 15}"), workers=4, timeout=3000),
            lambda: shapes(ctx, binp),
            lambda: families(ctx, binp),
            lambda: prefixes(ctx, binp),
            lambda: insertions(ctx, binp),
        ])
        texts(ctx, binp, 6, 11, range(11), par=11)
        texts(ctx, binp, 7, 121, rnd.sample(range(121), 12), par=12)
    ctx.assumptions += [
        "allocation bound: TotalAlloc delta <= 2048 x len + 4 MiB (+ 16 KiB per generated record), measured around the whole parse including the harness' own record copies",
        "a time-out (20 s per text, 60 s per family case) is reported only when it reproduces three times in a row",
        "ParseError exposes no accessors: file, line and column are read from Error() ('<file>: dns: ... at line: L:C')",
        "lexical ill-formedness is asserted only for unbalanced ')' , '(' open at end of text, unterminated quote, and not for texts using escapes RFC 1035 leaves undefined",
        "include depth: at least 3 levels work, at most 64 Opens on a chain of nested includes (the property fixes no number)",
    ]
    return ctx.finish(rule="vectors: every text over an 11-character alphabet up to length n with its lexical classification, run under 2 configurations; "
                      "families: ~700 structured hostile cases; events: next/open histories (all families + 1/61 of the texts) through the sticky-error machine, "
                      "per-line events of family texts through Zone.tla. non-trivial = texts that are lexically ill-formed (an error is required) + family cases",
                      confirm=lambda c: confirm(ctx, binp, c))


def rerun(ctx, binp, case):
    if "cfg" in case and "lines" in case:
        return [m for m in c06.rejudge(ctx, binp, {"cfg": case["cfg"], "lines": case["lines"]}) if m["key"].startswith(SAFETY_KEYS)]
    if "text" in case and "ill" in case:      # a generated text with its classification
        p = os.path.join(ctx.out, "one.ndjson")
        vp.write_ndjson(p, [dict(case, kind="text")])
        return ctx.run_json(binp, ["replay", p])["mismatches"]
    out = os.path.join(ctx.out, "families-again.ndjson")
    s = ctx.run_json(binp, ["prefixes" if str(case.get("family", "")).startswith("prefix:") else "hostile", out])
    ms = list(s["mismatches"])
    sub = vp.Ctx.__new__(vp.Ctx)
    sub.__dict__.update(ctx.__dict__)
    sub.cands = []
    validate(sub, out, "family")
    return ms + [{"key": c["key"]} for c in sub.cands]


def confirm(ctx, binp, c):
    return bool(rerun(ctx, binp, c["case"]))      # the discrepancy reproduces


def replay(ctx, path):
    c06.serialise_scratch(ctx)
    binp = ctx.build("zone")
    rp = json.load(open(path))
    if any(m["key"] == rp["key"] for m in rerun(ctx, binp, rp["case"])):
        print("VIOLATION property=%s replay=%s" % (ctx.id, path))
        return 1
    print("replay: discrepancy no longer present")
    return 0
