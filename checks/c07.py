"""C07  Parsing hostile zone text is safe, bounded, opens no files unless allowed.

MC      MC_Present (which texts are lexically ill-formed: lexer total, classification equals an
        independent count of live quotes / parentheses); MC_Zone safety side: the error is sticky (no
        record, no Open after it), Open only when includes are allowed, a self-including file ends in
        an error within MaxDepth Opens, nested $GENERATE rejected, at most MaxGen records per $GENERATE.
GEN     Gen_Present: every string of length <= n over {a SP LF " ( ) ; \\ $ NUL .} (quick n = 5,
        thorough n = 6 and 12 of the 121 shards of n = 7) with the specification's classification
        -> harness `zone replay` under two configurations: termination (wall-clock budget, a time-out
        counts only if it reproduces three times), no panic, after the first (nil,false) Next keeps
        returning (nil,false) and Err stays the same error, errors are *dns.ParseError naming file (when
        one was given), line >= 1 and column (read from Error(): the type exports no accessor), no Open
        when includes are off, TotalAlloc <= 2048 len + 4 MiB (sampled), and: lexically ill-formed
        (unbalanced ")", "(" open at the end, unterminated quote; not `odd') => an error is reported.
        Gen_Zone "ofile" (one run, three universes; the thorough tier adds every PAIR of the 12 safety shapes under every
        configuration): (a) every line shape alone under every configuration (include disallowed / missing file /
        self-include / nested $GENERATE / bad range expected as errors by the spec); (b) "error then more": each way abstract
        lines can make the parser fail ($INCLUDE of a missing file with / without origin argument, $GENERATE with a bad range /
        nested / with a malformed modifier / whose k-th record is bad, $INCLUDE while includes are off) at the top level, in an
        included file and in a file included from an included file, with a record before it and a record, a $INCLUDE, a
        $GENERATE and a record AFTER it in every file; (c) "any origin": the initial origin is TEXT (~60 strings: valid ones up to
        255 octets, empty labels, labels of 64, names of 256+, escapes, seeded random strings over {a . \\ 0 1 9 SP @}) and
        Zone!OriginOfText says whether the parser is in error before the first line (then: no record, no Open, whatever the
        zone says).  These vectors are replayed by a PERSISTENT consumer: after the first (nil, false) Next is called again
        until three calls in a row return nothing, and whatever it hands out counts as returned -- the vector's record list
        ("no further records once an error has occurred") judges it (zone/accepts:<kind of line>, zone/accepts:initial-origin).
TV      harness `zone hostile`: structured families ($INCLUDE in all 128 case variants x whitespace with
        includes disabled, look-alikes, the real file system behind an include FS, self / mutual include,
        chains 1..12, $GENERATE expanding to $GENERATE, ranges around 65535/65536, malformed modifiers,
        tokens / comments / parenthesised runs of 511..10^6 octets) observed under recover(); `zone prefixes`:
        every prefix (cut after every character) of every record text of harness/lib/zoo (77 RR types, ~19.6 k
        texts: as is, + newline, and at token boundaries + blank / parenthesis / comment / quote) through
        NewZoneParser(...).Next() and dns.ReadRR under the same guards (all of them in both tiers: 3 s); the same mode cuts the
        CONTROL ENTRIES ($GENERATE with ranges, steps, ${offset,width,base} modifiers in owner and RDATA templates, $$ and \\$, quoted
        and parenthesised RDATA; $ORIGIN, $TTL, $INCLUDE with and without origin argument) after every character, as they stand / + line
        end / + a record / + "${", "$", "}", a backslash (prefix:$GENERATE ...: an unterminated modifier at the end of the input, of
        the line, before a further token), and MUTATES every zoo record at token level (family mutate:<TYPE>): each token after the
        owner written twice / three times in a row, once more in the other case, left out, exchanged with or joined to its
        neighbour -- lists with a repeated member (type bit maps, SVCB keys, APL items, strings), a missing or misplaced
        item -- each followed by a valid record (~6 k texts); one history in ten goes to Trace_Zone; `zone insertions`:
        " )", " (", ")", "(", " ( ", " ) (", an unterminated quote, " ( )", " ;)" inserted at every token boundary of the RDATA
        of every zoo record + a second record (and a lone backslash / open parenthesis at end of input): ~4 k texts,
        classified by Gen_Present (Mode "file"), replayed like the generated texts: ill-formed => an error is due;
        every parse runs under a hang watchdog (20 s, re-run up to 3 times in fresh goroutines; a reproducible hang is
        recorded as zone/hostile:hang:<family>[:<TYPE>] and the harness process then ends, skipping its remaining cases);
        $GENERATE widths 3..3000000 with the allocation guard and the spec's verdict (width <= 255); the histories
        next -> rr | err | eof, open(path) of those runs and of a sample of the generated texts are
        validated by Trace_Zone's sticky-error machine (blocking) -- as are the histories of all the zone vectors above (parser
        events of the "any origin" vectors carry the origin text: with one Zone!OriginOfText refuses only next -> err is admitted);
        Err() is also asked before the first Next and after every record (`poll' events, logged when the answer changes): the machine
        is in the error state as soon as Err() shows an error, not only once Next has returned false; family error-then-more: 18 kinds of
        failing entry (syntax errors of each kind -- TLC confirms, ill = "bad", that an error is due --, lexical ones, $INCLUDE of a missing
        file / a directory / with garbage, the $GENERATE errors) at include depth 0 / 1 / 2 with records following in every file, and a
        $INCLUDE the real file system cannot open; io-error family: the zone's reader / an included file / a file
        included at depth 2 / a 3 KiB include fails with an I/O error after k bytes (every k for the small ones), a directory as
        include target, and TRANSIENT failures (the reader hands out the error once, between two entries, and would go on delivering);
        the injecting wrapper logs `readfail', after which the machine admits only next -> err; and wherever a family text spells
        abstract lines the per-line events are judged by Zone.tla (error due or not, records).

Mutants (checks/mutants/C07/*.diff, run like C06's; exit 1 with seed 1 unless noted):
  include-gate-after-open          includeAllowed tested after the Open      families (harness: open-when-disallowed) + Trace_Zone (zone/sticky:open:) + Gen_Zone shapes
  include-depth-limit-removed      no maxIncludeDepth                        families self/mutual/chain: zone/hostile:opens>64 (the FS wrapper refuses after 200 Opens so that
                                                                             the process survives), Trace_Zone chain bound, zone/accepts:include (spec: self-include must fail)
  generate-nesting-not-propagated  sub-parser of $GENERATE may $GENERATE     families nested-generate (TLC confirms the text is a nested $GENERATE): ill-formed-accepted:nested-generate
  generate-range-guard-off-by-one  0-65536 accepted                          families generate: zone/hostile:gen>65536; Gen_Zone "gen"/shapes in C06: zone/accepts:generate:range>65536
  parse-error-not-sticky           Next goes on after an error               harness (not-sticky) + Trace_Zone (zone/sticky:next:rr, :next:err) + vectors (zone/accepts:include, :generate, :initial-origin)
  lexer-error-not-sticky           zlexer.Next goes on after l.err           prefixes: zone/hostile:hang:prefix:APL (= seeded C07-4: with "(" open at end of input the lexer returns
                                                                             its error token for ever and the APL / SVCB rdata loops never end) -- I had first judged this
                                                                             mutant unobservable; the hang watchdog ends the harness process after reporting
  read-error-not-sticky            zlexer.readByte retries after a non-EOF error   io-error family, transient failures: zone/hostile:not-sticky; vectors (the error of a $GENERATE's rewriting
                                                                             reader is a read error of the sub-parser: records after it) zone/accepts:generate, zone/accepts:include;
                                                                             Trace_Zone zone/sticky:next:rr, :next:eof (the error vanishes at the end of the input), :next:err
  bad-initial-origin-not-fatal     the origin error is kept in a field Next ignores   vectors "any origin": zone/accepts:initial-origin; Trace_Zone: zone/sticky:next:rr (poll err, then next -> rr)
  include-open-failure-not-fatal   the failed-Open error is kept in a field Next ignores   vectors error-then-more / shapes: zone/accepts:include; families error-then-more: zone/hostile:not-sticky; Trace_Zone zone/sticky:next:rr
  seeded C07-17 (failed state moved into the lexer; parseErr assigned directly for a bad initial origin and a failed Open never stops it)
                                                                             the three above: zone/accepts:initial-origin, zone/accepts:include, zone/hostile:not-sticky, zone/sticky:next:rr
  seeded C07-20 (type bit map loop `continue's without advancing on a type repeated directly after itself: NSEC / NSEC3 / CSYNC / NXT never return)
                                                                             prefixes, token mutations: zone/hostile:hang:mutate:CSYNC (first type with a bit map in the zoo; the process ends there)
  seeded C07-21 (unterminated ${ in a $GENERATE template: slice bounds panic)  families generate ("h${"): zone/hostile:panic; prefixes of the control entries: zone/hostile:panic:prefix:$GENERATE
  seeded C07-14 (buffer growth check split by comment state: com[512] written)   families buffer-boundary: zone/hostile:panic
  seeded C07-7 (I/O error of an included file's reader dropped by subNext)  families io-error: zone/hostile:io-error-lost:include, :nested, :include-big, :directory
  seeded C07-2 (LOC altitude indexes an empty token at end of input)         prefixes: zone/hostile:panic:prefix:LOC
  seeded C07-5 (endingToTxtSlice ignores l.err)                              insertions: zone/hostile:ill-formed-accepted:close:TXT etc.
  seeded C07-6 ($GENERATE width parsed with Atoi)                            families generate-width: zone/hostile:alloc:generate (12 MB for a 60-octet zone); zone/hostile-line:generate:generate-width (spec: width > 255 is an error)

Findings on the unchanged tree: known-findings.d/C07.txt.
"""
import os, json, random
import vp
from checks import c06


SAFETY_SHAPES = "{1,2,6,19,22,24,25,26,30,31,34,35}"


def sticky_key(e):
    if e.get("ev") == "line":
        return "zone/hostile-line:" + e["line"]["k"] + (":" + e["fam"] if e.get("fam") else "")
    if e.get("ev") in ("spell", "illtext"):
        return "INFRA"
    return "zone/sticky:%s:%s" % (e.get("ev"), e.get("res", ""))


def split_events(evs, nchunks):
    """Cut a family trace between two cases (a case starts with its illtext or parser event), in chunks of about equal size."""
    cuts = [i for i, e in enumerate(evs) if e.get("ev") in ("illtext", "parser") and (i == 0 or evs[i - 1].get("ev") != "illtext")]
    if nchunks <= 1 or len(cuts) < 2 * nchunks:
        return [evs]
    size = lambda e: 3 + (len(e.get("text", [])) / 100.0) ** 2       # (measured: ~5 ms per event + Present!Lex on n octets ~ n^2)
    total = sum(size(e) for e in evs)
    out, start, acc, want = [], 0, 0, total / nchunks
    cutset = set(cuts)
    for i, e in enumerate(evs):
        if i in cutset and acc >= want and len(out) < nchunks - 1:
            out.append(evs[start:i])
            start, acc = i, 0
        acc += size(e)
    out.append(evs[start:])
    return [c for c in out if c]


def validate(ctx, path, what, vectors=None, nchunks=1):
    """History / line events of one harness run through Trace_Zone.  vectors: the vector file the histories come from (the
    parser event of a history names its vector, `i'): a rejected history is then reported with that vector as its case, so
    that the confirmation re-executes it."""
    if not os.path.exists(path) or os.path.getsize(path) == 0:
        return
    allevs = vp.read_ndjson(path)
    chunks = split_events(allevs, nchunks)
    if len(chunks) > 1:
        vp.parallel([lambda ch=ch: validate_events(ctx, ch, what, vectors) for ch in chunks])
    else:
        validate_events(ctx, allevs, what, vectors, path=path)


def validate_events(ctx, evs, what, vectors=None, path=None):
    tr = ctx.tlc_trace("Trace_Zone", path if path else evs, xmx="4g", timeout=3000)
    for i in (tr.bad or []):
        if sticky_key(evs[i - 1]) == "INFRA":
            raise vp.Infra("harness %s: text is not what the harness says it spells (harness bug): %s" % (what, json.dumps(evs[i - 1])[:500]))
    if not tr.accepted and tr.rejected_at and tr.rejected_at <= len(evs):
        # blocking event: add the run it belongs to, for the reader of the replay file
        j = tr.rejected_at - 1
        k = j
        while k > 0 and evs[k]["ev"] != "parser":
            k -= 1
        key = sticky_key(evs[j])
        if any(e.get("ev") == "readfail" for e in evs[k:j + 1]):
            key += ":after-readfail"
        case = {"history": evs[k:j + 1][-12:], "family": what}
        if vectors and "i" in evs[k]:
            v = (vp.read_emitted(vectors) if isinstance(vectors, str) else vectors)[evs[k]["i"]]
            case.update({f: v[f] for f in ("cfg", "lines", "otext") if f in v})
        ctx.candidate(key, "history rejected by the sticky-error machine at event %d" % tr.rejected_at, case)
        with vp._lock:
            ctx.traces += max(0, (tr.hwm or 0))
        return
    vp.absorb_trace(ctx, tr, evs, sticky_key, what="per-line events of a hostile family rejected by Zone.tla")


def texts(ctx, binp, n, nshards, shards, par=4):
    def one(sh):
        r, _ = ctx.tlc_vectors("Gen_Present", workers=1 if nshards > 1 else 4, xmx="3g", timeout=3000,
                               consts={"N": n, "Shard": sh, "NShards": nshards, "Mode": '"enum"'})
        path = os.path.join(r.dir, "vectors.ndjson")
        hist = os.path.join(r.dir, "history.ndjson")
        s = ctx.run_json(binp, ["replay", path, "", hist], timeout=3000)
        vp.absorb(ctx, s)
        os.remove(path)          # hundreds of MB in the thorough tier
        validate(ctx, hist, "generated text")
    vp.parallel([lambda sh=sh: one(sh) for sh in shards], maxpar=par)


SAFETY_KEYS = ("zone/accepts:", "zone/panic", "zone/timeout", "zone/open-when-disallowed", "zone/generate:more-than-65536",
               "zone/hostile:", "zone/sticky:")


SAFE = [int(x) for x in SAFETY_SHAPES.strip("{}").split(",")]


def zone_vectors(ctx, binp, mode, cases, what):
    """cases -> Gen_Zone (the specification says what the lines denote: records, error) -> `zone replay' with a history
    file: there the consumer KEEPS CALLING Next after the first (nil, false) and whatever it is handed counts as returned,
    so the vector's record list judges it; the next / poll / open history goes through Trace_Zone's sticky-error machine.
    Only the safety side counts (a line the spec refuses must be refused, nothing after an error): what the accepted
    lines denote is C06's business."""
    r, vecs = ctx.tlc_vectors("Gen_Zone", workers=1, xmx="3g", timeout=1200, files={"cases.ndjson": "".join(json.dumps(c) + "\n" for c in cases)},
                              consts=dict(c06.CONSTS, Mode='"%s"' % mode, N=0, Shard=0, NShards=1))
    path = os.path.join(r.dir, "vectors.ndjson")
    hist = os.path.join(r.dir, "history.ndjson")
    s = ctx.run_json(binp, ["replay", path, "", hist], timeout=1200, env=c06.known_env(ctx))
    s["mismatches"] = [m for m in s["mismatches"] if m["key"].startswith(SAFETY_KEYS)]
    s.get("notes", {}).pop("mismatch_counts", None)
    vp.absorb(ctx, s)
    validate(ctx, hist, what, vectors=vecs)


def shape_cases():
    """Every line shape alone under every configuration (include disallowed / missing file / self-include / nested
    $GENERATE / bad range expected as errors by the spec)."""
    return [{"c": c, "q": q} for c in range(8) for q in [[]] + [[a] for a in range(1, c06.NSHAPES + 1)]]


def shape_pairs(ctx, binp, part, nparts):
    """(thorough tier) every PAIR of safety shapes under every configuration: an include that is disallowed / missing /
    self-including, a nested or ill-ranged $GENERATE ... followed by a record, an include, a $GENERATE."""
    cases = [{"c": c, "q": [a, b]} for c in range(8) for a in SAFE for b in SAFE]
    zone_vectors(ctx, binp, "idx", cases[part::nparts], "shape pair")


def error_cases():
    """Every way (that abstract lines can express) a parser comes to hold an error, at the top level, in an included file and
    in a file included from an included file, with a record BEFORE it and records AFTER it in every file."""
    B, ref, rr = c06.B, c06.ref, c06.rr

    def inc(name, origin=None):
        return {"k": "include", "file": B(name), "origin": origin or ref("omit")}

    def a(owner, d):
        return rr(ref("rel", owner), 5, 1, ip=[10, 0, 0, d])

    def gen(lo, hi, lhs, rhs="10.0.0.1"):
        return {"k": "generate", "lo": lo, "hi": hi, "step": 1, "lhs": B(lhs), "ttl": 5, "class": 0, "order": "tc", "type": 1,
                "rhs": [{"raw": B(rhs), "q": False}]}
    # (a file that includes itself is shape 35 of the shape universe; names that become longer than 255 octets when they are
    # completed are left to C06: the pinned parser checks only the relative part -- see the report of round 6)
    errs = [inc("nofile"), inc("nofile", ref("rel", "sub")), gen(5, 4, "h$"), gen(1, 2, "$$GENERATE"), gen(1, 2, "h${0,0,q}"),
            gen(254, 257, "h$", "10.0.0.$")]
    e9 = ("e9", [a("n", 31)])
    # what follows the failing entry: a record, an include (no Open after an error), a $GENERATE, a record
    more = lambda t: [a(t + "1", 9), inc("e9"), gen(1, 2, t + "g$"), a(t + "2", 10)]
    cases = []
    for e in errs:
        inner = [a("x1", 11), e] + more("y")
        cases.append({"cfg": c06.cfg([e9]), "lines": [a("pre", 1), e] + more("after")})
        top = [a("pre", 1), inc("e1", ref("rel", "sub"))] + more("after")
        cases.append({"cfg": c06.cfg([e9, ("e1", inner)]), "lines": top})
        cases.append({"cfg": c06.cfg([e9, ("e1", [a("x0", 21), inc("e2")] + more("w")), ("e2", inner)]), "lines": top})
    off = c06.cfg([e9, ("e1", [a("x1", 11)])])
    off["incAllowed"] = False
    cases.append({"cfg": off, "lines": [a("pre", 1), inc("e1")] + more("after")})
    return cases


def origin_texts(rnd):
    l63, l64 = "a" * 63, "a" * 64
    three = ".".join([l63] * 3) + "."
    fixed = ["", ".", "example.", "example", "a.b.c.", "Ex\\.ample.", "\\065b.", "x\\000y.", "a b.", l63 + ".", three + "b" * 61 + ".", "a." * 127,
             "@", "*.", "$ORIGIN.", ";x.", "(", "\x00.", "\xe9.", "\\.",
             "bad..origin.", "bad..origin", "..", "...", ".a.", ".a", "a..", "a..b", l64 + ".", l64, "x." + l64 + ".y.", three + "b" * 62 + ".", three + "b" * 62,
             ".".join([l63] * 4) + ".", "a." * 128, "a" * 300,
             "\\300.", "a\\", "\\"]
    out = list(fixed)
    while len(out) < len(fixed) + 24:
        t = "".join(rnd.choice("aa..\\019 @") for _ in range(rnd.randrange(1, 8)))
        if t not in out:
            out.append(t)
    return out


def origin_cases(rnd):
    """"Any origin": the initial origin is TEXT.  Zone!OriginOfText says which texts are domain names; with one that is not,
    the parser is in error before the first line: no record, no Open, whatever the zone says (and however often Next is
    called); with one that is, the zone parses as usual."""
    cases = []
    for t in origin_texts(rnd):
        ot = list(t.encode("latin1"))
        if len(ot) > 200:        # (relative names completed with such an origin pass 255 octets: C06's business, see error_cases)
            cases += [{"c": 1, "q": q, "otext": ot} for q in ([3], [12, 3, 12])]
            continue
        cases += [{"c": 1, "q": q, "otext": ot} for q in ([1, 2], [12, 1], [22, 1], [3])] + [{"c": 5, "q": [1], "otext": ot}]
    return cases


def vectors(ctx, binp, rnd):
    """One Gen_Zone run ("ofile": mixed cases), one replay, one history validation for the three vector universes."""
    zone_vectors(ctx, binp, "ofile", shape_cases() + error_cases() + origin_cases(rnd), "zone vector")


def prefixes(ctx, binp):
    """Every truncation point of every record text of harness/lib/zoo (~80 RR types), see cmd/zone/prefixes.go."""
    out = os.path.join(ctx.out, "prefixes.ndjson")
    s = ctx.run_json(binp, ["prefixes", out], timeout=3000)
    vp.absorb(ctx, s)
    validate(ctx, out, "record prefix")
    return s


def insertions(ctx, binp):
    """A stray parenthesis / unterminated quote / lone backslash inserted at every token boundary of the RDATA of every
    zoo record, followed by a second record.  The harness only writes the texts; Gen_Present classifies them (an
    insertion may fall inside a quoted string); lexically ill-formed => the parser must report an error (the pinned
    failure mode: the record is returned, Err() is nil and the rest of the zone is lost)."""
    tx = os.path.join(ctx.out, "insertion-texts.ndjson")
    s0 = ctx.run_json(binp, ["insertions", tx], timeout=600)
    r, _ = ctx.tlc_vectors("Gen_Present", workers=2, xmx="3g", timeout=3000, files={"texts.ndjson": open(tx).read()},
                           consts={"N": 0, "Shard": 0, "NShards": 1, "Mode": '"file"'})
    path = os.path.join(r.dir, "vectors.ndjson")
    hist = os.path.join(r.dir, "history.ndjson")
    s = ctx.run_json(binp, ["replay", path, "", hist], timeout=3000)
    s.setdefault("notes", {})["insertion_texts"] = s0["notes"]["texts"]
    vp.absorb(ctx, s)
    validate(ctx, hist, "insertion text")


def families(ctx, binp):
    out = os.path.join(ctx.out, "families.ndjson")
    s = ctx.run_json(binp, ["hostile", out], timeout=3000)
    vp.absorb(ctx, s)
    vp.parallel([lambda: validate(ctx, out, "family", nchunks=3), lambda: validate(ctx, out + ".io", "io-error family")])
    return s


def run(ctx):
    c06.serialise_scratch(ctx)
    binp = ctx.build("zone")
    rnd = random.Random(ctx.seed)
    if ctx.quick:
        vp.parallel([
            lambda: ctx.tlc("MC_Present", consts={"StrLen": 5, "OctLen": 3}, workers=3, timeout=900),
            lambda: ctx.tlc("MC_Zone", consts=dict(MaxLines=2, ShapeSet=SAFETY_SHAPES, PolSet="{0, 15}"), workers=3, timeout=900),
            lambda: texts(ctx, binp, 5, 1, [0]),
            lambda: vectors(ctx, binp, rnd),
            lambda: families(ctx, binp),
            lambda: prefixes(ctx, binp),
            lambda: insertions(ctx, binp),
        ])
    else:
        vp.parallel([
            lambda: ctx.tlc("MC_Present", consts={"StrLen": 6, "OctLen": 4}, workers=4, timeout=1800),
            lambda: ctx.tlc("MC_Zone", consts=dict(MaxLines=3, ShapeSet=SAFETY_SHAPES, PolSet="{0, 15}"), workers=4, timeout=3000),
            lambda: vectors(ctx, binp, rnd),
            lambda: families(ctx, binp),
            lambda: prefixes(ctx, binp),
            lambda: insertions(ctx, binp),
        ] + [lambda k=k: shape_pairs(ctx, binp, k, 4) for k in range(4)])
        texts(ctx, binp, 6, 11, range(11), par=11)
        texts(ctx, binp, 7, 121, rnd.sample(range(121), 12), par=12)
    ctx.assumptions += [
        "allocation bound: TotalAlloc delta <= 2048 x len + 4 MiB (+ 16 KiB per generated record), measured around the whole parse including the harness' own record copies",
        "a time-out (20 s per text, 60 s per family case) is reported only when it reproduces three times in a row",
        "ParseError exposes no accessors: file, line and column are read from Error() ('<file>: dns: ... at line: L:C')",
        "lexical ill-formedness is asserted only for unbalanced ')' , '(' open at end of text, unterminated quote, and not for texts using escapes RFC 1035 leaves undefined",
        "include depth: at least 3 levels work, at most 64 Opens on a chain of nested includes (the property fixes no number)",
        "initial origin as text: made fully qualified (a relative one is completed with the root), an error exactly when the result is not a domain name "
        "(empty label, label > 63, name > 255); \\DDD > 255 and a dangling backslash are unconstrained; an origin error carries no line / column (it is not a syntax error of the text)",
        "names that pass 255 octets only when completed with the origin are not part of this check's universes (the pinned parser validates the relative part only: see C06)",
    ]
    return ctx.finish(rule="vectors: every text over an 11-character alphabet up to length n with its lexical classification, run under 2 configurations; "
                      "families: ~700 structured hostile cases; events: next/open histories (all families + 1/61 of the texts) through the sticky-error machine, "
                      "per-line events of family texts through Zone.tla. non-trivial = texts that are lexically ill-formed (an error is required) + family cases",
                      confirm=lambda c: confirm(ctx, binp, c))


def rerun(ctx, binp, case):
    if "cfg" in case and "lines" in case:
        # a zone vector: the specification recomputes what the lines denote (Gen_Zone "file", or "ofile" when the initial
        # origin is given as text), the harness replays with the persistent consumer, Trace_Zone judges the histories
        full = c06.given(case)
        mode = "file"
        if "otext" in case:
            full, mode = {"cfg": case["cfg"], "lines": case["lines"], "otext": case["otext"]}, "ofile"
        r, _ = ctx.tlc_vectors("Gen_Zone", workers=1, xmx="3g", timeout=1200, count=False, files={"cases.ndjson": json.dumps(full) + "\n"},
                               consts=dict(c06.CONSTS, Mode='"%s"' % mode, N=0, Shard=0, NShards=1))
        path, hist = os.path.join(r.dir, "vectors.ndjson"), os.path.join(r.dir, "history.ndjson")
        s = ctx.run_json(binp, ["replay", path, "", hist], env=c06.known_env(ctx))
        sub = vp.Ctx.__new__(vp.Ctx)
        sub.__dict__.update(ctx.__dict__)
        sub.cands = []
        validate(sub, hist, "vector", vectors=path)
        return [m for m in s["mismatches"] if m["key"].startswith(SAFETY_KEYS)] + [{"key": c["key"]} for c in sub.cands]
    if "text" in case and "ill" in case:      # a generated text with its classification
        p = os.path.join(ctx.out, "one.ndjson")
        vp.write_ndjson(p, [dict(case, kind="text")])
        return ctx.run_json(binp, ["replay", p])["mismatches"]
    out = os.path.join(ctx.out, "families-again.ndjson")
    s = ctx.run_json(binp, ["prefixes" if str(case.get("family", "")).startswith(("prefix:", "mutate:")) else "hostile", out])
    ms = list(s["mismatches"])
    sub = vp.Ctx.__new__(vp.Ctx)
    sub.__dict__.update(ctx.__dict__)
    sub.cands = []
    validate(sub, out, "family")
    validate(sub, out + ".io", "io-error family")
    return ms + [{"key": c["key"]} for c in sub.cands]


def confirm(ctx, binp, c):
    return bool(rerun(ctx, binp, c["case"]))      # the discrepancy reproduces


def replay(ctx, path):
    c06.serialise_scratch(ctx)
    binp = ctx.build("zone")
    rp = json.load(open(path))
    if any(m["key"] == rp["key"] for m in rerun(ctx, binp, rp["case"])):
        print("VIOLATION property=%s replay=%s" % (ctx.id, path))
        return 1
    print("replay: discrepancy no longer present")
    return 0
