"""C08  Msg.Len never underestimates, is exact for plain messages; Pack / PackBuffer always have room.

Spec    WireRR!LenMsg / LenRR (true lengths, arithmetic), WireRR!PlainMsg (common types, escape-free);
        spec/CompressLen.tla: LenImpl (msgLenWithCompressionMap / domainNameLen / compressionLenSearch /
        escapedNameLen) and PackImpl (packDomainName) as machines over the packing plan of a message.
MC      MC_CompressLen, MaxOff in {4, 6, 9}: LenImpl >= PackImpl, = when no label needs an escape,
        PackImpl <= uncompressed.  (MC_WireRR, run by C01, shows LenMsg = Len(EncMsg).)
GEN     Gen_CompressLen: the C01 vector set (incl. mode "compress": shared suffixes, case variants, escaped labels,
        uncompressible name fields, owner names pushed across offset 16384) plus mode "straddle" (for EVERY name position
        of every type -- NSEC next, RRSIG signer, SOA mname/rname, MX, SRV, HIP servers, gateway hosts, ... -- a record
        padded so that the RDATA name starts at 16384-k, k = -3..20, followed by names that could only compress against
        it) and mode "sizes" (records whose stored length field -- SaltLength, HitLength, MACSize, ... -- disagrees with
        the data: packable as given, Len() must still cover them), each vector with LenImpl / PackImpl of the CompressLen machines  ->  harness `wire len`, Compress false
        and true: Len() >= len(Pack()), equality when the spec flags the vector plain, Len(rr) against the spec's
        record length, Pack never ErrBuf, PackBuffer with len(buf) in {0, L, L+1, L+2, 2L} (L = spec's LenMsg):
        no error, same octets, in place when len(buf) > max(L, library's predicted uncompressed length) -- AMBIG.
        SPELLINGS: the statement speaks of every message that can be packed, and the fields packed from escaped text
        (names; dns:"txt" lists and untagged character-strings; dns:"octet" values) have many spellings of the same
        octets.  Every vector below 2048 octets is therefore built again with these fields respelled
        (harness/cmd/wire/lenspell.go; 3 styles: backslash before ordinary characters `\\v`; backslash in runs of digits
        so that `\\1x`, `\\12x`, `\\12` at the end arise, never a `\\DDD`; mixed by position with `\\DDD` of printable
        characters, and a trailing backslash on strings; question, owner, RDATA names, name lists, gateway hosts, str /
        ostr / strs / octet fields by the layout's kinds; hex / base64 / options / SvcParams untouched).  A respelled
        value is first shown to be the same message (PackBuffer into 2L+64 octets gives the canonical spelling's
        octets = the spec's EncMsg; otherwise counted as refused and skipped), then the same clauses with the same
        expected values apply: Pack() succeeds (never ErrBuf), Len() >= len(Pack()) with Compress false and true,
        compressed <= LenMsg, Len(rr) >= the spec's record length, the 5 PackBuffer sizes; NOT exactness (the
        statement keeps it to content without escapes).  Mode "spell" of Gen_CompressLen supplies, for every type and
        every such field, content with digits and letters side by side (3..14 places per record where `\\DD` + non-digit
        can be written, several strings per list, names of the same make sharing a suffix with owner and question).
TV      harness `wire lenrec` (random messages: related names, a third plain, some beyond 16384 octets) ->
        Trace_CompressLen: the clauses above judged by TLC, plus the binding of the machines: observed Len()
        and len(Pack()) must EQUAL LenImpl / PackImpl wherever everything outside names is predicted exactly
        (a mismatch there is an infrastructure error: the model would not describe the code).
        A quarter of the recorded messages are built in one of the respelled styles (event field spell, key suffix
        :respelled; only where the packer given room makes the canonical octets of it); Trace_CompressLen judges
        them with the same LenMsg / LenRR, without the exactness clauses and without the binding of the machines.

Finding keys: len/<clause>:<MNEMONIC>[:<feature>][:compress|plain-wire], len/trace-<clause>:<...> for events;
        respelled variants: len/<clause>:<MNEMONIC>[:<feature>]:respelled[:compress|plain-wire], len/rr-underestimate:<MNEMONIC>:respelled.

Mutants (checks/mutants/C08/*.diff; each `VERIF_REPO=/tmp/wire-x bin/check C08 quick` exits 1):
  hinfo-len.diff        HINFO.len forgets the length octet of Os          -> replay: len/underestimate:HINFO, len/rr-underestimate:HINFO
  escaped-ddd.diff      escapedNameLen counts \\DDD as 0 octets            -> replay: len/underestimate / len/pack-error:* for names with \\DDD labels
  bitmap-lastwindow.diff typeBitMapLen ignores the last window            -> replay: len/pack-error:NSEC3 (overflow), len/underestimate:*:compress
  buf-offbyone.diff     pack buffer sized uncompressedLen - 1             -> replay: len/pack-error:* (overflow packing ...) on every exact message
  lensearch-late.diff   compressionLenSearch enters suffixes at any offset -> replay (compress mode, names pushed across 16384): len/underestimate:multi:compress; TV
  packbuffer-copy.diff  PackBuffer always allocates                       -> replay: len/packbuffer-not-in-place
  escape-short-decimal.diff escapedNameLen takes a backslash before ANY digit for a \\DDD -> replay, respelled variants only (a canonical
                        spelling never has a backslash before fewer than three digits): len/underestimate:*:respelled,
                        len/rr-underestimate:*:respelled, len/pack-errbuf:*:respelled; TV len/trace-*:respelled
Seed C08-21 (txtLen swallows up to three digits after a backslash, packTxtString needs exactly three): replay, respelled
  style 2 (`v\\12x`): len/rr-underestimate:TXT|SPF|AVC|NINFO|RESINFO:respelled, len/underestimate:*:respelled:*, len/pack-errbuf:*:respelled
  (two or more places: mode "spell"); TV len/trace-pack-errbuf / trace-underestimate / trace-rr-underestimate:*:respelled.
"""
import os, json
import vp
from checks import c01


def mc(ctx, scale, workers):
    def one(mo):
        ctx.tlc("MC_CompressLen", workers=workers, xmx="3g", timeout=3000, consts={"Scale": scale, "MaxOff": mo})
    vp.parallel([lambda mo=mo: one(mo) for mo in (4, 6, 9)])


def run(ctx):
    binp = ctx.build("wire")
    lay = c01.layout(ctx)
    if ctx.quick:
        mc(ctx, 0, 4)
        s4 = [0, 1, 2, 3]
        c01.gen_jobs(ctx, binp, lay, "len", [
            ("types", 4, s4), ("rrhdr", 1, [0]), ("opts", 1, [0]), ("svcb", 1, [0]), ("gateway", 1, [0]),
            ("nodata", 1, [0]), ("unknown", 1, [0]), ("rcode", 1, [0]), ("sections", 1, [0]),
            ("big", 1, [0]), ("compress", 1, [0]), ("orders", 1, [0]), ("empty", 1, [0]), ("sizes", 1, [0]), ("spell", 1, [0]), ("straddle", 2, [0, 1]), ("cross", 4, [ctx.seed % 4])], tier=0, module="Gen_CompressLen")
        c01.tv(ctx, binp, lay, 1500, 4, sub="lenrec", module="Trace_CompressLen", prefix="len/trace-")
    else:
        mc(ctx, 1, 5)
        c01.gen_jobs(ctx, binp, lay, "len", [
            ("types", 4, [0, 1, 2, 3]), ("cross", 4, [0, 1, 2, 3]), ("compress", 4, [0, 1, 2, 3]), ("rcode", 4, [0, 1, 2, 3]),
            ("rrhdr", 1, [0]), ("opts", 1, [0]), ("svcb", 1, [0]), ("gateway", 1, [0]), ("nodata", 1, [0]),
            ("unknown", 1, [0]), ("sections", 1, [0]), ("big", 1, [0]), ("orders", 1, [0]), ("empty", 1, [0]), ("sizes", 1, [0]), ("spell", 1, [0]), ("straddle", 8, list(range(8))), ("hdr", 16, [ctx.seed % 16])], tier=1, module="Gen_CompressLen")
        c01.tv(ctx, binp, lay, 6000, 16, sub="lenrec", module="Trace_CompressLen", prefix="len/trace-")
    if ctx.notes.get("model_mismatch_total"):
        # Len() / len(Pack()) differ from LenImpl / PackImpl where those are exact although no clause of the property is violated
        # on those cases: the statement does not demand the equality, so this is neither a violation nor a reason to give no
        # verdict; it is recorded: MC_CompressLen's theorem then speaks about machines that are not this code's.
        vp.log("NOTE: CompressLen!LenImpl/PackImpl differ from the observed Len()/len(Pack()) on %d cases (e.g. %s); "
               "the clauses of C08 are judged on the observations alone" % (ctx.notes["model_mismatch_total"],
                                                                           json.dumps(ctx.notes.get("model_mismatch_sample"))))
        ctx.assumptions.append("the CompressLen machines did NOT match the observed lengths on %d cases of this run: the model-checked "
                               "theorem (LenImpl >= PackImpl) does not transfer to this code" % ctx.notes["model_mismatch_total"])
    ctx.assumptions += [
        "messages are well-formed (WireRR!WFMsg) and can be packed; records whose octets the packer gets wrong are C01's findings "
        "(the length clauses are still applied to what was packed)",
        "the exactness clause is applied to the canonical spelling only (the spelling UnpackDomainName / unpackString produce), so "
        "'needs an escape' is a property of the octets; the never-underestimate / always-room clauses are also applied to non-canonical "
        "spellings of names, character-strings and dns:\"octet\" values: redundant \\X, \\D and \\DD before a non-digit or the end, \\DDD of "
        "printable characters, a trailing backslash in strings (3 deterministic styles per vector, a quarter of the recorded events); "
        "other spellings (a trailing backslash in names is not fully qualified; upper/lower case is content, not spelling) are not generated",
        "AMBIG: 'the uncompressed length' in the PackBuffer clause is read as the true length or the library's own Len() with "
        "Compress = false; a buffer must be used in place only when it is larger than both",
        "the exotic features C01 reports on (AMTRELAY discovery bit, NXT bitmaps, backslashes in CAA/URI) are not generated by the recorder",
    ]
    return ctx.finish(rule="vectors: the C01 boundary set (every type, every field kind) plus compression-shaped messages, each with Compress "
                      "false and true and 5 PackBuffer sizes; events: random messages with related names, one third plain, 4% with "
                      "long opaque fields (beyond 16384 octets). distinct_nontrivial = cases under the exactness clause",
                      confirm=lambda c: c01.reexecute(ctx, binp, lay, c, sub="len", module="Trace_CompressLen"))


def replay(ctx, path):
    binp = ctx.build("wire")
    lay = c01.layout(ctx)
    rp = json.load(open(path))
    r = c01.reexecute(ctx, binp, lay, rp, sub="len", module="Trace_CompressLen")
    if r is None:
        raise vp.Infra("replay case could not be re-executed")
    if r:
        print("VIOLATION property=%s replay=%s" % (ctx.id, path))
        return 1
    print("replay: discrepancy no longer present")
    return 0
