"""C08  Msg.Len never underestimates, is exact for plain messages; Pack / PackBuffer always have room.

Spec    WireRR!LenMsg / LenRR (true lengths, arithmetic), WireRR!PlainMsg (common types, escape-free);
        spec/CompressLen.tla: LenImpl (msgLenWithCompressionMap / domainNameLen / compressionLenSearch /
        escapedNameLen) and PackImpl (packDomainName) as machines over the packing plan of a message.
MC      MC_CompressLen, MaxOff in {4, 6, 9}: LenImpl >= PackImpl, = when no label needs an escape,
        PackImpl <= uncompressed.  (MC_WireRR, run by C01, shows LenMsg = Len(EncMsg).)
GEN     Gen_CompressLen: the C01 vector set (incl. mode "compress": shared suffixes, case variants, escaped labels,
        uncompressible name fields, owner names pushed across offset 16384) plus mode "straddle" (for EVERY name position
        of every type -- NSEC next, RRSIG signer, SOA mname/rname, MX, SRV, HIP servers, gateway hosts, ... -- a record
        padded so that the RDATA name starts at 16384-k, k = -3..20, followed by names that could only compress against
        it) and mode "sizes" (records whose stored length field -- SaltLength, HitLength, MACSize, ... -- disagrees with
        the data: packable as given, Len() must still cover them), each vector with LenImpl / PackImpl of the CompressLen machines  ->  harness `wire len`, Compress false
        and true: Len() >= len(Pack()), equality when the spec flags the vector plain, Len(rr) against the spec's
        record length, Pack never ErrBuf, PackBuffer with len(buf) in {0, L, L+1, L+2, 2L} (L = spec's LenMsg):
        no error, same octets, in place when len(buf) > max(L, library's predicted uncompressed length) -- AMBIG.
TV      harness `wire lenrec` (random messages: related names, a third plain, some beyond 16384 octets) ->
        Trace_CompressLen: the clauses above judged by TLC, plus the binding of the machines: observed Len()
        and len(Pack()) must EQUAL LenImpl / PackImpl wherever everything outside names is predicted exactly
        (a mismatch there is an infrastructure error: the model would not describe the code).

Finding keys: len/<clause>:<MNEMONIC>[:<feature>][:compress|plain-wire], len/trace-<clause>:<...> for events.

Mutants (checks/mutants/C08/*.diff; each `VERIF_REPO=/tmp/wire-x bin/check C08 quick` exits 1):
  hinfo-len.diff        HINFO.len forgets the length octet of Os          -> replay: len/underestimate:HINFO, len/rr-underestimate:HINFO
  escaped-ddd.diff      escapedNameLen counts \\DDD as 0 octets            -> replay: len/underestimate / len/pack-error:* for names with \\DDD labels
  bitmap-lastwindow.diff typeBitMapLen ignores the last window            -> replay: len/pack-error:NSEC3 (overflow), len/underestimate:*:compress
  buf-offbyone.diff     pack buffer sized uncompressedLen - 1             -> replay: len/pack-error:* (overflow packing ...) on every exact message
  lensearch-late.diff   compressionLenSearch enters suffixes at any offset -> replay (compress mode, names pushed across 16384): len/underestimate:multi:compress; TV
  packbuffer-copy.diff  PackBuffer always allocates                       -> replay: len/packbuffer-not-in-place
"""
import os, json
import vp
from checks import c01


def mc(ctx, scale, workers):
    def one(mo):
        ctx.tlc("MC_CompressLen", workers=workers, xmx="3g", timeout=3000, consts={"Scale": scale, "MaxOff": mo})
    vp.parallel([lambda mo=mo: one(mo) for mo in (4, 6, 9)])


def run(ctx):
    binp = ctx.build("wire")
    lay = c01.layout(ctx)
    if ctx.quick:
        mc(ctx, 0, 4)
        s4 = [0, 1, 2, 3]
        c01.gen_jobs(ctx, binp, lay, "len", [
            ("types", 4, s4), ("rrhdr", 1, [0]), ("opts", 1, [0]), ("svcb", 1, [0]), ("gateway", 1, [0]),
            ("nodata", 1, [0]), ("unknown", 1, [0]), ("rcode", 1, [0]), ("sections", 1, [0]),
            ("big", 1, [0]), ("compress", 1, [0]), ("orders", 1, [0]), ("empty", 1, [0]), ("sizes", 1, [0]), ("straddle", 2, [0, 1]), ("cross", 4, [ctx.seed % 4])], tier=0, module="Gen_CompressLen")
        c01.tv(ctx, binp, lay, 1500, 4, sub="lenrec", module="Trace_CompressLen", prefix="len/trace-")
    else:
        mc(ctx, 1, 5)
        c01.gen_jobs(ctx, binp, lay, "len", [
            ("types", 4, [0, 1, 2, 3]), ("cross", 4, [0, 1, 2, 3]), ("compress", 4, [0, 1, 2, 3]), ("rcode", 4, [0, 1, 2, 3]),
            ("rrhdr", 1, [0]), ("opts", 1, [0]), ("svcb", 1, [0]), ("gateway", 1, [0]), ("nodata", 1, [0]),
            ("unknown", 1, [0]), ("sections", 1, [0]), ("big", 1, [0]), ("orders", 1, [0]), ("empty", 1, [0]), ("sizes", 1, [0]), ("straddle", 8, list(range(8))), ("hdr", 16, [ctx.seed % 16])], tier=1, module="Gen_CompressLen")
        c01.tv(ctx, binp, lay, 6000, 16, sub="lenrec", module="Trace_CompressLen", prefix="len/trace-")
    if ctx.notes.get("model_mismatch_total"):
        # Len() / len(Pack()) differ from LenImpl / PackImpl where those are exact although no clause of the property is violated
        # on those cases: the statement does not demand the equality, so this is neither a violation nor a reason to give no
        # verdict; it is recorded: MC_CompressLen's theorem then speaks about machines that are not this code's.
        vp.log("NOTE: CompressLen!LenImpl/PackImpl differ from the observed Len()/len(Pack()) on %d cases (e.g. %s); "
               "the clauses of C08 are judged on the observations alone" % (ctx.notes["model_mismatch_total"],
                                                                           json.dumps(ctx.notes.get("model_mismatch_sample"))))
        ctx.assumptions.append("the CompressLen machines did NOT match the observed lengths on %d cases of this run: the model-checked "
                               "theorem (LenImpl >= PackImpl) does not transfer to this code" % ctx.notes["model_mismatch_total"])
    ctx.assumptions += [
        "messages are well-formed (WireRR!WFMsg) and can be packed; records whose octets the packer gets wrong are C01's findings "
        "(the length clauses are still applied to what was packed)",
        "names and strings are spelled canonically (the spelling UnpackDomainName / unpackString produce), so 'needs an escape' is a "
        "property of the octets",
        "AMBIG: 'the uncompressed length' in the PackBuffer clause is read as the true length or the library's own Len() with "
        "Compress = false; a buffer must be used in place only when it is larger than both",
        "the exotic features C01 reports on (AMTRELAY discovery bit, NXT bitmaps, backslashes in CAA/URI) are not generated by the recorder",
    ]
    return ctx.finish(rule="vectors: the C01 boundary set (every type, every field kind) plus compression-shaped messages, each with Compress "
                      "false and true and 5 PackBuffer sizes; events: random messages with related names, one third plain, 4% with "
                      "long opaque fields (beyond 16384 octets). distinct_nontrivial = cases under the exactness clause",
                      confirm=lambda c: c01.reexecute(ctx, binp, lay, c, sub="len", module="Trace_CompressLen"))


def replay(ctx, path):
    binp = ctx.build("wire")
    lay = c01.layout(ctx)
    rp = json.load(open(path))
    r = c01.reexecute(ctx, binp, lay, rp, sub="len", module="Trace_CompressLen")
    if r is None:
        raise vp.Infra("replay case could not be re-executed")
    if r:
        print("VIOLATION property=%s replay=%s" % (ctx.id, path))
        return 1
    print("replay: discrepancy no longer present")
    return 0
