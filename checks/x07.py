"""X07 (extra)  dns.Client's decision tables: Timeout vs DialTimeout / ReadTimeout / WriteTimeout vs Dialer.Timeout vs
context deadline, and the receive buffer of a datagram exchange (OPT size vs Client.UDPSize vs Conn.UDPSize vs
MinMsgSize).                                                                        spec/ClientTimeouts.tla

MC      MC_ClientTimeouts: the three total functions on every combination of symbolic durations
        0 < 1.5 s < default < A < B < C (12000 settings): NothingSet, TimeoutOverrides, OwnSetting, DialerPriority,
        Independent, ContextEarliest, Monotone, Dial, Buffers (every combination of 7 sizes)
GEN     Gen_ClientTimeouts -> `clienttimeouts replay`
          xchg  12000 settings x {datagram, stream} in-memory connection: ExchangeWithConnContext; the deadline in
                force at the first Write and at the first Read, each read off the Set*Deadline ARGUMENT minus the
                clock at that call and snapped to the nearest duration of the case
          dial  2625 settings x network: DialContext; the deadline of the context the dial runs under, seen from
                tls.CertificateRequestInfo.Context() of a loopback TLS handshake (the only way to see the Dialer the
                client builds itself) or from Dialer.ControlContext (caller's Dialer); the observer aborts the dial
          buf   336 (OPT?, OPT size, Client.UDPSize, Conn.UDPSize): len(p) of the datagram Read
TV      `clienttimeouts record`: the same three observations with RANDOM numeric durations (5 s .. 10 h, >= 25 %
        apart) and sizes -> Trace_ClientTimeouts
No assertion depends on elapsed time; an observation that fits no duration of its case is re-run twice first.

Admitted both ways (AMBIG): the dial time-out when Client.Dialer is set (the code uses the Dialer as it is; the
field comments say "or net.Dialer.Timeout if expiring earlier"); the buffer when the OPT advertises < 512 or
nothing selects a size.

Mutants (checks/mutants/X07), all exit 1:
  own-before-timeout     readTimeout prefers ReadTimeout to Timeout and getTimeoutForRequest no longer re-applies Timeout
                         (either change alone is equivalent: the override is coded twice)   GEN client/xchg:read-deadline:*, TV xchg
  dialer-always          Dialer.Timeout wins even when larger                GEN client/xchg:*-deadline:dialer-timeout-set:*, TV
  ctx-not-for-read       context deadline not applied to the read deadline   GEN client/xchg:read-deadline:*, TV
  write-uses-read        write deadline computed from readTimeout()          GEN client/xchg:write-deadline:*
  default-idle           readTimeout's default is the 8 s idle time-out      GEN client/xchg:read-deadline:* (observation off the grid)
  dial-uses-read         DialContext's own Dialer gets readTimeout()         GEN client/dial:deadline:dialer-nil:tls
  opt-ignored            OPT size not used, Client.UDPSize instead           GEN client/buf:size:opt>=512, TV buf
  client-size-with-opt   Client.UDPSize applied also when an OPT is present  GEN client/buf:size:opt>=512
  buffer-floor           buffer = Conn.UDPSize without the 512 floor         GEN client/buf:size:*
"""
import os, json
import vp


def gen(ctx, binp, mode):
    def one():
        r, _ = ctx.tlc_vectors("Gen_ClientTimeouts", workers=1, xmx="2g", timeout=1200, consts={"Mode": '"%s"' % mode})
        path = os.path.join(r.dir, "vectors.ndjson")
        if not os.path.exists(path):
            raise vp.Infra("Gen_ClientTimeouts %s produced no vectors" % mode)
        vp.absorb(ctx, ctx.run_json(binp, ["replay", path], timeout=1800))
    return one


def keyfn(e):
    ev = e["ev"]
    if ev == "xchg":
        return "client/trace:xchg:" + e.get("tr", "")
    if ev == "dial":
        d = e["s"]["dialer"]
        return "client/trace:dial:" + ("dialer-nil" if d < 0 else "dialer-timeout-unset" if d == 0 else "dialer-timeout-set")
    return "client/trace:" + ev


def tv(ctx, binp, n, k):
    def one():
        out = os.path.join(ctx.out, "trace-%d.ndjson" % k)
        s = ctx.run_json(binp, ["record", out, str(n)], env={"VERIF_SEED": str(ctx.seed * 1000 + k)})
        vp.absorb(ctx, s, traces=False)
        tr = ctx.tlc_trace("Trace_ClientTimeouts", out, xmx="2g", timeout=1800)
        vp.absorb_trace(ctx, tr, vp.read_ndjson(out), keyfn)
    return one


def run(ctx):
    binp = ctx.build("clienttimeouts")
    ctx.tlc("MC_ClientTimeouts", workers=4, xmx="3g", timeout=900)
    n = 3000 if ctx.quick else 20000
    jobs = [gen(ctx, binp, m) for m in ("xchg", "dial", "buf")] + [tv(ctx, binp, n, k) for k in range(1 if ctx.quick else 3)]
    vp.parallel(jobs, maxpar=4)
    ctx.assumptions += [
        "durations: 0 = unset (as in the Go structs); negative durations and contexts that are already over are not in the universe",
        "AMBIG: with Client.Dialer set, both 'the Dialer as it is' (code, and what dns.DialTimeout relies on) and 'the smaller of Dialer.Timeout and the client's dial time-out' (field comment) are admitted for the dial",
        "AMBIG: OPT size < 512 or nothing selecting a size: Conn.UDPSize floored at 512 (code), 512, and (OPT case) Client.UDPSize are admitted",
        "'cumulative' in Client.Timeout's comment is not judged: dial and exchange are separate calls here (each gets the full Timeout)",
        "the dial deadline is observed on a loopback TLS handshake (own Dialer) or through Dialer.ControlContext (caller's Dialer); the observer aborts the dial; no assertion depends on elapsed time",
    ]
    return ctx.finish(rule="every combination of 5-6 symbolic durations per setting: 12000 settings x 2 connection kinds (exchange), "
                      "2625 (dial), 336 buffer cases; random numeric settings judged by Trace_ClientTimeouts. "
                      "distinct = cases")


def replay(ctx, path):
    binp = ctx.build("clienttimeouts")
    rp = json.load(open(path))
    case = rp["case"]
    if "event" in case:
        pin, pout = os.path.join(ctx.out, "event-in.ndjson"), os.path.join(ctx.out, "event-out.ndjson")
        vp.write_ndjson(pin, [case["event"]])
        ctx.run_json(binp, ["reexec", pin, pout])
        tr = ctx.tlc_trace("Trace_ClientTimeouts", pout)
        bad = bool(tr.bad) or not tr.accepted
    else:
        p = os.path.join(ctx.out, "one.ndjson")
        vp.write_ndjson(p, [case])
        s = ctx.run_json(binp, ["replay", p])
        bad = any(m["key"] == rp["key"] for m in s["mismatches"])
    if bad:
        print("VIOLATION property=%s replay=%s" % (ctx.id, path))
        return 1
    print("replay: discrepancy no longer present")
    return 0
