"""C04  Name compression is transparent, always valid, applied only where allowed.

Spec    spec/Compress.tla.  Encoder side PackAny (Allowed / Emit1): per name any cut, then a pointer only when compression is on, the
        position is an owner / question / RFC 1035 RDATA name (`cname' in WireRR!Layout), target < MaxOff, before the name, at a
        name-suffix start, and Names!DecName reads there exactly the rest of the name (case included).  Decoder side
        ValidCompressed(bytesC, bytesU) = JudgeStreams over the part streams of an independent reader (StreamOf: Framing!RRAt, DecName,
        RDATA name positions from WireRR!Layout).  The property does not ask for maximal compression: PackImpl (CompressLen.tla, the
        model of packDomainName) is one allowed strategy.
MC      MC_Compress, MaxOff in {4, 6, 9}: every step of PackImpl is allowed by PackAny (refinement; the mirror PNC = CompressLen!PN); Chains (see CHAIN);
        every PackAny run decodes to the plan's names, is never longer (unless a pointer replaces a root octet: AMBIG), has only valid
        pointers and is accepted by the judge; Mode "dev": a run with one forbidden choice that still decodes is rejected by the judge.
GEN     Gen_Compress (vectors checked against the spec itself: StreamOf(EncMsg(m)) finds WireRR!PlanMsg(m); hand-compressed octets are
        a transparent compressed form) -> harness `compress replay`: real Pack with Compress true / false -> events judged by
        Trace_Compress.  Modes: family (x, a.x, A.x, b.a.x, "a\\.x", \\097.x under the root and z.Z., 1-2 questions, NS + MX|SRV|RP),
        multiq (2-3 questions), first (per type and RDATA name field: a suffix FIRST seen inside that field -- HIP rendezvous
        servers, SVCB target, RRSIG signer, NSEC next, SRV target ... -- then needed by later owner / NS / MX / CNAME names), types (all 33 types with a name in RDATA: name = / one label below an earlier owner), pad (a TXT record
        puts a first occurrence at 16382..16385), large (messages with MANY records, g = sub-family: runs = one RRset / address pool, n
        consecutive records with one owner (the question name or not), two owners in turn, one owner in two letter cases, A / NS to the
        owner itself / MX below the owner, n = 2, 126..129, 300 (thorough 1..5, 120..135, 255..257, 300, 400, 1000) -- what ACCUMULATES
        over a run; nest = names of 2..k labels, each the previous one with a label in front, then the longest again, k up to 127 (the
        most labels a name can have: the deepest chain a packer pointing at first occurrences builds); bulk = 258..1500 records under a
        common 234-octet suffix: uncompressed length 65535 / 65536 (thorough 65530..65541) and 100 000 - 380 000 octets, compressed below
        32 000 -- the reference packing then goes through a caller buffer of the specification's LenMsg + 1 if Pack() refuses it).
        Reverse direction in the same run: the spec's hand-compressed octets (pointer from every RDATA name to the question name) ->
        real Unpack must accept and read the vector's message.
FOREIGN Gen_Compress mode "foreign" (seed C04-20): the compressed forms OTHER encoders emit.  PackAny leaves the choice of the target
        open; the library's packer always points at first occurrences, so round trips never show its reader a pointer that lands on a
        pointer.  Compress!Recompress re-encodes the specification's uncompressed octets name by name (Emit1) under four strategies --
        latest: the LAST earlier start of the longest matching suffix (an RRset whose owners each point at the previous owner FIELD, an
        RDATA name at the previous record's RDATA name: whole-name pointer -> whole-name pointer -> ... before any label is read);
        latest-whole-anyrdata: whole names only, in the RDATA of every type; first-anyrdata: first occurrences, any RDATA;
        latest-rootptr: pointers also in place of root octets -- over runs (n = 2, 3, 10; thorough 2..12, 40, x 4 owner patterns x A / NS /
        MX), every name-bearing type twice in a row (name = / one label below the question name) and (thorough) the "first" messages.  Gen_Compress
        asserts on every form that the judge takes it (ValidCompressedStageH = ok | pointer-in-uncompressible-rdata for the anyrdata
        strategies: never sent, accepted on input | longer for rootptr) and that the runs DO chain pointer to pointer (PtrOnPtr);
        harness: Msg.Unpack must accept each form and read the vector's message.  Keys compress/input-rejected|input-misread|
        input-panic:<TYPE of the last record>:<strategy>.
SPELL   Gen_Compress mode "spell" (seed C04-21): "names differing only in ... escaping".  Ten names under z. whose first label holds a
        dot (a.b as ONE label, next to the two labels a, b), a backslash (x\\y next to xy), a space, a quote, octet 200, a lone
        backslash, a lone dot; question / NS owner / two A owners, each position in one of four SPELLINGS of the same labels (field sp;
        harness spell(): 0 canonical, 1 \\097 for a, 2 every escape in decimal -- \\046, \\092, \\034 --, 3 every octet \\DDD), 1600
        combinations (quick: 400 by seed) -> packBoth -> Trace_Compress (transparency: the names of the compressed octets are the
        vector's), OWN, BUF.  (The record zoo keeps to canonical spellings: its events are re-executed from their own octets, which
        carry no spelling.)
OVERLONG Gen_Compress mode "overlong" (seed C04-19): names of 254, 255, 256, 257, 300 octets, 127 / 128 labels, a 64-octet label in
        a long and in a short name, whose tail (193 / 201 / 3 octets) is already in the message -- as question name or first seen in NS
        RDATA -- at each kind of position (second question, owner, NS / MX / CNAME target, SRV target).  The well-formed ones (254,
        255, 127 labels: the longest names there are, compressed against their tail) go the usual way; for the others the vector says
        nowf (WFMsg fails: the specification gives the message no wire form): Pack() must not yield octets with compression for what
        it refuses without (the statement compares the two packings of any message; octets from one of them only are not "exactly the
        same message", and the name they hold expands beyond 255 octets).  Key compress/packs-what-uncompressed-refuses:overlong:
        <question|owner|rdata:TYPE>.  (A message Pack() takes WITHOUT compression against the specification is C01 / C03's: counted.)
CHAIN   Compress!JudgeStreamsH = JudgeStreams + the chain clause: no name is read through more than MaxPtrHops = MaxName \\div 2 = 127
        pointers (a name has at most 127 labels and a pointer of a packer that points at first occurrences is followed by a label:
        MC_Compress invariant Chains shows that Compress!Hops, read off the stream hints, IS the number of pointers Names!DecName follows,
        that PackImpl never needs more hops than the name has labels and never points at a pointer).  Every single pointer of a long
        pointer-to-pointer chain is valid (AMBIG stays); the chain as a whole is "pointer-chain-too-deep".  Every event of every stage
        is judged with it.
OWN     "decode to exactly the same message" / "compressed names are still accepted on input" said of the library's own reader: every
        compressed form an independent reader could read is given to Msg.Unpack: it must be accepted and, for a vector, read as the
        vector's message (the specification's value, as in the reverse direction above).  Random messages: a refusal only, and only when
        the uncompressed octets of the same message are accepted.  Keys compress/own-output-rejected:<mode>:<chain-upto-126|chain-127|chain-over-127>,
        own-output-misread|own-output-panic:<mode>.
SEQ     every packing with compression (replay and record alike) is preceded, on the same goroutine (GOMAXPROCS 1, repeated twice
        per kind), by the packing of an UNPACKABLE relative of the message that fails late -- the same records in another order under
        a longer question name, then a 64-octet label / a 256-octet name / a 300-octet string, or RCODE 16 without OPT -- so that
        state leaking from a failed Pack into the next one (pooled compression maps) shows in the judged octets; every distinct
        compressed form of a message is judged.
BUF     for every message PackBuffer (Compress = true) is also driven with caller buffers of every size from the compressed length - 2
        to the uncompressed length + 2 (sampled beyond 96 sizes: the first 72, a stride, the last 9): the result must be Pack()'s octets
        (the ones TLC judges); an error is tolerated only below the compressed length.  Keys compress/packbuffer-error|differs-from-pack|panic:<mode>.
DENSE   harness `compress dense` (4 processes x 1500 messages; thorough 8 x 6000): messages holding as many DIFFERENT names of one
        presentation length as 64 kB take (single labels of 4..9 letters under the root: questions, owners of A records, NS targets,
        mixed), about 4300 names and 4.6 million (name filed below 16384, different name looked up later) pairs per message, 2.7 * 10^10
        pairs per quick run: six times the birthday bound of ANY 32-bit digest of a name, whatever the digest.  No name of such a message
        is a suffix of another: a packer that keeps names apart emits the same octets with and without compression.  Identical packings
        are counted; a message whose packings DIFFER is shrunk (records dropped while the real packer still gives two different
        packings) and goes, like every event, through packBoth and the judge in TLC (transparency clause); a few whole small messages
        per process are judged as they are, and so are the rare messages in which a name repeats (a pointer that is allowed).
TV      harness `compress record`: random messages from the record zoo (about 85 types x 16 owner families, mixed case, escapes),
        small (1-12 records: also walked by TLC itself, walker cross-check) and big (150-600 records, about half beyond 16384 octets even compressed):
        part streams -> Trace_Compress (JudgeStreams with MaxOff = 16384).  Informational: len(bytesC) against PackImpl over the plan
        read off the stream; deviations are counted in the evidence notes (packimpl_deviation*), never a verdict.
Ill-formed streams, a walker that disagrees with TLC's own walk, judges that disagree, a bytesU that is not the vector's message:
        vp.Infra (exit 2).

Finding keys: compress/<clause>:<question|owner|rdata:TYPE>  (clauses: not-transparent, longer, header-differs, pointer-when-compress-off,
        pointer-in-uncompressible-rdata, pointer-target-beyond-limit, pointer-not-backwards, pointer-not-to-a-name-suffix, name-invalid),
        pointer-chain-too-deep:<where>, compress/compressed-unreadable:<mode>, compress/pack-error:<mode> (mode = family | multiq | types | first | pad |
        runs | nest | bulk | dense | zoo | foreign | spell | overlong), compress/own-output-*:<mode>, compress/input-rejected|input-misread|input-panic:<TYPE>.
Known finding (known-findings.d/C04.txt): compress/own-output-rejected:nest:chain-127 -- nested names up to 127 labels, the longest twice:
        Pack() builds a valid chain of 127 pointers, UnpackDomainName gives up after 126.

Mutants (checks/mutants/C04/*.diff; each `VERIF_REPO=/tmp/comp-x bin/check C04 quick` exits 1), stage that catches each (quick tier):
  lowercase-key.diff        compression-map key lower-cased                 -> replay family / multiq / types + TV small and big:
                            compress/not-transparent:owner|question|rdata:<TYPE> (the pointed-to suffix has another letter case)
  insert-at-limit.diff      insert when off <= maxCompressionOffset         -> replay pad (first occurrence at exactly 16384: the pointer
                            0xC000^16384 = 0x8000 is a reserved label type): compress/compressed-unreadable (harness walker; TLC's own
                            walk of the same octets agrees); TV big when a label lands on 16384
  rt-host-cdomain.diff      RT.Host tagged cdomain-name / packed compressible -> replay types + TV: compress/pointer-in-uncompressible-rdata:rdata:RT
  compress-when-off.diff    compression map used although Compress = false -> every stage: compress/pointer-when-compress-off:owner|question|rdata:*
  pointer-non-suffix.diff   map entry records the offset of the NEXT label  -> replay family + TV: compress/not-transparent:* (a label is lost),
                            compress/compressed-unreadable
  packbuffer-keeps-small-buffer.diff  caller buffer kept when it only holds the compressed form (seed C04-8) -> BUF: compress/packbuffer-error:types|zoo
                            (types variant 3: the pointer replaces a 25-octet label at the very end of the message)
  hip-names-relative-offsets.diff  packDataDomainNames registers suffixes at field-relative offsets (seed C04-11) -> replay first (type HIP, field
                            RendezvousServers) -> Trace_Compress compress/not-transparent:owner
  digest-keyed-map.diff     internal compression map keyed by FNV-1a-32 + length of the suffix, hits not verified (seed C04-13) -> DENSE: two
                            different equal-length names collide in some message (about 6 expected per quick run), the shrunk message (two
                            questions) -> Trace_Compress compress/not-transparent:question|owner|rdata:NS
  rrset-owner-pointer-chain.diff  packHeader points an owner equal to the previous one at the previous owner FIELD (seed C04-14): a pointer to a
                            pointer to a pointer ... -> replay large/runs (n >= 127) -> Trace_Compress compress/pointer-chain-too-deep:owner (CHAIN),
                            and compress/own-output-rejected:runs:chain-127|chain-over-127 (OWN)
  refuse-large-uncompressed.diff  ErrBuf instead of allocating more than 65536 octets, tested on the UNCOMPRESSED length (seed C04-15)
                            -> replay large/bulk: reference through a caller buffer, then compress/pack-error:bulk
  longname-unchecked-when-compressing.diff  255-octet limit not applied when the name may be compressed (the class of seed C04-19) -> replay
                            overlong: compress/packs-what-uncompressed-refuses:overlong:question|owner|rdata:NS|MX|CNAME
  unpack-refuses-pointer-to-pointer.diff  UnpackDomainName refuses a pointer whose target is a pointer (the class of seed C04-20) -> replay
                            foreign: compress/input-rejected:<TYPE>:latest|latest-whole-anyrdata|latest-rootptr
  ddd-dot-rescanned-when-compressing.diff  with a compression map, the octet decoded from \\046 is looked at again and ends the label (the
                            class of seed C04-21) -> replay spell: Trace_Compress compress/not-transparent:*, compress/own-output-misread:spell
Seeds of round 7: C04-19 -> OVERLONG; C04-20 -> FOREIGN; C04-21 -> SPELL.
Non-vacuity of MC_Compress (run by hand, each invariant must be violated): NoPointerEver, NoLimitCrossed, AlwaysImpl, NoDeviationDecodes,
        NoChain, NoDegenerate.
"""
import os, json
import vp
from checks import c01
from checks.c17 import safe_scratch

SMALL = 600


def mnemonics(lay):
    tab = {}
    for ln in open(lay):
        v = json.loads(ln)
        if isinstance(v, str):
            v = json.loads(v)
        for t in v["types"]:
            tab[t["t"]] = t["name"]
    return tab


def judge(ctx, evpath, names, tag, notes=True, small=SMALL):
    """Trace_Compress over an event file; returns the list of (event, key)."""
    evs = vp.read_ndjson(evpath)
    if not evs:
        return []
    tr = ctx.tlc_trace("Trace_Compress", evpath, xmx="4g", timeout=3000, consts={"Small": small})
    if tr.hwm != len(evs):
        raise vp.Infra("Trace_Compress consumed %s of %d events of %s" % (tr.hwm, len(evs), evpath))
    ill = json.loads(tr.vals.get("ill", "[]"))
    if ill:
        raise vp.Infra("Trace_Compress cannot judge %s: %s (stream not on the octets / walker or judges disagree / not the message meant)"
                       % (evpath, ill[:3]))
    stages = json.loads(tr.vals.get("stages", "[]"))
    impl = json.loads(tr.vals.get("impl", "[]"))
    out = []
    with vp._lock:
        ctx.traces += len(evs) - len(stages)
        if notes:
            d = ctx.notes.setdefault("packimpl_deviating_events", {})
            d[tag] = "%d of %d" % (len(impl), len(evs))
            if impl and "packimpl_deviation_sample" not in ctx.notes:
                i, got, pred = impl[0]
                ctx.notes["packimpl_deviation_sample"] = {"where": tag, "g": evs[i - 1]["g"], "v": evs[i - 1]["v"], "len_packed": got, "packimpl": pred}
    for i, st, pos, t in stages:
        e = evs[i - 1]
        where = pos + ":" + names.get(t, "TYPE%d" % t) if pos == "rdata" else pos
        out.append((e, "compress/%s:%s" % (st, where)))
    return out


def brief(e):
    c = {k: e[k] for k in ("g", "v", "ddd", "sp", "key", "hasmsg", "implen") if k in e}
    if e.get("hasmsg") and len(e["bytesU"]) <= 4096:
        c["msg"] = e["msg"]
    if len(e["bytesU"]) <= 4096 or not e.get("hasmsg"):
        c["bytesU"] = e["bytesU"]          # zoo events are re-executed from their own uncompressed octets
    return c


def gen(ctx, binp, lay, names, mode, tier, nshards, shard):
    r, _ = ctx.tlc_vectors("Gen_Compress", workers=1, xmx="3g", timeout=3000,
                           consts={"CMode": '"%s"' % mode, "Tier": tier, "CShard": shard, "CNShards": nshards})
    vecs = os.path.join(r.dir, "vectors.ndjson")
    if not os.path.exists(vecs):
        if mode == "large" and nshards > 1:     # few cases over many shards (the total is in the notes: vectors_per_mode)
            return
        raise vp.Infra("Gen_Compress mode %s produced no vectors" % mode)
    ev = os.path.join(ctx.out, "ev-%s-%d.ndjson" % (mode, shard))
    s = ctx.run_json(binp, ["replay", lay, vecs, ev], timeout=3000)
    vp.absorb(ctx, s, traces=False)
    with vp._lock:
        ctx.notes.setdefault("vectors_per_mode", {})
        ctx.notes["vectors_per_mode"][mode] = ctx.notes["vectors_per_mode"].get(mode, 0) + s["notes"].get("events", 0)
    # the padded messages have few names: TLC walks their 16 kB itself as well (walker cross-check beyond offset 16384)
    for e, key in judge(ctx, ev, names, "%s/%d" % (mode, shard), small=20000 if mode == "pad" else SMALL):
        ctx.candidate(key, "packed with Compress = true against Compress = false: the specification's judge says " + key.split("/")[1],
                      {"event": brief(e), "mode": mode, "tier": tier})


LARGE = ("runs", "nest", "bulk")       # the sub-families of Gen_Compress mode "large" (the g of their vectors)


def regen(ctx, g, v):
    """One vector again from the specification (large vectors are not carried in findings)."""
    mode = "large" if g in LARGE else g
    consts = {"CMode": '"%s"' % mode, "Tier": 1, "CShard": 0, "CNShards": 1}
    if mode == "large":         # the shard function of Gen_Compress!CInit singles the case out
        c = list(v) + [0, 0]
        consts.update({"CNShards": 1000003, "CShard": (c[0] + 3 * c[1] + 7 * c[2] + 13 * c[3]) % 1000003})
    r, vecs = ctx.tlc_vectors("Gen_Compress", workers=1, xmx="3g", timeout=3000, count=False, consts=consts)
    vecs = [x for x in vecs if x["v"] == v and x["g"] == g]
    return vecs[0] if vecs else None


def dense(ctx, binp, lay, names, nproc, nmsgs):
    """DENSE stage: harness `compress dense` in nproc processes, their events judged in one Trace_Compress run."""
    def one(k):
        ev = os.path.join(ctx.out, "ev-dense-%d.ndjson" % k)
        s = ctx.run_json(binp, ["dense", lay, ev, str(nmsgs)], env={"VERIF_SEED": str(ctx.seed * 1000 + 500 + k)}, timeout=3000)
        d = (s.get("notes") or {}).pop("dense", {})
        vp.absorb(ctx, s, traces=False)
        with vp._lock:
            tot = ctx.notes.setdefault("dense", {})
            for kk, vv in d.items():
                tot[kk] = tot.get(kk, 0) + vv
        return ev
    files = vp.parallel([lambda k=k: one(k) for k in range(nproc)], maxpar=4)
    merged = os.path.join(ctx.out, "ev-dense.ndjson")
    with open(merged, "w") as f:
        for p in files:
            f.write(open(p).read())
    for e, key in judge(ctx, merged, names, "dense"):
        ctx.candidate(key, "dense message (thousands of different names of one length; shrunk while the two packings differ): "
                      "the specification's judge says " + key.split("/")[1], {"event": brief(e)})


def rec(ctx, binp, lay, names, n, big, k):
    ev = os.path.join(ctx.out, "ev-zoo-%s-%d.ndjson" % ("big" if big else "small", k))
    s = ctx.run_json(binp, ["record", lay, ev, str(n)] + (["big"] if big else []), env={"VERIF_SEED": str(ctx.seed * 1000 + k)}, timeout=3000)
    vp.absorb(ctx, s, traces=False)
    with vp._lock:
        d = ctx.notes.setdefault("zoo_events", {"small": 0, "big": 0, "compressed_beyond_16384": 0})
        d["big" if big else "small"] += s["notes"].get("events", 0)
        d["compressed_beyond_16384"] += s["notes"].get("compressed_beyond_16384", 0)
    for e, key in judge(ctx, ev, names, "zoo-%s/%d" % ("big" if big else "small", k)):
        ctx.candidate(key, "random zoo message: the specification's judge says " + key.split("/")[1], {"event": brief(e)})


def reexecute(ctx, binp, lay, names, cand):
    """A candidate again in a fresh process; True iff the same key shows again."""
    case = cand["case"]
    tag = str(abs(hash(cand["key"])) % 10 ** 8)
    if "event" in case:
        e = case["event"]
        if e.get("hasmsg") and "msg" not in e:      # big vector (pad, large): regenerate it
            vec = regen(ctx, e["g"], e["v"])
            if vec is None:
                return None
            e = dict(e, msg=vec["msg"])
        src, dst = os.path.join(ctx.out, "re-in-%s.ndjson" % tag), os.path.join(ctx.out, "re-out-%s.ndjson" % tag)
        full = dict({"bytesC": [], "bytesU": [], "sc": [], "su": [], "implen": -1, "ddd": [], "sp": [], "key": "", "hasmsg": False}, **e)
        vp.write_ndjson(src, [full])
        s = ctx.run_json(binp, ["reexec", lay, src, dst])
        if any(m["key"] == cand["key"] for m in s["mismatches"]):
            return True
        return any(k == cand["key"] for _, k in judge(ctx, dst, names, "reexec", notes=False))
    # harness-side findings carry the vector (a large one: which one)
    if case.get("regen"):
        case = regen(ctx, case["g"], case["v"])
        if case is None:
            return None
    p = os.path.join(ctx.out, "re-%s.ndjson" % tag)
    vp.write_ndjson(p, [case])
    s = ctx.run_json(binp, ["replay", lay, p, os.path.join(ctx.out, "re-ev-%s.ndjson" % tag)])
    return any(m["key"] == cand["key"] for m in s["mismatches"])


def mc(ctx, scale, workers):
    jobs = [lambda mo=mo: ctx.tlc("MC_Compress", workers=workers, xmx="3g", timeout=3000,
                                  consts={"Scale": scale, "MaxOff": mo, "Mode": '"any"'}) for mo in (4, 6, 9)]
    devs = (6,) if scale == 0 else (4, 6, 9)
    jobs += [lambda mo=mo: ctx.tlc("MC_Compress", workers=workers, xmx="3g", timeout=3000,
                                   consts={"Scale": scale, "MaxOff": mo, "Mode": '"dev"'}) for mo in devs]
    vp.parallel(jobs)


def run(ctx):
    safe_scratch(ctx)
    binp = ctx.build("compress")
    lay = c01.layout(ctx)
    names = mnemonics(lay)
    if ctx.quick:
        jobs = [lambda: mc(ctx, 0, 2)]
        fam = 900
        jobs += [lambda sh=sh: gen(ctx, binp, lay, names, "family", 0, fam, sh) for sh in ((ctx.seed * 7) % fam, (ctx.seed * 7 + 450) % fam)]
        # the long jobs first (8 at a time)
        jobs += [lambda sh=sh: gen(ctx, binp, lay, names, "large", 0, 4, sh) for sh in range(4)]
        jobs += [lambda: dense(ctx, binp, lay, names, 4, 1500)]
        jobs += [lambda k=k: rec(ctx, binp, lay, names, 8, True, 10 + k) for k in range(3)]
        jobs += [lambda: gen(ctx, binp, lay, names, "multiq", 0, 8, ctx.seed % 8),
                 lambda: gen(ctx, binp, lay, names, "types", 0, 1, 0),
                 lambda: gen(ctx, binp, lay, names, "first", 0, 1, 0),
                 lambda: gen(ctx, binp, lay, names, "pad", 0, 1, 0)]
        jobs += [lambda sh=sh: gen(ctx, binp, lay, names, "foreign", 0, 4, sh) for sh in range(4)]
        jobs += [lambda: gen(ctx, binp, lay, names, "spell", 0, 4, ctx.seed % 4),
                 lambda: gen(ctx, binp, lay, names, "overlong", 0, 1, 0)]
        jobs += [lambda k=k: rec(ctx, binp, lay, names, 300, False, k) for k in range(2)]
    else:
        jobs = [lambda: mc(ctx, 1, 3)]
        fam = 720
        jobs += [lambda sh=sh: gen(ctx, binp, lay, names, "family", 1, fam, sh) for sh in [(ctx.seed * 16 + j) % fam for j in range(16)]]
        jobs += [lambda sh=sh: gen(ctx, binp, lay, names, "multiq", 1, 2, sh) for sh in range(2)]
        jobs += [lambda: gen(ctx, binp, lay, names, "types", 1, 1, 0),
                 lambda: gen(ctx, binp, lay, names, "first", 1, 1, 0),
                 lambda: gen(ctx, binp, lay, names, "pad", 1, 1, 0)]
        jobs += [lambda sh=sh: gen(ctx, binp, lay, names, "large", 1, 16, sh) for sh in range(16)]
        jobs += [lambda sh=sh: gen(ctx, binp, lay, names, "foreign", 1, 6, sh) for sh in range(6)]
        jobs += [lambda sh=sh: gen(ctx, binp, lay, names, "spell", 1, 4, sh) for sh in range(4)]
        jobs += [lambda: gen(ctx, binp, lay, names, "overlong", 1, 1, 0)]
        jobs += [lambda: dense(ctx, binp, lay, names, 8, 6000)]
        jobs += [lambda k=k: rec(ctx, binp, lay, names, 2500, False, k) for k in range(4)]
        jobs += [lambda k=k: rec(ctx, binp, lay, names, 40, True, 10 + k) for k in range(8)]
    vp.parallel(jobs, maxpar=8)
    ctx.assumptions += [
        "the message packed without compression is the reference (the statement compares the two packings); that those octets are "
        "the RFC wire form of the message is property C01",
        "AMBIG: a pointer that leads to another pointer, and a pointer that replaces a root octet, are admitted as targets at which 'a name "
        "suffix starts' (RFC 1035 s.4.1.4 allows both); the length clause is judged on the whole message",
        "names are compared as label sequences octet for octet; how the Go API spells them (escapes) is C03 / C05",
        "RDATA that runs to its end under the RFC layout (strings, bitmaps, options, SvcParams, opaque data) is compared octet for octet "
        "and not searched for names: a pointer emitted there shows as a transparency failure",
        "maximal compression is not required: PackImpl deviations are informational",
        "'decode' is said of decoders that follow a bounded number of pointers per name: at most 127 (the number of labels a name can have; "
        "spec/Framing.tla uses the same bound for input) -- and of the library's own Msg.Unpack, which must accept every compressed form "
        "Pack() produces and read it as the message",
        "messages whose uncompressed length exceeds 65535 octets while a compressed form fits are messages of the statement ('any message'); "
        "their uncompressed reference packing is taken through a caller buffer of the specification's length + 1 when Pack() refuses it",
        "dense messages whose two packings are the same octets are counted, not sent to TLC: identical octets are the same message under "
        "every reader, and that uncompressed packings are pointer-free is judged on every other event",
    ]
    return ctx.finish(rule="vectors: name families with shared suffixes, case and escape variants (sampled by shard), multiple questions, every type "
                      "with a name field x {equal to, one label below} an earlier owner, first occurrences at 16382..16385, runs of up to 300 (1000) "
                      "records with one owner, nested names up to 127 labels, bulk messages around and beyond 65535 octets uncompressed; events: "
                      "random zoo messages, small and 150-600 records; dense messages (6000 x ~4300 different equal-length names, shrunk when the "
                      "packings differ). distinct_nontrivial = messages the library actually compressed",
                      confirm=lambda c: reexecute(ctx, binp, lay, names, c))


def replay(ctx, path):
    safe_scratch(ctx)
    binp = ctx.build("compress")
    lay = c01.layout(ctx)
    rp = json.load(open(path))
    r = reexecute(ctx, binp, lay, mnemonics(lay), rp)
    if r is None:
        raise vp.Infra("replay case could not be re-executed")
    if r:
        print("VIOLATION property=%s replay=%s" % (ctx.id, path))
        return 1
    print("replay: discrepancy no longer present")
    return 0
