"""X04 (extra)  ReverseAddr, dnsutil.AddOrigin / TrimDomainName in full, TimeToString / StringToTime.   spec/Reverse.tla

MC      MC_Reverse: the address parser (RFC 4291 s.2.2 text forms, dotted quad) inverts every spelling of 2401 IPv4
        and 512 IPv6 addresses and rejects near misses; reverse names have 6 / 34 labels that decode back to the
        address; the proleptic Gregorian calendar in 16-bit limbs is continuous over 1968..2110 (+ 7 far years) and
        hits the anchors (1970, 2038 wrap, 2106 wrap, -2^31, the library's own example); AddOrigin's comment table;
        TrimDomainName inverse of AddOrigin
GEN     Gen_Reverse v4 | v6 (spellings) | v4text (all 1..5 fields of 8 pieces) | v6text (group-count x ellipsis x
        quad tail, odd pieces) -> ReverseAddr accept / name;  stamp (21 years x 15 month-days x 10 times + odd) ->
        StringToTime accept / value;  origin (16 x 7 texts) -> AddOrigin, TrimDomainName
TV      `reverse record`: random addresses in 4 spellings with single-character mutations, random TimeToString
        (judged as ANY stamp congruent to t modulo 2^32: independent of the wall clock), random stamps,
        random AddOrigin / TrimDomainName -> Trace_Reverse

Findings on the unchanged tree (known-findings.d/X04.txt): stringtotime year>=2106, trim panic with empty origin,
trim(".", ".") = "".

Mutants (checks/mutants/X04), all exit 1:
  v4-not-reversed       in-addr.arpa labels in address order           GEN reverse/addr:name:v4 + TV
  v6-nibble-order       high nibble first                              GEN reverse/addr:name:v6 + TV
  v6-skips-last         the first address octet 0xfe is printed as 0xff   TV reverse/trace:reverse (random addresses)
  v4-leading-zero       one-digit octets printed with a leading zero    GEN reverse/addr:name:v4 + TV
  s2t-layout            StringToTime layout with day and month swapped GEN reverse/stringtotime:* + TV
  t2s-no-clamp          TimeToString without the mod < 0 clamp         TV reverse/trace:t2s
  addorigin-no-apex     AddOrigin("@", o) appends                      GEN dnsutil/addorigin-full + TV
  trim-apex             TrimDomainName(o, o) returns ""                GEN dnsutil/trim:returns-empty (new case) + TV
"""
import os, json
import vp


def gen(ctx, binp, mode, nshards=1, shards=(0,)):
    def one(sh):
        r, vecs = ctx.tlc_vectors("Gen_Reverse", workers=1, xmx="2g", timeout=1200,
                                  consts={"Mode": '"%s"' % mode, "Shard": sh, "NShards": nshards})
        path = os.path.join(r.dir, "vectors.ndjson")
        if not os.path.exists(path):
            raise vp.Infra("Gen_Reverse %s produced no vectors" % mode)
        vp.absorb(ctx, ctx.run_json(binp, ["replay", path]))
    return [lambda sh=sh: one(sh) for sh in shards]


def text(b):
    return bytes(b or []).decode("latin1")


def keyfn(e):
    ev = e["ev"]
    if ev == "trim":
        if e.get("panic") and not e.get("origin"):
            return "dnsutil/trace:trim:panic:origin-empty"
        if not e.get("panic") and not e.get("r"):
            return "dnsutil/trace:trim:returns-empty" + (":root" if text(e.get("s")) == "." and text(e.get("origin")) == "." else "")
        return "dnsutil/trace:trim"
    if ev == "add":
        return "dnsutil/trace:add"
    if ev == "s2t":
        s = text(e["text"])
        if len(s) == 14 and s.isdigit() and (int(s[:4]) > 2106 or (int(s[:4]) == 2106 and s[4:] >= "0207062816")):
            return "reverse/trace:s2t:year>=2106"
    return "reverse/trace:" + ev


def tv(ctx, binp, n, nproc):
    def one(k):
        out = os.path.join(ctx.out, "trace-%d.ndjson" % k)
        s = ctx.run_json(binp, ["record", out, str(n)], env={"VERIF_SEED": str(ctx.seed * 1000 + k)})
        vp.absorb(ctx, s, traces=False)
        tr = ctx.tlc_trace("Trace_Reverse", out, xmx="2g", timeout=1800)
        evs = vp.read_ndjson(out)
        vp.absorb_trace(ctx, tr, evs, keyfn)
    return [lambda k=k: one(k) for k in range(nproc)]


def run(ctx):
    binp = ctx.build("reverse")
    ctx.tlc("MC_Reverse", workers=4, xmx="3g", timeout=1800)
    jobs = []
    if ctx.quick:
        for m in ("v4", "v6", "v6text", "stamp", "origin"):
            jobs += gen(ctx, binp, m)
        jobs += gen(ctx, binp, "v4text", 4, [ctx.seed % 4])
        jobs += tv(ctx, binp, 3000, 1)
    else:
        for m in ("v4", "v6", "v4text", "v6text", "stamp", "origin"):
            jobs += gen(ctx, binp, m)
        jobs += tv(ctx, binp, 10000, 3)
    vp.parallel(jobs, maxpar=4)
    ctx.assumptions += [
        "IPv4 fields with leading zeros (octal in inet_aton) are taken as malformed, as Go's parser does; random texts starting with such a field are skipped",
        "an IPv4-mapped IPv6 address may map to in-addr.arpa (what the library does) or ip6.arpa (AMBIG, both admitted); reverse names are compared case-insensitively",
        "stamps: years 0001..9999, no leap seconds; TimeToString may print any stamp congruent to t modulo 2^32 (RFC 1982), so the check does not depend on the clock",
        "TrimDomainName with an empty origin may treat it as the root or return s unchanged (AMBIG); the names given are well-formed",
    ]
    return ctx.finish(rule="vectors: 2401 dotted quads; 512 IPv6 patterns x up to ~20 spellings; every dotted text of 1..5 fields over 8 pieces "
                      "(quick: a quarter); 148 IPv6 shapes; 3158 stamps; 112 (s, origin) pairs; events: random addresses x 4 spellings x "
                      "0..1 mutation, random t / stamps / names. distinct = distinct input texts")


def replay(ctx, path):
    binp = ctx.build("reverse")
    rp = json.load(open(path))
    case = rp["case"]
    if "event" in case:      # redo the recorded inputs against the real code, then let TLC judge the fresh observation
        pin, pout = os.path.join(ctx.out, "event-in.ndjson"), os.path.join(ctx.out, "event-out.ndjson")
        vp.write_ndjson(pin, [case["event"]])
        s = ctx.run_json(binp, ["reexec", pin, pout])
        tr = ctx.tlc_trace("Trace_Reverse", pout)
        bad = bool(tr.bad) or not tr.accepted or bool(s["mismatches"])
    else:
        p = os.path.join(ctx.out, "one.ndjson")
        vp.write_ndjson(p, [case])
        s = ctx.run_json(binp, ["replay", p])
        bad = any(m["key"] == rp["key"] for m in s["mismatches"])
    if bad:
        print("VIOLATION property=%s replay=%s" % (ctx.id, path))
        return 1
    print("replay: discrepancy no longer present")
    return 0
