"""X02 (extra)  RFC 2136 dynamic update helpers of update.go + SetUpdate.      spec/Update.tla (extends Framing)

MC      MC_Update: the sender table (s.2.4.1-2.4.5, 2.5.1-2.5.4) against the receiver rules (s.3.2, 3.4.1) for
        9 helpers x 216 records x 2 zone classes; IsUpdateMsg recognises the octets built from the rows and
        rejects one-field variants
GEN     Gen_Update: helper x zone class {IN, CH} x 14 zoo types x record class {IN, CH, ANY} x 3 TTLs, one and
        two records -> harness `update replay`: real helper on zoo records, the records it put into the message
        compared (section, TYPE, CLASS, TTL, RDATA presence) with the spec's expectation; real Pack
TV      the packed octets of every vector, and of random call sequences (`update record`: 1-5 helper calls x 1-3
        records of the whole zoo, random TTL / class / zone / zone class) -> Trace_Update walks the octets
        (Framing) and compares header, zone section and every record, RDATA included, with the table

Mutants (checks/mutants/X02), all exit 1:
  used-keeps-ttl         Used does not zero the TTL                         GEN update/Used:ttl + TV
  insert-zero-ttl        Insert zeroes the TTL                              GEN update/Insert:ttl + TV
  rrsetnotused-any       RRsetNotUsed uses class ANY                        GEN update/RRsetNotUsed:class + TV
  remove-any-class       Remove uses class ANY (keeps RDATA)                GEN update/Remove:class + TV
  removename-keeps-type  RemoveName keeps the record's TYPE                 GEN update/RemoveName:type + TV
  insert-class-in        Insert forces class IN instead of the zone class   GEN update/Insert:class + TV
  nameused-to-ns         NameUsed appends to the authority section          GEN update/NameUsed:section + TV
  setupdate-compress     SetUpdate leaves compression on                    TV update/trace:*
"""
import os, json
import vp


def keyfn(e):
    hs = [c["h"] for c in e.get("calls", [])]
    return "update/trace:" + (hs[0] if len(hs) == 1 else "sequence")


def trace(ctx, path):
    tr = ctx.tlc_trace("Trace_Update", path, xmx="2g", timeout=1800)
    evs = vp.read_ndjson(path)
    vp.absorb_trace(ctx, tr, evs, keyfn)


def gen(ctx, binp, nshards, shards):
    def one(sh):
        r, vecs = ctx.tlc_vectors("Gen_Update", workers=1, xmx="2g", timeout=1200, consts={"Shard": sh, "NShards": nshards})
        path = os.path.join(r.dir, "vectors.ndjson")
        if not os.path.exists(path):
            raise vp.Infra("Gen_Update produced no vectors")
        out = os.path.join(ctx.out, "trace-gen-%d.ndjson" % sh)
        vp.absorb(ctx, ctx.run_json(binp, ["replay", path, out]))
        trace(ctx, out)
    vp.parallel([lambda sh=sh: one(sh) for sh in shards], maxpar=4)


def tv(ctx, binp, n, nproc):
    def one(k):
        out = os.path.join(ctx.out, "trace-%d.ndjson" % k)
        s = ctx.run_json(binp, ["record", out, str(n)], env={"VERIF_SEED": str(ctx.seed * 1000 + k)})
        vp.absorb(ctx, s, traces=False)
        trace(ctx, out)
    vp.parallel([lambda k=k: one(k) for k in range(nproc)], maxpar=4)


def run(ctx):
    binp = ctx.build("update")
    ctx.tlc("MC_Update", workers=2, xmx="2g", timeout=900)
    if ctx.quick:
        gen(ctx, binp, 1, [0])
        tv(ctx, binp, 2500, 2)
    else:
        gen(ctx, binp, 2, [0, 1])
        tv(ctx, binp, 10000, 4)
    ctx.assumptions += [
        "the helpers write CLASS / TTL into the caller's records (Used, Insert, Remove): each call gets fresh copies; aliasing is not judged",
        "zone classes IN / CH / HS; messages are packed as SetUpdate leaves them (no compression)",
        "Used / Insert on a message without a question section panic by design and are not called that way",
    ]
    return ctx.finish(rule="vectors: 9 helpers x 2 zone classes x 14 types x 3 classes x 3 TTLs x {1, 2 records}; "
                      "events: the packed octets of each vector + random sequences of 1-5 helper calls on 1-3 records drawn from the "
                      "whole zoo x 11 owners, judged record by record incl. RDATA octets. distinct = distinct (helper, zone class, "
                      "record headers) / (helper, type) pairs")


def replay(ctx, path):
    binp = ctx.build("update")
    rp = json.load(open(path))
    case = rp["case"]
    if "event" in case:      # redo the recorded inputs against the real code, then let TLC judge the fresh observation
        pin, pout = os.path.join(ctx.out, "event-in.ndjson"), os.path.join(ctx.out, "event-out.ndjson")
        vp.write_ndjson(pin, [case["event"]])
        s = ctx.run_json(binp, ["reexec", pin, pout])
        tr = ctx.tlc_trace("Trace_Update", pout)
        bad = bool(tr.bad) or not tr.accepted or bool(s["mismatches"])
    else:
        p = os.path.join(ctx.out, "one.ndjson")
        vp.write_ndjson(p, [case])
        s = ctx.run_json(binp, ["replay", p, os.path.join(ctx.out, "one-trace.ndjson")])
        bad = any(m["key"] == rp["key"] for m in s["mismatches"])
    if bad:
        print("VIOLATION property=%s replay=%s" % (ctx.id, path))
        return 1
    print("replay: discrepancy no longer present")
    return 0
