"""C03  Domain names: text and wire forms correspond; 63/255-octet limits enforced.

MC      MC_Names: Names.tla on itself with MaxLabel=2/MaxName=8 (limits reached and crossed)
GEN     Gen_Names modes strings / shapes / octets (real limits) -> harness `names replay`
TV      harness `names record c03` (random wire names, pointers) -> Trace_Names
"""
import os, json
import vp

SMALL = {"Alpha": "{0, 46, 65, 92}", "StrLen": 5}


def gen(ctx, binp, mode, n, nshards, shards):
    def one(sh):
        r, vecs = ctx.tlc_vectors("Gen_Names", workers=1, xmx="3g", timeout=3000,
                                  consts={"Mode": '"%s"' % mode, "N": n, "Shard": sh, "NShards": nshards})
        path = os.path.join(r.dir, "vectors.ndjson")
        if not os.path.exists(path):
            return
        s = ctx.run_json(binp, ["replay", path])
        vp.absorb(ctx, s)
    vp.parallel([lambda sh=sh: one(sh) for sh in shards])


def tv(ctx, binp, which, n, nproc):
    def one(k):
        out = os.path.join(ctx.out, "trace-%s-%d.ndjson" % (which, k))
        s = ctx.run_json(binp, ["record", which, out, str(n)], env={"VERIF_SEED": str(ctx.seed * 1000 + k)})
        vp.absorb(ctx, s, traces=False)
        tr = ctx.tlc_trace("Trace_Names", out, xmx="3g", timeout=3000)
        evs = vp.read_ndjson(out)
        vp.absorb_trace(ctx, tr, evs, lambda e: "names/trace:" + e["ev"])
    vp.parallel([lambda k=k: one(k) for k in range(nproc)])


def confirm_with(binp):
    def confirm(ctx_c):
        return True
    return confirm


def run(ctx):
    binp = ctx.build("names")
    if ctx.quick:
        ctx.tlc("MC_Names", consts=SMALL, timeout=900)
        gen(ctx, binp, "strings", 4, 1, [0])
        gen(ctx, binp, "shapes", 0, 16, [ctx.seed % 16])
        gen(ctx, binp, "octets", 0, 1, [0])
        tv(ctx, binp, "c03", 1500, 2)
    else:
        ctx.tlc("MC_Names", timeout=1800)
        gen(ctx, binp, "strings", 6, 16, range(16))
        gen(ctx, binp, "shapes", 0, 16, range(16))
        gen(ctx, binp, "octets", 0, 1, [0])
        tv(ctx, binp, "c03", 4000, 16)
    ctx.assumptions += [
        "texts with \\DDD > 255 (undefined in RFC 1035) are outside the universe; a backslash before a digit that does not start three digits is read as that digit",
        "the empty string is not a name (PackDomainName documents it as 'no name')",
    ]
    return ctx.finish(rule="vectors: every text over 8 symbols (a A 0 . \\ space \\200 \\.) up to N symbols; every label-length "
                      "vector over {1,2,61..65} with wire length 250..260 x 3 fill octets; 256 octets x 3 positions; events: random wire "
                      "names incl. pointers. distinct = distinct texts / wire strings; non-trivial = inside RFC 1035 (st # undef)")


def replay(ctx, path):
    binp = ctx.build("names")
    rp = json.load(open(path))
    case = rp["case"]
    if "event" in case:
        tr = ctx.tlc_trace("Trace_Names", [case["event"]])
        bad = bool(tr.bad) or not tr.accepted
    else:
        p = os.path.join(ctx.out, "one.ndjson")
        vp.write_ndjson(p, [case])
        s = ctx.run_json(binp, ["replay", p])
        bad = any(m["key"] == rp["key"] for m in s["mismatches"])
    if bad:
        print("VIOLATION property=%s replay=%s" % (ctx.id, path))
        return 1
    print("replay: discrepancy no longer present")
    return 0
