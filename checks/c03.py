"""C03  Domain names: text and wire forms correspond; 63/255-octet limits enforced.

MC      MC_Names: Names.tla on itself with MaxLabel=2/MaxName=8 (limits reached and crossed)
GEN     Gen_Names (real limits) -> harness `names replay`; the expected values are TLC's:
          strings   every text of <= N symbols over {a A 0 . \\ space \\200 \\.}: IsFqdn, IsDomainName, PackDomainName
                    (accept + octets), the compressed sequence parent/name/name over one map          [mutant at-not-special]
          (every vector) the compressed sequences of harness packCtx - parent / name / name again, and for valid names
                    other-case parent / name / other-case name / name again (Names!OtherCaseName; ftext, fwire, fptext
                    in the vector) - over one compression map, beginning at offset 12, 0, 1, 255 and 16370 of the
                    buffer: the octets written expand to the spec's octets wherever the sequence begins (a pointer
                    target at offset 0, astride 255/256 and astride 16383) and whatever the letter case of the names
                    packed before (a pointer may only replace labels that are octet for octet the same)
                    [seed C03-19: finding keys ...:clean-map@0; seed C03-21: ...-behind-flipped-parent / flipped-behind-name]
          shapes    label-length vectors over {1,2,61..65}, at most 6 labels, wire length 250..260, four fill
                    octets: UnpackDomainName / IsDomainName / PackDomainName on the limits          [mutants label64, budget-lt]
          octets    256 octet values x 3 positions, in the spelling the library writes
          spell     256 octet values x 3 positions x the 3 spellings a TEXT may use (the octet itself, \\c, \\DDD),
                    whether or not the library writes that one: text -> octets through Parse          [seed C03-16: \\046, \\092]
          spellshapes  a label / a name just inside and just beyond the limits (label 61..65, wire 251..258) with every
                    octet in one spelling, or raw / \\c / \\DDD in turn, for the fills a @ 0 . \\ 0xc8: an octet counts once
                    however many characters spell it                  [mutant isdn-ddd-printable; seed C03-17's neighbour]
          escapes   every text of <= N symbols over {a 0 . \\ \\046 \\092 \\048 \\\\ \\.}: the \\DDD spelling of an octet
                    that is also syntax, next to that syntax ('\\092.' must not swallow the dot)     [seed C03-16]
          crowd     names at and around the maximal label COUNT: 127-N..127+N labels of one octet, up to 2N of them
                    of two, wire length 250..260, five fills - the count and the octet limit are reached together
                    only here (shapes has <= 6 labels)                                              [seed C03-18]
TV      harness `names record c03` -> Trace_Names (TLC judges each event)
          unpack    random wire names (1 in 16 of the long ones crowded: one-octet labels as many as fit), some
                    through a pointer; the text is given back to IsDomainName and PackDomainName
          respell   every fourth event: such a name written in a random mix of raw / \\c / \\DDD spellings,
                    packed and judged by IsDomainName; RespellOK compares with Parse + EncName       [seeds C03-16, C03-18]
          packseq   every eighth event: 2-5 valid names packed one behind the other with PackDomainName over one
                    compression map (1 in 8 without compress), beginning at offset 0 / 1 / 2 / 12 / 254..256 / anywhere
                    below 600 / 16360..16390: a base name, names under it or under one of its parents, the same in other
                    letter case, its suffixes, unrelated names.  PackSeqOK: each is accepted, and TLC reads it back out
                    of the buffer (Names!WireDenotesName = DecName follows the pointers): exactly the labels Parse reads
                    from the text, octet for octet, ending where PackDomainName said           [seeds C03-19, C03-21]
Mutants (checks/mutants/C03): at-not-special, budget-lt, label64 as above; pack-ddd-special (the packer refuses \\046 and
\\092: spell, escapes, respell), isdn-ddd-printable (IsDomainName counts a \\DDD-spelled printable octet four times:
spellshapes, respell), unpack-label-cap (UnpackDomainName refuses more than 126 labels: crowd, unpack events; the
repository's own tests see that one too), compress-pointer-gt0 (a compression hit at offset 0 is ignored after the loop
was left, seed C03-19's neighbour: packCtx @0, packseq), compress-lowercase-key (compression map keyed by the lower-cased
suffix: packCtx flipped sequences, packseq).
"""
import os, json
import vp

SMALL = {"Alpha": "{0, 46, 65, 92}", "StrLen": 5}


def gen_jobs(ctx, binp, mode, n, nshards, shards):
    """One callable per shard: TLC writes the vectors of the shard, the harness replays them."""
    def one(sh):
        r, vecs = ctx.tlc_vectors("Gen_Names", workers=1, xmx="3g", timeout=3000,
                                  consts={"Mode": '"%s"' % mode, "N": n, "Shard": sh, "NShards": nshards})
        path = os.path.join(r.dir, "vectors.ndjson")
        if not os.path.exists(path):
            return
        s = ctx.run_json(binp, ["replay", path])
        vp.absorb(ctx, s)
    return [lambda sh=sh: one(sh) for sh in shards]


def gen(ctx, binp, mode, n, nshards, shards):
    vp.parallel(gen_jobs(ctx, binp, mode, n, nshards, shards))


def tv_jobs(ctx, binp, which, n, nproc):
    """One callable per recorder: the harness records n events, TLC judges them."""
    def one(k):
        out = os.path.join(ctx.out, "trace-%s-%d.ndjson" % (which, k))
        s = ctx.run_json(binp, ["record", which, out, str(n)], env={"VERIF_SEED": str(ctx.seed * 1000 + k)})
        vp.absorb(ctx, s, traces=False)
        tr = ctx.tlc_trace("Trace_Names", out, xmx="3g", timeout=3000)
        evs = vp.read_ndjson(out)
        vp.absorb_trace(ctx, tr, evs, lambda e: "names/trace:" + e["ev"])
    return [lambda k=k: one(k) for k in range(nproc)]


def tv(ctx, binp, which, n, nproc):
    vp.parallel(tv_jobs(ctx, binp, which, n, nproc))


QUICK_PAR = 4     # JVMs of one quick run at a time (what the widest stage took when the stages ran one after the other)


def confirm_with(binp):
    def confirm(ctx_c):
        return True
    return confirm


def run(ctx):
    binp = ctx.build("names")
    if ctx.quick:
        # the stages are independent of each other: one pool, the long ones first
        jobs = [lambda: ctx.tlc("MC_Names", consts=SMALL, timeout=900)]
        jobs += gen_jobs(ctx, binp, "shapes", 0, 16, [ctx.seed % 16])
        jobs += tv_jobs(ctx, binp, "c03", 1600, 2)
        jobs += gen_jobs(ctx, binp, "spellshapes", 0, 1, [0])
        jobs += gen_jobs(ctx, binp, "escapes", 4, 1, [0])
        jobs += gen_jobs(ctx, binp, "strings", 4, 1, [0])
        jobs += gen_jobs(ctx, binp, "spell", 0, 1, [0])
        jobs += gen_jobs(ctx, binp, "crowd", 2, 1, [0])
        jobs += gen_jobs(ctx, binp, "octets", 0, 1, [0])
        vp.parallel(jobs, maxpar=QUICK_PAR)
    else:
        ctx.tlc("MC_Names", timeout=1800)
        gen(ctx, binp, "strings", 6, 16, range(16))
        gen(ctx, binp, "shapes", 0, 16, range(16))
        gen(ctx, binp, "octets", 0, 1, [0])
        gen(ctx, binp, "spell", 0, 1, [0])
        gen(ctx, binp, "spellshapes", 0, 1, [0])
        gen(ctx, binp, "escapes", 6, 16, range(16))
        gen(ctx, binp, "crowd", 8, 4, range(4))
        tv(ctx, binp, "c03", 4000, 16)
    ctx.assumptions += [
        "texts with \\DDD > 255 (undefined in RFC 1035) are outside the universe; a backslash before a digit that does not start three digits is read as that digit",
        "the empty string is not a name (PackDomainName documents it as 'no name')",
    ]
    return ctx.finish(rule="vectors: every text over 8 symbols (a A 0 . \\ space \\200 \\.) and over 9 escape symbols (a 0 . \\ \\046 \\092 "
                      "\\048 \\\\ \\.) up to N symbols; 256 octets x 3 positions x 3 spellings (raw, \\c, \\DDD); 30 boundary shapes x 18 fill/spelling combinations; every label-length "
                      "vector over {1,2,61..65} with wire length 250..260 x 4 fill octets; names of 127-N..127+N labels of 1-2 octets "
                      "with wire length 250..260 x 5 fills; events: random wire names incl. pointers and crowded ones, random "
                      "respellings of their text, sequences of related names (same / other letter case) packed over one compression map from offsets 0..600 and around 16384. "
                      "Every vector also through the compressed sequences parent/name/name and other-case parent/name/other-case name/name at offsets 12, 0, 1, 255, 16370. distinct = distinct texts / wire strings; non-trivial = inside RFC 1035 (st # undef)")


def replay(ctx, path):
    binp = ctx.build("names")
    rp = json.load(open(path))
    case = rp["case"]
    if "event" in case:
        # the inputs of the recorded event through the real code again, the new event judged by TLC
        pin, pout = os.path.join(ctx.out, "event.ndjson"), os.path.join(ctx.out, "event-rerun.ndjson")
        vp.write_ndjson(pin, [case["event"]])
        s = ctx.run_json(binp, ["rerun", pin, pout])
        bad = bool(s["mismatches"])      # a panic
        evs = vp.read_ndjson(pout)
        if evs:
            tr = ctx.tlc_trace("Trace_Names", evs)
            bad = bad or bool(tr.bad) or not tr.accepted
    else:
        p = os.path.join(ctx.out, "one.ndjson")
        vp.write_ndjson(p, [case])
        s = ctx.run_json(binp, ["replay", p])
        bad = any(m["key"] == rp["key"] for m in s["mismatches"])
    if bad:
        print("VIOLATION property=%s replay=%s" % (ctx.id, path))
        return 1
    print("replay: discrepancy no longer present")
    return 0
