"""C01  Wire encoding is lossless and matches the RFC layouts for every record type.

Spec    spec/WireRR.tla: hand-written layout table (80 type codes = all of dns.TypeToRR, + RFC 3597 fallback, 15 EDNS0 option
        codes, 9 SvcParam keys), EncMsg / LenMsg / DecMsg / WFMsg, RCODE split (RFC 6891).
MC      MC_WireRR: DecMsg(EncMsg(m)) = frame of m, DecRdata inverts EncRdata for the regular kinds,
        LenMsg = Len(EncMsg), record offsets / packing plan, RCODE split and join, on a small universe.
GEN     Gen_WireRR modes types / cross / rrhdr / opts / svcb / gateway / nodata / unknown / hdr / rcode /
        sections / big / compress / orders / empty  ->  harness `wire replay`: Pack() = spec octets; Unpack(spec octets) = message
        (every header bit, count, field); Unpack(spec octets).Pack() = spec octets; PackRR / UnpackRR /
        Rdlength agree; messages the wire format cannot carry must be refused.
TV      harness `wire record` (random abstract messages over the whole layout -> real Pack / Unpack / re-Pack)
        -> Trace_WireRR (TLC judges bytes = EncMsg(msg), msg2 = NormMsg(msg), rebytes = bytes).

Finding keys: wire/<stage>:<MNEMONIC>[:<feature class>]  (wire/<stage>:nodata for RDATA-less records).

Mutants (checks/mutants/C01/*.diff; apply to a scratch copy, `VERIF_REPO=/tmp/wire-x bin/check C01 quick` exits 1 for each):
  srv-swap.diff         SRV weight/port swapped in pack AND unpack           -> replay wire/pack-octets:SRV, unpack-fields:SRV; TV trace-pack-octets:SRV
  ttl-le.diff           record TTL little-endian in pack AND unpack          -> replay wire/pack-octets:<every type>, unpack-fields; TV
  u48-shift.diff        packUint48 drops the top octet                       -> replay wire/pack-octets:EUI48, TSIG (+ repack-octets); TV
  caa-noescape.diff     CAA value not unescaped on pack                      -> replay wire/pack-octets:CAA:backslash; TV
  extrcode-byte.diff    extended RCODE kept in the VERSION octet of the OPT TTL, both directions -> replay (rcode mode) wire/pack-octets:OPT,
                        unpack-fields:header; TV
  nsec-bitorder.diff    type-bitmap bit order reversed in each octet, both directions -> replay wire/pack-octets:NSEC / NSEC3 / CSYNC; TV
  svcb-sortdesc.diff    SvcParams sorted in decreasing key order on pack     -> replay (svcb mode) wire/pack-octets:SVCB / HTTPS; TV
  header-ad-cd.diff     AD and CD header bits exchanged, both directions     -> replay (hdr mode) wire/pack-octets:header, unpack-fields:header; TV
  rfc3597-long.diff     unknown-type RDATA beyond 200 octets corrupted on unpack -> replay (unknown mode) wire/unpack-fields:TYPEnn, repack-octets
All nine compile; the six "both directions" ones are invisible to pack/unpack round-trip tests.
"""
import os, json
import vp

SHARDED = {"types", "cross", "nodata", "hdr", "rcode", "sections", "big", "compress", "orders", "straddle"}


def layout(ctx):
    r, _ = ctx.tlc_vectors("Gen_WireRR", workers=1, xmx="2g", timeout=600, count=False,
                           consts={"Mode": '"layout"', "Tier": 0, "Shard": 0, "NShards": 1})
    p = os.path.join(r.dir, "vectors.ndjson")
    if not os.path.exists(p):
        raise vp.Infra("Gen_WireRR did not export the layout")
    return p


def gen_jobs(ctx, binp, lay, sub, jobs, tier, module="Gen_WireRR"):
    """jobs: list of (mode, nshards, shards). Each shard: TLC generates, the harness replays."""
    def one(mode, nsh, sh):
        r, _ = ctx.tlc_vectors(module, workers=1, xmx="3g", timeout=3000,
                               consts={"Mode": '"%s"' % mode, "Tier": tier, "Shard": sh, "NShards": nsh})
        path = os.path.join(r.dir, "vectors.ndjson")
        if not os.path.exists(path):
            if nsh == 1:
                raise vp.Infra("%s mode %s produced no vectors" % (module, mode))
            return
        s = ctx.run_json(binp, [sub, lay, path])
        vp.absorb(ctx, s)
        mm = (s.get("notes") or {}).get("model_mismatch_vectors")
        if mm:
            with vp._lock:
                ctx.notes["model_mismatch_total"] = ctx.notes.get("model_mismatch_total", 0) + mm
        with vp._lock:
            ctx.notes.setdefault("vectors_per_mode", {})
            ctx.notes["vectors_per_mode"][mode] = ctx.notes["vectors_per_mode"].get(mode, 0) + s.get("evaluations", 0)
    fns = []
    for mode, nsh, shards in jobs:
        if mode not in SHARDED and nsh != 1:
            raise vp.Infra("mode %s is not sharded" % mode)
        for sh in shards:
            fns.append(lambda mode=mode, nsh=nsh, sh=sh: one(mode, nsh, sh))
    vp.parallel(fns, maxpar=ctx.ncpu)


def tv(ctx, binp, lay, n, nproc, sub="record", module="Trace_WireRR", prefix="wire/trace-"):
    def one(k):
        out = os.path.join(ctx.out, "trace-%s-%d.ndjson" % (sub, k))
        s = ctx.run_json(binp, [sub, lay, out, str(n)], env={"VERIF_SEED": str(ctx.seed * 1000 + k)})
        vp.absorb(ctx, s, traces=False)
        tr = ctx.tlc_trace(module, out, xmx="3g", timeout=3000)
        try:
            ill = json.loads(tr.vals.get("ill", "[]"))
        except Exception as ex:
            raise vp.Infra("unparsable VP:ill line: %s" % ex)
        if [i for i in ill if i > 0]:
            raise vp.Infra("events %s of %s: ill-formed abstract message from the recorder; no verdict" % ([i for i in ill if i > 0], out))
        if ill:   # negative: the CompressLen machines differ from the observed numbers although no clause of the property is violated
            with vp._lock:
                ctx.notes["model_mismatch_total"] = ctx.notes.get("model_mismatch_total", 0) + len(ill)
                ctx.notes.setdefault("model_mismatch_sample", {"trace": os.path.basename(out), "event": -ill[0]})
        evs = vp.read_ndjson(out)
        annotate(tr, evs)
        vp.absorb_trace(ctx, tr, evs, lambda e: prefix + e.get("stage", "stuck") + ":" + e["key"])
    vp.parallel([lambda k=k: one(k) for k in range(nproc)], maxpar=ctx.ncpu)


def annotate(tr, evs):
    """The trace spec names the first clause each bad event violates (VP:stages); it goes into the key."""
    try:
        for i, st in json.loads(tr.vals.get("stages", "[]")):
            evs[i - 1]["stage"] = st
    except Exception as ex:
        raise vp.Infra("unparsable VP:stages line: %s" % ex)


def reexecute(ctx, binp, lay, cand, sub="replay", module="Trace_WireRR"):
    """Run one candidate again in a fresh process; True iff the same finding key shows again."""
    case = cand["case"]
    tag = str(abs(hash(cand["key"])) % 10 ** 8)
    if "event" in case:
        src, dst = os.path.join(ctx.out, "re-in-%s.ndjson" % tag), os.path.join(ctx.out, "re-out-%s.ndjson" % tag)
        vp.write_ndjson(src, [case["event"]])
        ctx.run_json(binp, ["reexec" if module == "Trace_WireRR" else "lenreexec", lay, src, dst])
        tr = ctx.tlc_trace(module, dst, xmx="2g")
        evs = vp.read_ndjson(dst)
        annotate(tr, evs)
        return bool(tr.bad) and cand["key"].endswith(evs[0].get("stage", "?") + ":" + evs[0]["key"])
    if case.get("big"):   # octets left out of the report: regenerate the generator case (g, v)
        r, vecs = ctx.tlc_vectors("Gen_CompressLen" if sub == "len" else "Gen_WireRR", workers=1, xmx="3g", timeout=3000, count=False,
                                  consts={"Mode": '"%s"' % case["g"], "Tier": 1, "Shard": 0, "NShards": 1})
        vecs = [x for x in vecs if x["v"] == case["v"]]
        if not vecs:
            return None
        case = vecs[0]
    p = os.path.join(ctx.out, "re-%s.ndjson" % tag)
    vp.write_ndjson(p, [case])
    s = ctx.run_json(binp, [sub, lay, p])
    return any(m["key"] == cand["key"] for m in s["mismatches"])


def run(ctx):
    binp = ctx.build("wire")
    lay = layout(ctx)
    if ctx.quick:
        ctx.tlc("MC_WireRR", consts={"Scale": 0}, timeout=1200)
        s4 = [0, 1, 2, 3]
        gen_jobs(ctx, binp, lay, "replay", [
            ("types", 4, s4), ("rrhdr", 1, [0]), ("opts", 1, [0]), ("svcb", 1, [0]), ("gateway", 1, [0]),
            ("nodata", 1, [0]), ("unknown", 1, [0]), ("hdr", 1, [0]), ("rcode", 1, [0]), ("sections", 1, [0]),
            ("big", 1, [0]), ("compress", 1, [0]), ("orders", 1, [0]), ("empty", 1, [0]), ("cross", 4, [ctx.seed % 4])], tier=0)
        tv(ctx, binp, lay, 2500, 4)
    else:
        ctx.tlc("MC_WireRR", consts={"Scale": 1}, timeout=3000)
        s16 = list(range(16))
        gen_jobs(ctx, binp, lay, "replay", [
            ("hdr", 16, s16), ("rcode", 4, [0, 1, 2, 3]), ("types", 4, [0, 1, 2, 3]), ("cross", 4, [0, 1, 2, 3]),
            ("rrhdr", 1, [0]), ("opts", 1, [0]), ("svcb", 1, [0]), ("gateway", 1, [0]), ("nodata", 1, [0]),
            ("unknown", 1, [0]), ("sections", 1, [0]), ("big", 1, [0]), ("compress", 4, [0, 1, 2, 3]), ("orders", 1, [0]), ("empty", 1, [0])], tier=1)
        tv(ctx, binp, lay, 8000, 16)
    ctx.assumptions += [
        "abstract messages are well-formed in the sense of WireRR!WFMsg: names <= 255 octets, length fields equal to the "
        "length of what they size, type bitmaps / SvcParam mandatory lists strictly increasing, no duplicate SvcParamKeys, "
        "at most one OPT (in the additional section), APL / client-subnet addresses zero beyond the prefix, opcode 0..15",
        "the Go value of an RDATA-less record is *dns.ANY carrying the record's type (the library's own convention, update.go)",
        "type bitmaps, SvcParams and the keys of SVCB 'mandatory' are sets: the Go value may list them in any order (vectors: increasing, "
        "decreasing, every single adjacent transposition, sets of 2-4) and must be packed in increasing order; AMBIG: an unordered type "
        "bitmap may instead be refused by Pack() (never mis-encoded)",
        "canonical encodings only: EDNS0 UL without a zero KEY-LEASE, no compression pointers (C04 covers compression)",
        "values the Go API cannot spell (ISDN without sub-address, tcp-keepalive TIMEOUT present with value 0) are only "
        "checked in the unpack -> pack direction",
    ]
    ctx.notes["types_in_layout"] = 80
    ctx.notes["types_not_covered"] = ("none of dns.TypeToRR is missing from the layout; NXT is stated with the RFC 2535 flat bitmap "
                                      "(the library uses the NSEC window format: known finding); user-registered private types are "
                                      "represented by one type (65280) with opaque RDATA registered by the harness")
    return ctx.finish(rule="vectors: per type each-choice over boundary values of every field (ints 0/1/255/256/max, names root / 1 label / "
                      "63-octet label / 255-octet name / special octets, strings empty / 1 / 255 / escapes, blobs empty / 1 / 2 / 3 / long), "
                      "pairs for 2-field types, every EDNS0 option code incl. unassigned and local, every SvcParamKey incl. unassigned and "
                      "private, IPSECKEY / AMTRELAY gateway type x discovery bit, RDATA-less records of every type, RFC 3597 unknown codes, "
                      "a private type, header flag words (all 65536 thorough), RCODE 0..4096 x {no OPT, OPT, OPT with options}, section sizes "
                      "0..3^4, 65535-octet RDATA; events: random messages over the whole layout. distinct = distinct expected octet strings",
                      confirm=lambda c: reexecute(ctx, binp, lay, c))


def replay(ctx, path):
    binp = ctx.build("wire")
    lay = layout(ctx)
    rp = json.load(open(path))
    r = reexecute(ctx, binp, lay, rp)
    if r is None:
        raise vp.Infra("replay case could not be re-executed")
    if r:
        print("VIOLATION property=%s replay=%s" % (ctx.id, path))
        return 1
    print("replay: discrepancy no longer present")
    return 0
