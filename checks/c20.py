"""C20  Record equality is a TTL/case-insensitive equivalence; Dedup keeps one each.

(Dedup's group key is defined on the owner's label OCTETS lower-cased -- Names!Parse of the owner text -- not on its characters.)
MC      MC_Dup, Dup.tla on itself: pairs over 144 abstract records [t,c,o,ttl,n,v] (IsDup symmetric, ignores TTL and the
        case of owner/embedded names, separates everything else, lower-cases names only), triples over 36 (transitive),
        all lists of <= 5 of the six Dedup symbols x 7 owner shapes (escaped backslash / dot / \\DDD / quote next to the letter
        whose case changes, several backslashes in a row) (one per group, original order, first of its group, minimum TTL,
        idempotent, never merges non-duplicates); Mode "ext": records with a LIST in the RDATA whose elements are dropped
        (at the end = a proper prefix, at the front, in the middle, all) or repeated -- lists of different length are never
        duplicates, in either order -- and records differing in ONE BIT of the type / class (8 base classes x 16 bits: no bit
        of the class is a flag that equality ignores) / TTL (any bit: still duplicates).
GEN     Gen_Dup exports every ordered pair (verdict of Dup.tla), every triple of the reduced universe, every list of <= N
        symbols with the surviving indexes and TTLs  ->  harness `dup replay`: the abstract records are instantiated for
        every record type (+ gateway variants of IPSECKEY/AMTRELAY) and, by reflection, for EVERY field of it: n ranges
        over each field tagged domain-name/cdomain-name, v over every other scalar cell (each element of every slice,
        option, SVCB parameter, APL prefix); an instantiation is used only if the variants pack to octets that differ
        exactly where the abstract records do.  dns.IsDuplicate (both orders, Copy, separately built equal record) and
        dns.Dedup(list, nil) (identity, order, TTLs) are compared with the vector.  Mode "octets": for every octet value c the
        names x<c>y / x<c XOR 0x20>y as owner and in every embedded name field (duplicates only for letters).  Where reversing
        a record's lists does not change its packed octets (SVCB/HTTPS parameters) the pairs/triples are also run with the
        first, the second and both arguments in reversed order (another spelling of the same record: same verdicts, incl. Copy).
        Mode "lens": every ordered pair of the list variants of MC_Dup (element numbers of a base list of 1..3 elements) with
        the verdict of Dup.tla, applied by reflection to EVERY slice of every type (texts, type bitmaps, prefixes, SVCB
        parameters and their lists, rendezvous servers, octet strings), as built and as decoded from the packing; used where
        both variants pack and their octets are equal exactly where the vector says "duplicates".  Mode "hdrbits": two records
        of every type whose class / type / TTL are the vector's two values differing in one bit.  A panic of IsDuplicate is
        a finding of its own (isduplicate/panics:...); the call in the other order is still judged.
        Mode "raw" (RAW spellings): the names of the modes "octets" and "raw" are instantiated in two spellings -- escaped (\\DDD,
        what Unpack produces) and RAW (every octet itself, only . and \\ escaped: what a hand-built record or the zone parser
        holds for an octet >= 0x80), the raw one where the library packs it to the wire form of the vector.  Mode "raw": every
        ordered pair of labels of 1..2 octets over {k s C3 89 A9 C5 BF FF FE} (thorough: + K S 80 E2) and the 3-octet Kelvin
        sign -- UTF-8 sequences that Unicode case folding relates to each other (U+00C9/U+00E9) or to an ASCII letter of
        another length (U+017F/s, U+212A/k) and octets that are no UTF-8 at all (FF/FE): names are octet strings, only A-Z /
        a-z are letters -- as owner and in every embedded name field of every type, verdict of Dup.tla on the wire forms.
TV      harness `dup record`: random pairs of records obtained from the wire (Unpack of the real Pack, one RDATA octet
        outside the names overwritten in a quarter of them) described by their uncompressed owner/RDATA octets and the
        spans of their embedded names, with IsDuplicate in both orders; random lists with TTLs up to 2^32-1 and the real
        Dedup result; `dup sweep`: every RDATA octet of every type overwritten with 0 / 0xff / bit 0 flipped, each decoded
        variant against a second decoding of the same octets and against the original; every slice of every type with its
        last / first / every element dropped and its last element twice (as built and decoded); every bit of the type and
        class octets and bits 0/15/16/31 (thorough: all) of the TTL octets flipped in the packed record, type and class of
        the description read from the octets  ->  Trace_Dup.  `dup record` also draws pairs whose classes differ in one bit.

Seeded changes /verif/seeded/C20-{1,2,3} (all exit 1):
  C20-1 normalizedString: backslash sets esc instead of toggling   GEN dedup/count:<type> (lists with the owner shapes a\\\\B / A\\\\b ...); TV dedup/trace:<type>
  C20-2 equal(): XOR-0x20 fast path without the upper letter bound  GEN isduplicate/false-positive:<type>:owner-octet-xor-0x20 and
                                                                    :name-octet-xor-0x20:<field> (mode "octets"); TV (random x\\DDDy names)
  C20-3 areSVCBPairArraysEqual sorts b with a's comparator          GEN isduplicate/false-negative:svcb|https:...:second-unsorted (pairs with
                                                                    reversed parameter order, Copy of an unsorted record); TV isduplicate/asymmetric:https

  C20-5 Dedup's second pass keeps r when m[key] == r              GEN dedup/count:same-value-repeated:<type> (every list is also instantiated with
                                                                    repeated symbols being THE SAME Go value, all or some); TV dedup/trace:<type>
  C20-6 APLPrefix.equals compares Network.String()                  TV isduplicate/false-positive:apl:address-4-as-mapped-v6:* (`dup sweep`: every
                                                                    address cell respelled 4 octets / 16 octets IPv4-mapped / mapped with family,
                                                                    prefix+96 or gateway type following; verdict on the packed octets)

  C20-9 single-pass Dedup that never deletes from the scratch map  GEN dedup/reused-map:after-a-call-that-removed-duplicates:count|ttl|earlier-result-ttl
                                                                    (mode "seqs": two calls in a row with nil / fresh / ONE re-used map, each result
                                                                    judged on its own argument); TV dedup/reused-map:...:trace

  C20-11 size-/hex/base32 fields compared with EqualFold              TV isduplicate/false-positive:hip:encoded-text-case:size-base64:* (`dup sweep`: every
                                                                    hex/base64/base32hex field with its text in the other letter case, judged on the octets)
  C20-12 isDuplicateName falls back to the unescaped texts           GEN isduplicate/false-positive:<type>:owner-label-sequence / :name-label-sequence:<field>
                                                                    (mode "labels": names as label sequences over a . \\); TV ...:label-boundary-vs-dot-octet:*

  C20-17 generated slice comparison without the length check (APL)   GEN isduplicate/false-positive:apl:list-length:prefixes (shorter list first) and
                                                                    isduplicate/panics:apl:list-length:prefixes (longer first) (mode "lens"); TV panics key (`dup sweep`)
  C20-18 class compared with the top bit masked off                 GEN isduplicate/false-positive:<type>:class-top-bit (mode "hdrbits", as built and from the wire);
                                                                    TV isduplicate/false-positive:<type>:one-header-bit:class:top-bit (sweep), :class-top-bit (record)

  C20-19 labels.go equal() = strings.EqualFold                      GEN isduplicate/false-positive:<type>:owner-non-ascii-octets:raw-octets, :name-non-ascii-octets:<field>:raw-octets
                                                                    (mode "raw"), :owner-octet-xor-0x20:raw-octets / :name-octet-xor-0x20:<field>:raw-octets (mode "octets",
                                                                    raw spelling: x<80>y / x<A0>y are both invalid UTF-8); TV not seen (names from the wire are \\DDD-escaped)
  C20-20 areSVCBPairArraysEqual: first pair of b with the same key  TV isduplicate/asymmetric:svcb|https:no-wire-form:value (`dup sweep`, "law" events: every ordered pair of lists
                                                                    of <= 2 (thorough 3) elements drawn with repetition from the first three elements of EVERY slice of every type
                                                                    where the library refuses to pack one of the two records -- a repeated SVCB key, a 2-octet address ...: such
                                                                    records have no octets to be judged by; Dup!LawOK judges the clauses on ALL records: the same answer in both
                                                                    orders, a record is a duplicate of itself, of a record built the same way and of its Copy)

Mutants (checks/mutants/C20), all exit 1 (stage = where the evidence shows the discrepancy):
  mx-preference-omitted.diff     one field dropped from a generated isDuplicate   GEN isduplicate/false-positive:mx:value:preference ; TV (pairs, sweep one-octet)
  soa-mbox-case-sensitive.diff   a name compared with !=                          GEN isduplicate/false-negative:soa:name-case:mbox ; TV not within 6 000 random events
  owner-case-sensitive.diff      owner compared with !=                           GEN isduplicate/false-negative:<type>:owner-case ; TV
  apl-negation-ignored.diff      APLPrefix.equals forgets Negation                GEN isduplicate/false-positive:apl:value:prefixes-negation ; TV
  dedup-keeps-last.diff          Dedup keeps the last of a group                  GEN dedup/order-or-identity:<type> ; TV dedup/trace:<type>
  dedup-fastpath-leaves-map.diff reverse of /repo f97e58b (all-distinct call leaves m dirty)  GEN dedup/reused-map:after-an-all-distinct-call:* ; TV ...:trace
  txt-common-prefix-compared.diff TXT.isDuplicate compares the common prefix of the two lists   GEN isduplicate/false-positive:txt:list-length:txt ; TV ...:list-length:drop-last:*
  class-any-matches-all.diff     class ANY in either header matches every class     GEN isduplicate/false-positive:<type>:class-bit (255 vs 254, 127, ...) ; TV record class-bit
  dedup-ttl-not-lowered.diff     survivor keeps its own TTL                       GEN dedup/ttl:<type> ; TV dedup/trace:<type>
"""
import os, json
import vp


def mc_jobs(ctx):
    w = 2 if ctx.quick else 4
    return [lambda: ctx.tlc("MC_Dup", workers=w, xmx="3g", timeout=1500, consts={"Mode": '"pairs"', "MaxList": 0}),
            lambda: ctx.tlc("MC_Dup", workers=w, xmx="3g", timeout=1500, consts={"Mode": '"triples"', "MaxList": 0}),
            lambda: ctx.tlc("MC_Dup", workers=w, xmx="3g", timeout=1500, consts={"Mode": '"lists"', "MaxList": 3 if ctx.quick else 5}),
            lambda: ctx.tlc("MC_Dup", workers=1, xmx="2g", timeout=1500, consts={"Mode": '"ext"', "MaxList": 0})]


def gen(ctx, nlist):
    """TLC exports the vectors (in parallel with the model checking of Dup.tla on itself)."""
    paths = []

    def g(mode, n):
        r, _ = ctx.tlc("Gen_Dup", workers=1, xmx="3g", timeout=3000, consts={"Mode": '"%s"' % mode, "N": n, "Shard": 0, "NShards": 1}), None
        p = os.path.join(r.dir, "vectors.ndjson")
        if not os.path.exists(p):
            raise vp.Infra("Gen_Dup %s exported nothing" % mode)
        paths.append(p)
    vp.parallel(mc_jobs(ctx) + [lambda: g("pairs", 0), lambda: g("triples", 0), lambda: g("lists", nlist), lambda: g("octets", 0),
                                lambda: g("seqs", 2 if ctx.quick else 3), lambda: g("labels", 0),
                                lambda: g("lens", 0), lambda: g("hdrbits", 0), lambda: g("raw", 0 if ctx.quick else 1)], maxpar=10)
    allp = os.path.join(ctx.out, "vectors-all.ndjson")
    n = 0
    with open(allp, "w") as f:
        for p in sorted(paths):
            for ln in open(p):
                f.write(ln)
                n += 1
    ctx.notes["vectors"] = n
    return allp


def replay_jobs(ctx, binp, allp, nshards):
    def one(sh):
        s = ctx.run_json(binp, ["replay", allp, str(sh), str(nshards)], timeout=7200)
        vp.absorb(ctx, s)
    return [lambda sh=sh: one(sh) for sh in range(nshards)]


def kind_key(k):
    k = k.lower()
    return "privaterr" if k == "verifpriv" else k


def trace_key(e):
    if e["ev"] == "dedup":
        h = e.get("rel", "")
        if h.startswith("reused-map:") and not h.endswith("first-use"):
            return "dedup/%s:trace" % h
        return "dedup/trace:" + kind_key(e["k"])
    k = kind_key(e["k"])
    if e["ev"] == "law":      # records without a wire form: the clauses on all records
        mid = "%s:no-wire-form:%s" % (k, e.get("mut", ""))
        if e["dup"] != e["rdup"]:
            return "isduplicate/asymmetric:" + mid
        if not e["self"]:
            return "isduplicate/not-reflexive:" + mid
        if not e["copy"]:
            return "isduplicate/copy-not-duplicate:" + mid
        return "isduplicate/false-negative:" + mid
    if not e["self"] and e["never"]:
        return "isduplicate/%s-never-duplicate" % k
    if not e["self"]:
        return "isduplicate/not-reflexive:%s%s" % (k.split("/")[0], "" if e["repack"] else ":repack-fails")
    if e["dup"] != e["rdup"]:
        return "isduplicate/asymmetric:" + k
    return "isduplicate/%s:%s:%s" % ("false-positive" if e["dup"] else "false-negative", k, e["rel"])


def tv_jobs(ctx, binp, jobs):
    def one(job):
        name, args, seed = job
        out = os.path.join(ctx.out, "trace-%s.ndjson" % name)
        s = ctx.run_json(binp, [args[0], out] + args[1:], env={"VERIF_SEED": str(seed)})
        vp.absorb(ctx, s, traces=False)
        tr = ctx.tlc_trace("Trace_Dup", out, xmx="3g", timeout=3000)
        evs = vp.read_ndjson(out)
        with vp._lock:
            bad = set(tr.bad or [])
            ctx.traces += max(0, (tr.hwm or 0) - len(bad))
            for i in sorted(bad):
                e = evs[i - 1]
                d = ctx.notes.setdefault("trace_rejections", {})
                d[trace_key(e)] = d.get(trace_key(e), 0) + 1
                ctx.candidate(trace_key(e), "recorded %s observation on %s rejected by Dup.tla" % (e["ev"], e["k"]),
                              {"record": {"args": args, "seed": seed}, "i": i, "event": e})
            if not tr.accepted and tr.rejected_at and tr.rejected_at not in bad:
                raise vp.Infra("Trace_Dup stopped at line %s without a verdict" % tr.rejected_at)
    return [lambda j=j: one(j) for j in jobs]


def run(ctx):
    binp = ctx.build("dup")
    if ctx.quick:
        allp = gen(ctx, 4)
        # replay of the vectors and recording + trace validation are independent: side by side
        vp.parallel(replay_jobs(ctx, binp, allp, 4) +
                    tv_jobs(ctx, binp, [("r%d" % k, ["record", "3000"], ctx.seed * 1000 + k) for k in range(2)] + [("sweep", ["sweep", "0", "1"], ctx.seed)]))
    else:
        allp = gen(ctx, 5)
        vp.parallel(replay_jobs(ctx, binp, allp, 8) +
                    tv_jobs(ctx, binp, [("r%d" % k, ["record", "12000"], ctx.seed * 1000 + k) for k in range(8)] +
                            [("sweep%d" % k, ["sweep", str(k), "4"], ctx.seed) for k in range(4)]))
    ctx.assumptions += [
        "embedded names of a record = the struct fields tagged dns:\"domain-name\" / \"cdomain-name\" (and the gateway host of IPSECKEY/AMTRELAY when the gateway type says so); their position in the RDATA is found by packing the record with the field replaced by the root",
        "a field is a field of the record's value only if changing it changes the packed octets (GatewayHost of an address-gateway IPSECKEY, address bits beyond an APL/ECS prefix, AMTRELAY gateways under the D bit are not)",
        "records as built (not decoded) are judged by the octets they pack to, like the pairs of mode \"pairs\"; two as-built spellings of the SAME octets are not judged (AMBIG); a list variant the library refuses to pack (a 3-octet address, a repeated SVCB key) has no octets: for it only the clauses on all records are judged (symmetric, reflexive, a record and its copy: `law' events, Dup!LawOK), not whether two different such records are duplicates",
        "names with raw octets >= 0x80 (zone parser, hand-built) are judged in pairs of the SAME spelling (both raw or both escaped); a raw against an escaped spelling of one name is not judged (AMBIG, like \\065 for A)",
        "Dedup: the RDATA text is the record's String() after the fourth tab; OPT is excluded from Dedup lists (its TTL field is not a TTL)",
        "records differing only in the escaping of a name (\\065 for A) are outside the universe: Unpack and the zone parser produce one canonical spelling",
    ]
    return ctx.finish(rule="vectors: 144^2 ordered pairs + 36^3 triples of abstract records x (record type, field) instantiations, all lists of <= N "
                      "of 6 symbols x record type, 145 pairs of list variants x every slice of every type, 336 single-bit header differences x record type; evaluations = IsDuplicate/Dedup calls compared; distinct_nontrivial = distinct (type, relation, "
                      "outcome); events: random from-the-wire pairs and lists, exhaustive single-octet RDATA overwrites, judged by TLC against Dup.tla")


def replay(ctx, path):
    binp = ctx.build("dup")
    rp = json.load(open(path))
    case = rp["case"]
    if "sweep" in case:      # a panic observed by `dup sweep` (no event: a panicking call has no answer)
        s = ctx.run_json(binp, ["sweep", os.path.join(ctx.out, "trace.ndjson"), "0", "1"])
        bad = any(m["key"] == rp["key"] for m in s["mismatches"])
    elif "record" in case:
        out = os.path.join(ctx.out, "trace.ndjson")
        a = case["record"]["args"]
        ctx.run_json(binp, [a[0], out] + a[1:], env={"VERIF_SEED": str(case["record"]["seed"])})
        evs = vp.read_ndjson(out)
        i = case["i"]
        if i > len(evs) or evs[i - 1]["k"] != case["event"]["k"]:
            raise vp.Infra("the recorder did not reproduce the trace")
        tr = ctx.tlc_trace("Trace_Dup", [evs[i - 1]])
        bad = bool(tr.bad) and trace_key(evs[i - 1]) == rp["key"]
    else:
        p = os.path.join(ctx.out, "one.ndjson")
        vp.write_ndjson(p, [case["vector"]])
        s = ctx.run_json(binp, ["replay", p, "0", "1"])
        bad = any(m["key"] == rp["key"] for m in s["mismatches"])
    if bad:
        print("VIOLATION property=%s replay=%s" % (ctx.id, path))
        return 1
    print("replay: discrepancy no longer present")
    return 0
