"""X11 (extra)  The private-type registry of privaterr.go as a state machine.        spec/PrivateRR.tla

MC      MC_PrivateRR: every sequence of <= 4 (thorough 5) PrivateHandle / PrivateHandleRemove actions over 2 registrable
        codes + 1 never registered, 3 spellings (one lower case, one the standard mnemonic MX), 2 generators; invariants:
        a live registration resolves, nothing resolves to a removed code, standard mnemonics are never lost, bookkeeping
GEN     Gen_PrivateRR: each behaviour (15 actions, <= 3 all = 3 615; length 4 = 50 625, quick one shard of 8) is replayed on
        the real registry (reset before each); after EVERY action: TypeToString / TypeToRR / StringToType entries, NewRR of
        each mnemonic and of TYPEnnn \\# form, UnpackRR, two new records not sharing rdata, and for every record made so far
        Copy (kind, text, independence), Len, Pack octets, printed type, re-unpack under the current registry
TV      `private record`: random sequences of 2..8 actions -> Trace_PrivateRR (state follows the actions, observation judged)

Findings on the unchanged tree (known-findings.d/X11.txt): removal deletes a borrowed standard mnemonic (MX unknown
afterwards); earlier mnemonics of a re-registered code survive its removal.

Mutants (checks/mutants/X11), all exit 1:
  handle-no-upper        the mnemonic is not upper-cased                  private/typetostring, private/stringtotype
  remove-keeps-typetorr  Remove leaves TypeToRR                           private/typetorr, private/unpack, ...
  remove-keeps-string    Remove leaves TypeToString                       private/typetostring, live:type-text
  copy-shares-data       PrivateRR.copy reuses r.Data                     private/live:copy-shares-rdata
  copy-registry-gen      copy uses no generator of its own (TypeToRR's)   private/live:copy | panic after removal
  len-no-rdata           len() forgets Data.Len()                         private/live:len
  handle-shared-rdata    TypeToRR closure calls generator once            private/fresh-shares-rdata
  remove-never-registered  Remove of an unregistered code removes its neighbour   private/typetostring, typetorr, ...
"""
import os, json
import vp

CODES = [65280, 65281, 65282]
MNEMS = ["PRIVA", "PRIVB", "MX"]


def keyfn(e):
    o = e.get("obs") or {}
    s2t, parse, rr = o.get("s2t", []), o.get("parse", []), o.get("rr", [])
    if (len(s2t) > 2 and s2t[2] == 0) or (len(parse) > 2 and parse[2].get("k") == "err"):
        return "private/trace:standard-mnemonic-lost"
    t2s = o.get("t2s", [])
    for j, v in enumerate(s2t):      # a mnemonic of an earlier life of a code still resolves to it
        if v in CODES and t2s[CODES.index(v)] != MNEMS[j]:
            return "private/trace:stale-after-remove"
    return "private/trace:step"


def gen(ctx, binp, n, shard, shards):
    r, vecs = ctx.tlc_vectors("Gen_PrivateRR", workers=1, xmx="3g", timeout=1800,
                              consts={"N": n, "Len4Shard": shard, "Len4Shards": shards})
    path = os.path.join(r.dir, "vectors.ndjson")
    if not os.path.exists(path):
        raise vp.Infra("Gen_PrivateRR produced no vectors")
    vp.absorb(ctx, ctx.run_json(binp, ["replay", path]))


def tv(ctx, binp, n, k):
    out = os.path.join(ctx.out, "trace-%d.ndjson" % k)
    s = ctx.run_json(binp, ["record", out, str(n)], env={"VERIF_SEED": str(ctx.seed * 1000 + k)})
    vp.absorb(ctx, s, traces=False)
    tr = ctx.tlc_trace("Trace_PrivateRR", out, xmx="2g", timeout=1800)
    evs = vp.read_ndjson(out)
    # like vp.absorb_trace, but a candidate carries the whole sequence since the last registry reset (the state matters)
    bad = set(tr.bad or [])
    ctx.traces += max(0, (tr.hwm or 0) - len(bad))
    if not tr.accepted and not bad:
        raise vp.Infra("Trace_PrivateRR rejected the trace without naming an event")
    for i in sorted(bad):
        j = i
        while j > 1 and not evs[j - 1].get("first"):
            j -= 1
        ctx.candidate(keyfn(evs[i - 1]), "recorded observation rejected by the specification (last event of the sequence)",
                      {"events": evs[j - 1:i]})


def run(ctx):
    binp = ctx.build("private")
    if ctx.quick:
        ctx.tlc("MC_PrivateRR", consts={"Depth": 4}, workers=4, xmx="3g", timeout=900)
        vp.parallel([lambda: gen(ctx, binp, 4, ctx.seed % 8, 8), lambda: tv(ctx, binp, 3000, 0)], maxpar=2)
    else:
        ctx.tlc("MC_PrivateRR", consts={"Depth": 5}, workers=4, xmx="4g", timeout=3000)
        vp.parallel([lambda sh=sh: gen(ctx, binp, 4, sh, 4) for sh in range(4)] + [lambda: tv(ctx, binp, 12000, 0)], maxpar=4)
    ctx.assumptions += [
        "AMBIG, admitted: a borrowed standard mnemonic resolves to the private or the standard type while the registration lives; an earlier "
        "mnemonic of a re-registered code may still resolve to it while it lives; a mnemonic given to two codes resolves to either, and to "
        "either or none after one of them is removed",
        "PrivateHandleRemove of a standard type code is outside the universe (it would remove the standard type)",
        "the PrivateRdata implementations are the harness' own (two codings), with a correct Copy",
    ]
    return ctx.finish(rule="behaviours: every action sequence of length <= 3 and (quick: one eighth of) length 4 over 15 actions, observation "
                      "compared after every action; events: random sequences of 2..8 actions. distinct = distinct action sequences")


def replay(ctx, path):
    binp = ctx.build("private")
    rp = json.load(open(path))
    case = rp["case"]
    if "events" in case:     # a recorded sequence: redo its actions on a fresh registry, TLC judges the fresh observations
        pin, pout = os.path.join(ctx.out, "event-in.ndjson"), os.path.join(ctx.out, "event-out.ndjson")
        vp.write_ndjson(pin, case["events"])
        s = ctx.run_json(binp, ["reexec", pin, pout])
        tr = ctx.tlc_trace("Trace_PrivateRR", pout)
        bad = (len(case["events"]) in (tr.bad or [])) or not tr.accepted and not tr.bad or bool(s["mismatches"])
    else:
        p = os.path.join(ctx.out, "one.ndjson")
        vp.write_ndjson(p, [case])
        s = ctx.run_json(binp, ["replay", p])
        bad = any(m["key"] == rp["key"] for m in s["mismatches"])
    if bad:
        print("VIOLATION property=%s replay=%s" % (ctx.id, path))
        return 1
    print("replay: discrepancy no longer present")
    return 0
