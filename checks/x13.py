"""X13 (extra)  Zone-file durations, TYPEnnn / CLASSnnn, mnemonic tables, \\# generic RDATA.      spec/Durations.tla

MC      MC_Durations: number x unit against integer arithmetic (0..3550 x 5 units, both cases, nhnmn), bare units AMBIG, the
        2^32 and 2^64 boundaries in four 16-bit limbs; every TYPEn / CLASSn for n = 0..65536; hex round trip and length
        agreement of \\# RDATA; Layout's mnemonics are injective (69 089 states)
GEN     Gen_Durations -> harness `durations replay`:
          ttl    6 880 texts (all <= 3 pieces of 19: numbers around 2^32 / 2^64, units sMhDw, junk x - .; + n u n u) at the
                 TTL field of a record (NewRR and ReadRR) and after $TTL
          gtok   TYPE/type/TypE and CLASS/class x 14 number texts as the type / class of a record and inside an NSEC bit map
          mnem   every type of WireRR!Layout: Type.String, TypeToString, StringToType, the mnemonic in three cases and TYPEn
                 as a record's type (zoo RDATA) and in a bit map; codes without mnemonic; the classes
          rdata  \\# <length> <hex words>: 10 lengths x 16 word lists x {TYPE65280, A, MX, TXT}

Findings on the unchanged tree (known-findings.d/X13.txt): TTL numbers that wrap 2^64 are accepted; \\# data that is not
hexadecimal is accepted; \\# for a known type is not checked against the type's format.

Mutants (checks/mutants/X13), all exit 1:
  ttl-week-6days        w = 6 days                                    durations/ttl:value
  ttl-no-bound          the 2^32-1 bound is dropped (truncates)       durations/ttl:accepts-invalid
  ttl-upper-only        lower-case units are refused                  durations/ttl:rejects-valid
  ttl-minute-case       "M" means months (30 d)                       durations/ttl:value
  type-base-16          TYPEnnn read as hexadecimal                   durations/generic-token:t, type-token
  class-offset          CLASSnnn skips one digit                      durations/generic-token:c, class-token
  rfc3597-len-ignored   \\# length is not compared with the data       durations/generic-rdata:accepts-invalid
  type-string-lower     Type.String lower-cases unknown types (typeN) durations/type-string:no-mnemonic
  ttl-digits-keep       the number is not reset after a `d' unit       durations/ttl:value
"""
import os, json
import vp


def gen(ctx, binp, mode):
    def one():
        r, vecs = ctx.tlc_vectors("Gen_Durations", workers=1, xmx="3g", timeout=1800, consts={"Mode": '"%s"' % mode})
        path = os.path.join(r.dir, "vectors.ndjson")
        if not os.path.exists(path):
            raise vp.Infra("Gen_Durations %s produced no vectors" % mode)
        vp.absorb(ctx, ctx.run_json(binp, ["replay", path]))
    return one


def run(ctx):
    binp = ctx.build("durations")
    ctx.tlc("MC_Durations", workers=4, xmx="3g", timeout=1800)
    vp.parallel([gen(ctx, binp, m) for m in ("ttl", "gtok", "mnem", "rdata")], maxpar=4)
    ctx.assumptions += [
        "AMBIG, admitted: a unit without a number (h, 1hm) and the empty text count nothing or are refused; leading zeros in TYPE0n / CLASS0n / "
        "a \\# length; the class mnemonic ANY need not be readable (CLASS255 must); `\\# 0` with a known type is refused or is the RDATA-less record",
        "TTL bound 2^32-1 (what the field holds), not RFC 2181's 2^31-1; TTL texts without a digit are outside the universe (they may spell mnemonics)",
        "type codes without a mnemonic in WireRR!Layout may print as TYPEn or as any mnemonic the library's tables map back",
    ]
    return ctx.finish(rule="vectors: 6 880 TTL texts x 3 reader positions; 70 generic tokens x 2 positions; 94 table rows (every Layout type x 4 "
                      "spellings x 2 positions); 640 \\# forms. distinct = distinct input texts")


def replay(ctx, path):
    binp = ctx.build("durations")
    rp = json.load(open(path))
    p = os.path.join(ctx.out, "one.ndjson")
    vp.write_ndjson(p, [rp["case"]])
    s = ctx.run_json(binp, ["replay", p])
    if any(m["key"] == rp["key"] for m in s["mismatches"]):
        print("VIOLATION property=%s replay=%s" % (ctx.id, path))
        return 1
    print("replay: discrepancy no longer present")
    return 0
