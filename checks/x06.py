"""X06 (extra)  The ResponseWriter life cycle of server.go (open / closed / hijacked) and the connection worker
around it: write after Close, double Close, Hijack, "handler returns without writing", MaxTCPQueries, read vs idle
time-out, replies to the datagram's source.                                                    spec/Writer.tla

MC      MC_Writer: one connection, every interleaving of client (message / dropped message / close) and handler
        actions (10 operations) for 3 transports x 16 configurations; invariants AtMostMaxQ, PacketsUnbounded,
        CloseOnce, ServerClosed, Deadlines; action properties NoOctetsAfterClose, WritesAccounted,
        SecondCloseErrors, Sticky, Usable, HandsOff, Disposed, ReplyToSource, Framed
GEN     Gen_Writer -> harness `writer replay`: every script runs against a FRESH dns.Server (ActivateAndServe on an
        in-memory listener / packet conn of harness/lib/obsnet); the handler performs the script's operations; the
        observed event list (deadline names, results and error texts of every call, every Write/WriteTo/Close that
        reached the transport, how the worker disposed of the connection) is compared with the spec's.
          ops   every sequence of <= N operations as the first request (then a second plain request: "still
                usable?", then WriteMsg + Close after the worker has gone) x tcp | tls | pc
          conn  every sequence of <= N requests over 8 handler behaviours + a dropped message
                x MaxTCPQueries in {unset, -1, 1, 2, 3} x tcp | pc
          long  130 requests against MaxTCPQueries unset (128) / -1 / 128 / 129
        Time-outs are observed as the ARGUMENT of SetReadDeadline relative to the clock at the call and mapped to
        the nearest name (2s / 8s defaults, 1h / 3h configured): nothing waits for a deadline.
TV      `writer record`: random scripts (<= 5 requests x <= 5 operations, random lengths incl. 65535 / 65536,
        TSIG good / bad, client close or not, operations after the worker has gone) -> Trace_Writer (state = set of
        candidate connection records; the AMBIG reading "does a dropped message count for MaxTCPQueries" forks it)

Finding on the unchanged tree (known-findings.d/X06.txt): response.Write on a stream returns len(p) + 2.

Mutants (checks/mutants/X06), all exit 1:
  write-after-close-ok       Write no longer checks w.closed            GEN writer/op:Write:err:missing:*, TV
  double-close-nil           second Close returns nil                   GEN writer/op:Close:err:missing:*
  hijack-still-closes        worker closes a hijacked connection        GEN writer/fin:closes:stream
  maxq-off-by-one            q <= limit                                 GEN writer/next:fin:got:dl:stream (conn, long)
  idle-first                 first read uses the idle time-out          GEN writer/dl:d:stream
  close-udp-closes-listener  Close on a packet writer closes the conn   GEN writer/op:Close:closes:pc
  tsig-status-sticky         w.tsigStatus not reset per request         GEN writer/op:TsigStatus:err:unexpected:stream
  silent-handler-closes      a handler that wrote nothing ends the conn GEN writer/next:dl:got:fin:stream
  two-writes                 length prefix and message in two Writes    GEN writer/op:WriteMsg:writes:count:stream
  unlimited-is-zero          MaxTCPQueries -1 treated as 1              GEN writer/next:dl:got:fin:stream (conn, long)
"""
import os, json
import vp


def gen(ctx, binp, mode, n, wide, nshards):
    def one(sh):
        r, _ = ctx.tlc_vectors("Gen_Writer", workers=1, xmx="3g", timeout=3000,
                               consts={"Mode": '"%s"' % mode, "N": n, "Wide": "TRUE" if wide else "FALSE",
                                       "Shard": sh, "NShards": nshards})
        path = os.path.join(r.dir, "vectors.ndjson")
        if not os.path.exists(path):
            raise vp.Infra("Gen_Writer %s produced no vectors" % mode)
        vp.absorb(ctx, ctx.run_json(binp, ["replay", path], timeout=3000))
        os.remove(path)
    return [lambda sh=sh: one(sh) for sh in range(nshards)]


def keyfn(e):
    ev = e["ev"]
    cls = "stream" if e.get("tr") in ("tcp", "tls") else "pc"
    k = "writer/trace:" + ev
    if ev in ("op", "post"):
        k += ":" + e["op"]
        r = e.get("r") or {}
        if e["op"] == "Write" and r.get("err") == "" and len(r.get("writes") or []) == 1 and r.get("n") != e.get("len"):
            k += ":n-len=%+d" % (r.get("n", 0) - e.get("len", 0))
    return k + ":" + cls


def tv(ctx, binp, n, nproc):
    def one(k):
        out = os.path.join(ctx.out, "trace-%d.ndjson" % k)
        s = ctx.run_json(binp, ["record", out, str(n)], env={"VERIF_SEED": str(ctx.seed * 1000 + k)})
        vp.absorb(ctx, s, traces=False)
        tr = ctx.tlc_trace("Trace_Writer", out, xmx="3g", timeout=3000)
        evs = vp.read_ndjson(out)
        # the script of the connection an event belongs to, for --replay
        vp.absorb_trace(ctx, tr, evs, keyfn)
    return [lambda k=k: one(k) for k in range(nproc)]


def run(ctx):
    binp = ctx.build("writer")
    if ctx.quick:
        ctx.tlc("MC_Writer", consts={"MaxReq": 2, "MaxOps": 2, "MaxPost": 2}, workers=4, xmx="3g", timeout=1800)
        jobs = (gen(ctx, binp, "ops", 3, True, 1) + gen(ctx, binp, "ops", 4, False, 2) + gen(ctx, binp, "conn", 3, False, 1)
                + gen(ctx, binp, "long", 0, False, 1) + tv(ctx, binp, 1200, 2))
    else:
        ctx.tlc("MC_Writer", workers=4, xmx="4g", timeout=3000)
        jobs = (gen(ctx, binp, "ops", 4, True, 4) + gen(ctx, binp, "conn", 4, False, 3)
                + gen(ctx, binp, "long", 0, False, 1) + tv(ctx, binp, 6000, 4))
    vp.parallel(jobs, maxpar=4)
    ctx.assumptions += [
        "AMBIG: whether a message dropped by the admission check counts as a 'TCP query' for MaxTCPQueries; vectors only where both readings agree, traces admit both",
        "MaxTCPQueries below -1 is not in the universe (undocumented)",
        "a future deadline never fires on the in-memory transports; durations are observed as SetReadDeadline(arg) - now at the call, mapped to the nearest of 2s/8s/1h/3h within 10 %",
        "Write's count is judged as io.Writer's (type Writer interface{ io.Writer }): n = len(p)",
        "the *net.UDPConn path (WriteToSessionUDP) and real TLS are not exercised: generic net.PacketConn and a net.Conn offering ConnectionState() stand in",
        "TsigTimersOnly and the signing of replies are C11's",
    ]
    return ctx.finish(rule="scripts: every sequence of <= 3 of 14 (quick) / <= 4 of 8 (quick) / <= 4 of 14 (thorough) writer operations "
                      "x 3 transports; every sequence of <= 3 (quick) / 4 requests over 9 behaviours x 5 MaxTCPQueries x 2 transports; "
                      "130-request connections; random scripts judged by Trace_Writer. distinct = (transport, MaxTCPQueries, "
                      "#requests, #events) classes")


def replay(ctx, path):
    binp = ctx.build("writer")
    rp = json.load(open(path))
    case = rp["case"]
    if "event" in case:
        # a rejected trace event: re-record with the same seed and let TLC judge the fresh trace
        out = os.path.join(ctx.out, "trace.ndjson")
        ctx.run_json(binp, ["record", out, "1200" if ctx.quick else "6000"], env={"VERIF_SEED": str(rp.get("seed", 1) * 1000)})
        tr = ctx.tlc_trace("Trace_Writer", out)
        evs = vp.read_ndjson(out)
        bad = any(keyfn(evs[i - 1]) == rp["key"] for i in (tr.bad or []))
    else:
        p = os.path.join(ctx.out, "one.ndjson")
        # the mismatch case is the script without its expectation: ask the spec again
        sc = dict(case)
        sc["exp"] = []
        r, vecs = ctx.tlc_vectors("Gen_WriterOne", files={
            "Gen_WriterOne.tla": ONE_TLA % tla(sc), "Gen_WriterOne.cfg": "INIT InitOne\nNEXT Next\nINVARIANT OutOne\nCHECK_DEADLOCK FALSE\n"
            "CONSTANTS Mode = \"one\" N = 0 Wide = FALSE Shard = 0 NShards = 1\n"}, workers=1, xmx="2g")
        vp.write_ndjson(p, vecs)
        s = ctx.run_json(binp, ["replay", p])
        bad = any(m["key"] == rp["key"] for m in s["mismatches"])
    if bad:
        print("VIOLATION property=%s replay=%s" % (ctx.id, path))
        return 1
    print("replay: discrepancy no longer present")
    return 0


ONE_TLA = """---- MODULE Gen_WriterOne ----
EXTENDS Gen_Writer
One == %s
InitOne == v = One
OutOne == Emit(Vector(v))
====
"""


def tla(x):
    if isinstance(x, bool):
        return "TRUE" if x else "FALSE"
    if isinstance(x, int):
        return str(x)
    if isinstance(x, str):
        return json.dumps(x)
    if isinstance(x, list):
        return "<<" + ", ".join(tla(y) for y in x) + ">>"
    if isinstance(x, dict):
        return "[" + ", ".join("%s |-> %s" % (k, tla(v)) for k, v in x.items()) + "]"
    raise vp.Infra("cannot render %r" % (x,))
