"""X05 (extra)  Msg.String() / MsgHdr.String(): the dig-like header as a projection of the header.   spec/MsgText.tla

MC      MC_MsgText: for every flag word (quick: every 16th) the text built from the tables is recognised by
        HdrStringOK / MsgStringOK and one changed flag / id / opcode / rcode / count / wrong letter order is rejected
GEN     Gen_MsgText: every flag word whose opcode and RCODE have IANA mnemonics (15 360 of 65 536) -> the exact
        admissible MsgHdr.String() texts -> harness `msgtext replay`
TV      `msgtext record`: MsgHdr.String() of the header the real Unpack makes of each flag word (quick: every 16th,
        offset by seed; thorough: all 2^16) + random messages (section sizes 0..2, OPT, UPDATE wording, extended
        RCODEs) -> Trace_MsgText: first two lines exactly (mnemonics of unassigned code points free), banner lines

Finding on the unchanged tree (known-findings.d/X05.txt): opcode 6 (DSO) has no mnemonic.

Mutants (checks/mutants/X05), all exit 1:
  flag-order-ra-rd      " ra" printed before " rd"                  GEN msgtext/hdr-string + TV
  flag-z-dropped        the Z bit is not printed                    GEN + TV
  ad-cd-swapped         AuthenticatedData prints " cd" and v.v.     GEN + TV
  update-wording        UPDATE messages use QUERY/ANSWER wording    TV msgtext/trace:msg
  additional-count-opt  ADDITIONAL count excludes the OPT record    TV msgtext/trace:msg
  rcode-yxrrset-name    RcodeToString[7] = "YXRRSet"                GEN + TV
"""
import os, json
import vp


def keyfn(e):
    op = (e["w"] >> 11) & 15
    return "msgtext/trace:" + e["ev"] + (":opcode-dso" if op == 6 else "")


def gen(ctx, binp, nshards, shards):
    def one(sh):
        r, vecs = ctx.tlc_vectors("Gen_MsgText", workers=1, xmx="2g", timeout=1800, consts={"Shard": sh, "NShards": nshards})
        path = os.path.join(r.dir, "vectors.ndjson")
        if not os.path.exists(path):
            raise vp.Infra("Gen_MsgText produced no vectors")
        vp.absorb(ctx, ctx.run_json(binp, ["replay", path]))
    return [lambda sh=sh: one(sh) for sh in shards]


def tv(ctx, binp, stride, offs, n):
    def one(off):
        out = os.path.join(ctx.out, "trace-%d.ndjson" % off)
        s = ctx.run_json(binp, ["record", out, str(stride), str(off), str(n)], env={"VERIF_SEED": str(ctx.seed * 1000 + off)})
        vp.absorb(ctx, s, traces=False)
        tr = ctx.tlc_trace("Trace_MsgText", out, xmx="2g", timeout=3000)
        evs = vp.read_ndjson(out)
        vp.absorb_trace(ctx, tr, evs, keyfn)
    return [lambda off=off: one(off) for off in offs]


def run(ctx):
    binp = ctx.build("msgtext")
    if ctx.quick:
        ctx.tlc("MC_MsgText", consts={"Stride": 16, "Off": ctx.seed % 16}, workers=4, xmx="3g", timeout=1800)
        jobs = gen(ctx, binp, 2, [0, 1]) + tv(ctx, binp, 16, [(ctx.seed * 7 + 3) % 16], 1500)
    else:
        ctx.tlc("MC_MsgText", consts={"Stride": 1, "Off": 0}, workers=4, xmx="4g", timeout=3000)
        jobs = gen(ctx, binp, 2, [0, 1]) + tv(ctx, binp, 4, [0, 1, 2, 3], 2500)
    vp.parallel(jobs, maxpar=4)
    ctx.assumptions += [
        "mnemonics: IANA DNS OpCodes / RCODEs; unassigned code points may print anything without a comma; RCODE 16 is BADVERS or BADSIG; opcode 6 (DSO) must print something",
        "only the header lines and the section banner lines of Msg.String() are judged; record lines are C05's",
    ]
    return ctx.finish(rule="vectors: all 15 360 flag words with assigned opcode and RCODE (+ id boundaries), exact text; events: MsgHdr.String() "
                      "for every 16th (quick) / every (thorough) flag word through the real Unpack + random messages. distinct = flag words / message shapes")


def replay(ctx, path):
    binp = ctx.build("msgtext")
    rp = json.load(open(path))
    case = rp["case"]
    if "event" in case:      # redo the recorded inputs against the real code, then let TLC judge the fresh observation
        pin, pout = os.path.join(ctx.out, "event-in.ndjson"), os.path.join(ctx.out, "event-out.ndjson")
        vp.write_ndjson(pin, [case["event"]])
        s = ctx.run_json(binp, ["reexec", pin, pout])
        tr = ctx.tlc_trace("Trace_MsgText", pout)
        bad = bool(tr.bad) or not tr.accepted or bool(s["mismatches"])
    else:
        p = os.path.join(ctx.out, "one.ndjson")
        vp.write_ndjson(p, [case])
        s = ctx.run_json(binp, ["replay", p])
        bad = any(m["key"] == rp["key"] for m in s["mismatches"])
    if bad:
        print("VIOLATION property=%s replay=%s" % (ctx.id, path))
        return 1
    print("replay: discrepancy no longer present")
    return 0
