"""C02  Decoding hostile wire input never panics, hangs or over-allocates.

MC      MC_Names (DecName: pointer following, 63/255 limits) -- shared with C03
GEN     Gen_Framing: every octet string <= N over {label lengths, reserved types, pointer octets} placed as question
        name / RR owner / RDATA name (all pointer graphs in a short window) + pointer chains of 1..1000 hops, each
        classified by the spec (must-reject: loop, reserved label type, > 255 octets, runs past the end) -> harness
        `hostile replay`: must-reject inputs must be refused; accepted names must equal the spec's.
CLAIMS  Gen_Claims (spec/Claims.tla, built on the RDATA layout of WireRR): lying INNER lengths.  For every field the
        layout sizes by an earlier integer field (TSIG MAC SIZE / OTHER LEN, TKEY KEY SIZE / OTHER SIZE, HIP HIT / PK
        LENGTH, NSEC3(PARAM) SALT / HASH LENGTH), every <character-string> length octet, every bitmap window length,
        APL AFDLENGTH, OPTION-LENGTH of every EDNS0 option code (+ unassigned), the value length of every SvcParam key
        (+ unassigned; SVCB and HTTPS), an alpn-id length inside an honest value, and RDLENGTH of every type:
        claims {honest, +1, +5, boundary values of the field width up to 65535} x {0, 1, 2, 17} octets actually behind
        the length field x {nothing, a further record} behind the lying record.  The vector carries the spec's verdict
        (the claim reaches beyond its RDATA and something follows the length field -> must be refused; RDATA that ends
        right behind a length field is the truncated record RFC 2136 readers admit: AMBIG, any) and the spec's
        allocation bound for that input (Framing!AllocBound).  `hostile replay` runs Msg.Unpack and UnpackRR on it.
        thorough: 11 tails up to 300 octets, 17 claim values.
ALLOC   the allocation clause is the specification's: Framing!AllocBound(n) = AllocK*n + AllocC octets per call, with
        AllocC far below what a 16-bit length can claim (one octet per claimed element), so that memory that follows a
        claim is seen on a 30-octet input whatever the element size (the former 64 KiB slack of the harness hid every
        16-bit claim of element size 1 and, on inputs over ~130 octets, of size 2).  Every vector carries its bound
        (allocmax, computed by TLC); the recorder gets AllocK / AllocC from the "limits" vector of Gen_Claims.  The
        measurement is the TotalAlloc counter around the call (exact, independent of GC timing and machine load); a
        call over the bound is re-run three times and judged by the smallest figure (lazily built tables of a first
        call, allocations of other goroutines).
TV      every decode the real code ACCEPTS (from the vectors and from `hostile record`: mutations of valid messages
        of ~85 RR types, every truncation point, lying counts, spliced pointers, tail cuts with fixed-up lengths, and a systematic sweep that overwrites every RDATA octet / 16-bit position of every zoo record
        and every single EDNS0 option with boundary values) is written as an event and judged by
        Trace_Framing: records are a prefix of the framing walk of the same octets, every name is valid.
Observed by the harness, not the spec: panics, wall time (2 s, reproduced 3x); String/Len/Copy/Pack of accepted
        results do not panic.  The allocation figure is observed by the harness and compared with the spec's bound.
The stages are independent; quick runs three lanes side by side: MC || chain || (region shards, claims, recorder).
Mutants (checks/mutants/C02): nobudget (255-octet budget check removed), prealloc (make([]RR, count)),
        nsecbounds (window length check dropped), ptrlimit (hop limit raised to 1<<30 -> loop),
        claim-optcopy (an option's data copied into make([]byte, OPTION-LENGTH) before the bounds check:
        decode/alloc:*:claim:opt), claim-b64buf (base64 output buffer sized from the claimed HIP PK LENGTH before the
        check: decode/alloc:*:claim:sized:b64).
Seeded: C02-16 (hex builder grown to 2*claim before the 'end > len(msg)' check; same error as before, only memory
        shows it) -> CLAIMS: decode/alloc:Msg.Unpack:claim:sized:hex and decode/alloc:UnpackRR:claim:sized:hex
        (TSIG / TKEY / NSEC3 vectors with claims 32767..65535 and >= 1 octet behind the size field).
"""
import os, json
import vp
from checks import c03


def key_of(e):
    return "decode/trace:accepted-result-not-explained-by-input"


LIMITS = {}     # the constants of Framing!AllocBound as TLC printed them (vector place "limits" of Gen_Claims)
PEAK = [0]      # largest allocation seen, in permille of the specification's bound for that input


def peak(s):
    with vp._lock:
        PEAK[0] = max(PEAK[0], int((s.get("notes") or {}).get("alloc_peak_permille_of_bound", 0)))


def gen(ctx, binp, mode, n, nshards, shards):
    def one(sh):
        if mode == "claims":
            r, vecs = ctx.tlc_vectors("Gen_Claims", workers=1, xmx="3g", timeout=3000,
                                      consts={"Wide": "TRUE" if n else "FALSE", "Shard": sh, "NShards": nshards})
            kinds = set(v["why"].split(":")[0] for v in vecs if v.get("place") == "claim")
            if kinds != {"sized", "str", "window", "apl", "opt", "svcb", "alpn", "rdlen"} and nshards == 1:
                raise vp.Infra("Gen_Claims: kinds %s" % sorted(kinds))
        else:
            r, vecs = ctx.tlc_vectors("Gen_Framing", workers=1, xmx="3g", timeout=3000,
                                      consts={"Mode": '"%s"' % mode, "N": n, "Shard": sh, "NShards": nshards})
        for v in vecs:
            if v.get("place") == "limits":
                LIMITS.update(k=int(v["allock"]), c=int(v["allocc"]))
            elif not v.get("allocmax"):
                raise vp.Infra("a vector without the specification's allocation bound: %s" % json.dumps(v)[:200])
        ev = os.path.join(r.dir, "events.ndjson")
        s = ctx.run_json(binp, ["replay", os.path.join(r.dir, "vectors.ndjson"), ev], timeout=3000)
        vp.absorb(ctx, s)
        peak(s)
        if mode == "claims" and not (s.get("notes") or {}).get("claims_refused_as_required"):
            raise vp.Infra("the lying-length stage refused nothing: it is vacuous")
        tv(ctx, ev, aborted=bool((s.get("notes") or {}).get("aborted")))
    vp.parallel([lambda sh=sh: one(sh) for sh in shards])


def drop_torn_tail(ev):
    """A harness that was aborted by its hang / slow-call watchdog (a verdict, reported in its summary) exits at
    once and may leave a half-written last event line: cut it off so that the complete events are still judged."""
    data = open(ev, "rb").read()
    if data and not data.endswith(b"\n"):
        data = data[:data.rfind(b"\n") + 1]
        open(ev, "wb").write(data)


def tv(ctx, ev, aborted=False):
    if aborted:
        drop_torn_tail(ev)
    evs = vp.read_ndjson(ev)
    if not evs:
        return
    tr = ctx.tlc_trace("Trace_Framing", ev, xmx="3g", timeout=3000)
    if tr.hwm != len(evs):
        raise vp.Infra("Trace_Framing consumed %s of %d events" % (tr.hwm, len(evs)))
    vp.absorb_trace(ctx, tr, evs, key_of, what="a decode the real code accepted is not explained by the framing walk of its input")


def rec(ctx, binp, n, nproc):
    if not LIMITS:
        raise vp.Infra("Gen_Claims did not emit the constants of the allocation bound")

    def one(k):
        ev = os.path.join(ctx.out, "events-rec-%d.ndjson" % k)
        # the systematic RDATA sweep is split over the recorder processes (quick: a seed-rotated quarter of the positions)
        stride = nproc if not ctx.quick else nproc * 4
        phase = k if not ctx.quick else (k + nproc * (ctx.seed % 4))
        s = ctx.run_json(binp, ["record", ev, str(n)], timeout=3000,
                         env={"VERIF_SEED": str(ctx.seed * 1000 + k), "VERIF_SWEEP": "%d/%d" % (stride, phase),
                              "VERIF_ALLOC": "%d,%d" % (LIMITS["k"], LIMITS["c"])})
        vp.absorb(ctx, s, traces=False)
        peak(s)
        tv(ctx, ev, aborted=bool((s.get("notes") or {}).get("aborted")))
    vp.parallel([lambda k=k: one(k) for k in range(nproc)])


def run(ctx):
    binp = ctx.build("hostile")
    # the stages are independent of each other (the recorder only needs the constants of the allocation bound, which
    # the lying-length vectors bring): they run side by side
    if ctx.quick:
        vp.parallel([        # three lanes; the chain lane (one 8000-hop name through DecName) is the longest
            lambda: ctx.tlc("MC_Names", consts=c03.SMALL, timeout=900),
            lambda: gen(ctx, binp, "chain", 0, 1, [0]),
            lambda: (gen(ctx, binp, "region", 4, 2, [0, 1]), gen(ctx, binp, "claims", 0, 1, [0]), rec(ctx, binp, 4000, 4)),
        ])
    else:
        ctx.tlc("MC_Names", timeout=1800)
        gen(ctx, binp, "region", 5, 16, range(16))
        gen(ctx, binp, "chain", 0, 1, [0])
        gen(ctx, binp, "claims", 1, 8, range(8))
        rec(ctx, binp, 60000, 16)
    vp.log("largest allocation seen: %d permille of the specification's bound for its input" % PEAK[0])
    ctx.assumptions += [
        "panics, wall time and allocation are observed by the harness on spec-classified and mutated inputs; TLA+ does not model them",
        "allocation bound: Framing!AllocBound(len) = %d*len + %d octets of TotalAlloc per call (the smallest of up to 4 runs of the call: "
        "lazily built tables and other goroutines do not count); time bound 2 s per call (reproduced 3 times)" % (LIMITS.get("k", 0), LIMITS.get("c", 0)),
        "acyclic pointer chains longer than the library's hop limit may be refused (errors are always allowed)",
    ]
    return ctx.finish(rule="vectors: all octet strings <= N over 13 symbols (label lengths 0,1,2,63; reserved 64,128; pointer highs 192,193; "
                      "'a'; 4 pointer lows relative to the region) x 3 placements, chains of 1..1000 hops; lying inner lengths (Claims.tla: "
                      "sized fields, strings, windows, APL, options, SvcParams, RDLENGTH) x claims x tails with the spec's verdict and "
                      "allocation bound; events: every accepted decode. "
                      "distinct = distinct input octet strings; all are non-trivial (hostile by construction)")


def replay(ctx, path):
    binp = ctx.build("hostile")
    rp = json.load(open(path))
    case = rp["case"]
    if "event" in case:
        tr = ctx.tlc_trace("Trace_Framing", [case["event"]])
        bad = bool(tr.bad)
    elif "verdict" in case or "vector" in case:      # a vector (verdict findings) / an allocation finding on a vector
        p = os.path.join(ctx.out, "one.ndjson")
        vp.write_ndjson(p, [case.get("vector", case)])
        s = ctx.run_json(binp, ["replay", p, os.path.join(ctx.out, "ev.ndjson")])
        bad = any(m["key"] == rp["key"] for m in s["mismatches"])
    else:
        raise vp.Infra("panic/time/alloc cases are re-executed with: hostile replay on a vector built from case.bytes")
    if bad:
        print("VIOLATION property=%s replay=%s" % (ctx.id, path))
        return 1
    print("replay: discrepancy no longer present")
    return 0
