"""C02  Decoding hostile wire input never panics, hangs or over-allocates.

MC      MC_Names (DecName: pointer following, 63/255 limits) -- shared with C03
GEN     Gen_Framing: every octet string <= N over {label lengths, reserved types, pointer octets} placed as question
        name / RR owner / RDATA name (all pointer graphs in a short window) + pointer chains of 1..1000 hops, each
        classified by the spec (must-reject: loop, reserved label type, > 255 octets, runs past the end) -> harness
        `hostile replay`: must-reject inputs must be refused; accepted names must equal the spec's.
TV      every decode the real code ACCEPTS (from the vectors and from `hostile record`: mutations of valid messages
        of ~85 RR types, every truncation point, lying counts, spliced pointers, tail cuts with fixed-up lengths, and a systematic sweep that overwrites every RDATA octet / 16-bit position of every zoo record
        and every single EDNS0 option with boundary values) is written as an event and judged by
        Trace_Framing: records are a prefix of the framing walk of the same octets, every name is valid.
Observed by the harness, not the spec: panics, wall time (2 s, reproduced 3x), TotalAlloc <= 512*len + 64 KiB,
        String/Len/Copy/Pack of accepted results do not panic.
Mutants (checks/mutants/C02): nobudget (255-octet budget check removed), prealloc (make([]RR, count)),
        nsecbounds (window length check dropped), ptrlimit (hop limit raised to 1<<30 -> loop).
"""
import os, json
import vp
from checks import c03


def key_of(e):
    return "decode/trace:accepted-result-not-explained-by-input"


def gen(ctx, binp, mode, n, nshards, shards):
    def one(sh):
        r, vecs = ctx.tlc_vectors("Gen_Framing", workers=1, xmx="3g", timeout=3000,
                                  consts={"Mode": '"%s"' % mode, "N": n, "Shard": sh, "NShards": nshards})
        ev = os.path.join(r.dir, "events.ndjson")
        s = ctx.run_json(binp, ["replay", os.path.join(r.dir, "vectors.ndjson"), ev], timeout=3000)
        vp.absorb(ctx, s)
        tv(ctx, ev, aborted=bool((s.get("notes") or {}).get("aborted")))
    vp.parallel([lambda sh=sh: one(sh) for sh in shards])


def drop_torn_tail(ev):
    """A harness that was aborted by its hang / slow-call watchdog (a verdict, reported in its summary) exits at
    once and may leave a half-written last event line: cut it off so that the complete events are still judged."""
    data = open(ev, "rb").read()
    if data and not data.endswith(b"\n"):
        data = data[:data.rfind(b"\n") + 1]
        open(ev, "wb").write(data)


def tv(ctx, ev, aborted=False):
    if aborted:
        drop_torn_tail(ev)
    evs = vp.read_ndjson(ev)
    if not evs:
        return
    tr = ctx.tlc_trace("Trace_Framing", ev, xmx="3g", timeout=3000)
    if tr.hwm != len(evs):
        raise vp.Infra("Trace_Framing consumed %s of %d events" % (tr.hwm, len(evs)))
    vp.absorb_trace(ctx, tr, evs, key_of, what="a decode the real code accepted is not explained by the framing walk of its input")


def rec(ctx, binp, n, nproc):
    def one(k):
        ev = os.path.join(ctx.out, "events-rec-%d.ndjson" % k)
        # the systematic RDATA sweep is split over the recorder processes (quick: a seed-rotated quarter of the positions)
        stride = nproc if not ctx.quick else nproc * 4
        phase = k if not ctx.quick else (k + nproc * (ctx.seed % 4))
        s = ctx.run_json(binp, ["record", ev, str(n)], timeout=3000,
                         env={"VERIF_SEED": str(ctx.seed * 1000 + k), "VERIF_SWEEP": "%d/%d" % (stride, phase)})
        vp.absorb(ctx, s, traces=False)
        tv(ctx, ev, aborted=bool((s.get("notes") or {}).get("aborted")))
    vp.parallel([lambda k=k: one(k) for k in range(nproc)])


def run(ctx):
    binp = ctx.build("hostile")
    if ctx.quick:
        ctx.tlc("MC_Names", consts=c03.SMALL, timeout=900)
        gen(ctx, binp, "region", 4, 2, [0, 1])
        gen(ctx, binp, "chain", 0, 1, [0])
        rec(ctx, binp, 4000, 4)
    else:
        ctx.tlc("MC_Names", timeout=1800)
        gen(ctx, binp, "region", 5, 16, range(16))
        gen(ctx, binp, "chain", 0, 1, [0])
        rec(ctx, binp, 60000, 16)
    ctx.assumptions += [
        "panics, wall time and allocation are observed by the harness on spec-classified and mutated inputs; TLA+ does not model them",
        "allocation bound: TotalAlloc delta <= 512*len(input) + 64 KiB per call; time bound 2 s per call (reproduced 3 times)",
        "acyclic pointer chains longer than the library's hop limit may be refused (errors are always allowed)",
    ]
    return ctx.finish(rule="vectors: all octet strings <= N over 13 symbols (label lengths 0,1,2,63; reserved 64,128; pointer highs 192,193; "
                      "'a'; 4 pointer lows relative to the region) x 3 placements, chains of 1..1000 hops; events: every accepted decode. "
                      "distinct = distinct input octet strings; all are non-trivial (hostile by construction)")


def replay(ctx, path):
    binp = ctx.build("hostile")
    rp = json.load(open(path))
    case = rp["case"]
    if "event" in case:
        tr = ctx.tlc_trace("Trace_Framing", [case["event"]])
        bad = bool(tr.bad)
    elif "verdict" in case:
        p = os.path.join(ctx.out, "one.ndjson")
        vp.write_ndjson(p, [case])
        s = ctx.run_json(binp, ["replay", p, os.path.join(ctx.out, "ev.ndjson")])
        bad = any(m["key"] == rp["key"] for m in s["mismatches"])
    else:
        raise vp.Infra("panic/time/alloc cases are re-executed with: hostile replay on a vector built from case.bytes")
    if bad:
        print("VIOLATION property=%s replay=%s" % (ctx.id, path))
        return 1
    print("replay: discrepancy no longer present")
    return 0
