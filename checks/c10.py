"""C10  DNSSEC: Sign output verifies; Verify accepts only valid canonical signatures.

Spec    spec/Dnssec.tla: CanonRR / CanonOwner (owner lower-cased, "*." + rightmost Labels labels when the owner has more labels than the
        RRSIG Labels field, RDATA names lower-cased for the RFC 4034 s.6.2 types as amended by RFC 6840 s.5.1 -- CanonLowerTypes --,
        TTL = Original TTL, no compression), SignedData = RRSIG RDATA prefix with lower-cased signer o canonical RRs sorted by RDATA as
        left-justified octet strings, repeated RDATA once; PreChecks (RRset; key tag (RFC 4034 app. B), algorithm, class, signer = key
        owner; ZONE flag, protocol 3; RRSIG owner / class / covered type = RRset's; Labels <= owner labels; NOT the validity period);
        SignFills (what Sign writes into the RRSIG).  The signature primitive is uninterpreted.  The canonical order compares with
        LexLessB (the common prefix by bisection; MC_Dnssec: = Bytes!LexLess), so records of 64 kB are sorted in milliseconds.
MC      MC_Dnssec: SignedData invariant under order, repetition, TTLs, owner case, RDATA-name case (s.6.2 types), signer case, wildcard
        re-expansion; changed by every single-field alteration the statement lists and by the case of NSEC next names / TXT strings;
        every pre-check fails when its field alone is wrong.
TV      one pipeline per shard, two trace-validation passes around the harness (the pattern of C18):
          dnssec record  seeded RRsets (30 signable types, 1-3 records, repeated records, records equal up to RDATA-name case, mixed case,
                         escaped labels, wildcard / star-prefixed / apex / deep owners, 4 zones incl. the root) x algorithms (fresh
                         standard-library keys) -> real RRSIG.Sign -> "sign" events + "check" events: ~45 variants per signature
                         (meant equivalent: order, repeated, ttl, owner-case, rdata-name-case, signer-case, key-owner-case, \\DDD
                         spelling, other expansions of a wildcard; meant altered: RDATA, record added / dropped, owner, type, class,
                         signer, key tag, labels, original TTL, expiration, inception, signature, other key, non-zone key, protocol,
                         algorithm; forged: to be signed by the standard library, incl. names differing in one octet by 0x20 for every octet value) and, for one signature in three, every bit of the
                         RRSIG RDATA and DNSKEY RDATA (quick: inside signature / public key one bit per octet)
                         Cases 0..3 of every shard also make signatures whose integers have leading zero octets: ECDSA with R resp. S
                         short by 1 and 2 octets (a crypto.Signer walking the nonce until the value is short, handed to the real Sign;
                         the same shapes forged by the standard library for Verify), RSA with a leading zero octet (inception stepped).
                         Every pre-check of the statement is falsified ALONE under a signature that is valid over the specification's
                         octets: key-class / forge-key-class (a DNSKEY of class CH, HS, NONE, ANY, 0, ... with the same owner, flags,
                         protocol, algorithm and key octets), class-rrsig-and-key, forge-class-rrset, forge-type-covered,
                         forge-key-algorithm (RSA siblings 5/7, 8/10: same key octets and hash), besides the older key-tag, signer,
                         zone-flag, protocol, owner, labels ones.
          dnssec record  ... <n>+<nbig>: the LARGE-RECORD universe (shard "5" quick, "big0..2" thorough): RRsets of 2-3 records, one (or two that
                         agree but for the last octet) with a wire length -- owner + 10 + RDATA, what rawSignatureData packs -- at and next
                         to the sizes a buffer might have: 4097 in every run, 4096 | 4095, one of 5003 .. 32769 or RDATA of 65535 octets,
                         one of 511 .. 2049 (no other case has a record over 200 octets); thorough: all 20 lengths of bigThorough (511 ..
                         65536, RDATA 65535).  Types TXT (many strings), TYPE65000 (RFC 3597), DNSKEY, SIG (signer lower-cased, then a long
                         signature).  Variants: orig, order, repeated, owner-case + TTLs, last octet of the large record altered, large record
                         dropped, forge, forge-shuffled.  Finding keys carry record-over-4096-octets / record-over-512-octets.
          dnssec record  ... RSA KEYS AT THE SIZE LIMITS (shard "6" quick: five keys, one case each; shard "rsa" thorough: ten keys, two cases each;
                         no bit flips here, the other shards have them): committed 4096-bit and 512-bit keys (harness/cmd/dnssec/testdata; RFC 3110: a modulus
                         of 64 .. 512 octets) with public exponents of 1, 2, 3 and 4 octets (the same primes, the first odd invertible
                         exponent of that length), algorithms 5, 8, 10 (no SHA-512 under a 512-bit modulus).  Every other key of the
                         check is 1024 or 2048 bits with exponent 65537.  Same variants as any case.
                         REUSED RRSIG VALUES (every ordinary case, kinds in turn): one more Sign of the case's RRset with an RRSIG value
                         that is not fresh -- it has just signed an RRset with a DEEPER owner (x.Y.<owner>), a SHALLOWER one (the apex),
                         of another type and TTL, or comes "preset" by hand (owner, class CH, type covered ANY, Labels 255, a stale
                         signature).  req of the sign event = the value as handed to Sign; SignFills lets nothing of it through but a
                         non-zero Original TTL (MC_Dnssec: the result is the fresh value's).  Then verified ("reused-<kind>" check).
                         Finding keys carry :reused-sig-struct.
          Trace_Dnssec   pass 1: Sign must succeed and fill the fields as SignFills says; emits SignedData for every event
          dnssec finish  (1) crypto/rsa|ecdsa|ed25519 verify the REAL signature over the SPEC's octets; (5) forged variants are signed by
                         the standard library over the SPEC's octets; real Verify on every variant -> "verify" events with
                         sigok = the standard library's verdict on (spec octets, signature, key)
          Trace_Dnssec   pass 2: accepted = PreChecks /\\ sigok, for every variant (which variants are "equivalent" is the spec's
                         data equality, not the harness' intention: a case flip in an NSEC next name must fail, one in an MX must not)
Finding keys (computed by Trace_Dnssec / the harness): dnssec/sign-error:<feature>, dnssec/sign-fields:<field>:<feature>,
        dnssec/sign-not-over-canonical-octets:<TYPE>:<feature>, dnssec/verify-rejects-valid:<kind>:<TYPE>:<feature>,
        dnssec/verify-accepts-invalid:<kind>:<first failing pre-check | signature>.

Mutants (checks/mutants/C10; each `VERIF_REPO=/tmp/comp-x bin/check C10 quick` exits 1), stage that catches each on the quick tier:
  sort-whole-rr.diff        canonical order by whole RR (RDLENGTH first)   -> finish (1) sign-not-over-canonical-octets:*; pass 2
                            verify-rejects-valid:forge* (5) and verify-accepts-invalid:signature:unaltered:*
  keep-duplicates.diff      repeated records signed twice                   -> pass 2 verify-rejects-valid:repeated:*; finish (1) for signed sets with a repeat
  origttl-not-used.diff     record TTL left in the canonical form           -> pass 2 verify-rejects-valid:ttl:*; finish (1) when OrigTtl was preset
  mx-not-lowercased.diff    MX exchange keeps its case                      -> finish (1) ...:MX:rdata-name-uppercase; pass 2 verify-rejects-valid:MX:rdata-name-case
  labels-off-by-one.diff    owner labels <= Labels refused                  -> pass 2 verify-rejects-valid:orig:* (every non-wildcard owner)
  protocol-unchecked.diff   DNSKEY protocol not looked at                   -> pass 2 verify-accepts-invalid:forge-key-protocol:protocol
  ecdsa-s-left-aligned.diff sign() right-aligns R but left-aligns S in the fixed-width R|S -> finish (1) dnssec/sign-signature-encoding:ecdsa-short-s
                            (deterministic: the signer handed to Sign makes S short by 1 and by 2 octets, P-256 and P-384, every run)
  signer-tolower-unicode.diff  signAsIs folds the signer with strings.ToLower (seed C10-7) -> finish (1) sign-not-over-canonical-octets:*:raw-utf8 and
                            pass 2 verify-rejects-valid:*:raw-utf8: two cases in eight live in zones with octets >= 0x80 (\u00c9xample.Com., KELVIN SIGN
                            + \u00d6rg, non-UTF-8 octets), one of them spelled RAW in every Go string of the case (rawtag raw-utf8 | raw-nonutf8)
  ecdsa-trailing-octets.diff   ECDSA Verify ignores octets after R|S (seed C10-9) -> pass 2 verify-accepts-invalid:signature:signature-extended
                            (every signature, every algorithm: zero appended, two octets appended, doubled, zero prepended)
  keytag-loop-fold.diff     KeyTag folds the carry in a loop (seed C10-10) -> pass 2 verify-accepts-invalid:forge-keytag-carry-library-tag:key-tag and
                            verify-rejects-valid:forge-keytag-carry-appendix-b-tag:*: per signature a key whose flags word (ZONE + reserved bits) makes
                            low + high of the word sum reach 2^16; MC_Dnssec ASSUMEs the committed vectors (RFC 4034 s.5.4 key = 60485, 3 such keys)
  rsa-key-cache-by-tag.diff RSA public keys cached by owner / algorithm / tag (seed C10-11) -> pass 2 verify-accepts-invalid:signature:
                            forge-rsa-same-tag-other-key and verify-rejects-valid:forge-rsa-same-tag-right-key:*: key B = key A with two modulus octets
                            of equal parity exchanged (same tag), both under a fresh owner, order A B A and B A A in one process
  expiration-before-inception-refused.diff  (seed C10-12) -> pass 2 verify-rejects-valid:forge-window-wrap:* and :orig:* : inception / expiration
                            (2^32-14d, 14d-1), (2^32-1, 0), (0, 0), (100, 99), (2^31, 2^31-1) at sign time and forged for every signature
  reintroduce-canonicalname-utf8.diff  reverse of fix 08a0adc -> finish (1) sign-not-over-canonical-octets:raw-nonutf8, pass 2 verify-rejects-valid:raw-nonutf8
  equal-overfolds.diff      labels.go equal() takes any two octets 0x20 apart (>= 'A') for one letter: [ {, ] }, ^ ~ -> pass 2
                            verify-accepts-invalid:forge-key-owner-xor20:signer and ...:forge-rrsig-owner-xor20:owner (stdlib-signed variants whose
                            DNSKEY owner / RRSIG owner differs from the signer / RRset owner in one octet by 0x20; a window of octet values per
                            signature, all 256 values in every quick run)
  reintroduce-nxt-not-lowercased.diff     reverse of fix fb0255f            -> finish (1) sign-not-over-canonical-octets:NXT:rdata-name-uppercase; pass 2
                            verify-rejects-valid:NXT:rdata-name-case, verify-accepts-invalid:signature:unaltered:NXT:rdata-name-uppercase
  reintroduce-star-prefix-wildcard.diff   reverse of fix f3cd792            -> pass 1 sign-fields:Labels:star-prefixed-label; finish (1) ...:star-prefixed-label
  reintroduce-root-wildcard-dotdot.diff   reverse of fix ffb8107            -> pass 1 sign-error:wildcard-at-root (when *. is drawn); pass 2 verify-rejects-valid:wildcard-at-root
  shared-scratch-4096.diff  every record packed into one DefaultMsgSize scratch buffer (seed C10-14) -> pass 1 sign-error:record-over-4096-octets;
                            pass 2 verify-rejects-valid:forge:record-over-4096-octets (shard "5": the 4097-octet record of every run and the larger one)
  key-class-unchecked.diff  the DNSKEY's class is never looked at (seed C10-15) -> pass 2 verify-accepts-invalid:key-class:key-class and
                            ...:forge-key-class:key-class (every signature: three classes, rotating through CH HS NONE ANY 0 32769 CS 256)
  covered-type-unchecked.diff   TypeCovered not compared with the RRset's type -> pass 2 verify-accepts-invalid:forge-type-covered:type
  rrset-class-unchecked.diff    RRset class not compared with the RRSIG's     -> pass 2 verify-accepts-invalid:class-rrsig-and-key:class, ...:forge-class-rrset:class
  key-algorithm-unchecked.diff  RRSIG algorithm not compared with the key's   -> pass 2 verify-accepts-invalid:forge-key-algorithm:algorithm (RSA shards)
  rsa-modlen-counts-exponent.diff  publicKeyRSA bounds len(exponent)+len(modulus) by 512 (seed C10-19): every 4096-bit DNSKEY refused -> pass 2
                            verify-rejects-valid:orig:<feature>:rsa-4096-bit-key (and every other accepting variant) on shard "6", all three 4096-bit keys
  sign-keeps-labels.diff    Sign leaves a non-zero Labels alone, like OrigTtl (seed C10-20) -> pass 1 dnssec/sign-fields:Labels:<feature>:reused-sig-struct,
                            finish (1) sign-not-over-canonical-octets, pass 2 verify-rejects-valid:reused-* (reused RRSIG values, every case)
Benign (checks/benign/C10, must exit 0): dedup-first-prechecks-reordered.diff (duplicates dropped through a map before a stable sort;
the key pre-checks in another order).
Findings of this check on the originally pinned tree, since repaired in /repo: NXT next name not lower-cased (fb0255f); Sign took every
owner starting with '*' for a wildcard (f3cd792: *a.example. signed as *.example., verifying for any name below example.); "*.." for a
wildcard below the root (ffb8107).  CanonicalName replaced raw non-UTF-8 octets by U+FFFD (08a0adc).  Still listed: capital letters spelled \\DDD in the owner text are not folded (known-findings.d/C10.txt).
"""
import os, json
import vp
from checks import c01
from checks.c17 import safe_scratch, keys_of

PAIRS = [["RSASHA256", "ED25519"], ["RSASHA1", "ECDSAP256SHA256"], ["RSASHA512", "ECDSAP384SHA384"]]
ALL = ["RSASHA1", "RSASHA256", "RSASHA512", "ECDSAP256SHA256", "ECDSAP384SHA384", "ED25519", "RSASHA256-2048"]
# committed RSA keys at the size limits (harness/cmd/dnssec/testdata), <algorithm>-<modulus bits>[e<octets of the public exponent>]
BOUNDARY = ["RSASHA256-4096", "RSASHA1-4096e1", "RSASHA512-4096e4", "RSASHA256-512", "RSASHA1-512e1",
            "RSASHA256-4096e2", "RSASHA512-4096e1", "RSASHA1-4096e4", "RSASHA256-512e4", "RSASHA1-512e2"]
BOUNDARY_QUICK = BOUNDARY[:5]


def absorb_pass(ctx, tr, events, shard):
    keys = keys_of(tr)
    bad = tr.bad or []
    if len(keys) != len(bad) or not tr.accepted:
        raise vp.Infra("Trace_Dnssec: %d bad events, %d keys, accepted=%s" % (len(bad), len(keys), tr.accepted))
    with vp._lock:
        ctx.traces += max(0, (tr.hwm or 0) - len(bad))
        for i, k in zip(bad, keys):
            e = events[i - 1]
            if k.startswith("trace/"):
                raise vp.Infra("event the trace spec cannot read: %s (event id %s)" % (k, e.get("id")))
            brief = {f: e[f] for f in ("ev", "id", "of", "kind", "algname", "case", "ok", "err", "accepted", "sigok", "spell") if f in e}
            for f in ("rrset", "sig", "key", "req", "out"):
                if e.get(f) is not None:
                    brief[f] = e[f]
            ctx.candidate(k, "recorded %s event rejected by the specification" % e["ev"], dict(shard, **brief))


def pipeline(ctx, binp, lay, tag, seed, n, algs, flip_every, only=None):
    shard = {"seed": seed, "n": n, "algs": algs, "flip_every": flip_every}
    ev = os.path.join(ctx.out, "dnssec-%s-events.ndjson" % tag)
    kf = os.path.join(ctx.out, "dnssec-%s-keys.json" % tag)
    vf = os.path.join(ctx.out, "dnssec-%s-verify.ndjson" % tag)
    args = ["record", lay, ev, kf, str(n), ",".join(algs), str(flip_every)] + ([str(only)] if only is not None else [])
    s = ctx.run_json(binp, args, env={"VERIF_SEED": str(seed)}, timeout=3000)
    for m in s.get("mismatches", []):
        if isinstance(m.get("case"), dict):
            m["case"] = dict(shard, **m["case"])
    vp.absorb(ctx, s, traces=False)
    with vp._lock:
        d = ctx.notes.setdefault("events_pass1", {})
        for k, v in (s.get("notes", {}).get("events") or {}).items():
            d[k] = d.get(k, 0) + v
    tr = ctx.tlc_trace("Trace_Dnssec", ev, xmx="4g", timeout=3000)
    absorb_pass(ctx, tr, vp.read_ndjson(ev), shard)
    emit = os.path.join(tr.r.dir, "emit.ndjson")
    if not os.path.exists(emit):
        raise vp.Infra("Trace_Dnssec wrote no emit.ndjson")
    f = ctx.run_json(binp, ["finish", lay, ev, emit, kf, vf], env={"VERIF_SEED": str(seed)}, timeout=6000)
    for m in f.get("mismatches", []):
        if isinstance(m.get("case"), dict):
            m["case"] = dict(shard, **m["case"])
    vp.absorb(ctx, f)
    with vp._lock:
        d = ctx.notes.setdefault("verify_events_by_kind", {})
        for k, v in (f.get("notes", {}).get("finish_counts") or {}).items():
            d[k] = d.get(k, 0) + v
    os.remove(kf)
    if os.path.getsize(vf) > 0:
        tr2 = ctx.tlc_trace("Trace_Dnssec", vf, xmx="4g", timeout=3000)
        absorb_pass(ctx, tr2, vp.read_ndjson(vf), shard)


def run(ctx):
    safe_scratch(ctx)
    binp = ctx.build("dnssec")
    lay = c01.layout(ctx)
    jobs = [lambda: ctx.tlc("MC_Dnssec", workers=2, xmx="3g", timeout=1800)]
    if ctx.quick:
        algs = PAIRS[ctx.seed % 3]
        jobs += [lambda k=k: pipeline(ctx, binp, lay, str(k), ctx.seed * 1000 + k, 16, algs, 4) for k in range(3)]
        jobs += [lambda: pipeline(ctx, binp, lay, "3", ctx.seed * 1000 + 3, 3, ["RSASHA256-2048"], 0)]       # one 2048-bit key per run
        # both curves in every run whatever the pair: signatures with short R / short S (cases 0..3 of every shard make them)
        jobs += [lambda: pipeline(ctx, binp, lay, "4", ctx.seed * 1000 + 4, 4, ["ECDSAP256SHA256", "ECDSAP384SHA384"], 0)]
        # the large-record universe: four RRsets with a record of 4097, 4096 | 4095, one of 5003..16385 and one of 511..2049 octets
        jobs += [lambda: pipeline(ctx, binp, lay, "5", ctx.seed * 1000 + 5, "0+4", algs, 0)]
        # RSA keys at the size limits of RFC 3110 (4096- and 512-bit moduli) with public exponents of 1, 2, 3 and 4 octets
        jobs += [lambda: pipeline(ctx, binp, lay, "6", ctx.seed * 1000 + 6, len(BOUNDARY_QUICK), BOUNDARY_QUICK, 0)]
        vp.parallel(jobs, maxpar=8)
    else:
        jobs += [lambda k=k: pipeline(ctx, binp, lay, str(k), ctx.seed * 1000 + k, 56, ALL, 3) for k in range(12)]
        # large records: every length of the list (bigThorough: around 512 .. 65536 octets, RDATA of 65535), 7 per shard
        jobs += [lambda k=k: pipeline(ctx, binp, lay, "big%d" % k, ctx.seed * 1000 + 100 + 7 * k, "0+7", ALL, 0) for k in range(3)]
        jobs += [lambda: pipeline(ctx, binp, lay, "rsa", ctx.seed * 1000 + 200, 2 * len(BOUNDARY), BOUNDARY, 0)]
        vp.parallel(jobs, maxpar=6)
    ctx.assumptions += [
        "the signature primitives and hash functions are Go's standard library, applied to the octets the specification fixes; "
        "DNSKEY public keys are decoded per RFC 3110 / 6605 / 8080 by the harness",
        "RRsets are built from abstract records through the layout table (names spelled canonically unless the variant says \\DDD); "
        "the wire codec itself is C01; NXT records carry an empty type bitmap (the library's NXT bitmap format is a C01 finding)",
        "AMBIG, not demanded to verify (only 'must not accept what is invalid'): RRsets outside the signer's zone (RFC 4035 s.5.3.1, "
        "checked textually by the library), and RRsets whose records spell the owner in different letter case among themselves "
        "(IsRRset compares strings)",
        "RRSIG RRsets are not signed (RFC 4035 s.2.2); A6 is not known to the library; key tag 0 is avoided (Sign refuses it)",
        "large records: quick takes four RRsets per run (4097, 4096 | 4095, one of 5003 .. 65535+, one of 511 .. 2049 octets on the wire), "
        "with eight variants each instead of the full list; thorough every length of the list once",
        "Verify does not look at the validity period (stated by the property); expired and not-yet-valid signatures must verify",
        "quick tier: bit flips inside the signature and public key fields take one bit per octet (all bits of the first and last "
        "octet); every bit of the other RRSIG / DNSKEY fields is flipped; RDATA that no longer holds a valid signer name is skipped",
    ]
    return ctx.finish(rule="events: seeded RRsets x algorithms; per signature one sign event, ~45 verify events, for one in four (quick) / three "
                      "all single-bit flips of RRSIG and DNSKEY RDATA. distinct = sign events + verify events; all non-trivial")


def replay(ctx, path):
    safe_scratch(ctx)
    binp = ctx.build("dnssec")
    lay = c01.layout(ctx)
    rp = json.load(open(path))
    case, key = rp["case"], rp["key"]
    if not all(k in case for k in ("seed", "n", "algs", "case")):
        raise vp.Infra("replay file has no (seed, n, algs, case)")
    pipeline(ctx, binp, lay, "replay", case["seed"], case["n"], case["algs"], 1, only=case["case"])
    if any(c["key"] == key for c in ctx.cands):
        print("VIOLATION property=%s replay=%s" % (ctx.id, path))
        return 1
    print("replay: discrepancy no longer present")
    return 0
