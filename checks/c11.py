"""C11  TSIG: generated MACs verify; only RFC 8945-valid, timely MACs are accepted.

The HMAC is uninterpreted in spec/Tsig.tla (DESIGN 1.3): the specification produces the octet string
that goes into it (DigestInput) and the octets of a signed message around a MAC; the harness applies
Go's crypto/hmac to the specification's octets.  Nothing in the harness builds a digest input.

MC      MC_Tsig: chains of <= 4 envelopes (real octets, MacModel = injective constructor) with <= 2
        faults of 14 kinds: accepted end to end iff no effective fault; rejection exactly at the first
        envelope that is not the honest one; unsigned never accepted; layout round trip; 48-bit window
        arithmetic.
CHAINS  the same run exports every behaviour (L, faults, verdicts) -> `tsig replay`: Transfer.In over an
        in-memory connection (timers-only switch of inAxfr / inIxfr, running MAC of Transfer.ReadMsg), plus
        Transfer.ReadMsg / Conn.WriteMsg+ReadMsg for single envelopes.  The verdicts do not depend on what the
        envelopes carry, the receiver's timers-only switch does: every behaviour is driven through the transfer
        LAYOUTS a peer may choose -- AXFR / IXFR request x opening SOA with data / alone (one-answer format) x
        closing SOA with data / alone: all eight for behaviours with <= 1 fault, the plain one + one in rotation for
        pairs of faults (thorough: all); finding keys tsig/chain:in[:ixfr][:soa-alone-first][:soa-alone-last]:...
GEN     `tsig msgs` (real Pack) -> Gen_Tsig: message x 7 algorithm spellings x 2 keys x 3 request MACs x
        timers-only x original id =/# id x 4 error/other-data cases x 4 fudge/time cases -> `tsig replay`:
        real TsigGenerate MAC = HMAC(spec digest), output = spec layout; real verification
        (dns.VerifTsigVerifyAt, exact clock) of spec octets + stdlib MAC at now = time + {-f-1,-f,-1,0,1,f,f+1}.
TV      `tsig record alter`: messages signed by the real code (every algorithm spelling at least twice per run),
        then EVERY single-bit alteration of the complete signed octets (message, TSIG owner, type, class, TTL,
        RDLENGTH, every RDATA field), 24 single field alterations of the TSIG record, alterations of secret / request MAC / timers-only / clock,
        unsigned variants, through VerifTsigVerifyAt (library's own secret table) and the public TsigVerify
        (wall clock, times >= 300 s from the window edges) -> Trace_Tsig emits what the specification reads
        in each octet string (digest input, MAC, time verdict) -> `tsig judge` fills in crypto/hmac and compares
        the verdicts both ways.
        Stubs: besides explicit time / fudge 300, every run signs with the "fill in" stubs (Fudge 0, TimeSigned 0, both)
        and a one-second window (Fudge 1).  Whatever the signer picks is read by the specification in the octets it
        EMITTED: the MAC must cover the timers on the wire, the window is the one on the wire (clock at time +/- fudge,
        +/- fudge + 1 of the wire values), and the time signed must not lie more than a second before the moment the
        message was handed to the signer (`handed' -> Tsig!SignedNotBefore; key tsig/sign:stale-time-signed:<via>).
TV conn the same recorder, client connections (Tsig!ConnWrite / ConnReadDigest; cw / cr events, Trace_Tsig carries the
        connection's state): one dns.Conn value (TsigSecret / TsigProvider; stream and datagram), 1-3 signed transactions
        on it, 1-4 messages read per transaction -- junk with another ID, the request reflected, a late answer to the
        previous request, a wrongly keyed stray, then the answer (right / wrong secret / altered MAC / unsigned / chained
        on nothing / the request reflected) -- through Conn.WriteMsg + ReadMsg per message and through
        Client.ExchangeWithConn (datagram: reads on past other IDs; the result is attributed to the datagram with its ID).
        Every read is judged against the MAC of the request of ITS transaction as written, full variables: reading does
        not move the state.  Noted, not judged (outside the statement, see Tsig.tla): the MAC of the second / third request
        written on the same Conn value covers the previous request's MAC (evidence note
        requests_on_a_reused_conn_whose_mac_covers_an_earlier_request_mac_recorded).

Finding of this check on the pinned tree, since repaired in /repo (c2100c2; `fixed:` in known-findings.txt):
  tsig/verify:accepts-invalid:tsig-class-altered
      tsigBuffer digests the constant ClassANY, not the CLASS of the TSIG record as received (RFC 8945 4.3.3): a
      signed message whose TSIG class was altered (255 -> 254, any of the 16 bits) still verified.  Seen by TV (bit
      and field:class-in events) and CHAINS (alter_class on the first envelope).  The TTL, the other header field
      among the TSIG variables, IS digested from the wire (mutant tsig-ttl-not-digested = seeded change C11-2).

        The same recorder reads signed messages with dns.Conn.ReadMsg / Transfer.ReadMsg on connections that have written
        nothing, an unsigned message, or the signed request (right / wrong secret / altered MAC / altered body / unknown
        key / unsigned): verified = no error and a TSIG present, judged against the request MAC the connection holds.
TV srv  `tsig record server`: real dns.Servers on in-memory TCP listeners, one per configuration (TsigSecret with the key /
        EMPTY / without the request's key; TsigProvider; provider over a contradicting table; no TSIG configuration at all =
        recorded, not judged) and an in-memory datagram socket (TsigProvider); requests under two keys; 2-5 transactions back to back on every TCP connection, datagrams one by one;
        requests signed (5 algorithms) / signed with a wrong secret / unsigned / right MAC but time 3000 s outside the
        window (BADTIME) / MAC field cut to half (BADTRUNC); the handler signs its TSIG error reply through WriteMsg; handlers answering with one message, with
        2-4 messages (w.TsigTimersOnly(true) after each) or with Transfer.Out (the clock noted when each envelope is handed to
        Out; ONE verified transfer per run hands its last envelope over 2.1 s late: time signed = time of signing, `handed') -> Trace_Tsig restarts the session at every
        request -> `tsig judge`: TsigStatus seen by the handler = the specification's verdict on the request; every response's
        MAC = HMAC over the specification's digest input (first response of every transaction: that request's MAC + full
        variables; later ones: previous MAC + timers only).  Judged: answers to verified requests and the error responses
        RFC 8945 5.3.2 wants signed (BADTIME, BADTRUNC, key known): MAC over the request MAC as received + reply + variables
        with error / other data.  BADSIG / BADKEY replies (TSIG without MAC) are recorded only.

Mutants (checks/mutants/C11, each must give exit 1):
  digest-omits-error-otherlen   GEN (generate:mac-is-not-hmac-of-rfc-digest), TV (base event: accepts-invalid:mac)
  original-id-not-restored      GEN (vectors with original id # id), TV
  time-before-mac-early-return  TV (every MAC/bit alteration accepted), CHAINS, GEN (other secret accepted)
  reqmac-without-length         GEN (vectors with a request MAC), TV
  name-not-lowercased           GEN (Key.Example. / HMAC-SHA256. vectors), TV (Mixed.Case.Key.)
  window-off-by-one             GEN (now = time +/- fudge)
  timers-only-ignored           GEN (timers-only vectors), CHAINS stay green (self-consistent) -- GEN is what bites
  tsig-ttl-not-digested         TV (bit events on the 32 TTL bits, field:ttl-1), CHAINS (alter_ttl on the first envelope)
  tsig-class-not-digested       (reverts fix c2100c2) TV (16 class bits, field:class-in), CHAINS (alter_class)
  server-empty-table-no-provider (seeded change C11-8) TV srv (tsig/verify:accepts-invalid:unknown-key:server, "empty table" server)
  conn-verifies-only-after-signed-write (seeded change C11-14) TV (via conn: accepts-invalid:mac / unknown-key on reads without prior signed write)
  server-error-reply-without-reqmac (seeded change C11-11) TV srv (tsig/verify:accepts-invalid:mac:server-out on BADTIME / BADTRUNC replies)
  server-timersonly-not-reset   (seeded change C11-6 = C15-3) TV srv (tsig/verify:accepts-invalid:mac:server-out on the first
                                response of a transaction that follows a multi-message answer on the same TCP connection)
  conn-clears-reqmac-after-read (seeded change C11-17) TV conn (tsig/verify:rejects-valid:... later read: answer:conn on every API /
                                transport; accepts-invalid:mac:conn for the reflected request / answer chained on nothing)
  axfr-soa-alone-no-timers-switch (seeded change C11-18) CHAINS (tsig/chain:in:soa-alone-first[:soa-alone-last]:rejects-honest-envelope:*)
  stub-defaults-not-written-back (seeded change C11-20) TV (accepts-invalid:mac:hook on "base (stub ... fudge 0)": MAC over 300, wire says 0;
                                tsig/sign:stale-time-signed:hook on "stub time 0": wire time 1970)
  out-hoists-signing-time       (seeded change C11-21) TV srv (tsig/sign:stale-time-signed:server-out on the late envelope)
"""
import os, json, threading
import vp

PAR = int(os.environ.get("VERIF_PAR", "8"))     # parallel TLC / harness processes per stage

_scratch_lock = threading.Lock()


def safe(ctx):
    """ctx.tlc numbers its scratch directories without a lock; parallel stages of one check go through this."""
    if getattr(ctx, "_c11_safe", False):
        return
    orig = ctx._scratch

    def locked(name):
        with _scratch_lock:
            return orig(name)
    ctx._scratch = locked
    ctx._c11_safe = True


def chains(ctx, binp, maxlen, maxfaults, emit=True):
    r, vecs = ctx.tlc_vectors("MC_Tsig", workers=1 if emit else 4, xmx="3g", timeout=3000,
                              consts={"MaxLen": maxlen, "MaxFaults": maxfaults, "EmitChains": "TRUE" if emit else "FALSE"})
    if not emit:
        return
    path = os.path.join(r.dir, "vectors.ndjson")
    if not vecs:
        raise vp.Infra("MC_Tsig exported no chain behaviour")
    # the behaviours go through up to eight transfer layouts each (harness: chainLayouts): replayed in parallel parts
    lines = open(path).read().splitlines(True)
    nparts = max(1, min(PAR, 6))

    def part(k):
        pp = os.path.join(r.dir, "chains-%d.ndjson" % k)
        open(pp, "w").writelines(lines[k::nparts])
        vp.absorb(ctx, ctx.run_json(binp, ["replay", pp]))
    vp.parallel([lambda k=k: part(k) for k in range(nparts)], maxpar=nparts)
    ctx.notes["chain_behaviours"] = len(vecs)


def gen(ctx, binp, nshards, shards):
    msgs = os.path.join(ctx.out, "msgs.ndjson")
    ctx.run_json(binp, ["msgs", msgs])
    text = open(msgs).read()

    def one(sh):
        r, vecs = ctx.tlc_vectors("Gen_Tsig", workers=1, xmx="3g", timeout=3000, files={"msgs.ndjson": text},
                                  consts={"Shard": sh, "NShards": nshards})
        path = os.path.join(r.dir, "vectors.ndjson")
        if not os.path.exists(path):
            raise vp.Infra("Gen_Tsig shard %d produced no vectors" % sh)
        s = ctx.run_json(binp, ["replay", path])
        vp.absorb(ctx, s)
    vp.parallel([lambda sh=sh: one(sh) for sh in shards], maxpar=PAR)


def judge_trace(ctx, binp, trace_path, keyprefix="tsig/trace:"):
    """Trace_Tsig over recorded events, then the HMAC pass."""
    tr = ctx.tlc_trace("Trace_Tsig", trace_path, xmx="3g", timeout=3000)
    evs = vp.read_ndjson(trace_path)
    vp.absorb_trace(ctx, tr, evs, lambda e: keyprefix + str(e.get("ev")), what="event the specification cannot read")
    spec = os.path.join(tr.r.dir, "vectors.ndjson")
    if not os.path.exists(spec):
        raise vp.Infra("Trace_Tsig emitted nothing for %s" % trace_path)
    s = ctx.run_json(binp, ["judge", trace_path, spec])
    vp.absorb(ctx, s)
    return s


def tv(ctx, binp, n, nproc):
    def one(k):
        out = os.path.join(ctx.out, "alter-%d.ndjson" % k)
        s = ctx.run_json(binp, ["record", "alter", out, str(n)], env={"VERIF_SEED": str(ctx.seed * 1000 + k)})
        vp.absorb(ctx, s, traces=False)
        judge_trace(ctx, binp, out)
    vp.parallel([lambda k=k: one(k) for k in range(nproc)], maxpar=PAR)


def tv_server(ctx, binp, n, nproc):
    def one(k):
        out = os.path.join(ctx.out, "server-%d.ndjson" % k)
        s = ctx.run_json(binp, ["record", "server", out, str(n)], env={"VERIF_SEED": str(ctx.seed * 1000 + 300 + k)})
        vp.absorb(ctx, s, traces=False)
        judge_trace(ctx, binp, out)
    vp.parallel([lambda k=k: one(k) for k in range(nproc)], maxpar=PAR)


def run(ctx):
    safe(ctx)
    binp = ctx.build("tsig")
    if ctx.quick:
        vp.parallel([
            lambda: chains(ctx, binp, 4, 2),
            lambda: gen(ctx, binp, 8, [ctx.seed % 8, (ctx.seed + 3) % 8]),
            lambda: tv(ctx, binp, 7, 2),
            lambda: tv_server(ctx, binp, 60, 1),
        ])
    else:
        vp.parallel([
            lambda: chains(ctx, binp, 5, 2),
            lambda: gen(ctx, binp, 8, range(8)),
            lambda: tv(ctx, binp, 60, 16),
            lambda: tv_server(ctx, binp, 1500, 4),
        ])
    ctx.assumptions += [
        "HMAC values are not decided by the specification: crypto/hmac is applied to the specification's digest input",
        "hmac-md5 (RFC 8945 optional, 'no longer supported' by the library): a correct HMAC-MD5 may be accepted or refused",
        "class and TTL of the TSIG record are TSIG variables digested as received (RFC 8945 4.3.3): altering them after signing "
        "must be rejected; a message whose MAC does cover an odd class / TTL may be accepted or refused (RFC 8945 5.2: FORMERR)",
        "TSIG RDATA cut after the original-id / error / other-len field, or octets after the record: RFC 8945 does not fix the "
        "receiver's behaviour and the library's codec reads missing trailing fields as zero; no verdict asserted (codec: C01/C02)",
        "the ID of the signed message when the TSIG's original id differs from the message id: either (AMBIG)",
        "request MACs have >= 10 octets (RFC 8945 5.2.2.1); in the generated vectors signing time and fudge are non-zero (zero means "
        "'fill in' to TsigGenerate): the fill-in stubs are covered by the recorder, judged on the octets the signer emitted",
        "which request MAC a dns.Conn gives the second and later signed requests written on the same Conn value (the library chains "
        "them on the previous request's MAC, RFC 8945 5.1 signs a request over message + variables only) is outside the statement "
        "(generation / verification 'under the same request MAC'): recorded in the evidence notes, not judged; the reads of such a "
        "transaction are judged against the MAC of the request as written",
        "an unsigned request written on a Conn after a signed one: the statement does not say which request MAC holds; not produced",
        "the library's secret table is keyed by spelling: acceptance of a valid MAC is asserted when the key name on the wire is "
        "spelled as in the table, or through TsigVerify (one secret); rejection is never a violation of the statement",
        "BADSIG/BADKEY responses (unsigned by RFC 8945 5.3.2) are outside the universe",
        "a dns.Server with neither TsigSecret nor TsigProvider verifies nothing and TsigStatus() stays nil for signed requests: "
        "outside the statement (no TSIG configured); counted in the evidence notes, not judged",
    ]
    return ctx.finish(rule="chains: every (L<=4, <=2 faults) behaviour of MC_Tsig; vectors: one per TLC state of Gen_Tsig "
                      "(distinct = distinct parameter tuples); events: one per real verification of an altered message "
                      "(non-trivial = events the specification accepts: unaltered, header-ID, name-case and clock-inside-window cases)")


def replay(ctx, path):
    safe(ctx)
    binp = ctx.build("tsig")
    rp = json.load(open(path))
    case = rp["case"]
    if isinstance(case, dict) and case.get("ev") == "cr":
        # a read on a client connection depends on what the connection wrote and read before: the transactions are recorded
        # again (same recorder, a few hundred connections) and judged; the discrepancy is present if its key shows up again
        out = os.path.join(ctx.out, "conn.ndjson")
        ctx.run_json(binp, ["record", "conn", out, "400"], env={"VERIF_SEED": str(rp.get("seed", ctx.seed))})
        s = judge_trace(ctx, binp, out)
        bad = any(m["key"] == rp["key"] for m in s["mismatches"]) or any(c["key"] == rp["key"] for c in ctx.cands)
    elif isinstance(case, dict) and case.get("ev") in ("verify", "env"):
        ein = os.path.join(ctx.out, "event.ndjson")
        eout = os.path.join(ctx.out, "event-re.ndjson")
        vp.write_ndjson(ein, [case])
        ctx.run_json(binp, ["reverify", ein, eout])
        s = judge_trace(ctx, binp, eout)
        bad = any(m["key"] == rp["key"] for m in s["mismatches"]) or any(c["key"] == rp["key"] for c in ctx.cands)
    elif isinstance(case, dict) and "event" in case:
        tr = ctx.tlc_trace("Trace_Tsig", [case["event"]])
        bad = bool(tr.bad) or not tr.accepted
    else:
        p = os.path.join(ctx.out, "one.ndjson")
        vp.write_ndjson(p, [case])
        s = ctx.run_json(binp, ["replay", p])
        bad = any(m["key"] == rp["key"] for m in s["mismatches"])
    if bad:
        print("VIOLATION property=%s replay=%s" % (ctx.id, path))
        return 1
    print("replay: discrepancy no longer present")
    return 0
