"""X17 (extra)  The COMMENT side of the zone-file reader: ZoneParser.Next / Comment, NewRR / ReadRR.      spec/Comments.tla

Contract (scan.go, doc comment of ZoneParser): comments behind an RR on its line are returned ("; this is comment"), comments
inside the RR (parentheses) are returned concatenated, comments on a line by themselves are discarded; Comment() is the comment
"alongside the RR".  Comments.tla models zone text as entries of physical lines (items, optional comment, glue), Render gives
the octets, CommentOf / Admitted the text(s) Comment() may return, Expect what a reader delivers ($TTL / $ORIGIN / $GENERATE /
$INCLUDE lines, blank and comment-only lines, a refused line), First what NewRR / ReadRR deliver, SM* the Next / Comment state
machine, ScanZone an independent octet-level reading of the comments (quotes, escapes, parentheses).

MC      MC_Comments: 7 344 zones (26 112 thorough) <<record in 4 layouts x 3 token spellings x every comment assignment, blank /
        comment-only / $TTL line, second record>>: ScanZone(Render(z)) = the model's comments; "" admitted iff no comment; every
        admitted text holds every comment of the entry; nothing admitted for two records; partial texts never admitted; the
        Next / Comment machine in every order (RegOK, Twice).  Variants "keep" (comment of the previous record stays) and
        "stale-end" (comment survives the end) must FAIL RegOK.
GEN     Gen_Comments -> `comments replay` (Comment() twice after every Next(), after the end, NewRR, ReadRR):
          fam    37 RDATA families (fixed fields, text slices, base64 / hex endings, bit maps, \\# form, SVCB, LOC, IPSECKEY, ...)
                 x 9 layouts x a comment or none on every physical line, between commented / uncommented neighbours, or alone
                 without final line end                                                                            7 548
          text   comment spellings (empty, no blank, trailing blanks, ';' inside, '"' '(' inside) x glue x LF / CR LF x final    9 440
          mix    empty and non-empty comments mixed                                                                   534
          zone   sequences of <= 3 (4) of 17 entries: records, blank, comment-only, $TTL, $ORIGIN, $GENERATE, $INCLUDE (with
                 comments), a refused line                                                                          5 933
TV      `comments record`: seeded-random zones from the exported pieces (comments, glue, line ends, call pattern varied); every
        Next() / Comment() / Err() logged -> Trace_Comments (also checks the harness' rendering against Render)

Findings on the unchanged tree (known-findings.d/X17.txt): comments inside a parenthesised record are lost when more tokens
of the record follow (multi-gap) or when the ';' stands directly behind a token on an inner line (multi-abut); a ';' inside a
comment gets a blank put in front of it (inner-semicolon).

Mutants (checks/mutants/X17); every one is caught by the replay stage with a key that is not a known finding (verified by
replaying the quick vectors against each patched tree; the full `bin/check X17 quick` was run for quoted-semicolon only: exit 1):
  comment-not-reset       the lexer no longer clears the comment at each token      comments/comment:after-end, spurious:single
  eof-comment-dropped     comment on the last line without line end is dropped       comments/comment:lost-all:single, :multi-dense
  brace-comment-dropped   comment lines inside parentheses are not accumulated       comments/comment:lost-all / lost-some:multi-dense
  include-comment-parent  Comment() ignores the $INCLUDE / $GENERATE sub-parser      comments/comment:lost-all:single, spurious:generate
  newline-as-blank        inner comments joined without the blank                    comments/comment:wrong:multi-dense, :multi-abut
  quoted-semicolon        ';' inside a quoted string starts a comment                comments/next:records:fewer
"""
import os, json
import vp

MODES = ["fam", "text", "mix", "zone"]


def tkey(k):
    """key printed by Trace_Comments -> finding key (the same names as the replay stage)"""
    if k == "render":
        return None
    if k.startswith("records:"):
        return "comments/next:" + k
    if k == "error":
        return "comments/next:error"
    return "comments/comment:" + k


def judge(ctx, events_path, timeout=1800):
    evs = vp.read_ndjson(events_path)
    tr = ctx.tlc_trace("Trace_Comments", events_path, xmx="3g", timeout=timeout)
    if not tr.accepted and tr.hwm != len(evs):
        raise vp.Infra("Trace_Comments stopped at line %s of %d" % (tr.hwm, len(evs)))
    bad = tr.bad or []
    found = []
    with vp._lock:
        ctx.traces += max(0, len(evs) - len(bad))
    for i in bad:
        k = tr.vals.get("k%d" % i)
        if k is None:
            raise vp.Infra("Trace_Comments marked line %d without a key" % i)
        key = tkey(k)
        if key is None:
            raise vp.Infra("the harness rendered a zone differently from Comments!Render (line %d): %s" % (i, json.dumps(evs[i - 1])[:600]))
        j = i - 1
        while j > 0 and evs[j - 1]["ev"] != "zone":
            j -= 1
        ze = evs[j - 1]
        what = "recorded %s event rejected by the specification: %s; zone %r" % (
            evs[i - 1]["ev"], json.dumps({f: (bytes(evs[i - 1][f]).decode("latin1") if isinstance(evs[i - 1].get(f), list) else evs[i - 1].get(f)) for f in ("ok", "name", "c", "err")}),
            bytes(ze["text"]).decode("latin1"))
        with vp._lock:
            ctx.candidate(key, what, {"zone_event": ze, "event": evs[i - 1]})
        found.append(key)
    return found


def run(ctx):
    binp = ctx.build("comments")
    wide = "FALSE" if ctx.quick else "TRUE"
    nrec = 1500 if ctx.quick else 6000
    nproc = 1 if ctx.quick else 6

    def mc():
        ctx.tlc("MC_Comments", workers=4, xmx="3g", timeout=3000, consts={"Wide": wide})

    def broken(variant):
        def f():
            r = ctx.tlc("MC_Comments", workers=2, xmx="3g", timeout=3000, consts={"Variant": '"%s"' % variant}, must_pass=False, count=False)
            if r.ok or "Invariant RegOK is violated" not in r.out:
                raise vp.Infra("broken variant %s of the Next/Comment machine satisfies RegOK: the invariant is vacuous" % variant)
        return f

    def gen(mode):
        def f():
            r, _ = ctx.tlc_vectors("Gen_Comments", workers=1, xmx="3g", timeout=3000, consts={"Mode": '"%s"' % mode, "Wide": wide})
            path = os.path.join(r.dir, "vectors.ndjson")
            if not os.path.exists(path):
                raise vp.Infra("Gen_Comments %s produced no vectors" % mode)
            s = ctx.run_json(binp, ["replay", path])
            vp.absorb(ctx, s)
            with vp._lock:
                ctx.notes.setdefault("vectors_per_mode", {})[mode] = s.get("evaluations", 0)
        return f

    def tv():
        r, _ = ctx.tlc_vectors("Gen_Comments", workers=1, xmx="3g", timeout=3000, consts={"Mode": '"pieces"'}, count=False)
        pieces = os.path.join(r.dir, "vectors.ndjson")
        if not os.path.exists(pieces):
            raise vp.Infra("Gen_Comments produced no pieces")

        def one(k):
            out = os.path.join(ctx.out, "events-%d.ndjson" % k)
            s = ctx.run_json(binp, ["record", out, pieces, str(nrec)], env={"VERIF_SEED": str(ctx.seed * 1000 + k)})
            nev = (s.get("notes") or {}).pop("events", 0)
            vp.absorb(ctx, s, traces=False)
            with vp._lock:
                ctx.notes["events"] = ctx.notes.get("events", 0) + nev
            judge(ctx, out)
        vp.parallel([lambda k=k: one(k) for k in range(nproc)], maxpar=6)

    vp.parallel([mc, broken("keep"), broken("stale-end")] + [gen(m) for m in MODES] + [tv], maxpar=8)
    ctx.assumptions += [
        "AMBIG, admitted: blanks / tabs at the end of a comment kept or cut; the CR of a CR LF line end kept or cut; behind an EMPTY comment "
        "(';' alone) the joining blank may be missing (';; x' or '; ; x')",
        "a comment-only line INSIDE the parentheses of a record is 'inside the RR' (contributes); one between records belongs to no record; "
        "comments of $TTL / $ORIGIN / $GENERATE / $INCLUDE lines belong to no record; records made by $GENERATE have no comment; records of an "
        "$INCLUDE'd file have their own; Comment() before the first and after the last Next() is \"\"",
        "continuation lines of a parenthesised record start with a blank (a line end inside parentheses does not separate tokens in this reader; "
        "the token side of the reader is C07's)",
        "finding keys: comments/comment:<clause>:<layout class>; the class multi-gap (a comment, then more tokens of the record) is wider than the "
        "exact condition under which the pinned reader loses the comment",
    ]
    return ctx.finish(rule="vectors per mode in notes.vectors_per_mode (each: Next / Comment x2 / end / NewRR / ReadRR on the real parser, membership in "
                      "the admitted set TLC computed); notes.events recorded calls judged by Trace_Comments. distinct = distinct zone texts")


def replay(ctx, path):
    binp = ctx.build("comments")
    rp = json.load(open(path))
    case = rp["case"]
    if "zone_event" in case:
        zf = os.path.join(ctx.out, "zones.ndjson")
        vp.write_ndjson(zf, [case["zone_event"]])
        out = os.path.join(ctx.out, "events.ndjson")
        ctx.run_json(binp, ["redo", out, zf])
        bad = rp["key"] in judge(ctx, out)
    else:
        p = os.path.join(ctx.out, "one.ndjson")
        vp.write_ndjson(p, [case])
        s = ctx.run_json(binp, ["replay", p])
        bad = any(m["key"] == rp["key"] for m in s["mismatches"])
    if bad:
        print("VIOLATION property=%s replay=%s" % (ctx.id, path))
        return 1
    print("replay: discrepancy no longer present")
    return 0
