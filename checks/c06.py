"""C06  Zone files denote what RFC 1035 s.5 says ($ORIGIN/$TTL/$GENERATE/$INCLUDE).

MC      MC_Present: Present.tla on itself (lexer total, Lex(Render(toks)) = toks, comments and
        parentheses do not change the items, ill-formedness = an independent count of live
        quotes/parentheses); MC_Zone: Zone.tla on itself over ZoneShapes (42 line shapes x 8
        configurations): machine = fold, deterministic given the AMBIG policy, TTL/class order,
        all-explicit and all-omitted rewritings denote the same, canonical text of every line reads
        back as that line, $INCLUDE never changes the includer's origin, $GENERATE count, sticky error.
GEN     Gen_Zone "seq" (every shape sequence of length <= N, sharded), "idx" (seeded random longer
        sequences in which one explicit owner in three repeats the previous one's spelling, plus the family (rr X)(d)(rr X'): same owner
        spelling again after every directive / omitted-owner line), "gen" ($GENERATE matrix: 10 ranges x offset {-1,0,7} x width {0,3} x base {d,o,x,X}), "tree"
        (include files in directories with decoys of the same base name elsewhere; zone file in 4 locations;
        parsed through fstest.MapFS and, FS-less, on the real file system under a temporary directory)
        -> harness `zone replay`: each vector rendered in >= 4 spellings (canonical; noisy = tabs, case,
        TTL units, TTL/class order, comments, parentheses with line breaks, blank lines, \\DDD labels;
        all-explicit/absolute; all-omitted/relative -- the last two rewritten BY THE SPEC), parsed by
        dns.ZoneParser under the vector's configuration (default TTL set/unset, origin ""/example.,
        includes allowed or not, include FS = fstest.MapFS), record list (PackRR octets) compared with
        the specification's.
TV      (a) every rendering is sent back as {text, abstract lines} and Present!Lex + Zone!ParseEntry must
        read exactly those lines from it (a failure is a harness bug => exit 2);
        (b) `zone record`: random zones from random abstract lines (include trees to depth 3, $GENERATE
        with random modifiers), events {line, records returned while the parser was reading that line,
        error} validated line by line by Trace_Zone; a rejected line is re-judged through Gen_Zone
        "file" + replay so that the finding key is computed in one place.

        (c) `zone follow`: every record text of harness/lib/zoo (77 RR types) in first / second (owner omitted) / third (TTL omitted)
        position of a three-record zone, in 11 spellings of the record bodies (plain, trailing comment, trailing blanks, CRLF,
        RDATA in parentheses over two lines, broken inside the parentheses without / with a comment, RFC 3597 \\# form, no final
        line end, every KEYWORD in lower case, every keyword Capitalised -- class, type, and the type mnemonics inside the RDATA:
        members of the type bit maps of NSEC / NSEC3 / CSYNC / NXT and the type covered of RRSIG / SIG, found through the
        library's struct tags; next to the zoo the family holds bit maps naming EVERY mnemonic of dns.TypeToString and an
        RRSIG / SIG for every mnemonic with a digit or a hyphen; the case of algorithm / certificate-type mnemonics is AMBIG and
        not demanded): per-line events judged by Zone.tla (RDATA opaque: the octets of the record parsed alone); dns.NewRR of the
        single record with and without final line end and dns.ReadRR of the zone checked by the harness.

        The same mode also spells every RDATA item that is the value of a field the library tags as a domain name (34 fields
        of 28+ types: SOA mbox, MINFO / RP / PX / TALINK both, NAPTR replacement, SRV / KX / RT / AFSDB / LP targets, RRSIG signer,
        NSEC next, HIP rendezvous, IPSECKEY / AMTRELAY gateways, SVCB target ...) relative under $ORIGIN <parent> and as @
        under $ORIGIN <the name>: same record as the absolute spelling (seeded C06-14: zone/rr:rdata-name:SOA:2:relative).

Mutants (checks/mutants/C06/*.diff; `cp -r /repo /tmp/zone-x && git -C /tmp/zone-x apply <diff> &&
VERIF_REPO=/tmp/zone-x bin/check C06 quick` -> exit 1, seed 1):
  generate-ignores-inherited-ttl  re-introduces the defect repaired in /repo 4d32f83 ($GENERATE sub-parser starts at 3600)
                                                                                GEN seq/idx + TV   zone/generate:ttl:$TTL, :last, :default
  comment-resets-rrtype        reverse of /repo 1ffb8b0: a comment inside parentheses resets "type seen"   GEN quirk case + TV follow (paren-comment)
                                                                                zone/rejects:rr:mnemonic-token, zone/newrr:NSEC:paren-comment, zone/rr:follow:NSEC:paren-comment ...
  ipseckey-slurp-remainder     reverse of /repo f5422ab: IPSECKEY reads into the next line       TV follow   zone/rr:follow:IPSECKEY:<spelling>, zone/readrr:first:IPSECKEY:<spelling>
  cert-slurp-remainder         the same slip in CERT (shows the family is generic)              TV follow   zone/rr:follow:CERT:<spelling>, zone/readrr:first:CERT:<spelling>
  ttl-directive-not-sticky     a stated TTL overrides $TTL for later lines      GEN seq/idx + TV   zone/rr:ttl:$TTL, zone/include:ttl:$TTL
  origin-resets-owner          $ORIGIN also replaces the carried owner          GEN seq/idx + TV   zone/rr:owner
  class-default-forgotten      omitted class repeats the last class (CH)        GEN seq/idx + TV   zone/rr:class, zone/include:class
  include-leaks-origin         $INCLUDE f o leaves o as the includer's origin   GEN seq/idx + TV   zone/rr:owner, zone/rr:rdata, zone/include:owner
  generate-width-space-padded  ${0,3,d} padded with blanks instead of zeros     GEN gen matrix + seq (shape 27) + TV   zone/generate:owner:mod, zone/rejects:*
  ttl-units-week-as-day        1w read as 1d                                    GEN (noisy spellings only: the canonical one writes seconds) + TV   zone/rr:ttl:stated, :$TTL

Seeded changes (seeded/C06-*): C06-1 GEN seq/idx (zone/extra-record, zone/generate:owner:nested); C06-2 (class-first TTL not
inherited) GEN noisy/minimal spellings + TV (zone/rr:ttl:last, :stated) -- the replay case carries the exact text and include
files of the failing spelling, so the confirmation re-executes that parse; C06-3 (nested relative $INCLUDE resolved from the wrong
directory) GEN "tree" through MapFS (zone/include:rdata: a decoy file's record) and on the os file system (zone/rejects:include).

C06-4 (a relative name whose last octet is an escaped dot taken for absolute) GEN seq/idx, shapes 36/40/42 and the special-octet
labels of record mode (zone/rr:owner, zone/include:owner, zone/generate:owner:plain); C06-5, C06-6 GEN + TV.

C06-11 (include depth counted per $INCLUDE performed, not per nesting level) GEN "file" cases siblings(): 0..10 sibling $INCLUDEs at
the top level / inside an included file / at depth 2, plus nesting chains (zone/rejects:include).
C06-8 (owner token cached across $ORIGIN) GEN idx: the family (rr X)(directive)(rr X') of same-spelled owners, canonical / noisy
spellings (zone/rr:owner); also the owner-repeating bias of the random sequences and of record mode.

C06-19 (toAbsoluteName measures the completed name by the length of its TEXT) GEN "file" cases longnames(): labels of 63 and names of
up to 255 octets whose octets have to be written as escapes (\\DDD, \\.), relative / @ / absolute, as owner, RDATA name, $ORIGIN argument,
$INCLUDE origin argument and under a long initial origin, next to the same shapes in plain letters (zone/rejects:rr, :origin, :include).
C06-20 (upper-casing of mnemonics destroys digits and '-' after the first lower-case letter) TV follow, spellings lower / capital:
zone/newrr:<TYPE>:lower, zone/rr:follow:<TYPE>:capital ... for NSEC3, NSEC3PARAM, EUI48, X25, L32, NSAP-PTR, ... and for the bit maps /
type covered that name them.

Findings on the unchanged tree: known-findings.d/C06.txt.
"""
import os, json, random, threading
import vp

CONSTS = {"SureDepth": 3, "MaxDepth": 64, "MaxGen": 65536}
QUICK_SHAPES = "{1,2,3,6,7,13,16,19,22,24,26,32,36,38,40}"
MID_SHAPES = "{1,2,3,4,5,6,7,9,11,13,14,16,17,19,21,22,24,26,27,29,32,34,36,37,38,40,41}"
NSHAPES = 42
ALL_SHAPES = "{" + ",".join(str(i) for i in range(1, NSHAPES + 1)) + "}"


def serialise_scratch(ctx):
    """vp.Ctx._scratch numbers its directories without a lock; these drivers start TLC runs from several threads."""
    if getattr(ctx, "_zone_locked", False):
        return
    orig, lock = ctx._scratch, threading.Lock()

    def locked(name):
        with lock:
            return orig(name)
    ctx._scratch = locked
    ctx._zone_locked = True


def known_env(ctx):
    """Finding keys already on record for this property: the harness uses them only to choose, among several
    admissible readings it deviates from, the description that is already known (see judge in main.go)."""
    return {"VERIF_KNOWN": ",".join(sorted(k for (pid, k) in vp.load_known() if pid == ctx.id))}


def B(s):
    return list(s.encode())


def ref(kind, *labels):
    return {"k": kind, "n": [B(l) for l in labels]}


def rr(owner, ttl, typ, **rd):
    d = {"ip": [], "pref": 0, "nm": ref("omit"), "txt": []}
    d.update(rd)
    return {"k": "rr", "owner": owner, "ttl": ttl, "class": 0, "order": "tc", "type": typ, "rd": d}


def cfg(files=()):
    return {"defTTL": -1, "origin": {"set": True, "n": [B("example")]}, "incAllowed": True, "file": B("db"),
            "files": [{"name": B(n), "lines": ls} for n, ls in files]}


# names and strings that spell a type / class mnemonic where the grammar wants a name or a string: the random
# generators stay away from them, these cases exercise them deterministically (each with its spelling)
QUIRKS = [
    {"cfg": cfg(), "lines": [{"k": "origin", "name": ref("rel", "ns")}, rr(ref("rel", "a"), 5, 1, ip=[10, 0, 0, 1])],
     "text": B("$ORIGIN ns\na 5 A 10.0.0.1\n")},
    {"cfg": cfg([("f1", [rr(ref("rel", "x"), 5, 1, ip=[10, 0, 0, 1])])]),
     "lines": [{"k": "include", "file": B("f1"), "origin": ref("rel", "a")}], "text": B("$INCLUDE f1 a\n")},
    {"cfg": cfg([("mx", [rr(ref("rel", "x"), 5, 1, ip=[10, 0, 0, 1])])]),
     "lines": [{"k": "include", "file": B("mx"), "origin": ref("omit")}], "text": B("$INCLUDE mx\n")},
    {"cfg": cfg(), "lines": [rr(ref("rel", "t"), 5, 16, txt=[B("x"), B("a")])], "text": B("t 5 TXT ( x ; c\n a )\n")},
    {"cfg": cfg(), "lines": [rr(ref("rel", "t"), 5, 16, txt=[B("x"), B("a")])], "text": B("t 5 TXT ( x\n a )\n")},   # (no comment: fine)
    # an owner written only with escaped ; ( ) " \\ or blanks, on a line that follows a line ending in a blank or a comment
    {"cfg": cfg(), "lines": [rr(ref("rel", "x"), 5, 1, ip=[10, 0, 0, 1]), rr(ref("rel", ";"), 5, 1, ip=[10, 0, 0, 2])],
     "text": B("x 5 A 10.0.0.1 ;c\n\\; 5 A 10.0.0.2\n")},
    {"cfg": cfg(), "lines": [rr(ref("rel", "x"), 5, 1, ip=[10, 0, 0, 1]), rr(ref("rel", ";"), 5, 1, ip=[10, 0, 0, 2])],
     "text": B("x 5 A 10.0.0.1\n\\; 5 A 10.0.0.2\n")},     # (nothing after the rdata: fine)
]


# shapes with an explicit owner, grouped by how the owner is SPELLED (a: 1 7; @: 3 8; the others alone), and the lines that
# may stand between two records of the same spelling: the same token written again after the origin (or anything else)
# changed must be completed again
SAME_OWNER = [(r, r) for r in (1, 3, 4, 5, 7, 8, 10, 11, 12, 14, 15, 36, 37, 38, 39, 42)] + [(1, 7), (7, 1), (3, 8), (8, 3)]
BETWEEN = (16, 17, 18, 40, 19, 22, 23, 24, 41, 26, 27, 28, 29, 34, 2)


def repeats():
    out = []
    for (r1, r2) in SAME_OWNER:
        for d in BETWEEN:
            out.append({"c": 1, "q": [r1, d, r2]})
            out.append({"c": 0, "q": [r1, d, 2, r2, 2]})
    return out


def biased(rnd, n):
    """a random shape sequence in which, one time in three, an explicit owner repeats the previous explicit owner's spelling"""
    group = {}
    for a, b in SAME_OWNER:
        group.setdefault(a, []).append(b)
    q, last = [], None
    for _ in range(n):
        if last is not None and rnd.randrange(3) == 0:
            s = rnd.choice(group[last])
        else:
            s = rnd.randrange(1, NSHAPES + 1)
        if s in group:
            last = s
        q.append(s)
    return q


def siblings(full):
    """Sibling $INCLUDEs are not nesting: a file may perform any number of them (0..10 here) at the top level, inside an included
    file and inside a file included from an included file, next to nesting chains up to and beyond the assumed limit."""
    def leaf(k):
        return ("s%d" % k, [rr(ref("rel", "l%d" % k), 5, 1, ip=[10, 1, 0, k])])

    def inc(name):
        return {"k": "include", "file": B(name), "origin": ref("omit")}

    def body(n, tag):
        ls = []
        for k in range(n):
            ls += [inc("s%d" % k), rr(ref("rel", "%s%d" % (tag, k)), 5, 1, ip=[10, 2, 0, k])]
        return ls + [rr(ref("rel", tag + "end"), 5, 1, ip=[10, 3, 0, 0])]
    leaves = [leaf(k) for k in range(10)]
    cases = []
    for n in (range(11) if full else (0, 1, 7, 8, 10)):
        n = min(n, 10)
        cases.append({"cfg": cfg(leaves), "lines": body(min(n, 10), "t")})                                           # at the top level
    for n in (range(11) if full else (6, 7, 10)):
        cases.append({"cfg": cfg(leaves + [("m1", body(n, "m"))]), "lines": [inc("m1"), rr(ref("rel", "after"), 5, 1, ip=[10, 4, 0, 0])]})
    for n in (range(11) if full else (5, 6, 10)):
        cases.append({"cfg": cfg(leaves + [("m1", [inc("m2"), rr(ref("rel", "m1end"), 5, 1, ip=[10, 5, 0, 0])]), ("m2", body(n, "n"))]),
                      "lines": [inc("m1"), inc("s0"), rr(ref("rel", "after"), 5, 1, ip=[10, 4, 0, 0])]})
    for d in (range(1, 10) if full else (1, 3, 7, 8)):                                                               # nesting chains
        files = [("c%d" % k, [inc("c%d" % (k + 1)), rr(ref("rel", "c%dend" % k), 5, 1, ip=[10, 6, 0, k])]) for k in range(1, d)]
        files.append(("c%d" % d, [rr(ref("rel", "leaf"), 5, 1, ip=[10, 6, 0, d])]))
        cases.append({"cfg": cfg(files + leaves[:3]), "lines": [inc("c1"), inc("s0"), inc("s1"), inc("s2"), rr(ref("rel", "after"), 5, 1, ip=[10, 4, 0, 0])]})
    return cases


def BL(octets):
    return list(octets)


def lref(kind, *labels):
    """a name reference whose labels are given as octet lists"""
    return {"k": kind, "n": [list(l) for l in labels]}


def longnames(full):
    """Names whose TEXT is much longer than their octets: labels made of octets that have to be written as escapes (\\DDD: four
    characters an octet; \\. \\; \\( : two), up to the longest label (63) and the longest name (255 octets once completed) -- in every
    place where a name is completed with the origin: owner, RDATA name of NS / CNAME / MX, the argument of $ORIGIN, the origin
    argument of $INCLUDE, the parser's initial origin; relative, @ and (the spec's rewriting) absolute.  The limits of RFC 1035 count
    octets of the name, not characters of its spelling.  Neighbours: the same shapes in plain letters, where text length + 1 = octets
    (254 characters = 255 octets, the longest name there is).  Names that pass 255 octets once completed are not part of this
    universe (the pinned parser validates the relative part only; see c07.py)."""
    def lab(c, n):
        return [c] * n

    def a(owner, d):
        return rr(owner, 5, 1, ip=[10, 7, 0, d])
    cases = []
    # (not ; ( ) " \\ or the blank: an owner written only with those escapes trips the lexer slip on record as zone/rejects:rr:no-blank-after-owner)
    for c in ((0xE9, 0x2E, 0x61, 0x00, 0x40, 0x24) if full else (0xE9, 0x2E)):
        L63, L53, L1 = lab(c, 63), lab(c, 53), lab(c, 1)
        fits = [L63, L63, L63, L53]                 # + example. = 4 + 63 * 3 + 53 + 8 + 1 = 255 octets
        near = [L63, L63, L63, L53[:-1]]            # 254
        for nm in (([L63], [L63, L63], [L63, L63, L63], near, fits) if full else ([L63], [L63, L63, L63], fits)):
            owner = lref("rel", *nm)
            cases.append({"cfg": cfg(), "lines": [a(owner, 1), a(ref("omit"), 2), rr(ref("rel", "x"), 5, 2, nm=owner), rr(ref("rel", "y"), 5, 15, pref=10, nm=owner),
                                                  rr(owner, 5, 5, nm=owner)]})
        # the origin grows: $ORIGIN <relative, escaped>, then @ and relative names under it; back with an absolute $ORIGIN
        cases.append({"cfg": cfg(), "lines": [{"k": "origin", "name": lref("rel", L63, L63)}, a(ref("at"), 1), a(lref("rel", L63), 2), rr(lref("rel", L1), 5, 2, nm=ref("at")),
                                              rr(ref("rel", "m"), 5, 15, pref=1, nm=lref("rel", L63, L53)),
                                              {"k": "origin", "name": ref("abs", "example")}, a(lref("rel", L63), 3)]})
        # $INCLUDE under an origin argument that is relative and escaped; the includer's origin is unchanged afterwards
        inc = [a(ref("at"), 4), a(lref("rel", L63), 5), rr(ref("rel", "n"), 5, 2, nm=lref("rel", L63, L53))]
        cases.append({"cfg": cfg([("f1", inc)]), "lines": [{"k": "include", "file": B("f1"), "origin": lref("rel", L63, L63)}, a(lref("rel", L63, L63, L63), 6)]})
        # the parser's initial origin is the long one
        c2 = cfg()
        c2["origin"] = {"set": True, "n": [L63, L63, L63]}
        cases.append({"cfg": c2, "lines": [a(lref("rel", L53), 7), a(ref("at"), 8), rr(lref("rel", L1), 5, 5, nm=lref("rel", L53[:-1]))]})
    return cases


def spell_tv(ctx, paths, what="rendering", nchunks=4, cap=None, rnd=None):
    """TV of the harness renderings: a bad one is a harness bug, never a verdict.
    cap: validate a seeded random sample of that many events (thorough tier: millions of renderings)."""
    evs = []
    for p in paths:
        if os.path.exists(p):
            evs += vp.read_ndjson(p)
    if not evs:
        return 0
    ctx.notes["renderings_recorded"] = len(evs)
    if cap and len(evs) > cap:
        evs = rnd.sample(evs, cap)
    chunks = [evs[i::nchunks] for i in range(nchunks)] if len(evs) > 400 else [evs]

    def one(ch):
        tr = ctx.tlc_trace("Trace_Zone", ch, xmx="3g", timeout=3000)
        if tr.bad or not tr.accepted:
            i = (tr.bad or [tr.rejected_at])[0]
            e = ch[i - 1]
            raise vp.Infra("harness %s is not a spelling of its abstract lines (harness bug, not a verdict): text=%r lines=%s"
                           % (what, bytes(e.get("text", [])).decode("latin1"), json.dumps(e.get("lines"))[:600]))
    vp.parallel([lambda ch=ch: one(ch) for ch in chunks if ch])
    with vp._lock:
        ctx.traces += len(evs)
    return len(evs)


def gen_replay(ctx, binp, mode, n, nshards, shards, cases=None, tag="", par=4):
    spells = []

    def one(sh):
        files = {"cases.ndjson": "".join(json.dumps(c) + "\n" for c in cases)} if cases is not None else None
        consts = dict(CONSTS, Mode='"%s"' % mode, N=n, Shard=sh, NShards=nshards)
        r, _ = ctx.tlc_vectors("Gen_Zone", workers=1, xmx="3g", timeout=3000, consts=consts, files=files)
        path = os.path.join(r.dir, "vectors.ndjson")
        if not os.path.exists(path):
            return
        sp = os.path.join(r.dir, "spell.ndjson")
        s = ctx.run_json(binp, ["replay", path, sp], timeout=3000, env=known_env(ctx))
        vp.absorb(ctx, s)
        spells.append(sp)
        return s
    res = vp.parallel([lambda sh=sh: one(sh) for sh in shards], maxpar=par)
    return spells, res


def rejudge(ctx, binp, case):
    """case = {cfg, lines[, text]}: spec recomputes what the lines denote, the harness replays; returns mismatches."""
    case = {k: v for k, v in case.items() if k in ("cfg", "lines", "text", "fstext")}
    r, _ = ctx.tlc_vectors("Gen_Zone", workers=1, xmx="3g", timeout=1200, count=False,
                           consts=dict(CONSTS, Mode='"file"', N=0, Shard=0, NShards=1),
                           files={"cases.ndjson": json.dumps(case) + "\n"})
    s = ctx.run_json(binp, ["replay", os.path.join(r.dir, "vectors.ndjson")], env=known_env(ctx))
    return s["mismatches"]


def record_tv(ctx, binp, nzones, nproc, par=4):
    def one(k):
        out = os.path.join(ctx.out, "zones-%d.ndjson" % k)
        s = ctx.run_json(binp, ["record", out, str(nzones)], env={"VERIF_SEED": str(ctx.seed * 1000 + k)})
        vp.absorb(ctx, s, traces=False)
        tr = ctx.tlc_trace("Trace_Zone", out, xmx="3g", timeout=3000)
        evs = vp.read_ndjson(out)
        if not tr.accepted and not tr.bad and tr.rejected_at:
            raise vp.Infra("Trace_Zone stuck at line %s of %s (line events never block): %s" % (tr.rejected_at, out, json.dumps(evs[tr.rejected_at - 1])[:400]))
        with vp._lock:
            ctx.traces += max(0, (tr.hwm or 0) - len(tr.bad or []))
        # a rejected line: rebuild the zone up to it and let spec + replay say what is wrong
        done = set()
        for i in sorted(tr.bad or []):
            j = i - 1
            while evs[j]["ev"] != "start":
                j -= 1
            if j in done or len(done) >= 8:
                continue
            done.add(j)
            case = {"cfg": evs[j]["cfg"], "lines": [e["line"] for e in evs[j + 1:i]]}
            ms = rejudge(ctx, binp, case)
            if not ms:
                ctx.candidate("zone/trace:" + evs[i - 1]["line"]["k"], "records returned for a line differ from what it denotes (attribution by read position)",
                              {"event": evs[i - 1], "case": case})
            for m in ms:
                ctx.candidate(m["key"], m["what"], {"cfg": case["cfg"], "lines": case["lines"]})
    vp.parallel([lambda k=k: one(k) for k in range(nproc)], maxpar=par)


def follow_keys(evs, bad, failed_single):
    """Finding keys of rejected line events of the follow family.  fam = follow|<spelling>|<T1>|<T2>|<T3>.  The record that
    breaks is blamed on its own type when that type also fails alone in this spelling (or stands first), otherwise on the
    type of the record BEFORE it (a parser that reads into, or leaves unread part of, the next line)."""
    out = {}
    failed_single = set(failed_single)
    for i in bad:                      # a type that breaks in first position is itself to blame in the other positions too
        f = evs[i - 1].get("fam", "").split("|")
        if evs[i - 1].get("ev") == "line" and len(f) == 5 and evs[i - 1]["ln"] == 1:
            failed_single.add((f[2], f[1]))
    for i in sorted(bad):
        e = evs[i - 1]
        f = e.get("fam", "").split("|")
        if e.get("ev") == "line" and len(f) == 4 and f[0] == "relname":     # relname|relative or at|TYPE|index of the RDATA item
            out.setdefault("zone/rr:rdata-name:%s:%s:%s" % (f[2], f[3], f[1]), e)
            continue
        if e.get("ev") != "line" or len(f) != 5:
            out.setdefault("zone/trace:" + e.get("ev", "?"), e)
            continue
        v, types, ln = f[1], f[2:], e["ln"]
        if ln == 1 or (types[ln - 1], v) in failed_single:
            out.setdefault("zone/rr:follow:%s:%s" % (types[ln - 1], v), e)
        else:
            out.setdefault("zone/rr:record-after:%s:%s" % (types[ln - 2], v), e)
    return out


def follow_run(ctx, binp, name="follow.ndjson"):
    out = os.path.join(ctx.out, name)
    s = ctx.run_json(binp, ["follow", out], timeout=1200)
    tr = ctx.tlc_trace("Trace_Zone", out, xmx="3g", timeout=3000)
    evs = vp.read_ndjson(out)
    if not tr.accepted and not tr.bad and tr.rejected_at:
        raise vp.Infra("Trace_Zone stuck at line %s of %s" % (tr.rejected_at, out))
    failed_single = set()
    for k in (s.get("notes", {}).get("mismatch_counts") or {}):
        p = k.split(":")
        if p[0] == "zone/newrr":
            failed_single.add((p[1], p[2]))
    # after a rejected line the candidate states are the spec's own successors: only the first rejection of a zone counts
    first, seen = [], set()
    for i in sorted(tr.bad or []):
        j = i - 1
        while evs[j]["ev"] != "start":
            j -= 1
        if j not in seen:
            seen.add(j)
            first.append(i)
    return s, tr, evs, follow_keys(evs, first, failed_single)


def follow_tv(ctx, binp):
    """Every zoo record (every RR type) in first / second / third position of a three-record zone, in 9 spellings
    (harness/cmd/zone/follow.go): per-line events judged by Zone.tla; NewRR / ReadRR checked by the harness."""
    s, tr, evs, keys = follow_run(ctx, binp)
    vp.absorb(ctx, s)
    with vp._lock:
        ctx.traces += max(0, (tr.hwm or 0) - len(tr.bad or []))
    for k, e in keys.items():
        j = evs.index(e)
        while evs[j]["ev"] != "start":
            j -= 1
        ctx.candidate(k, "a record of the follow family is not what its line denotes (records returned: %d, error: %s)" % (len(e["recs"]), e["err"]),
                      {"follow": e["fam"], "text": evs[j].get("text"), "event": {k2: e[k2] for k2 in ("ln", "recs", "err")}})


def run(ctx):
    serialise_scratch(ctx)
    binp = ctx.build("zone")
    rnd = random.Random(ctx.seed)
    spells = []

    def G(*a, **kw):
        return lambda: spells.extend(gen_replay(ctx, binp, *a, **kw)[0])
    if ctx.quick:
        idx = [{"c": rnd.randrange(8), "q": biased(rnd, rnd.randrange(4, 8))} for _ in range(150)]
        rep = repeats()
        must = [c for c in rep if c["q"][:3] in ([1, 16, 1], [3, 16, 3], [1, 17, 7], [3, 40, 8], [1, 22, 1], [3, 23, 3], [1, 26, 1], [3, 28, 3], [36, 16, 36], [38, 16, 38])]
        idx += must + rnd.sample(rep, 150)
        sh3 = rnd.sample(range(1024), 2)
        vp.parallel([
            lambda: ctx.tlc("MC_Present", consts={"StrLen": 5, "OctLen": 3}, workers=3, timeout=900),
            lambda: ctx.tlc("MC_Zone", consts=dict(MaxLines=2, ShapeSet=QUICK_SHAPES, PolSet="{0, 15}"), workers=3, timeout=900),
            G("seq", 2, 8, [ctx.seed % 8]),                 # 1/8 of the 8 x (1 + 42 + 42^2) sequences
            G("seq", 3, 1024, [sh3[0]]),                    # 2/1024 of the 8 x 42^3
            G("seq", 3, 1024, [sh3[1]]),
            G("idx", 0, 1, [0], cases=idx),                 # seeded random sequences of 4..7 lines
            G("gen", 0, 1, [0]),
            G("tree", 2, 1, [0]),                           # include trees with directories and decoys, FS and os file system
            G("file", 0, 1, [0], cases=QUIRKS + siblings(False) + longnames(False)),
        ], maxpar=6)
        vp.parallel([lambda: spell_tv(ctx, spells), lambda: record_tv(ctx, binp, 50, 3, par=3), lambda: follow_tv(ctx, binp)])
    else:
        idx = [{"c": rnd.randrange(8), "q": biased(rnd, rnd.randrange(4, 9))} for _ in range(4000)] + repeats()
        jobs = [
            lambda: ctx.tlc("MC_Present", consts={"StrLen": 6, "OctLen": 4}, workers=4, timeout=1800),
            lambda: ctx.tlc("MC_Zone", consts=dict(MaxLines=3, ShapeSet=MID_SHAPES, PolSet="{0, 15}"), workers=6, timeout=6000, xmx="12g"),   # 178 k states
            lambda: ctx.tlc("MC_Zone", consts=dict(MaxLines=2, ShapeSet=ALL_SHAPES, PolSet="{0, 15, 9, 6}"), workers=2, timeout=6000),            # 40 k states
            lambda: ctx.tlc("MC_Zone", consts=dict(MaxLines=6, ShapeSet=ALL_SHAPES, PolSet="{0, 15, 9, 6}"), workers=2, timeout=1800,
                            simulate="num=30", depth=7),        # longer random behaviours
            G("gen", 0, 1, [0]), G("tree", 3, 1, [0]), G("file", 0, 1, [0], cases=QUIRKS + siblings(True) + longnames(True)),
        ]
        jobs += [G("seq", 2, 4, [k]) for k in range(4)]
        jobs += [G("seq", 3, 32, [k]) for k in rnd.sample(range(32), 8)]      # 1/4 of the 8 x 42^3
        jobs += [G("idx", 0, 1, [0], cases=idx[k::4]) for k in range(4)]
        vp.parallel(jobs, maxpar=8)
        vp.parallel([lambda: spell_tv(ctx, spells, nchunks=8, cap=240000, rnd=rnd), lambda: record_tv(ctx, binp, 300, 6, par=6),
                     lambda: follow_tv(ctx, binp)])
    ctx.assumptions += [
        "AMBIG (admitted either way): owner/TTL state carried out of an included file or a $GENERATE back into the includer (a per-run policy, all 16 combinations); "
        "unconstrained: no TTL ever stated and none configured, omitted owner on the first record of a file, relative name or @ with no origin, "
        "${offset} making the iterator negative, a template that expands to a directive other than $GENERATE, line break inside parentheses with no blank next to it (never rendered)",
        "include nesting up to 3 has to work; beyond that an error is admitted (the property fixes no depth)",
        "record types A NS CNAME MX TXT only (RDATA codec is C01/C05); TTLs < 2^31 (TLC integers)",
        "a relative $INCLUDE name is looked up from the directory of the including file, an absolute one from the root of the include FS; '.', '..' and '//' in names are unconstrained",
    ]
    return ctx.finish(rule="vector = (configuration, abstract line sequence) with every record list it may denote; each replayed in >= 4 spellings "
                      "(evaluations counts vectors, notes.spellings the parses); events: renderings read back by the spec's lexer+entry parser, and "
                      "per-line records of random zones. non-trivial = vectors whose denotation is constrained (no undef outcome)",
                      confirm=lambda c: confirm(ctx, binp, c))


def given(case):
    c = {"cfg": case["cfg"], "lines": case["lines"]}
    if case.get("given"):            # the failing parse itself: its exact text and include files are replayed
        c["text"] = case["given"]
        if case.get("givenfs"):
            c["fstext"] = case["givenfs"]
    return c


def confirm(ctx, binp, c):
    case = c["case"]
    if "follow" in case:          # re-run the family in a fresh process and look for the same finding
        s, tr, evs, keys = follow_run(ctx, binp, "follow-again.ndjson")
        return c["key"] in keys or any(m["key"] == c["key"] for m in s["mismatches"])
    if "cfg" not in case or "lines" not in case:
        return True
    ms = rejudge(ctx, binp, given(case))
    return bool(ms)      # the discrepancy reproduces (its classification may differ between the two paths)


def replay(ctx, path):
    serialise_scratch(ctx)
    binp = ctx.build("zone")
    rp = json.load(open(path))
    case = rp["case"]
    if "follow" in case:
        if confirm(ctx, binp, {"key": rp["key"], "case": case}):
            print("VIOLATION property=%s replay=%s" % (ctx.id, path))
            return 1
        print("replay: discrepancy no longer present")
        return 0
    ms = rejudge(ctx, binp, given(case))
    if any(m["key"] == rp["key"] for m in ms):
        print("VIOLATION property=%s replay=%s" % (ctx.id, path))
        return 1
    print("replay: discrepancy no longer present")
    return 0
