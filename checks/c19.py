"""C19  Label helpers agree with the wire-format label sequence of every name.

MC      MC_Names (helper definitions mutually consistent on the small universe)
GEN     Gen_Names modes names / pairs -> harness `names replay`
TV      harness `names record c19` (random long names, related pairs) -> Trace_Names
"""
import vp
from checks import c03


def run(ctx):
    binp = ctx.build("names")
    if ctx.quick:
        ctx.tlc("MC_Names", consts=c03.SMALL, timeout=900)
        c03.gen(ctx, binp, "names", 5, 1, [0])
        c03.gen(ctx, binp, "texts", 5, 2, [0, 1])
        c03.gen(ctx, binp, "pairs", 3, 2, [0, 1])
        c03.gen(ctx, binp, "octpairs", 0, 1, [0])
        c03.tv(ctx, binp, "c19", 400, 4)
    else:
        ctx.tlc("MC_Names", timeout=1800)
        c03.gen(ctx, binp, "names", 7, 16, range(16))
        c03.gen(ctx, binp, "texts", 7, 16, range(16))
        c03.gen(ctx, binp, "pairs", 4, 16, range(16))
        c03.gen(ctx, binp, "octpairs", 0, 1, [0])
        c03.tv(ctx, binp, "c19", 3000, 16)
    ctx.assumptions += ["names are in the library's presentation form (what UnpackDomainName / Present produce), fully qualified or with the final dot removed"]
    return ctx.finish(rule="vectors: every name over octets {a A 0 . \\ 0x00 0xc8} with sum(len+1) <= N every valid TEXT over symbols {a A 0 . \\ \\. \\200} up to N symbols in any escape spelling, and every ordered pair up to the "
                      "pair bound; events: random names up to 255 octets over all octet values, pairs sharing a case-flipped suffix. "
                      "distinct = distinct texts / pairs; all are non-trivial (at least one helper result compared)")


replay = c03.replay
