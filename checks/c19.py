"""C19  Label helpers agree with the wire-format label sequence of every name.

MC      MC_Names (helper definitions mutually consistent on the small universe; SteppersFromStarts: the steppers
        computed from one parse of the text, which the vectors and the trace judge use, equal NextLabelSpec/PrevLabelSpec)
GEN     Gen_Names -> harness `names replay`; the expected values are TLC's:
          names     every name over octets {a A 0 . \\ 0x00 0xc8} with sum(len+1) <= N, in the library's spelling:
                    CountLabel, Split, SplitDomainName, PrevLabel, NextLabel, Fqdn, IsFqdn, CanonicalName, also on
                    the relative spelling                                     [mutants nextlabel-parity, prevlabel-parity]
          texts     every valid text of <= N symbols over {a A 0 . \\ \\. \\200} in any escape spelling
          etexts    every valid text of <= N symbols over {a 0 . \\ \\046 \\092 \\048 \\\\ \\.}: the \\DDD spelling of '.', '\\'
                    and a digit is an octet of a label for every helper (neighbour of seed C03-16)
          pairs     every ordered pair of such names: CompareDomainName both ways, IsSubDomain, relative
                    spellings, dnsutil.AddOrigin / TrimDomainName             [mutants compare-root, equal-overfold]
          octpairs  every octet against the octet differing in bit 0x20 only  [mutant equal-overfold]
          crowdhelpers  the valid names at the maximal label COUNT (127-N..127 labels of one octet, up to 2N of them of
                    two, wire length 250..255, five fills): the helpers index the labels of a name, and no other
                    universe has more than a dozen labels                      [seed C19-16: Split capped at 126 offsets]
          crowdpairs    each such name against itself, its parent (both ways), its case-flipped self, a sibling, and
                    names sharing none / half of its labels                   [seed C19-16]
          rawpairs  names whose octets outside ASCII are written as they are (Names!RawPresent: a zone file in UTF-8 or
                    Latin-1): 20 octet strings that are letters / case pairs / fold to ASCII letters / are no UTF-8 at
                    all to a reader of RUNES (0xC3 0x89 - 0xC3 0xA9, KELVIN SIGN - k, LONG S - s, 0x80 - 0x81, U+FFFD)
                    pairwise at 4 places of a name, and every octet raw against the octets differing in bit 0x20,
                    by one, in bit 0x80: the helpers compare OCTETS, folding ASCII letters only     [seed C19-19]
          rawtexts  every valid text of <= N symbols over {a K . \\. 0x80 0xC3-0x89 KELVIN-SIGN \\200}: every helper on
                    texts with raw octets (CanonicalName lower-cases ASCII letters and nothing else)
TV      harness `names record c19` -> Trace_Names (TLC judges each event)
          helpers   random names up to 255 octets over all octet values (1 in 10 crowded: one-octet labels as many
                    as fit, up to 127), fully qualified or relative
                    1 in 6 made of labels that are letters to a reader of UTF-8, 1 in 4 with the octets outside ASCII raw
          compare   pairs sharing a case-flipped suffix (1 in 10: a crowded name against a suffix / sibling); 1 in 4 the
                    suffix is made of such labels, the other name has octets above 0x7f changed the way a reader of runes
                    thinks harmless (bit 0x20, another such octet, k/s -> KELVIN SIGN / LONG S); 1 in 4 no prefixes: the
                    two names differ in spelling only; 1 in 3 raw                                  [seed C19-19]
Mutants (checks/mutants/C19): the four above; countlabel-cap (CountLabel stops at 126: crowdhelpers, crowdpairs through
IsSubDomain, helpers events), nextlabel-ddd-dot (NextLabel takes \\046 for a separator: etexts), canonical-tolower
(CanonicalName through strings.ToLower: rawtexts, helpers events), compare-equalfold-label (labels compared with
strings.EqualFold: rawpairs, compare events).
"""
import vp
from checks import c03


def run(ctx):
    binp = ctx.build("names")
    gen, tv, gen_jobs, tv_jobs = c03.gen, c03.tv, c03.gen_jobs, c03.tv_jobs
    if ctx.quick:
        # the stages are independent of each other: one pool, the long ones first
        jobs = [lambda: ctx.tlc("MC_Names", consts=c03.SMALL, timeout=900)]
        jobs += tv_jobs(ctx, binp, "c19", 400, 4)
        jobs += gen_jobs(ctx, binp, "texts", 5, 2, [0, 1])
        jobs += gen_jobs(ctx, binp, "names", 5, 1, [0])
        jobs += gen_jobs(ctx, binp, "pairs", 3, 2, [0, 1])
        jobs += gen_jobs(ctx, binp, "etexts", 4, 1, [0])
        jobs += gen_jobs(ctx, binp, "crowdhelpers", 2, 1, [0])
        jobs += gen_jobs(ctx, binp, "crowdpairs", 2, 1, [0])
        jobs += gen_jobs(ctx, binp, "octpairs", 0, 1, [0])
        jobs += gen_jobs(ctx, binp, "rawpairs", 0, 1, [0])
        jobs += gen_jobs(ctx, binp, "rawtexts", 4, 1, [0])
        vp.parallel(jobs, maxpar=c03.QUICK_PAR)
    else:
        ctx.tlc("MC_Names", timeout=1800)
        gen(ctx, binp, "names", 7, 16, range(16))
        gen(ctx, binp, "texts", 7, 16, range(16))
        gen(ctx, binp, "etexts", 6, 16, range(16))
        gen(ctx, binp, "pairs", 4, 16, range(16))
        gen(ctx, binp, "octpairs", 0, 1, [0])
        gen(ctx, binp, "rawpairs", 0, 1, [0])
        gen(ctx, binp, "rawtexts", 6, 16, range(16))
        gen(ctx, binp, "crowdhelpers", 8, 8, range(8))
        gen(ctx, binp, "crowdpairs", 8, 8, range(8))
        tv(ctx, binp, "c19", 3000, 16)
    ctx.assumptions += ["names are in the library's presentation form (what UnpackDomainName / Present produce), fully qualified or with the final dot removed"]
    return ctx.finish(rule="vectors: every name over octets {a A 0 . \\ 0x00 0xc8} with sum(len+1) <= N every valid TEXT over symbols {a A 0 . \\ \\. \\200} and over {a 0 . \\ \\046 \\092 \\048 \\\\ \\.} up to N symbols in any escape spelling, and every ordered pair up to the "
                      "pair bound; the valid names of 127-N..127 labels of 1-2 octets (wire length 250..255) x 5 fills, each against itself, its parent, "
                      "its case-flipped self, a sibling and names sharing none / half of its labels; events: random names up to 255 octets "
                      "over all octet values incl. names of up to 127 one-octet labels, pairs sharing a case-flipped suffix, names with raw octets above 0x7f (UTF-8 letters, non-UTF-8) "
                      "against each other; vectors rawpairs / rawtexts: 20 such octet strings pairwise at 4 places, every octet raw against 3 neighbours, every valid text over 8 raw/escaped symbols. "
                      "distinct = distinct texts / pairs; all are non-trivial (at least one helper result compared)")


replay = c03.replay
