"""X10 (extra)  The presentation syntax of SVCB / HTTPS SvcParams (RFC 9460 2.1, Appendix A; RFC 9461 dohpath;
RFC 9540 ohttp) as a TLA+ READER that decodes the VALUES itself.                         spec/SvcbText.tla

C05 reads the library's String() of every record type but has the SvcParam values pre-decoded in Go (hk entries); this
module is the complementary part: char-string decoding (quoted / contiguous, \\DDD, \\X), the second-level value-list
decoding ("\\," and "\\\\"), mandatory key lists, alpn ids, ports, dotted quads, RFC 4291 IPv6 text, base64, keyNNNNN for
any key, duplicate keys, wire order by key -- all in the specification, and used in BOTH directions.

MC      MC_SvcbText: the reader against every test vector of RFC 9460 Appendix D with the wire form printed there
        (D.1, D.2 incl. the two alpn double-escape spellings, the IPv4-embedded IPv6 hint, unsorted keys) and the
        non-compliant texts of D.3; whatever is read has the shape of SVCB RDATA (strictly increasing keys)
GEN     Gen_SvcbText: 144 texts (SvcbTextCases.py: the RFC's and ~125 variants: every key with / without / empty /
        quoted / escaped value, keyNNNNN of registered and unknown keys, leading zeros, 65535, list edge cases, 255 /
        256-octet alpn ids, address forms, base64 paddings, mandatory constraints, key order, parentheses and comments)
        -> harness `svcbtext replay`: dns.NewRR(text) + PackRR for SVCB and HTTPS; accepted iff the reader reads it,
        RDATA octets = the reader's.  Texts that are non-compliant only for reasons the library documents as the caller's
        business (mandatory constraints, empty alpn) demand nothing ("loose"); questionable spellings of a definite
        value (`key=', relative target, empty ech) admit refusal or exactly the reader's octets ("ambig").
TV      `svcbtext record`: random valid records built as Go values (nasty alpn ids / dohpath / private-key octets:
        commas, backslashes, quotes, blanks, semicolons, NUL, DEL, 0xff, UTF-8; random hints; mandatory subsets; random
        parameter order) -> RDATA part of String() + PackRR octets -> Trace_SvcbText: the reader must read the text to
        exactly those octets.

Findings on the unchanged tree (known-findings.d/X10.txt): keyNNNNN of a registered key is refused as a SvcParamKey and
silently becomes key 65535 inside mandatory=; an unknown key name inside mandatory= also becomes 65535; a trailing comma in
mandatory / ipv4hint / ipv6hint lists is accepted; escapes in port / ipv4hint / ipv6hint / ech values are not decoded.

Mutants (checks/mutants/X10), all exit 1:
  alpn-comma-plain       String() writes a comma inside an alpn id as "\\,"          TV svcbtext/trace:string:alpn
  alpn-backslash-single  String() escapes a backslash in an alpn id once           TV svcbtext/trace:string:*
  port-hex               String() prints the port in base 16                       TV svcbtext/trace:string:port (and others)
  key-name               key 7 printed as "doh-path"                                TV svcbtext/trace:string:*
  v6hint-first-only      ipv6hint prints only its first address                    TV
  ech-urlsafe            ech printed in URL-safe base64                            TV
  local-quote-unescaped  private-key values: `"' not escaped                       TV
  port-wraps             parser takes port modulo 65536                            GEN svcbtext/parse:accepts:port:port
  dup-keys               packDataSVCB no longer refuses repeated keys             GEN svcbtext/parse:accepts:duplicate-key:*
  nodefaultalpn-value    no-default-alpn=abc accepted                              GEN svcbtext/parse:accepts:value-not-allowed:*
  alpn-list-escape       parser: "\\\\," (escaped comma) still separates             GEN svcbtext/parse:wire:alpn
"""
import os, json
import vp


def keyfn(e):
    return "svcbtext/trace:" + e["ev"] + ":" + e.get("cls", "?")


def gen(ctx, binp):
    def one():
        r, _ = ctx.tlc_vectors("Gen_SvcbText", workers=1, xmx="3g", timeout=1800)
        path = os.path.join(r.dir, "vectors.ndjson")
        if not os.path.exists(path):
            raise vp.Infra("Gen_SvcbText produced no vectors")
        vp.absorb(ctx, ctx.run_json(binp, ["replay", path]))
    return one


def tv(ctx, binp, n, k):
    def one():
        out = os.path.join(ctx.out, "trace-%d.ndjson" % k)
        s = ctx.run_json(binp, ["record", out, str(n)], env={"VERIF_SEED": str(ctx.seed * 1000 + k)})
        vp.absorb(ctx, s, traces=False)
        tr = ctx.tlc_trace("Trace_SvcbText", out, xmx="3g", timeout=3000)
        vp.absorb_trace(ctx, tr, vp.read_ndjson(out), keyfn)
    return one


def run(ctx):
    binp = ctx.build("svcbtext")
    ctx.tlc("MC_SvcbText", workers=4, xmx="3g", timeout=900)
    jobs = [gen(ctx, binp)] + [tv(ctx, binp, 1500 if ctx.quick else 6000, k) for k in range(2 if ctx.quick else 4)]
    vp.parallel(jobs, maxpar=4)
    ctx.assumptions += [
        "RFC 9460 2.1: 'Arbitrary keys can be represented using the unknown-key presentation format keyNNNNN' -- also registered ones; the value is then the wire value as a char-string",
        "loose: mandatory without value / listing itself / a key twice / an absent key, alpn without ids -- the library's documentation leaves refusing them to its caller; nothing is demanded",
        "ambig: `key=' with nothing behind it, a target that is not fully qualified (read under the root), an empty ech: refusal or exactly the reader's octets",
        "the dohpath URI template and the ECHConfigList are opaque octets here; IPv4-mapped addresses in ipv6hint, signs / leading zeros in port, and unbalanced parentheses (C06) are not in the universe",
        "TV trusts PackRR for the wire octets (C01)",
    ]
    return ctx.finish(rule="144 texts (RFC 9460 Appendix D + variants) x {SVCB, HTTPS} through NewRR + PackRR; random valid records: String() read "
                      "back by the specification to the PackRR octets. distinct = texts / records")


def replay(ctx, path):
    binp = ctx.build("svcbtext")
    rp = json.load(open(path))
    case = rp["case"]
    if "event" in case:
        pin, pout = os.path.join(ctx.out, "event-in.ndjson"), os.path.join(ctx.out, "event-out.ndjson")
        vp.write_ndjson(pin, [case["event"]])
        ctx.run_json(binp, ["reexec", pin, pout])
        tr = ctx.tlc_trace("Trace_SvcbText", pout)
        bad = bool(tr.bad) or not tr.accepted
    else:
        r, vecs = ctx.tlc_vectors("Gen_SvcbText", workers=1, xmx="3g")
        p = os.path.join(ctx.out, "one.ndjson")
        vp.write_ndjson(p, [v for v in vecs if v["id"] == case["id"]])
        s = ctx.run_json(binp, ["replay", p])
        bad = any(m["key"] == rp["key"] for m in s["mismatches"])
    if bad:
        print("VIOLATION property=%s replay=%s" % (ctx.id, path))
        return 1
    print("replay: discrepancy no longer present")
    return 0
