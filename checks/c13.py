"""C13  Server start/shutdown is graceful, terminates, leaks nothing, is race-free.

Stages (each names what it can and cannot conclude):

MC      spec/Server.tla checked on itself (MC_Server_*.cfg): tcp 2 conns x 2 requests, tcp 3 conns (thorough),
        PacketConn/UDP loop, start twice / shutdown twice, sequential restart, failed starts (fail, fail_pc, fail_live:
        nothing to serve on / a call that cannot succeed -> error, started stays FALSE, lock free, a following
        Shutdown is refused, a corrected start serves: FailedStartLeavesStopped); safety as invariants and action
        properties (VIEW hides the action label), liveness (ShutdownTerminates, ServeTerminates, WorkersEnd,
        LockReleased) under weak fairness without VIEW or constraint; time / time_pc / time_live (+ time_pc_live,
        thorough): time as part of the environment -- DeadlinesMayFire: TFire(c) / TFirePC, a read deadline in the
        future comes, the read fails with a timeout, an idle connection is closed, the packet loop goes round -- and
        callers PlainShut that use Shutdown(), the entry point without a context: PlainShutdownWaits (nothing but
        the drain releases it).  A failure here is a spec bug: exit 2.
BROKEN  every property is run against a deliberately broken variant of the action it guards (CONSTANT Bug) and
        must FAIL; a broken variant that passes is exit 2 (the property would be vacuous).
RESTART MC_Server_restart (a second start while a shutdown is in progress) is EXPECTED to violate GracefulReturn,
        ServeReturnsNil, NoCrash, ShutdownTerminates (+ PromptUnblock, NothingLeft, NoHandlerStartAfterShutdownReturned
        in the thorough tier).  The model-level counter-example is not a verdict: its action sequence is forced onto
        the real server through the gates (harness `server replay`, own process, time-out), the OBSERVED events go to
        Trace_Server, and only what TLC reports about that observed trace becomes a finding
        (key server/restart-during-shutdown:<property>).
GEN     `tlc -simulate` behaviours of Server.tla (Gen_Server_*.cfg) are forced onto the real server: every gate
        hook / fakenet call / handler parks its goroutine, the controller releases the owner of the next action and
        waits for exact quiescence (one runtime.Stack snapshot: every goroutine blocked).  After each realised step
        the observable projection (started, len(conns), handlers inside, deadlines, closed flags) is compared with
        the specification's state.  Not realising a plan is never a verdict; the observed events are validated by
        Trace_Server like any other run.  The same plans are replayed in a -race build.
REUSE   one Server value started again and again through ListenAndServe on real loopback sockets, switching transports
        in every order (udp->tcp, tcp->udp, tcp->tcp-tls, udp->udp, ...): from the second run on the value holds both
        srv.PacketConn and srv.Listener.  Not trace-validated (mixed transports are outside the single-transport spec;
        the both-fields state itself is in Server.tla: pcField / lsnField, HSparePC / HSpareLsn, ShKickPC / ShCloseL in
        either order); reported: observed deadlock (exact quiescence), leak, crash, race report.
TV      un-gated seeded scenarios modelled on server_test.go (N in-flight queries at shutdown, start/stop race, handler
        closes, client closes early, expiring ctx, second start/shutdown, sequential restart, a failed start first --
        ActivateAndServe with nothing / a closed UDP socket to serve on, ListenAndServe with an unsupported Net, an
        unusable address or TLS without certificates -- then a Shutdown that must be refused and a corrected start) on fakenet TCP and
        PacketConn and on a real UDP loopback socket, normal and -race build; events are numbered inside the critical
        section that produced them; Trace_Server accepts or rejects each run; goroutine census (stacks filtered on
        dns.(*Server)) and len(srv.conns) after completion.  Half of the shutdown calls whose ctx does not have to
        expire go through Shutdown(), the entry point without a context (event shutdown.call v=1; the gated replays
        do the same for every other caller whose ctx never expires in the plan).
TIME    `server patience`: handlers are held by the harness across a plain Shutdown() for longer than every duration
        the server knows -- variant configured: ReadTimeout = WriteTimeout = IdleTimeout() = 80..120 ms, held 12 x
        that, in every third run the requests arrive only after the server idled for 2.5 x that (read deadlines come:
        an idle connection is closed, the packet loop goes round); variant defaults: nothing configured (the
        library's 2 s / 8 s), held 9.5 s -- on fakenet TCP and PacketConn and a real UDP socket, normal and -race
        build.  The harness asserts nothing: the events (with time.elapse = how long it waited) are judged by
        Trace_Server with DeadlinesMayFire = TRUE (Trace_Server_<mode>_time.cfg).  A Shutdown() that comes back
        before the drain, or with a context error nobody asked for, has no step.  Load only makes the harness wait
        longer.  Not covered: a bound that is a literal larger than 9.5 s.
        WRITE deadlines are part of the same environment: Server.tla carries wdl[c] / pcWDL ("none" | "future" |
        "past"), TFireW(c) / TFireWPC let a write deadline in the future come, and WReply / KReply lose the reply
        when it has (replyLost -> RepliesDelivered).  The real server never arms one; the fake transports honour
        SetWriteDeadline / SetDeadline like the net package (a Write after the deadline fails with a timeout and
        nothing goes out: event conn.write / pc.write "timeout"), and Trace_Server's clause for the write
        ((res = "ok") = connection open, write deadline not past, client there) has no step for it.  The held handlers
        answer 12 x WriteTimeout (configured) / 9.5 s (defaults: 2 s) after Shutdown() began, so any write deadline the
        shutdown path derives from WriteTimeout / the library's default has come by then -- whatever the load.

A VIOLATION is only: Trace_Server rejecting an observed trace (server/trace-reject:<event>), a property violated on
every explanation of an observed trace (server/trace-inv:<property>), a projection mismatch at quiescence
(server/projection:<field>), a data race report (server/data-race:<function>), a leaked goroutine or connection
(server/leak-*), a crash of the server code (server/crash:<message>), or an observed deadlock (server/hang:<call>).

Mutants (checks/mutants/C13/*.diff; `cp -r /repo /tmp/x && git -C /tmp/x apply <diff> && VERIF_REPO=/tmp/x bin/check C13 quick`
-> exit 1); [t] = the repository's own go test also fails on it.  Stage / key that caught each (seed 1):
  readtcp-no-started-check        TV  server/trace-reject:conn.setdl:future (deadline set while not started);
                                  GEN server/projection:read-deadline; observed deadlock server/hang:ShutdownContext
  register-after-spawn            TV  server/trace-reject:w.start (worker runs before conn.reg); census server/leak-conn
  shutdown-skips-conn-deadlines   TV/GEN server/trace-reject:shutdown.unlock (connections left un-kicked); server/hang:*
  close-before-wait [t]           TV/GEN server/trace-reject:serve.chanclosed, server/trace-reject:shutdown.returned:ok
  shutdown-keeps-listener-open [t] server/hang:ShutdownContext|ActivateAndServe; server/trace-reject:shutdown.unlock|conn.setdl:past
  seeded C13-6 (started = true before the checks of ActivateAndServe)
                                  TV  server/trace-reject:start.refused (the corrected start is refused) and the observed deadlock
                                  server/hang:ShutdownContext-after-a-failed-start, tcp / pc / udp (closed *net.UDPConn and nil);
                                  GEN the same through Gen_Server_fail / fail_pc plans (HBreak StLock StFailed ... ShRefused HFix StStarted)
  seeded C13-10 (ShutdownContext: `switch` instead of two ifs, so only ONE of PacketConn / Listener is handled)
                                  TV  server/trace-reject:conn.setdl:past | shutdown.unlock (Listener.Close missing on a value that holds both
                                  fields: spare PacketConn on the tcp server, spare Listener on the packet server), observed deadlock
                                  server/hang:ShutdownContext; REUSE server/hang:ShutdownContext-reused-<kind>-after-<first> (udp->tcp, ...);
                                  model: Bug="switch_close" fails ShutdownTerminates on MC_Server_both_live
  seeded C13-18 = shutdown-gives-up-after-idle-timeout (Shutdown() = ShutdownContext with a timer of IdleTimeout() / 8 s)
                                  TIME server/trace-reject:shutdown.returned:ctx (tcp) | server/trace-reject:pc.close (pc: the packet conn is
                                  closed under the held handlers) | server/trace-reject:shutdown.returned:ctx (udp), variant configured after
                                  ~0.1 s, variant defaults after 8 s; model: Bug="plain_gives_up" fails PlainShutdownWaits on MC_Server_time(_pc)
  shutdown-bounded-by-read-timeout (Shutdown() waits 2 x getReadTimeout())   TIME, the same keys (defaults: after 4 s)
  seeded C13-20 = shutdown-arms-write-deadline (ShutdownContext's walk over srv.conns also sets a write deadline of now + WriteTimeout)
                                  TIME server/trace-reject:conn.write:timeout (tcp, configured after ~0.1 s, defaults after 2 s: the
                                  held handler's reply fails with "i/o timeout" although the connection is open and the client there);
                                  model: Bug="sh_write_deadline" fails RepliesDelivered on MC_Server_time(_pc)
  plain-unlock [t]                server/crash:fatal-error-sync-Unlock-of-unlocked-RWMutex (every stage that starts a server)
  wgadd-after-go                  NOT caught: nothing observable separates `go` from `wg.Add` (no hook can sit between the
                                  two statements without rewriting them); only a negative-counter panic by scheduling luck
                                  would show it.  Documented weakness.
"""
import os, json, re, shutil, time
import vp

SPEC = os.path.join(vp.VERIF, "spec")

MC_QUICK = ["tcp", "pc", "twice", "reseq", "fail", "fail_pc", "both", "both_pc", "hijack", "tcp_live", "pc_live", "fail_live", "both_live",
            "time", "time_pc", "time_live"]
MC_THOROUGH = MC_QUICK + ["tcp3", "time_pc_live"]

# (base cfg, Bug, INVARIANT|PROPERTY, property that must fail)
BROKEN = [
    ("tcp", "dl_nocheck", "INVARIANT", "PromptUnblock"),
    ("pc", "dl_nocheck", "INVARIANT", "PromptUnblock"),
    ("tcp_live", "dl_nocheck", "PROPERTY", "ShutdownTerminates"),
    ("tcp", "reg_after_spawn", "INVARIANT", "PromptUnblock"),
    ("tcp", "reg_after_spawn", "INVARIANT", "NothingLeft"),
    ("tcp", "close_before_wait", "INVARIANT", "GracefulReturn"),
    ("tcp", "close_before_wait", "PROPERTY", "NoHandlerStartAfterShutdownReturned"),
    ("tcp_live", "no_listener_close", "PROPERTY", "ShutdownTerminates"),
    ("pc_live", "no_listener_close", "PROPERTY", "ServeTerminates"),
    ("tcp", "plain_unlock", "INVARIANT", "NoCrash"),
    ("twice", "plain_unlock", "INVARIANT", "LockDiscipline"),
    ("tcp", "sh_closes_conns", "INVARIANT", "RepliesDelivered"),
    ("tcp", "no_recheck", "INVARIANT", "ServeReturnsNil"),
    ("twice", "no_started_check", "PROPERTY", "StartTwiceErrors"),
    ("twice", "no_shut_check", "PROPERTY", "ShutdownNotStartedErrors"),
    ("fail", "started_early", "PROPERTY", "FailedStartLeavesStopped"),
    ("fail_live", "started_early", "PROPERTY", "ShutdownTerminates"),
    ("both_live", "switch_close", "PROPERTY", "ShutdownTerminates"),
    ("hijack", "hijack_keeps_conn", "INVARIANT", "NothingLeft"),
    ("time", "plain_gives_up", "INVARIANT", "PlainShutdownWaits"),
    ("time_pc", "plain_gives_up", "INVARIANT", "PlainShutdownWaits"),
    ("time", "sh_write_deadline", "INVARIANT", "RepliesDelivered"),
    ("time_pc", "sh_write_deadline", "INVARIANT", "RepliesDelivered"),
]
BROKEN_THOROUGH_ONLY = {("time_pc", "plain_gives_up"), ("time_pc", "sh_write_deadline")}

RESTART_QUICK = [("restart", "INVARIANT", "GracefulReturn"), ("restart", "INVARIANT", "ServeReturnsNil"),
                 ("restart", "INVARIANT", "NoCrash"), ("restart_live", "PROPERTY", "ShutdownTerminates")]
RESTART_THOROUGH = RESTART_QUICK + [("restart", "INVARIANT", "PromptUnblock"), ("restart", "INVARIANT", "NothingLeft"),
                                    ("restart", "PROPERTY", "NoHandlerStartAfterShutdownReturned")]


def cfg_with(base, drop=("INVARIANTS", "INVARIANT", "PROPERTIES", "PROPERTY"), add=""):
    """Text of spec/MC_Server_<base>.cfg without the lines starting with one of `drop`, plus `add`."""
    out = []
    for ln in open(os.path.join(SPEC, "MC_Server_%s.cfg" % base)):
        if ln.split(" ")[0].strip() in drop:
            continue
        out.append(ln)
    return "".join(out) + "\n" + add + "\n"


# ---------------------------------------------------------------------- TLC on the spec alone

# The quick tier model-checks smaller instances of the big configurations (the thorough tier runs the files as
# they are): tcp 2 conns x 1 request, twice without connections, reseq / liveness with one connection.
QUICK = {
    "tcp": {"MaxReq": 1},
    "twice": {"NConns": 0},
    "reseq": {"NConns": 1},
    "tcp_live": {"ClientMayClose": "FALSE", "HandlerMayClose": "FALSE", "NConns": 1},
    "fail_live": {"NConns": 0},
    "restart_live": {"NConns": 0},
    "time": {"NConns": 1},
}


def quick_consts(ctx, base):
    return QUICK.get(base) if ctx.quick else None


def with_consts(text, consts):
    """Append CONSTANT overrides to a cfg text, dropping the lines they replace."""
    if not consts:
        return text
    for k in consts:
        text = re.sub(r"^  %s = .*\n" % k, "", text, flags=re.M)
    return text + "CONSTANTS\n" + "".join("  %s = %s\n" % kv for kv in consts.items())


def mc(ctx):
    names = MC_QUICK if ctx.quick else MC_THOROUGH

    def one(n):
        name = "M_" + n
        text = with_consts(open(os.path.join(SPEC, "MC_Server_%s.cfg" % n)).read(), quick_consts(ctx, n))
        r = ctx.tlc("MC_Server", cfg=name, files={name + ".cfg": text}, workers=4, xmx="4g", timeout=3000)
        ctx.notes.setdefault("model_sizes", {})[n] = r.summary()
    vp.parallel([lambda n=n: one(n) for n in names], maxpar=6)


def broken(ctx):
    def one(i, b):
        base, bug, kind, prop = b
        name = "B%02d" % i
        text = cfg_with(base, add='CONSTANTS Bug = "%s"\n%s %s' % (bug, kind, prop)).replace('Bug = "none"\n', "")
        text = with_consts(text, quick_consts(ctx, base))
        r = ctx.tlc("MC_Server", cfg=name, files={name + ".cfg": text}, workers=2, xmx="3g", timeout=1800,
                    must_pass=False, count=False)
        if not re.search(r"(Invariant|property) %s (is|was) violated" % prop, r.out):
            raise vp.Infra("broken variant Bug=%s of %s does NOT violate %s: the property is vacuous there\n%s"
                           % (bug, base, prop, vp._tail_err(r.out)))
    todo = [(i, b) for i, b in enumerate(BROKEN) if not (ctx.quick and (b[0], b[1]) in BROKEN_THOROUGH_ONLY)]
    vp.parallel([lambda i=i, b=b: one(i, b) for i, b in todo], maxpar=6)
    ctx.notes["broken_variants_failed_as_required"] = len(todo)


# ---------------------------------------------------------------------- harness runs

RACE_RE = re.compile(r"WARNING: DATA RACE")


def run_server(ctx, binp, args, env=None, timeout=900, case=None, race_key=None):
    """Run the harness; classify crashes of the code under test and race reports.  Returns the Summary or None.
    race_key(where) -> finding key for a race report, or None to hand the decision back (summary gets "_race")."""
    p = ctx.run(binp, args, env=env, timeout=timeout, ok_codes=(0, 2, 66))
    err = p.stderr or ""
    summ = None
    lines = p.stdout.strip().splitlines()
    if lines:
        try:
            summ = json.loads(lines[-1])
        except Exception:
            summ = None
    if RACE_RE.search(err):
        fns = re.findall(r"github\.com/miekg/dns\.\(\*Server\)\.([A-Za-z0-9_.]+)\(", err)
        where = "+".join(sorted(set(f.split(".")[0] for f in fns))[:3]) or "harness"
        if where == "harness":
            raise vp.Infra("data race outside the server code:\n" + err[:3000])
        key = race_key(where) if race_key else "server/data-race:" + where
        if key is None:
            summ = summ or {}
            summ["_race"] = (where, err[:4000])
        else:
            ctx.candidate(key, "the race detector reports a data race in " + where,
                          {"args": args, "env": env, "report": err[:4000], "case": case})
    if (p.returncode not in (0, 66) or summ is None) and not RACE_RE.search(err):
        m = re.search(r"^(fatal error: .*|panic: .*)$", err, flags=re.M)
        if m and "miekg/dns.(*Server)" in err:
            msg = re.sub(r"[^A-Za-z0-9]+", "-", m.group(1))[:60].strip("-")
            ctx.candidate("server/crash:" + msg, "the server code crashed the process: " + m.group(1),
                          {"args": args, "env": env, "stderr": err[:4000], "case": case})
            return None
        raise vp.Infra("harness %s %s exited %d:\n%s" % (os.path.basename(binp), args, p.returncode, err[-3000:]))
    return summ


def absorb(ctx, summ, rerun=None):
    """vp.absorb, with harness observations (leaks, hangs, projections) of a run that restarts during a
    shutdown filed under that defect's key.  rerun: how --replay re-executes the run against the real code."""
    for m in summ.get("mismatches", []):
        case = m.get("case")
        if isinstance(case, dict) and restart_class(case.get("events") or []):
            m["key"] = "server/restart-during-shutdown:" + m["key"].split("/", 1)[1].split(":")[0]
        if isinstance(case, dict) and rerun and "plan" not in case:
            case["rerun"] = rerun
    notes = summ.get("notes") or {}
    summ = dict(summ)
    summ["notes"] = {k: v for k, v in notes.items() if k in ("mismatch_counts",)}
    vp.absorb(ctx, summ, traces=False)


def runs_of(events):
    """Split a concatenated trace at `reset` events: list of (first index, events incl. the reset)."""
    out = []
    for i, e in enumerate(events):
        if e["ev"] == "reset" or not out:
            out.append((i, []))
        out[-1][1].append(e)
    return out


def restart_class(events):
    """A start succeeded while a shutdown was still in progress: the serve call it stopped had not
    returned yet, or the ShutdownContext call itself had not."""
    live, stopping, shutting = set(), set(), set()
    for e in events:
        if e["ev"] == "start.started":
            if stopping or shutting:
                return True
            live.add(e["p"])
        elif e["ev"] == "shutdown.begin":
            stopping |= live
            live = set()
            shutting.add(e["h"])
        elif e["ev"] == "shutdown.returned":
            shutting.discard(e["h"])
        elif e["ev"] == "serve.returned":
            stopping.discard(e["p"])
            live.discard(e["p"])
    return False


def inv_key(events, name):
    return ("server/restart-during-shutdown:" if restart_class(events) else "server/trace-inv:") + name


def tv(ctx, mode, path, origin, rerun=None):
    """Validate one recorded file; turn rejections and violated properties into candidates."""
    cfg = "Trace_Server_" + mode
    consts = None
    evs = vp.read_ndjson(path)
    if not evs:
        return
    tr = ctx.tlc_trace("Trace_Server", path, cfg=cfg, consts=consts, xmx="3g", timeout=3000)
    with vp._lock:
        ctx.traces += tr.hwm or 0
    inv = json.loads(tr.vals.get("inv", "[]") or "[]")
    if tr.accepted and not inv:
        return
    runs = runs_of(evs)
    if not tr.accepted:
        at = tr.rejected_at
        for first, r in runs:
            if first < at <= first + len(r):
                e = evs[at - 1]
                key = "server/trace-reject:%s%s" % (e["ev"], (":" + e["res"]) if e["res"] != "-" else "")
                ctx.candidate(key, "the specification has no step for the recorded event %s (line %d of the run, %s)"
                              % (json.dumps(e), at - first, origin), {"mode": mode, "events": r[:at - first], "origin": origin, "rerun": rerun})
        runs = [x for x in runs if x[0] + len(x[1]) < (at or 0)]   # the runs before the rejection were fully examined
    if inv or not tr.accepted:
        # attribute violated properties to single runs
        def one(r):
            t = ctx.tlc_trace("Trace_Server", r, cfg=cfg, consts=consts, xmx="2g", timeout=900)
            if not t.accepted:
                return
            for name in json.loads(t.vals.get("inv", "[]") or "[]"):
                ctx.candidate(inv_key(r, name), "%s is violated on every explanation of an observed run (%s)" % (name, origin),
                              {"mode": mode, "events": r, "origin": origin, "rerun": rerun})
        if inv:
            cands = [r for _, r in runs]
            if len(cands) > 40:
                cands = [r for r in cands if restart_class(r)] + cands[:40]
            vp.parallel([lambda r=r: one(r) for r in cands], maxpar=6)


def reuse(ctx, binp, tag):
    """One Server value reused across transports through ListenAndServe on real loopback sockets."""
    n = 18 if ctx.quick else 180
    rerun = {"kind": "reuse", "nruns": n, "seed": ctx.seed, "race": tag == "race"}
    s = run_server(ctx, binp, ["reuse", str(n)], env={"VERIF_SEED": str(ctx.seed)}, timeout=900, case=rerun)
    if s is not None:
        ctx.notes["reuse_generations"] = ctx.notes.get("reuse_generations", 0) + (s.get("notes") or {}).get("reuse_generations", 0)
        absorb(ctx, s, rerun)


def patience(ctx, binp, racebin):
    """Time as part of the environment: handlers held across a plain Shutdown() for longer than every timeout the
    server is configured with (variant configured) / defaults to (variant defaults); read deadlines do come in these
    runs.  Judged by Trace_Server with DeadlinesMayFire = TRUE (Trace_Server_<mode>_time.cfg)."""
    if ctx.quick:
        jobs = [(m, "configured", 3, b) for m in ("tcp", "pc", "udp") for b in ("plain", "race")]
        jobs += [(m, "defaults", 1, "plain") for m in ("tcp", "pc", "udp")]
    else:
        jobs = [(m, "configured", 12, b) for m in ("tcp", "pc", "udp") for b in ("plain", "race")]
        jobs += [(m, "defaults", 3, "plain") for m in ("tcp", "pc", "udp")] + [(m, "defaults", 1, "race") for m in ("tcp", "pc", "udp")]

    later = []

    def one(mode, variant, n, tag):
        out = os.path.join(ctx.out, "pat-%s-%s-%s.ndjson" % (tag, mode, variant))
        rerun = {"kind": "patience", "mode": mode, "variant": variant, "nruns": n, "seed": ctx.seed, "race": tag == "race"}
        s = run_server(ctx, racebin if tag == "race" else binp, ["patience", mode, out, variant, str(n)],
                       env={"VERIF_SEED": str(ctx.seed)}, timeout=900, case=rerun)
        if s is not None:
            with vp._lock:
                ctx.notes["patience_handlers_held"] = ctx.notes.get("patience_handlers_held", 0) + (s.get("notes") or {}).get("patience_handlers_held", 0)
            absorb(ctx, s, rerun)
        if os.path.exists(out):
            with vp._lock:
                later.append((mode, (out, "patience %s %s seed %d (%s)" % (mode, variant, ctx.seed, tag), rerun)))
    vp.parallel([lambda j=j: one(*j) for j in jobs], maxpar=12)
    # one TLC run per mode; the files are looked at one by one only when something is rejected or violated
    vp.parallel([lambda m=m: tv_many(ctx, m + "_time", [it for mm, it in later if mm == m], "patience") for m in ("tcp", "pc", "udp")], maxpar=3)


def tv_many(ctx, mode, items, name):
    """Validate several recorded files of one mode in ONE TLC run (they are separated by `reset` events);
    only when something is rejected or violated are the files examined one by one."""
    items = [it for it in items if os.path.exists(it[0]) and os.path.getsize(it[0]) > 0]
    if not items:
        return
    if len(items) == 1:
        return tv(ctx, mode, *items[0])
    allp = os.path.join(ctx.out, "all-%s-%s.ndjson" % (name, mode))
    with open(allp, "w") as f:
        for p, _, _ in items:
            f.write(open(p).read())
    tr = ctx.tlc_trace("Trace_Server", allp, cfg="Trace_Server_" + mode, xmx="3g", timeout=3000)
    inv = json.loads(tr.vals.get("inv", "[]") or "[]")
    if tr.accepted and not inv:
        with vp._lock:
            ctx.traces += tr.hwm or 0
        return
    vp.parallel([lambda it=it: tv(ctx, mode, *it) for it in items], maxpar=6)


def record_tv(ctx, binp, mode, nruns, shards, tag, later=None):
    def one(k):
        out = os.path.join(ctx.out, "rec-%s-%s-%d.ndjson" % (tag, mode, k))
        rerun = {"kind": "record", "mode": mode, "nruns": nruns, "seed": ctx.seed * 1000 + k, "race": tag == "race"}
        s = run_server(ctx, binp, ["record", mode, out, str(nruns)], env={"VERIF_SEED": str(rerun["seed"])}, timeout=1800, case=rerun)
        if s is not None:
            absorb(ctx, s, rerun)
        if os.path.exists(out):
            item = (out, "record %s seed %d (%s)" % (mode, rerun["seed"], tag), rerun)
            if later is None:
                tv(ctx, mode, *item)
            else:
                with vp._lock:
                    later.append(item)
    vp.parallel([lambda k=k: one(k) for k in range(shards)], maxpar=8)


# ---------------------------------------------------------------------- plans

def plan_lines_from_cex(out):
    """TLC counter-example -> plan lines (the `act` history variable of every state)."""
    lines = []
    for m in re.finditer(r"^/\\ act = (<<.*>>)\s*$", out, flags=re.M):
        t = m.group(1).replace("<<", "[").replace(">>", "]").replace("TRUE", "true").replace("FALSE", "false")
        lines.append({"lvl": len(lines) + 1, "act": json.loads(t), "proj": None})
    return lines


def split_plans(vecs):
    plans, prev, prevact = [], 0, None
    for v in vecs:
        if v["lvl"] == prev and v["act"] == prevact:
            continue
        if v["lvl"] <= prev or not plans:
            plans.append([])
        prev, prevact = v["lvl"], v["act"]
        plans[-1].append(v)
    return plans


def plan_restart_class(plan):
    live, stopping, shutting = set(), set(), set()
    for st in plan:
        a = st["act"]
        if not a:
            continue
        if a[0] == "StStarted":
            if stopping or shutting:
                return True
            live.add(a[1])
        elif a[0] == "ShBegin":
            stopping |= live
            live = set()
            shutting.add(a[1])
        elif a[0] in ("ShWake", "ShCtx"):
            shutting.discard(a[1])
        elif a[0] == "SReturn":
            stopping.discard(a[1])
            live.discard(a[1])
    return False


def replay_plans(ctx, binp, mode, plans, name, timeout=900, later=None):
    """Force plans onto the real server in one process; validate what was observed."""
    pf = os.path.join(ctx.out, "plans-%s.ndjson" % name)
    out = os.path.join(ctx.out, "replay-%s.ndjson" % name)
    vp.write_ndjson(pf, [st for p in plans for st in p])
    s = run_server(ctx, binp, ["replay", mode, pf, out], timeout=timeout, case={"plans": pf}, race_key=lambda where: None)
    if s is not None and "_race" in s:
        where, report = s.pop("_race")
        if len(plans) > 1:
            # which behaviour raced?  one process per plan; this batch's other results are dropped
            vp.parallel([lambda i=i, p=p: replay_plans(ctx, binp, mode, [p], "%s-one%d" % (name, i), timeout=300, later=later)
                         for i, p in enumerate(plans)], maxpar=6)
            return None
        evs = vp.read_ndjson(out) if os.path.exists(out) else []
        key = "server/restart-during-shutdown:data-race" if restart_class(evs) else "server/data-race:" + where
        ctx.candidate(key, "the race detector reports a data race in " + where, {"mode": mode, "plan": plans[0], "events": evs, "report": report})
        if not s.get("notes"):
            s = None
    rerun = {"kind": "plans", "mode": mode, "file": pf, "race": binp.endswith("-race")}
    if len(plans) == 1:
        rerun["plan"] = plans[0]
    if s is not None:
        absorb(ctx, s, rerun)
        with vp._lock:
            n = ctx.notes.setdefault("gated", {"plans": 0, "plans_realised": 0, "steps_planned": 0, "steps_realised": 0, "projections_compared": 0, "projections_reread": 0})
            for k in n:
                n[k] += s["notes"].get(k, 0)
            ex = ctx.notes.setdefault("not_realised_examples", [])
            ex += (s["notes"].get("not_realised_examples") or [])[:max(0, 4 - len(ex))]
    if os.path.exists(out):
        if later is None:
            tv(ctx, mode, out, "gated replay " + name, rerun)
        else:
            with vp._lock:
                later.append((mode, (out, "gated replay " + name, rerun)))
    return s


def restart(ctx, binp, racebin):
    """The suspected defect: model-level counter-examples forced onto the real code, one process each."""
    todo = RESTART_QUICK if ctx.quick else RESTART_THOROUGH

    def one(i, t):
        base, kind, prop = t
        name = "R%02d" % i
        text = cfg_with(base, drop=("INVARIANTS", "INVARIANT", "PROPERTIES", "PROPERTY", "VIEW"),
                        add="CONSTANTS TrackAct = TRUE\n%s %s" % (kind, prop)).replace("TrackAct = FALSE\n", "")
        text = with_consts(text, quick_consts(ctx, base))
        r = ctx.tlc("MC_Server", cfg=name, files={name + ".cfg": text}, workers=4, xmx="4g", timeout=2400, must_pass=False, count=False)
        if not re.search(r"(Invariant|property) %s (is|was) violated" % prop, r.out):
            raise vp.Infra("MC_Server_%s no longer violates %s at model level (expected: restart during shutdown)\n%s"
                           % (base, prop, vp._tail_err(r.out)))
        plan = plan_lines_from_cex(r.out)
        if len(plan) < 3:
            raise vp.Infra("could not read the counter-example of %s" % prop)
        replay_plans(ctx, binp, "tcp", [plan], "restart-" + prop, timeout=180)
        replay_plans(ctx, racebin, "tcp", [plan], "restart-race-" + prop, timeout=300)
    vp.parallel([lambda i=i, t=t: one(i, t) for i, t in enumerate(todo)], maxpar=4)


def gen_replay(ctx, binp, racebin):
    n = 120 if ctx.quick else 10000
    sets = [("tcp", "tcp"), ("pc", "pc"), ("twice", "tcp"), ("reseq", "tcp"), ("fail", "tcp"), ("fail_pc", "pc"),
            ("both", "tcp"), ("both_pc", "pc"), ("hijack", "tcp")]
    later = []

    def one(cfgname, mode):
        r, vecs = ctx.tlc_vectors("Gen_Server", cfg="Gen_Server_" + cfgname, workers=1, xmx="3g", timeout=3000,
                                  simulate="num=%d" % n, depth=80)
        plans = split_plans(vecs)
        plain = [p for p in plans if not plan_restart_class(p)]
        rs = [p for p in plans if plan_restart_class(p)]
        # behaviours that restart during a shutdown may block for good: one process each, a few of them
        few = rs[:2] if ctx.quick else rs[:24]
        jobs = [lambda: replay_plans(ctx, binp, mode, plain, cfgname, later=later),
                lambda: replay_plans(ctx, racebin, mode, plain, cfgname + "-race", timeout=1800, later=later)]
        jobs += [lambda i=i, p=p, b=b: replay_plans(ctx, b, mode, [p], "%s-restart%d%s" % (cfgname, i, "-race" if b == racebin else ""), timeout=300)
                 for i, p in enumerate(few) for b in (binp, racebin)]
        vp.parallel(jobs, maxpar=4)
        with vp._lock:
            ctx.notes.setdefault("restart_class_plans", 0)
            ctx.notes["restart_class_plans"] += len(few)
    vp.parallel([lambda c=c, m=m: one(c, m) for c, m in sets], maxpar=5)
    # what the forced runs did is judged per mode in one TLC run each
    vp.parallel([lambda m=m: tv_many(ctx, m, [it for mm, it in later if mm == m], "gated") for m in ("tcp", "pc")], maxpar=2)


# ---------------------------------------------------------------------- entry points

import itertools
_confirm_no = itertools.count()


def confirm_with(ctx, binp):
    def confirm(c):
        case = c["case"]
        try:
            json.dump(c, open(os.path.join(ctx.out, "last-candidate.json"), "w"), indent=1)
        except Exception:
            pass
        if not isinstance(case, dict):
            return True
        if "plan" in case and "mode" in case and "report" not in case:   # projection mismatch: force the same plan again, twice
            again = 0
            for k in range(2):
                sub = _sub(ctx, "confirm%d-%d" % (next(_confirm_no), k))     # a directory of its own per candidate and attempt
                s = replay_plans(sub, binp, case["mode"], [case["plan"]], "confirm", timeout=180)
                if any(x["key"] == c["key"] for x in sub.cands):
                    again += 1
            return again == 2
        return True   # an observed trace is the evidence itself (re-validated by --replay)
    return confirm


def timed(ctx, name, f):
    def g():
        t = time.time()
        try:
            return f()
        finally:
            with vp._lock:
                ctx.notes.setdefault("stage_s", {})[name] = round(time.time() - t, 1)
    return g


def run(ctx):
    # the two harness builds run beside the stages that need no harness (TLC on the spec alone)
    from concurrent.futures import ThreadPoolExecutor
    ex = ThreadPoolExecutor(max_workers=2)
    fb, fr = ex.submit(ctx.build, "server"), ex.submit(ctx.build, "server", True)
    binp, racebin = (lambda: fb.result()), (lambda: fr.result())
    runs, shards = (40, 3) if ctx.quick else (300, 16)
    stages = [timed(ctx, "mc", lambda: mc(ctx)), timed(ctx, "broken", lambda: broken(ctx)),
              timed(ctx, "restart", lambda: restart(ctx, binp(), racebin())), timed(ctx, "gen", lambda: gen_replay(ctx, binp(), racebin()))]
    def rec(mode):
        later = []
        vp.parallel([lambda: record_tv(ctx, binp(), mode, runs, shards, "plain", later),
                     lambda: record_tv(ctx, racebin(), mode, runs, max(1, shards // 2), "race", later)], maxpar=2)
        tv_many(ctx, mode, later, "rec")
    for mode in ("tcp", "pc", "udp"):
        stages.append(timed(ctx, "rec-" + mode, lambda mode=mode: rec(mode)))
    stages += [timed(ctx, "reuse", lambda: reuse(ctx, binp(), "plain")), timed(ctx, "reuse-race", lambda: reuse(ctx, racebin(), "race"))]
    stages.append(timed(ctx, "patience", lambda: patience(ctx, binp(), racebin())))
    vp.parallel(stages, maxpar=13)
    binp = binp()
    ctx.assumptions += [
        "DEV1: read deadlines in the future (ReadTimeout / IdleTimeout, one hour in the harness) do not fire during a run, except in the "
        "`patience` runs (short / default timeouts), which are judged with DeadlinesMayFire = TRUE",
        "TIME: a bound on Shutdown()'s wait is seen when it is derived from a configured timeout or is at most 9.5 s; a write deadline "
        "armed on a tracked connection / the packet conn is seen when it has come by the time the held handlers answer (12 x the configured "
        "timeouts / 9.5 s after Shutdown() began); on the real UDP socket a failed reply write is not judged (Loose)",
        "DEV2: MaxTCPQueries, Hijack, MsgAcceptFunc reject/ignore, short packets, DecorateReader/Writer, TLS handshakes are not modelled "
        "(a TLS listener is a net.Listener to server.go)",
        "DEV3: srv.Listener is only re-assigned by the caller while the server is not started and no call is in its critical section",
        "AMBIG: 'no handler is started after Shutdown has returned' is checked for normal returns; after a ctx expiry requests already read may still be handled",
        "handlers terminate (fairness assumption of ShutdownTerminates); user-supplied conns do not block in SetReadDeadline/Close",
        "TCP and generic PacketConn run on in-memory fakenet transports; *net.UDPConn runs on a real loopback socket, un-gated only",
    ]
    return ctx.finish(rule="states: TLC on MC_Server_* (exhaustive, bounded) ; traces: events of real runs accepted by Trace_Server "
                      "(gated replays of tlc -simulate behaviours + un-gated seeded scenarios, normal and -race builds); "
                      "evaluations: events recorded; distinct = distinct (event kind, result) pairs seen",
                      confirm=confirm_with(ctx, binp))


def _sub(ctx, name):
    import copy
    sub = copy.copy(ctx)
    sub.cands, sub.notes, sub.samples, sub.tlc_runs = [], {}, [], []
    sub.out = os.path.join(ctx.out, name)
    os.makedirs(sub.out, exist_ok=True)
    return sub


def replay(ctx, path):
    """Re-execute the case against the real code ($VERIF_REPO) and let the specification judge again."""
    rp = json.load(open(path))
    case = rp["case"]
    if not isinstance(case, dict):
        raise vp.Infra("replay file has no re-executable case")
    rerun = case.get("rerun") or {}
    race = bool(rerun.get("race")) or "report" in case
    binp = ctx.build("server", race=race)
    bad = False
    if "plan" in case and "mode" in case:                      # one forced schedule: deterministic
        replay_plans(ctx, binp, case["mode"], [case["plan"]], "replay", timeout=300)
        bad = any(c["key"] == rp["key"] for c in ctx.cands)
    elif rerun.get("kind") == "plans" and ("plan" in rerun or os.path.exists(rerun.get("file", ""))):
        plans = [rerun["plan"]] if "plan" in rerun else split_plans(vp.read_ndjson(rerun["file"]))
        replay_plans(ctx, binp, rerun["mode"], plans, "replay", timeout=1800)
        bad = any(c["key"] == rp["key"] for c in ctx.cands)
    elif rerun.get("kind") == "reuse":
        s = run_server(ctx, binp, ["reuse", str(rerun["nruns"])], env={"VERIF_SEED": str(rerun["seed"])}, timeout=900, case=rerun)
        if s is not None:
            absorb(ctx, s, rerun)
        bad = any(c["key"] == rp["key"] for c in ctx.cands)
    elif rerun.get("kind") == "patience":                      # handlers held across Shutdown(): same seed, up to three attempts
        for k in range(3):
            sub = _sub(ctx, "try%d" % k)
            out = os.path.join(sub.out, "pat.ndjson")
            s = run_server(sub, binp, ["patience", rerun["mode"], out, rerun["variant"], str(rerun["nruns"])],
                           env={"VERIF_SEED": str(rerun["seed"])}, timeout=900, case=rerun)
            if s is not None:
                absorb(sub, s, rerun)
            if os.path.exists(out):
                tv(sub, rerun["mode"] + "_time", out, "replay", rerun)
            if any(c["key"] == rp["key"] for c in sub.cands):
                bad = True
                break
    elif rerun.get("kind") == "record":                        # un-gated: same seed, up to three attempts
        for k in range(3):
            sub = _sub(ctx, "try%d" % k)
            out = os.path.join(sub.out, "rec.ndjson")
            s = run_server(sub, binp, ["record", rerun["mode"], out, str(rerun["nruns"])], env={"VERIF_SEED": str(rerun["seed"])},
                           timeout=1800, case=rerun)
            if s is not None:
                absorb(sub, s, rerun)
            if os.path.exists(out):
                tv(sub, rerun["mode"], out, "replay", rerun)
            if any(c["key"] == rp["key"] for c in sub.cands):
                bad = True
                break
    elif "events" in case and "mode" in case:                  # nothing to re-execute: the recorded trace is judged again
        evs = case["events"]
        tr = ctx.tlc_trace("Trace_Server", evs, cfg="Trace_Server_" + case["mode"])
        inv = json.loads(tr.vals.get("inv", "[]") or "[]")
        bad = (not tr.accepted) or any(inv_key(evs, n) == rp["key"] for n in inv)
    else:
        raise vp.Infra("replay file has no re-executable case")
    if bad:
        print("VIOLATION property=%s replay=%s" % (ctx.id, path))
        return 1
    print("replay: discrepancy no longer present")
    return 0
