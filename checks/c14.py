"""C14  Server admission / routing: each inbound message handled, rejected or reported; mux routing.

MC      MC_Admission: all 8192 (QR, opcode, qd, an, ns, ar) headers x decodes x {11,12} octets: Policy total,
        Outcome a function with exactly one disposition, the statement's clauses; all 64 pattern subsets x 8 names
        x {A, DS}: RouteSet invariants; the exactly-once counter machine (3 messages of the 6 disposition classes);
        PhaseIrrelevant: OutcomeAt(phase, ...) -- the lifecycle phase of the server when the read that carries the
        message completes (Admission!Phases: "serving", "stopping") is no exception to any clause.
        HistoryIrrelevant: OutcomeAfter(prefix, ...) -- what the same socket / connection received before is no
        exception either -- and EndsService: no message makes the serve call come back.
GEN     Gen_Admission "pkt"/"short": header x body in {none, full, question cut at each octet, garbage, question only,
        full cut} with the outcome for both values of "decodes" -> `admission replay`: every packet injected into a real
        dns.Server over an in-memory net.PacketConn, an in-memory TCP listener and (a sample) a real UDP loopback socket;
        observed: handler invocations (count, request), MsgInvalidFunc calls, octets written back.
        Gen_Admission "route": 64 pattern subsets x 21 names (+ no question; DS names up to 3 labels below the closest
        pattern) x {A, DS, NS} x request flavours -> the life of a ServeMux: a request while nothing was ever registered,
        the registrations, the request, the removals, a request on the emptied mux; every 5th also through a real server.
        Gen_Admission "phase": every header the policy accepts x every body, a shard of the other headers x bodies
        {none, full, garbage}, the 12 short prefixes, each in phase "stopping" with the outcome computed by OutcomeAt ->
        one server life per message on pc, tcp (and a sample on the real UDP socket): the server's reader is wrapped
        through Server.DecorateReader; when the read that carries the message has completed the wrapper holds it back,
        the harness calls Shutdown and waits (hook shutdown.unlock, observation only) until started is false, the
        readers are kicked and srv.lock is free, then the read returns -- successfully, with the message.  Forced by
        hand-offs, nothing depends on timing.  Finding keys server-<tr>/stopping/<clause>.
        Gen_Admission "seq": ONE server life (one socket on pc, one connection on tcp) that receives every sequence of
        2..3 (thorough: 4) messages of 8 classes (prefixes of 0 / 5 / 11 octets, handled, accepted-undecodable, FORMERR,
        NOTIMP, ignored response), the k-th with its own ID; each message with the outcome OutcomeAfter gives it behind the
        earlier ones and `ends` = EndsService (never).  Observations are handed to the messages by ID / by the octets reported.
        Every vector of kind pkt carries `ends` too: a serve call that comes back by itself (its error), or a Shutdown that
        finds the server not started, is an OBSERVATION compared with it (key server-<tr>/service-ended:<class>), on pc, tcp,
        the real socket (the wait for the sentinel also watches the serve call) and in phase "stopping" -- never a failure
        of the harness; messages a dead loop never took are not judged.  A tcp connection the server hangs up before the
        sentinel is answered is read to its end, counted (note tcp_connections_ended_by_server) and dialled again.
        Every call the harness waits for runs under a watchdog: a call that does not return within 45 s is the verdict
        `.../hang:<call>` (the harness prints its summary and ends), never a stuck run.
TV      `admission record pkt`: random / mutated queries through the three transports -> Trace_Admission (trichotomy, policy
        recomputed from the header, LibReply, exactly-once totals); every fifth message in phase "stopping" (field
        `phase`, judged by OutcomeAt; keys server-<tr>/stopping/trace:<clause>).  `admission record mux`: 8 goroutines doing
        Handle/HandleRemove/ServeDNS with call/return sequence numbers -> Trace_Admission (each dispatch explained by a
        pattern set possible between start and end); the same recorder runs in a -race build, a race report in
        miekg/dns code is a violation.  Handlers are part of the schedule: every third dispatch of the concurrent phase
        runs a handler that itself calls Handle / HandleRemove on the multiplexer that dispatched to it (an operation
        event of its own, begun and ended inside the serve event); and each round ends with a forced overlap (hand-offs,
        no timing): while one handler is still running -- it waits for the harness -- a pattern is registered / removed
        and another request is dispatched; both must complete without the busy handler's help (keys mux/hang:concurrent,
        mux/hang:Handle-while-a-handler-runs, mux/hang:HandleRemove-..., mux/hang:ServeDNS-while-a-handler-runs) and the
        second dispatch must be explained by the pattern set the completed Handle / HandleRemove left.

Mutants (checks/mutants/C14), all caught by GEN replay (stage in brackets):
  qdcount-gt1.diff            Qdcount != 1 -> > 1                [pkt: server-*/handler-invoked-unexpectedly:reject]
  notimp-loses-opcode.diff    NOTIMP reply with opcode 0         [pkt: server-*/reply-shape:notimp:opcode; TV pkt too]
  formerr-keeps-records.diff  sections not cleared on FORMERR    [pkt: server-*/reply-shape:formerr:ancount (body 13)]
  match-case-sensitive.diff   no CanonicalName in match          [route: mux/plain-refused-despite-match ...]
  match-not-label-boundary.diff  suffix walk octet by octet      [route: mux/plain-wrong-handler / dispatched-without-match]
  ds-special-removed.diff     DS treated like any type           [route: mux/ds-apex-wrong-handler]
  short-udp-not-reported.diff no MsgInvalidFunc on < 12 octets   [pkt: server-pc/ and server-udp/invalid-callback-missing:short]
  serveudp-recheck-after-read.diff (= seeded C14-16) serveUDP re-checks isStarted() after every read, also a successful one: a datagram
                              whose read completes while Shutdown is in progress is dropped silently
                              [phase: server-pc|udp/stopping/handler-not-invoked:accept, .../invalid-callback-missing:short|undecodable,
                               .../reply-missing:formerr|notimp; TV pkt: server-pc|udp/stopping/trace:handler-count:accept ...]
  servetcpconn-recheck-after-read.diff  the same in serveTCPConn behind ReadTCP
                              [phase: server-tcp/stopping/handler-not-invoked:accept ...; TV pkt: server-tcp/stopping/trace:...]
  short-datagram-is-a-read-error.diff (= seeded C14-20) readUDP / readPacketConn turn a datagram of < 12 octets into ErrShortRead, which
                              serveUDP takes for a fatal read error: not reported, the serve call returns, the socket is closed
                              [short, seq: server-pc|udp/service-ended:short, server-pc|udp/invalid-callback-missing:short;
                               phase: server-pc/stopping/service-ended:short; TV pkt: server-pc|udp/trace:invalid-callback-count:short]
  mux-rlock-held-while-handler-runs.diff (= seeded C14-19) ServeMux.ServeDNS keeps mux.m read-locked while the handler runs
                              [TV mux: mux/hang:concurrent (a handler that calls Handle / HandleRemove on its own multiplexer never
                               returns), else mux/hang:Handle-while-a-handler-runs | HandleRemove-while-a-handler-runs]
"""
import os, json, re
import vp


def gen_replay(ctx, binp, mode, nshards, shards, workers=1):
    def one(sh):
        r, vecs = ctx.tlc_vectors("Gen_Admission", workers=workers, xmx="3g", timeout=3000,
                                  consts={"Mode": '"%s"' % mode, "NShards": nshards, "Shard": sh, "SeqLen": 3 if ctx.quick else 4})
        path = os.path.join(r.dir, "vectors.ndjson")
        if not os.path.exists(path):
            raise vp.Infra("Gen_Admission mode %s produced no vectors" % mode)
        s = run_harness(ctx, binp, ["replay", path], {"vectors": path})
        if s:
            vp.absorb(ctx, s)
    vp.parallel([lambda sh=sh: one(sh) for sh in shards], maxpar=4)


def run_harness(ctx, binp, args, case):
    """A crash of the harness inside miekg/dns code (a panic in a server goroutine cannot be recovered by the
    harness) is the 'never panics' clause failing; any other failure is infrastructure."""
    try:
        return ctx.run_json(binp, args)
    except vp.Infra as e:
        msg = str(e)
        if "panic:" in msg and "github.com/miekg/dns." in msg:
            m = re.search(r"panic: (.*)", msg)
            ctx.candidate("server/panic", "the library panicked while serving: " + (m.group(1) if m else "?"), dict(case, args=args, output=msg[-3000:]))
            return None
        raise


def tv(ctx, binp, which, n, nproc):
    def one(k):
        out = os.path.join(ctx.out, "trace-%s-%d.ndjson" % (which, k))
        s = ctx.run_json(binp, ["record", which, out, str(n)], env={"VERIF_SEED": str(ctx.seed * 1000 + k)})
        vp.absorb(ctx, s, traces=False)
        judge_trace(ctx, out)
    vp.parallel([lambda k=k: one(k) for k in range(nproc)], maxpar=4)


def judge_trace(ctx, path):
    tr = ctx.tlc_trace("Trace_Admission", path, xmx="3g", timeout=3000)
    evs = vp.read_ndjson(path)
    cls = {}
    try:
        for i, c in json.loads(tr.vals.get("cls", "[]")):
            cls[i] = c
    except Exception:
        raise vp.Infra("Trace_Admission printed no class list")
    idx = {id(e): i + 1 for i, e in enumerate(evs)}

    def keyfn(e):
        c = cls.get(idx[id(e)], "rejected")
        if e.get("ev") == "pkt":
            ph = e.get("phase") or "serving"
            return "server-%s/%strace:%s" % (e.get("tr"), "" if ph == "serving" else ph + "/", c)
        if e.get("ev") == "totals":
            return "server/trace:exactly-once-totals"
        return "mux/" + c
    vp.absorb_trace(ctx, tr, evs, keyfn)
    return tr


def race_run(ctx, rounds):
    """The concurrent recorder in a -race build: a race report naming miekg/dns code is a violation."""
    binr = ctx.build("admission", race=True)
    out = os.path.join(ctx.out, "trace-mux-race.ndjson")
    p = ctx.run(binr, ["record", "mux", out, str(rounds)], env={"GORACE": "halt_on_error=0 exitcode=66"}, ok_codes=(0, 66))
    if "DATA RACE" in p.stderr:
        if "github.com/miekg/dns." in p.stderr:
            ctx.candidate("mux/data-race", "race detector report during concurrent Handle/HandleRemove/ServeDNS",
                          {"race": True, "rounds": rounds, "report": p.stderr[:4000]})
        else:
            raise vp.Infra("race report inside the harness itself:\n" + p.stderr[:3000])
    elif p.returncode != 0:
        raise vp.Infra("race build exited %d:\n%s" % (p.returncode, p.stderr[-2000:]))
    judge_trace(ctx, out)


def run(ctx):
    binp = ctx.build("admission")
    ctx.build("admission", race=True)      # warm: race_run builds again from the cache
    if ctx.quick:
        ctx.tlc("MC_Admission", workers=4, timeout=900)
        vp.parallel([
            lambda: gen_replay(ctx, binp, "pkt", 16, [ctx.seed % 16]),
            lambda: gen_replay(ctx, binp, "short", 1, [0]),
            lambda: gen_replay(ctx, binp, "phase", 64, [ctx.seed % 64]),
            lambda: gen_replay(ctx, binp, "route", 1, [0]),
            lambda: gen_replay(ctx, binp, "seq", 1, [0]),
            lambda: tv(ctx, binp, "pkt", 1500, 2),
            lambda: tv(ctx, binp, "mux", 25, 1),
            lambda: race_run(ctx, 25),
        ], maxpar=4)
    else:
        ctx.tlc("MC_Admission", workers=4, consts={"MaxMsgs": 4}, timeout=1800)
        vp.parallel([
            lambda: gen_replay(ctx, binp, "pkt", 4, range(4)),
            lambda: gen_replay(ctx, binp, "short", 1, [0]),
            lambda: gen_replay(ctx, binp, "phase", 4, range(4)),
            lambda: gen_replay(ctx, binp, "route", 1, [0]),
            lambda: gen_replay(ctx, binp, "seq", 1, [0]),
            lambda: tv(ctx, binp, "pkt", 10000, 8),
            lambda: tv(ctx, binp, "mux", 250, 6),
            lambda: race_run(ctx, 300),
        ], maxpar=6)
    ctx.assumptions += [
        "the accept policy under test is the default one (Server.MsgAcceptFunc unset); supported opcodes are QUERY and NOTIFY",
        "whether a message 'decodes' is the real Unpack's verdict except where the spec is certain (sections exactly as counted: yes; "
        "ends inside a name / 16-bit field / RDATA, reserved label type: no)",
        "patterns are given in the library's own presentation form (no \\DDD spelling of printable octets)",
        "the opcode of a FORMERR reply is not constrained (the statement fixes ID, QR, rcode and empty sections only)",
        "real-UDP probes: an observation is used only when the server loop provably read the datagram (counted by a DecorateReader); "
        "a disagreement must show three times in a row",
    ]
    return ctx.finish(rule="vectors: (QR, opcode 0..15, qd, an, ns, ar in 0..3) x 14 body kinds (all headers with bodies none/full, all "
                      "accepted headers with every body, the rest by shard) + 12 short prefixes, each through pc and tcp (+ udp sample); 64 "
                      "pattern subsets x 19 question names x 3 types with rotating request flavours; every sequence of 2..3 (thorough 4) messages of 8 "
                      "classes through one server life (pc socket / tcp connection); events: random/mutated queries "
                      "(bit flips, truncations, count/opcode/QR edits, appended or random octets), concurrent mux operations of 8 "
                      "goroutines in rounds of 48.  distinct = distinct packets / routing cases; non-trivial = all")


def replay(ctx, path):
    rp = json.load(open(path))
    case = rp["case"]
    if case.get("race"):
        race_run(ctx, case.get("rounds", 50))
        bad = any(c["key"] == rp["key"] for c in ctx.cands)
    elif "event" in case:
        ev = case["event"]
        if ev.get("ev") == "pkt":
            tr = ctx.tlc_trace("Trace_Admission", [ev])
            bad = bool(tr.bad) or not tr.accepted
        else:
            raise vp.Infra("a concurrent mux event cannot be replayed alone; re-run the check with the recorded seed %s" % rp.get("seed"))
    elif "vectors" in case:
        binp = ctx.build("admission")
        try:
            ctx.run_json(binp, case["args"])
            bad = False
        except vp.Infra as e:
            bad = "panic:" in str(e)
    else:
        binp = ctx.build("admission")
        p = os.path.join(ctx.out, "one.ndjson")
        vp.write_ndjson(p, [case])
        s = ctx.run_json(binp, ["replay", p])
        bad = any(m["key"] == rp["key"] for m in s["mismatches"])
    if bad:
        print("VIOLATION property=%s replay=%s" % (ctx.id, path))
        return 1
    print("replay: discrepancy no longer present")
    return 0
