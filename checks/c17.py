"""C17  Key tags, DS, NSEC3 hash/match/cover, key import/export, validity periods follow the RFCs.

MC      MC_Dnssec17 (KeyTag vs two other formulations; Match/Cover over all 5^3 orderings x in/out of zone and
        all closed chains over 0..4; ValidAt vs plain integers and vs RFC 1982 literally; IH term/plan/evaluator;
        base32hex; DS input; RSA/EC public-key encodings and the RRSIG signed octets on hand-computed cases;
        BIND private-key text: every layout template of both kinds of key text is well-formed and means the same key
        fields as the plain one, with markers and with values in their place; hand-written texts with / without final
        newline, a lost last field, a changed value, a missing format line;
        SPELLINGS: every spelling (Dnssec17!Spellings: the library's form, all \\DDD, \\X where it may stand, the three in
        turn) of a name is read back by Names!Parse to the same labels; the spread names (p octets over k labels, five
        octet classes) are valid names of p + k + 1 wire octets whose all-escaped text has 4p + k characters; the family
        crosses the limit it is built for -- texts of 253..257 characters from names of 65..69 octets, 1004 characters
        for the longest name there is, never more than 254 for a name of plain letters),
        MC_KeyLife17 (all behaviours <= 5 operations (thorough 6) incl. externally provided keys and RELAYED texts,
        invariant LayoutIrrelevant, non-vacuity witnesses) -- the two run in parallel
GEN     Gen_Dnssec17 modes keytag / ds / nsec3 / cover / validity / spell and Gen_KeyLife17 -> harness `sec17 replay`
        (hash values: the spec exports the octets / the iterated-hash plan and term, the harness applies
        crypto/sha1, sha256, sha512 and compares with the real ToDS / HashName)
        DS digest types: 1, 2, 4, the holes beside them 0, 3 (GOST), 5, the first above any table 6, 7, and 127, 128, 255.
        TEXT IS NOT THE NAME (mode spell; Dnssec17 "Spellings"): HashName, ToDS, Match and Cover are handed a name as
        text, and their value is a function of the NAME; the limits of a name (63 / 255 octets) say nothing about the
        length of its text (up to 1004 characters).  Names = Dnssec17!SpreadName(p, k, class): p octets (quick: 1, 5,
        31, 62, 63, 64, 80, 126, 127, 200, 245, 250; thorough: 42 counts around the same points) over k = 1..5 labels
        (every valid combination) x the octet classes ctl / high (every octet \\DDD in the library's own form: 63 octets
        give texts of 253..257 characters), punct (specials, digits), lower, letters x the four spellings.
          n3     HashName of all four spellings of each name, salt and iterations in turn (key per spelling:
                 nsec3/hashname:text-longer-than-255 for a long text, :escaped-uppercase for the known class, else plain)
          ds     ToDS of every spelling as the owner, digest type and key in turn (ds/digest:<hash>:text-longer-than-255,
                 ds/nil-for-defined-type)
          cover  Match / Cover of the spread labels below and beside the zone ex.c. x 27 hash orderings (all shapes
                 and positions) x spellings (nsec3/cover|match<class>:text-longer-than-255); a HashName result that is
                 no hash is nsec3/hashname-format (was: a dead harness)
        TOTALITY (Dnssec17): every operation returns a value on every input of the quantifier; every call of the library
        is made under hx.Catch and a panic is a finding with a key of its own (ds/panics:<class> from the vector,
        keytag/panics, nsec3/hashname-panics, nsec3/cover-or-match-panics, validity/panics, keylife/<op>-panics:<alg>),
        never a dead harness.
        NSEC3 iteration counts include 0, 1, 2, 255, 256, 65534, 65535 in the quick tier (the big ones for two names
        and salts of 0 / 8 octets).
        Key life: every behaviour x 9 generated algorithm/size combinations, two of them RSA sizes that are not a
        multiple of 8 (1031, 1028) (thorough: + fresh RSA 1025/1032/1100/2049/4088/4095/4096 and RSASHA1-NSEC3-SHA1);
        an error or a panic of Generate is a finding (keylife/generate-fails|panics:<alg>/<bits>), never a harness crash
        KEY-TAG COLLISIONS: for RSASHA256/1024, ED25519 and ECDSAP256 (thorough: + RSASHA1/2048, ECDSAP384) a second,
        different, valid key pair is constructed whose DNSKEY has the same owner, algorithm and key tag as the first
        (RSA: fresh modulus, exponent searched; EC/Ed: scalar / seed searched); all behaviours whose keys are provided
        run on the pair in ONE process, so "A verifies, B does not" is asserted in both call orders and, for behaviours whose keys are all PROVIDED, x 9 committed RSA key-pair sets
        (harness/cmd/sec17/testdata: 1024, 1032, 2048, 4088, 4096 bits; exponents 3, 65537, 16777217; written by the
        harness' own BIND exporter from crypto/rsa keys, so the quick tier pays no key generation): import via
        NewPrivateKey/ReadPrivateKey, re-export and compare field by field, sign, verify, other key must fail
        TEXT LAYOUTS (KeyLife17!Relay, Gen_KeyLife17_lay.cfg): a private-key text that was kept in a store and comes
        back in another layout of the same fields denotes the same key.  The round trips provide -> relay -> import ->
        sign -> verify and gen -> export -> relay -> import -> sign -> verify x EVERY layout of Dnssec17!KFLayouts
        (format line v1.2 / v1.3 / v1.3 with the three timing fields after the key fields; algorithm mnemonic present /
        absent; empty lines none / leading / between all lines / trailing; LF after the last line present / ABSENT: 48)
        x NewPrivateKey / ReadPrivateKey x all 21 algorithm/size combinations.  The text the real code reads is the
        specification's template (octets, with markers where the values of the original text go).
        READER KINDS (KeyLife17!Apis): ReadPrivateKey from a strings.Reader (an io.ByteReader), from a plain io.Reader
        (a file: the library's own 1024-octet buffer is in front, every RSA text is longer than it), from a reader that
        delivers one octet per Read, and from one that returns the last octets together with io.EOF; the three extra
        kinds x the 12 layouts without empty lines (thorough: x all).  Thorough: 72 layouts
        (several empty lines at once), + the other key must not verify, + a copy of a copy.  Finding keys of relaid
        texts are classes of their own: keylife/relaid-import-fails|panics, relaid-reexport-differs|panics,
        relaid-sign-..., relaid-verify-...:<alg>.
TV      harness `sec17 record` (seeded random keys, names, salts, intervals, instants, key lives over all combinations;
        every call under hx.Catch: a panic is an event with `panic` set, judged by the totality clause;
        one ds / hashname / cover name in six is DENSE: labels of up to 63 octets that mostly need an escape, up to the
        255-octet limit of the wire form, so texts of up to ~1000 characters -- in the library's own form or re-spelt
        octet by octet (\\DDD / \\X / plain; Trace_Dnssec17 parses the text, it does not trust the recorder))
        -> Trace_Dnssec17 (judges, and writes the hash inputs it derives; for every signature of a key life: public-key
        encoding = RFC 3110/6605 of the standard library's numbers, key tag, and the RFC 4034 3.1.8.1 signed octets;
        kl.relay events (random re-layouts by the recorder, wider than the generated universe: any number of empty lines
        anywhere) are enabled only if old and new text have the same key fields (KFSameKey: the recorder is checked, not
        trusted); kl.import events carry the text read and the second export of the key read: same key fields, or bad)
        -> harness `sec17 finish` (crypto/sha*, and crypto/rsa|ecdsa|ed25519 verify the real signature over those octets)

Mutants (checks/mutants/C17), stage that catches each on the quick tier:
  keytag-carry-dropped.diff     GEN keytag (keytag/value), GEN ds (ds/fields); the same keys from TV keytag / ds events
  ds-owner-not-lowercased.diff  GEN ds (ds/digest:sha1|sha256|sha384); TV ds events through `finish`
  nsec3-iter-loop-le.diff       GEN nsec3 (nsec3/hashname); TV hashname / cover events through `finish`
  cover-ignores-zone.diff       GEN cover (nsec3/cover:outzone:inside, :outzone:equal-owner); TV cover events
  inttobytes-no-padding.diff    GEN keylife, fresh-key round trips (keylife/import-fails:ECDSA*, keylife/verify-rejects-imported-key:ECDSA*)
  cover-label-guard-off-by-one.diff   GEN cover, root-zone records (nsec3/cover-or-match-panics): a panic is a verdict
  klexer-empty-lines-not-skipped.diff GEN keylife layouts (keylife/relaid-import-fails:<alg>); TV kl.import after kl.relay
  klexer-single-read-into-buffer.diff GEN keylife layouts, reader kinds readplain / read1 (keylife/relaid-import-fails:<alg>,
                                      relaid-reexport-differs:RSA*/2048: a text cut at the buffer end still parses)
  tods-owner-text-bounded-by-wire-limit.diff        GEN spell ds (ds/nil-for-defined-type); TV ds events
  cover-match-name-text-bounded-by-wire-limit.diff  GEN spell cover (nsec3/match-equal-owner..., nsec3/cover:<shape>:inside:text-longer-than-255); TV cover events
Seeds: C17-19 (HashName: early exit when the TEXT of the name is longer than the 255 octets a NAME may have) GEN spell n3
  (nsec3/hashname:text-longer-than-255) and cover (nsec3/hashname-format), TV hashname events of dense names (nsec3/hashname-format);
  C17-17 (ToDS digest-type table with holes: panic for types 0 and 3) GEN ds (ds/panics:undefined-type), TV ds events;
  C17-18 (key-file lexer drops a last line without LF) GEN keylife layouts (keylife/relaid-reexport-differs:ECDSA*,
  relaid-reexport-panics:ED25519*, relaid-verify-rejects-imported-key:ECDSA*), TV kl.import after kl.relay
"""
import os, json
import vp

ITERS_Q = "{0, 1, 2, 10, 150, 255, 256, 65534, 65535}"
ITERS_T = "{0, 1, 2, 10, 150, 255, 256, 2500, 65534, 65535}"
# mode "spell": octet counts of the spread names; x k = 1..5 labels: all-escaped texts of 253..257 (63 octets), 510..514, 1004 characters
SPELL_Q = "{1, 5, 31, 62, 63, 64, 80, 126, 127, 200, 245, 250}"
SPELL_T = "{%s}" % ", ".join(str(p) for p in sorted(set(range(1, 9)) | set(range(29, 35)) | set(range(60, 67)) | {80, 100} | set(range(124, 131)) | {160, 189, 190, 200, 230} | set(range(244, 251))))      # a cfg file takes literal sets only


def safe_scratch(ctx):
    """ctx._scratch numbers directories without a lock; serialise it for parallel TLC runs of one module."""
    if getattr(ctx, "_scratch_locked", False):
        return
    import threading
    lock, orig = threading.Lock(), ctx._scratch

    def locked(name):
        with lock:
            return orig(name)
    ctx._scratch, ctx._scratch_locked = locked, True


def timed_harness(ctx):
    """log the wall time of every harness run (the driver library logs only TLC)"""
    if getattr(ctx, "_timed", False):
        return
    import time
    orig, t0, log0 = ctx.run_json, time.time(), vp.log
    if os.environ.get("VERIF_TIMESTAMPS"):      # elapsed seconds in front of every log line of this run
        vp.log = lambda *a: log0("%6.1f" % (time.time() - t0), *a)

    def run_json(binp, args, **kw):
        t = time.time()
        try:
            return orig(binp, args, **kw)
        finally:
            vp.log("harness %s %s: %.1fs" % (os.path.basename(binp), " ".join(os.path.basename(a) for a in args[:2]), time.time() - t))
    ctx.run_json, ctx._timed = run_json, True


def gen(ctx, binp, module, consts, tag, cfg=None):
    r, vecs = ctx.tlc_vectors(module, cfg=cfg, workers=1, xmx="3g", timeout=3000, consts=consts)
    path = os.path.join(r.dir, "vectors.ndjson")
    if not os.path.exists(path) or not vecs:
        raise vp.Infra("%s %s produced no vectors" % (module, tag))
    s = ctx.run_json(binp, ["replay", path], timeout=3000)
    vp.absorb(ctx, s)
    return len(vecs)


def keys_of(tr):
    try:
        return json.loads(tr.vals.get("keys", "[]"))
    except Exception:
        raise vp.Infra("trace validation printed no finding keys")


def absorb_keyed(ctx, tr, events, stuck_prefix):
    """Like vp.absorb_trace, with the finding key computed by the Trace spec itself (register 3)."""
    keys = keys_of(tr)
    bad = tr.bad or []
    if len(keys) != len(bad):
        raise vp.Infra("trace validation: %d bad events but %d keys" % (len(bad), len(keys)))
    with vp._lock:
        ctx.traces += max(0, (tr.hwm or 0) - len(set(bad)))
        for i, k in zip(bad, keys):
            if k.startswith("trace/"):
                raise vp.Infra("recorder wrote an event the trace spec cannot read: %s %s" % (k, json.dumps(events[i - 1])[:300]))
            case = {"event": events[i - 1]}
            if events[i - 1]["ev"].startswith("kl.") or events[i - 1]["ev"] == "rrsig":      # a state-machine event (or the signature of one) needs its history: back to the reset
                j = i - 1
                while j > 0 and events[j]["ev"] != "kl.reset":
                    j -= 1
                case = {"events": events[j:i]}
            ctx.candidate(k, "recorded event rejected by the specification", case)
        if not tr.accepted and tr.rejected_at is not None and tr.rejected_at <= len(events) and tr.rejected_at not in bad:
            e = events[tr.rejected_at - 1]
            ctx.candidate(stuck_prefix + e["ev"], "recorded event not enabled in the specification (trace stuck at line %d)" % tr.rejected_at,
                          {"events": events[max(0, tr.rejected_at - 12):tr.rejected_at]})


def tv(ctx, binp, n, nproc):
    def one(k):
        out = os.path.join(ctx.out, "trace17-%d.ndjson" % k)
        s = ctx.run_json(binp, ["record", out, str(n)], env={"VERIF_SEED": str(ctx.seed * 1000 + k)}, timeout=3000)
        vp.absorb(ctx, s, traces=False)
        tr = ctx.tlc_trace("Trace_Dnssec17", out, xmx="3g", timeout=3000)
        evs = vp.read_ndjson(out)
        absorb_keyed(ctx, tr, evs, "keylife/trace-stuck:")
        emit = os.path.join(tr.r.dir, "emit.ndjson")
        if not os.path.exists(emit):
            raise vp.Infra("Trace_Dnssec17 wrote no emit.ndjson")
        f = ctx.run_json(binp, ["finish", emit])
        vp.absorb(ctx, f)
    vp.parallel([lambda k=k: one(k) for k in range(nproc)], maxpar=4)


def run(ctx):
    safe_scratch(ctx)
    timed_harness(ctx)
    binp = ctx.build("sec17")
    vp.parallel([lambda: ctx.tlc("MC_Dnssec17", workers=2, xmx="3g", timeout=900),
                 lambda: ctx.tlc("MC_KeyLife17", workers=1, xmx="2g", timeout=900, consts=None if ctx.quick else {"MaxOps": 6, "Layouts": '{"a", "b"}'})], maxpar=2)
    iters = ITERS_Q if ctx.quick else ITERS_T
    counts = {}
    jobs = []
    for mode in ("keytag", "ds", "nsec3", "cover", "validity", "spell"):
        def job(mode=mode):
            counts[mode] = gen(ctx, binp, "Gen_Dnssec17", {"Mode": '"%s"' % mode, "Iters": iters, "KSmall": 5 if ctx.quick else 8, "BigNames": 2 if ctx.quick else 4,
                                                           "SpellPs": SPELL_Q if ctx.quick else SPELL_T}, mode)
        jobs.append(job)

    def kljob():
        counts["keylife"] = gen(ctx, binp, "Gen_KeyLife17", {} if ctx.quick else {"MaxOps": 6}, "keylife")

    def layjob():       # the round trips through a store x every layout of a private-key text x both import functions
        counts["keylife-layouts"] = gen(ctx, binp, "Gen_KeyLife17", {} if ctx.quick else {"Rich": "TRUE", "Shapes": '{"given", "round", "other", "twice"}'},
                                        "layouts", cfg="Gen_KeyLife17_lay")
    jobs = [kljob, jobs[0], layjob, jobs[5]] + jobs[1:5]                # the long ones (key lives, key tags, spellings) first
    vp.parallel(jobs, maxpar=6)
    if ctx.quick:
        tv(ctx, binp, 1800, 2)
    else:
        tv(ctx, binp, 18000, 12)
    ctx.notes["vectors"] = counts
    ctx.assumptions += [
        "hash functions are uninterpreted in the specification; their values come from Go's crypto/sha1, sha256, sha512 applied to the octets the specification fixes",
        "RSA/MD5 (algorithm 1) keys are outside the key-tag universe (excluded by the statement)",
        "validity triples: the instants denoted by inception and expiration are less than 2^31 s from t; a distance of exactly 2^31 is undefined (RFC 1982) and not judged",
        "DS digest type 5 (the library's experimental SHA-512 constant; no RFC of the statement defines it) is not judged; types 0, 3, 255 must give no DS",
        "key life: the DNSKEY passed to NewPrivateKey/ReadPrivateKey is the one the text belongs to (documented requirement); generated keys are cached per run and algorithm except in the elliptic-curve stress loop",
        "RSA sizes: 1024..4096 (512-bit keys are refused by the Go runtime's crypto/rsa, hence by Generate and Sign); exponents of 1, 3 and 4 octets (the library refuses longer ones, so the 3-octet length form of RFC 3110 is out of reach)",
        "the RRSIG signed octets are specified only for the key-life RRset (A records, owner not a wildcard, no names in RDATA); the general canonical form is property C10",
        "BIND private-key text: the layouts claimed equivalent are those BIND itself writes or its reader (dst_parse.c) skips: format line v1.2 / v1.3, the v1.3 timing fields, the mnemonic after the algorithm number, empty lines, the LF after the last line; NOT claimed: CR LF line ends, trailing blanks, ';' comments (the pinned reader refuses the first two)",
        "totality: a panic of KeyTag / ToDS / HashName / Cover / Match / ValidityPeriod / Generate / PrivateKeyString / NewPrivateKey / ReadPrivateKey / Sign / Verify on an input of the property's quantifier is a violation (the statement gives each a value for every input)",
        "names in recorded events are written in the library's presentation form (UnpackDomainName), fully qualified; one in eight ds/hashname events re-spells some letters as \\DDD; dense names are re-spelt octet by octet except upper-case letters (their \\DDD spelling is the known class of its own)",
        "spellings: \\X is used only for printable ASCII octets that are not digits (a raw octet outside ASCII is not text; \\D for a digit is not defined by RFC 1035); in Match / Cover vectors only the labels below the zone cut are re-spelt (the zone's labels are written as in the record's owner: comparing differently spelt labels is property C19)",
    ]
    return ctx.finish(rule="vectors: keytag = flags x protocol x algorithm x every key over {00,ff} up to 5 (thorough: 8) octets + keys of 255/256/257/1024 octets; "
                      "ds = 5 owners x 5 spellings (4 case variants + all-\\DDD upper case) x 11 digest types x 4 keys; nsec3 = 5 names (5 spellings each) x salts 0/1/8/255 x iterations {0,1,2,10,150,255,256,65534,65535}; "
                      "cover = 5^3 orderings x 7 zone/name pairs x owner-label case; spell = spread names (12 octet counts (thorough 42) x 1..5 labels x 5 octet classes) x 4 spellings through HashName (one vector per name) and ToDS (one per spelling), 5 spreads x 2 classes x 4 spellings x in/out of zone x 3^3 orderings through Match / Cover; validity = 11 instants x 2 epochs x 12^2 offsets; keylife = every behaviour "
                      "ending in a verification x 9 generated algorithm/size combinations (+8 thorough) and x 9 committed RSA size/exponent sets and x 3 (+2) key-tag-colliding pairs where all keys are provided, + fresh-key round trips; keylife-layouts = 2 round trips through a store (thorough 4 shapes) x 48 (72) layouts of the private-key text x NewPrivateKey and 4 kinds of reader for ReadPrivateKey (the 3 unusual readers x 12 layouts; thorough all) x every combination. events: seeded random. "
                      "evaluations = every judged case (vectors per spelling / per algorithm, recorded events, second-stage hash and signature checks); distinct = distinct inputs, all non-trivial")


def replay(ctx, path):
    binp = ctx.build("sec17")
    rp = json.load(open(path))
    case, key = rp["case"], rp["key"]
    bad = False
    if "event" in case or "events" in case:
        evs = case.get("events") or [case["event"]]
        src = os.path.join(ctx.out, "replay-in.ndjson")
        dst = os.path.join(ctx.out, "replay-out.ndjson")
        vp.write_ndjson(src, evs)
        ctx.run_json(binp, ["rerun", src, dst])                  # the real code again, fresh results
        tr = ctx.tlc_trace("Trace_Dnssec17", dst)
        bad = key in keys_of(tr) or not tr.accepted
        emit = os.path.join(tr.r.dir, "emit.ndjson")
        if not bad and os.path.exists(emit):
            f = ctx.run_json(binp, ["finish", emit])
            bad = any(m["key"] == key for m in f["mismatches"])
    else:
        p = os.path.join(ctx.out, "one.ndjson")
        vp.write_ndjson(p, [case])
        s = ctx.run_json(binp, ["replay", p])
        bad = any(m["key"] == key for m in s["mismatches"])
    if bad:
        print("VIOLATION property=%s replay=%s" % (ctx.id, path))
        return 1
    print("replay: discrepancy no longer present")
    return 0
