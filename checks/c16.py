"""C16  Copies are deep; decoded messages alias no buffer; read-only operations do not mutate.

MC      MC_Heap, Heap.tla on itself, every operation sequence of length <= 5 over 3 objects (2 regions each) + a buffer:
          Variant "ok"   region discipline followed: Disjoint, non-interference, copy equality, read-only frame hold
          Variant "any"  Copy/Unpack may return arbitrary regions: Disjoint-before-the-step => non-interference (InvImpl)
          Variants "shallowcopy" / "aliasunpack" / "dirtyro" / "reusecopyto": InvNI MUST be violated (non-vacuity; else Infra)
        Ext = with the CALLER's Alias (a shallow copy sharing a non-empty set of regions with its source: cp := *m, scratch.Answer
        = m.Answer; `al' records who shares with whom by the caller's doing -- only for those is sharing no defect, a write seen
        in the partner, bookkeeping written through) and CopyTo(x, t) into ANY live object t: afterwards t shares nothing with
        x nor with any object that was not its partner (InvCopyTo), equals x, and x and every object the caller did not alias
        to t are as before (InvNI).  AMBIG: storage t held -- alone or together with THIRD objects aliased to it -- may be used
        again (a write to t is expected to show in those); a region of the source may not.  Quick: the operations of the
        first rounds to depth 5, with Ext to depth 4;
        "anycopyto": only CopyTo may return arbitrary regions -- Disjoint before and CopyTo's discipline => non-interference.
GEN     Gen_Heap exports every operation sequence of length N (quick 3, thorough 4) over {Copy(original), Copy(latest),
        Mutate(original), Mutate(latest), 7 read-only ops, Unpack, Scribble} with the predicted live set, abstract regions,
        changed objects, bookkeeping permissions and copy equalities  ->  harness `heap replay`: each sequence on every type
        of dns.TypeToRR (fully populated), an unknown type, a registered PrivateRR and whole messages (Copy, CopyTo into a
        used message), and on VARIANTS of every type: #lc (lower-case owner, mixed-case RDATA names, TTL = OrigTtl: the shape in which
        signing needs no header rewrite), #unsorted (every list reversed: SVCB parameters, options, prefixes, type bitmaps, texts),
        #altspell (every RDATA field with more than one accepted spelling in a hand-built record in ANOTHER one than the canonical
        spelling Unpack and the parser give: the empty NSEC3/NSEC3PARAM salt as "-", hex fields in upper case, base32hex fields in
        lower case, the first letter of an embedded name as \\DDD -- the spellings that tempt an operation to normalise in place),
        #emptycap / #emptyall (slices emptied but keeping their capacity; the Unpack input then has zero-length fields followed
        by more octets); after each step: real regions (address, cap) pairwise disjoint where the spec's are, deep snapshots
        changed exactly where the spec says, copy == source; Mutate writes EVERY reachable cell (scalar, string, slice
        element, slice header, pointer, interface, and an append within the capacity of every slice -- the exact snapshot shows
        the hidden capacity [len:cap]) one at a time and looks at all other objects and the buffer;
        Scribble inverts every octet of the buffer.
        A read-only step is executed in every ARGUMENT STATE the vector lists (Gen_Heap!ROStates): Verify with the TTL of the
        RRset and of the RRSIG equal to the signature's original TTL (just signed), below it (aged in a cache), above it (signed
        over an equal RRset with a lower TTL: RFC 4035 5.3.3 territory; the verification SUCCEEDS in these three -- the evidence
        notes verifications_succeeded_by_state) and with one octet of the signature changed (it fails); the RRset is snapshotted
        by the step, the RRSIG and the key around each call.
        Alphabet "copyto" (quick 252 sequences of length 3, thorough 4020 of length 4): every sequence with a CopyTo into a
        live object over {Copy, Alias(original|latest, all|one), CopyTo(a, b) for all ordered pairs whose target shares memory
        with nobody but -- possibly -- the source, Mutate, Pack, Copy, Unpack}  ->
        whole messages (the small shapes incl. windowed sections, no-question; thorough: the full-size message): Alias "all" is
        cp := *m, "one" a message filled by an earlier CopyTo whose first non-empty section (or question) was then assigned
        from m; after CopyTo the target's real regions are disjoint from every other object's, its value is the source's,
        source and third objects are unchanged, and the every-cell probe of a later Mutate shows nothing in the others.
TV      harness `heap record`: random operation sequences over random types; events carry region ids per backing store
        and content digests -> Trace_Heap (discipline at Copy/Unpack/NewBuf, post-state agreement, non-interference);
        on messages also `alias' (struct copy / one section assigned) and `copyto' events (half of the aliases are followed
        at once by a CopyTo between the two, in either direction); Trace_Heap keeps `al' itself.

Mutants (checks/mutants/C16), all exit 1, each caught by BOTH the GEN->replay and the record->TV stage
(mismatch_counts / trace_rejections in the evidence):
  clone-dropped-nsec.diff        copy/nsec-typebitmap-shared            (GEN: address overlap + every-cell write; TV: copy, mutate events)
  copyto-shares-question.diff    copy/msg-question-shared               (GEN Msg, Msg/CopyTo; TV Msg/small)
  rawsig-in-place.diff           readonly/sign-mutates:<type>, readonly/verify-mutates:<type>   (GEN 162 keys; TV ro events)
  unpack-aaaa-subslice.diff      unpack/aaaa-aaaa-aliases-buffer, unpack/ipseckey-gatewayaddr-aliases-buffer, */writes-into-buffer
                                                                        (GEN: overlap, Scribble, probe; TV: unpack, scribble events)
  edns-local-unpack-alias.diff   unpack/edns0-local-data-aliases-buffer (GEN OPT, Msg; TV)
  apl-copy-shallow.diff          copy/aplprefix-network-ip-shared       (GEN; TV)
  edns-subnet-copy-shallow.diff  copy/edns0-subnet-address-shared       (re-introduces the defect this check found; repaired in /repo 564993f)
  edns-dau-copy-shallow.diff     copy/edns0-dau-algcode-shared          (same, EDNS0_DAU)
Seeded changes /verif/seeded/C16-{1,2,3} (all exit 1):
  C16-1 cloneSlice returns len-0 slices as they are   GEN: copy/<field>-shared on the #emptycap/#emptyall variants (address overlap by capacity,
                                                      append-within-capacity visible in the other object), unpack/<field>-aliases-buffer
                                                      (zero-length window into the input: overlap + append writes the buffer); TV: not seen
                                                      (the trace tier identifies regions by their visible part)
  C16-2 rawSignatureData copies only when the header changes   GEN readonly/sign-mutates:<type>, readonly/verify-mutates:<type> on #lc; TV ro events
  C16-3 packDataSVCB sorts the caller's slice          GEN readonly/pack-mutates:svcb-value on SVCB#unsorted / HTTPS#unsorted / Msg; TV ro events
  C16-17 CopyTo rebuilds the sections inside the target's arrays   GEN copyto/msg-answer-shared, copyto/msg-question-shared, copyto/<record>-shared,
                                                      copyto/changes-source:* (alphabet "copyto": Alias; CopyTo);
                                                      TV copyto/msg-answer-shared, copyto/msg-question-shared (copyto events)
  C16-19 generated pack() of NSEC3/NSEC3PARAM rewrites a "-" salt to ""   GEN readonly/pack-mutates:nsec3, :nsec3param on NSEC3#altspell / NSEC3PARAM#altspell; TV ro events on the variants
  C16-20 RRSIG.Verify lowers the TTLs of its arguments to OrigTtl after a successful verification
                                                      GEN readonly/verify-mutates:<type> (the RRset, state "ttl>orig"), readonly/verify-mutates:rrsig-argument; TV ro events
Mutant copyto-reuses-question-array.diff (r1.Question = append(r1.Question[:0], ...)): GEN copyto/msg-question-shared (Alias all / one on the
                                                      question-only shapes); TV copyto/msg-question-shared
"""
import os, json
import vp

ALLRO = '{"Pack", "Len", "String", "IsDuplicate", "Copy", "Sign", "Verify"}'
BROKEN = ["shallowcopy", "aliasunpack", "dirtyro", "reusecopyto"]


def mc_jobs(ctx):
    """Heap.tla on itself.  Ext = with the caller's Alias and CopyTo into live objects (the state space is ~20 times larger:
    the quick tier checks them to depth 4 with two read-only operations, and the operations of the first rounds to depth 5)."""
    q = ctx.quick
    PS = '{"Pack", "Sign"}'
    jobs = [lambda: ctx.tlc("MC_Heap", workers=4, xmx="3g", timeout=1500, consts={"Variant": '"ok"', "MaxDepth": 5, "ROOps": ALLRO, "Ext": "FALSE"}),
            lambda: ctx.tlc("MC_Heap", workers=2 if q else 6, xmx="2g" if q else "6g", timeout=3000,
                            consts={"Variant": '"ok"', "MaxDepth": 4 if q else 5, "ROOps": PS if q else '{"Pack", "Sign", "IsDuplicate"}', "Ext": "TRUE"}),
            lambda: ctx.tlc("MC_Heap", cfg="MC_Heap_any", workers=2, xmx="2g" if q else "3g", timeout=2400,
                            consts={"Variant": '"any"', "MaxDepth": 3 if q else 4, "ROOps": '{"Pack"}' if q else PS, "Ext": "FALSE"}),
            lambda: ctx.tlc("MC_Heap", cfg="MC_Heap_any", workers=2, xmx="2g" if q else "3g", timeout=2400,
                            consts={"Variant": '"anycopyto"', "MaxDepth": 3 if q else 4, "ROOps": '{"Pack"}', "Ext": "TRUE"})]
    if not q:
        jobs.append(lambda: ctx.tlc("MC_Heap", cfg="MC_Heap_any", workers=4, xmx="3g", timeout=2400,
                                    consts={"Variant": '"any"', "MaxDepth": 3, "ROOps": '{"Pack"}', "Ext": "TRUE"}))

    def broken(v):
        r = ctx.tlc("MC_Heap", cfg="MC_Heap_broken", workers=1, xmx="2g", timeout=600, must_pass=False, count=False,
                    consts={"Variant": '"%s"' % v, "MaxDepth": 5, "ROOps": PS, "Ext": "TRUE"})
        if "Invariant InvNI is violated" not in r.out:
            raise vp.Infra("MC_Heap variant %s: the broken model does not violate non-interference (vacuous invariant):\n%s" % (v, r.out[-1500:]))

    # reachability witnesses of the correct model: three live objects; bookkeeping written by a read-only operation;
    # a CopyTo into a target that shares memory with its source; a write seen through a partner
    def witness(w, inv):
        r = ctx.tlc("MC_Heap", cfg=w, workers=1, xmx="2g", timeout=600, must_pass=False, count=False,
                    consts={"Variant": '"ok"', "MaxDepth": 5, "ROOps": PS, "Ext": "TRUE"})
        if "Invariant %s is violated" % inv not in r.out:
            raise vp.Infra("MC_Heap: witness %s not reachable:\n%s" % (inv, r.out[-1500:]))

    def small():
        for v in BROKEN:
            broken(v)
        for w, inv in (("MC_Heap_w1", "WitnessThreeObjects"), ("MC_Heap_w2", "WitnessBookkeeping"),
                       ("MC_Heap_w3", "WitnessCopyToAliased"), ("MC_Heap_w4", "WitnessSharedWrite")):
            witness(w, inv)
    return jobs + [small]


def mc(ctx):
    vp.parallel(mc_jobs(ctx), maxpar=3)


def gen(ctx, binp, n, nshards, next_):
    """Both alphabets: the sequences of length n over the operations on independent objects, and the sequences of length
    next_ with a CopyTo into a live object (over Copy, the caller's Alias, CopyTo, Mutate, Pack, Copy, Unpack)."""
    r, vecs = ctx.tlc_vectors("Gen_Heap", workers=1, xmx="3g", timeout=3000, consts={"N": n, "Alphabet": '"base"'})
    r2, vecs2 = ctx.tlc_vectors("Gen_Heap", workers=1, xmx="3g", timeout=3000, consts={"N": next_, "Alphabet": '"copyto"'})
    if not vecs or not vecs2:
        raise vp.Infra("Gen_Heap exported nothing")
    path = os.path.join(ctx.out, "vectors-all.ndjson")
    with open(path, "w") as f:
        for d in (r.dir, r2.dir):
            f.write(open(os.path.join(d, "vectors.ndjson")).read())
    ctx.notes["sequences"] = len(vecs)
    ctx.notes["sequences_copyto"] = len(vecs2)

    def one(sh):
        s = ctx.run_json(binp, ["replay", path, str(sh), str(nshards)], timeout=7200)
        vp.absorb(ctx, s)
    vp.parallel([lambda sh=sh: one(sh) for sh in range(nshards)])


def trace_key(events):
    byi = {e["i"]: k for k, e in enumerate(events)}

    def name_of(e, o, r):
        for ob in e["objs"]:
            if ob["o"] == o and r in ob["s"]:
                return ob["n"][ob["s"].index(r)]
        return None

    def key(e):
        t = e["t"]
        ev = e["ev"]
        objs = {ob["o"]: ob for ob in e["objs"]}
        if ev in ("copy", "unpack", "copyto"):
            y = objs.get(e["y"])
            if y:
                for r in y["s"]:
                    if r == e["buf"]:
                        return "unpack/%s-aliases-buffer" % name_of(e, e["y"], r)
                    for o, ob in objs.items():
                        if o != e["y"] and r in ob["s"]:
                            return "%s/%s-shared" % (ev, name_of(e, e["y"], r))
        if ev == "mutate":
            for o, ob in objs.items():
                if o != e["x"] and e["r"] in ob["s"]:
                    return "copy/%s-shared" % name_of(e, o, e["r"])
        if ev == "scribble":
            for o, ob in objs.items():
                if e["buf"] in ob["s"]:
                    return "unpack/%s-aliases-buffer" % name_of(e, o, e["buf"])
        if ev == "ro":
            k = byi.get(e["i"])
            if k:
                prev = dict(map(tuple, events[k - 1]["mem"]))
                for r, c in e["mem"]:
                    if r in prev and prev[r] != c:
                        for o in objs:
                            nm = name_of(e, o, r)
                            if nm:
                                return "readonly/%s-mutates:%s" % (e["op"].lower(), nm)
            return "trace/ro-%s:%s" % (e["op"].lower(), t)
        return "trace/%s:%s" % (ev, t)
    return key


def episode_of(events, idx):
    """events[idx] with everything since its reset."""
    j = idx
    while j > 0 and events[j]["ev"] != "reset":
        j -= 1
    return events[j:idx + 1]


def tv(ctx, binp, episodes, nproc):
    def one(k):
        out = os.path.join(ctx.out, "trace-%d.ndjson" % k)
        seed = ctx.seed * 1000 + k
        s = ctx.run_json(binp, ["record", out, str(episodes)], env={"VERIF_SEED": str(seed)})
        vp.absorb(ctx, s, traces=False)
        tr = ctx.tlc_trace("Trace_Heap", out, xmx="3g", timeout=3000)
        evs = vp.read_ndjson(out)
        kf = trace_key(evs)
        with vp._lock:
            bad = set(tr.bad or [])
            ctx.traces += max(0, (tr.hwm or 0) - len(bad))
            for i in sorted(bad):
                e = evs[i - 1]
                d = ctx.notes.setdefault("trace_rejections", {})
                d[kf(e)] = d.get(kf(e), 0) + 1
                ctx.candidate(kf(e), "recorded heap rejected by Heap.tla at a %s event on %s" % (e["ev"], e["t"]),
                              {"record": {"seed": seed, "episodes": episodes}, "i": i, "events": episode_of(evs, i - 1)})
            if not tr.accepted and tr.rejected_at and tr.rejected_at not in bad:
                raise vp.Infra("Trace_Heap stopped at line %s without a verdict" % tr.rejected_at)
    vp.parallel([lambda k=k: one(k) for k in range(nproc)])


def run(ctx):
    binp = ctx.build("heap")
    # model checking of Heap.tla on itself, export + replay of the behaviours, recording + trace validation: independent, side by side
    if ctx.quick:
        vp.parallel([lambda: mc(ctx), lambda: gen(ctx, binp, 3, 6, 3), lambda: tv(ctx, binp, 150, 2)])
    else:
        vp.parallel([lambda: mc(ctx), lambda: gen(ctx, binp, 4, 8, 4), lambda: tv(ctx, binp, 500, 8)])
    ctx.assumptions += [
        "regions are observed as address intervals (base, cap x element size) of slice backing arrays, pointees and maps; Go strings are immutable and are content, not regions",
        "documented bookkeeping = RR_Header.Rdlength and the upper 8 bits of an OPT header's TTL (extended RCODE); AMBIG: any read-only operation may write it, on its arguments only",
        "the PrivateRR case uses the harness' own PrivateRdata (deep Copy): it exercises PrivateRR.copy, not third-party rdata",
        "trace tier: region identity by the visible part (len) of each backing array; sharing of hidden capacity only is looked for in the replay tier (cap-based)",
        "the caller's aliasing is the shallow struct copy and the assignment of one section slice; slot 2 of an aliased message = the first record of its first non-empty section (else its first question); objects the caller made share memory are not compared with each other (overlap, probe) until a CopyTo separates them",
        "quick tier, whole messages: Mutate writes every cell of the message's own stores and one in six cells inside its records (each record type is probed exhaustively on its own)",
    ]
    return ctx.finish(rule="sequences: all operation sequences of length N over 13 operations x every RR type + unknown + private + 2 message "
                      "cases, all sequences of length N' with a CopyTo into a live object x the message shapes; evaluations = steps executed + single-cell writes probed; distinct_nontrivial = distinct (case, operation, "
                      "operation succeeded) triples; events: random sequences, each judged by TLC against Heap.tla")


def replay(ctx, path):
    binp = ctx.build("heap")
    rp = json.load(open(path))
    case = rp["case"]
    if "record" in case:
        out = os.path.join(ctx.out, "trace.ndjson")
        ctx.run_json(binp, ["record", out, str(case["record"]["episodes"])], env={"VERIF_SEED": str(case["record"]["seed"])})
        evs = vp.read_ndjson(out)
        i = case["i"]
        if i > len(evs) or evs[i - 1]["ev"] != case["events"][-1]["ev"]:
            raise vp.Infra("the recorder did not reproduce the trace")
        ep = episode_of(evs, i - 1)
        tr = ctx.tlc_trace("Trace_Heap", ep)
        kf = trace_key(ep)
        bad = any(kf(ep[b - 1]) == rp["key"] for b in (tr.bad or []))
    else:
        p = os.path.join(ctx.out, "one.ndjson")
        vp.write_ndjson(p, [{"ops": case["ops"], "case": case["case"]}])
        s = ctx.run_json(binp, ["replay", p, "0", "1"])
        bad = any(m["key"] == rp["key"] for m in s["mismatches"])
    if bad:
        print("VIOLATION property=%s replay=%s" % (ctx.id, path))
        return 1
    print("replay: discrepancy no longer present")
    return 0
