"""X01 (extra)  EDNS0: the OPT pseudo-record's fixed part as a bit-field algebra; SetEdns0 / IsEdns0;
the 12-bit RCODE split on Pack and join on Unpack.        spec/Edns.tla (extends WireRR)

MC      MC_Edns: Edns.tla on itself -- every flag half-word, every (rc, version) pair, every 16-bit
        argument, every 12-bit RCODE through WireRR's encoder / reference decoder (Scale 0 = corner slice)
GEN     Gen_Edns "ops": every sequence of <= 3 setter calls over 38 boundary operations from each of 4
        initial headers -> harness `edns replay` applies them to a live *dns.OPT and compares Hdr.Ttl,
        Hdr.Class and all six getters after every step with the spec's view
        Gen_Edns "msg": RCODE boundaries x additional-section shapes x OPT corners (+ SetEdns0) ->
        IsEdns0 index, Pack accept / octets / caller's OPT afterwards, Unpack Rcode + OPT view
TV      harness `edns record`: random setter runs, SetEdns0, Pack, Unpack of tweaked octets -> Trace_Edns

Mutants (checks/mutants/X01), all exit 1:
  z-mask-15bit          SetZ keeps 15 bits (clobbers CO)           GEN ops edns/SetZ:ttl.flags-hi, TV step
  z-getter-15bit        Z() returns 15 bits                        GEN ops edns/get:Z | edns/<op>:Z
  extrcode-shift        SetExtendedRcode stores v<<20 (spills into VERSION for v > 4095)   GEN ops edns/SetExtendedRcode:ttl.version
  setdo-variadic        SetDo(a, b) with 2 args behaves as 1 arg   GEN ops edns/SetDo:ttl.flags-hi
  version-mask          SetVersion clears the DO..Z half-word's top byte    GEN ops edns/SetVersion:ttl.flags-hi
  unpack-rcode-shift    Unpack joins ExtendedRcode without the << 4 GEN ops edns/get:ExtendedRcode, msg edns/unpack:rcode
  pack-no-reset         Pack sets the extended RCODE only when Rcode > 15   GEN msg edns/pack:octets
  setedns0-do           SetEdns0(_, false) still sets DO            GEN msg edns/setedns0:ttl.flags-hi, TV setedns0
  co-clears-do          SetCo(false) also clears DO                 GEN ops edns/SetCo:ttl.flags-hi, TV step
"""
import os, json
import vp


def gen_ops(ctx, binp, n, starts):
    def one(st):
        r, vecs = ctx.tlc_vectors("Gen_Edns", workers=1, xmx="2g", timeout=1200,
                                  consts={"Mode": '"ops"', "N": n, "Start": st, "Shard": 0, "NShards": 1})
        path = os.path.join(r.dir, "vectors.ndjson")
        if not os.path.exists(path):
            raise vp.Infra("Gen_Edns ops produced no vectors")
        vp.absorb(ctx, ctx.run_json(binp, ["replay", path]))
    vp.parallel([lambda st=st: one(st) for st in starts], maxpar=4)


def gen_msg(ctx, binp, n, start):
    r, vecs = ctx.tlc_vectors("Gen_Edns", workers=1, xmx="2g", timeout=1200,
                              consts={"Mode": '"msg"', "N": n, "Start": start, "Shard": 0, "NShards": 1})
    path = os.path.join(r.dir, "vectors.ndjson")
    if not os.path.exists(path):
        raise vp.Infra("Gen_Edns msg produced no vectors")
    vp.absorb(ctx, ctx.run_json(binp, ["replay", path]))


def keyfn(e):
    return "edns/trace:" + e["ev"] + (":" + e["op"] if e.get("op") else "")


def tv(ctx, binp, n, nproc):
    def one(k):
        out = os.path.join(ctx.out, "trace-%d.ndjson" % k)
        s = ctx.run_json(binp, ["record", out, str(n)], env={"VERIF_SEED": str(ctx.seed * 1000 + k)})
        vp.absorb(ctx, s, traces=False)
        tr = ctx.tlc_trace("Trace_Edns", out, xmx="2g", timeout=1800)
        evs = vp.read_ndjson(out)
        vp.absorb_trace(ctx, tr, evs, keyfn)
    vp.parallel([lambda k=k: one(k) for k in range(nproc)], maxpar=4)


def run(ctx):
    binp = ctx.build("edns")
    if ctx.quick:
        ctx.tlc("MC_Edns", consts={"Scale": 0}, workers=4, xmx="3g", timeout=900)
        gen_ops(ctx, binp, 3, [1 + ctx.seed % 4, 1 + (ctx.seed + 1) % 4])
        gen_msg(ctx, binp, 1, 1)
        tv(ctx, binp, 4000, 2)
    else:
        ctx.tlc("MC_Edns", consts={"Scale": 1}, workers=4, xmx="4g", timeout=1800)
        gen_ops(ctx, binp, 3, [1, 2, 3, 4])
        gen_msg(ctx, binp, 1, 1)
        tv(ctx, binp, 20000, 4)
    ctx.assumptions += [
        "Z is the 14 low bits (the library's documented reading after RFC 9824 took bit 14 for CO); RFC 6891 alone says 15",
        "SetExtendedRcode with an argument above 4095 (not an RCODE): only 'no other field changes' is demanded (AMBIG)",
        "at most one OPT per message (RFC 6891 s.6.1.1); which of several IsEdns0 returns is not judged",
    ]
    return ctx.finish(rule="vectors: every sequence of <= 3 of 38 boundary setter calls from 2 (quick) / 4 initial OPT headers, "
                      "view compared after every step; 10 RCODE boundaries x 10 additional-section shapes x 4 OPT corners "
                      "(+ SetEdns0 cases); events: random setter runs / SetEdns0 / Pack / Unpack of tweaked octets. "
                      "distinct = distinct (header, operation) or message inputs")


def replay(ctx, path):
    binp = ctx.build("edns")
    rp = json.load(open(path))
    case = rp["case"]
    if "event" in case:      # redo the recorded inputs against the real code, then let TLC judge the fresh observation
        pin, pout = os.path.join(ctx.out, "event-in.ndjson"), os.path.join(ctx.out, "event-out.ndjson")
        vp.write_ndjson(pin, [case["event"]])
        s = ctx.run_json(binp, ["reexec", pin, pout])
        tr = ctx.tlc_trace("Trace_Edns", pout)
        bad = bool(tr.bad) or not tr.accepted or bool(s["mismatches"])
    else:
        p = os.path.join(ctx.out, "one.ndjson")
        vp.write_ndjson(p, [case])
        s = ctx.run_json(binp, ["replay", p])
        bad = any(m["key"] == rp["key"] for m in s["mismatches"])
    if bad:
        print("VIOLATION property=%s replay=%s" % (ctx.id, path))
        return 1
    print("replay: discrepancy no longer present")
    return 0
