"""X08 (extra)  DANE: CertificateToDANE, TLSA / SMIMEA Sign and Verify, TLSAName, SMIMEAName.       spec/Dane.tla

The digests are uninterpreted in the specification: it says WHICH octets are hashed (selector 0 = the certificate's
DER, 1 = its SubjectPublicKeyInfo DER; the e-mail local-part), with which function (matching 1 = SHA-256, 2 =
SHA-512), how much is kept (28 octets for SMIMEA owner names) and how it is written (lower-case hexadecimal; either
case is read).  The binding supplies the functions as a table: `dane inputs` generates certificates with crypto/x509
now (ECDSA P-256 / P-384, Ed25519, RSA) and hashes the right pre-images AND decoys (TBSCertificate, subject, lower-cased
local-part, whole address); the specification picks by pre-image.

MC      MC_Dane: hexadecimal / decimal rendering round trips (either case is read, lower case is written, no leading
        zeros), CertificateToDANE / Sign / Verify on toy certificates with a toy digest (supported iff selector in
        {0,1} and matching in {0,1,2}; Sign then Verify; upper-cased text verifies; foreign certificate verifies iff
        the association data coincide), owner names (label structure, root, not fully qualified, port range, services)
GEN     Gen_Dane "dane": certificate x usage {0,3,255,256,-1} x selector {0,1,-1,2,3,255,256,257} x matching
        {0,1,2,-1,3,255,256,257,258} -> CertificateToDANE, TLSA.Sign, SMIMEA.Sign (result, fields, header untouched),
        Verify of 10 derived records (own, upper-cased, foreign certificate, truncated, other selector / matching,
        odd length, empty; built directly and through the zone-file parser)
        "names": TLSAName 5 names x 14 services x 3 networks; SMIMEAName 8 local-parts x 5 domains
TV      `dane record`: random calls with fresh certificates; every event carries certificate and digest table -> Trace_Dane

Findings on the unchanged tree (known-findings.d/X08.txt): Verify is case-sensitive on the hexadecimal text; Sign
truncates selector / matching type to 8 bits before checking; TLSAName / SMIMEAName with the root give an empty label.

Mutants (checks/mutants/X08), all exit 1:
  selector-swapped      selector 0 hashes the SPKI, 1 the certificate      GEN dane/todane:text:sel=*:mt=*, dane/sign:text, dane/verify:*
  sha512-is-sha384      matching type 2 uses SHA-384                       GEN dane/todane:text:sel=*:mt=2
  mt3-accepted          matching type 3 treated as SHA-512                 GEN dane/todane:accepts-unsupported, dane/sign:accepts-unsupported:*
  spki-is-pubkey        selector 1 uses the bare public key bits           GEN dane/todane:text:sel=1:*
  verify-ignores-mt     Verify compares with matching type 0 always        GEN dane/verify:rejects|accepts
  verify-prefix         Verify accepts a prefix of the data                GEN dane/verify:accepts:*
  smimea-32             SMIMEAName does not truncate to 28 octets          GEN dane/smimeaname:text
  smimea-lower          SMIMEAName lower-cases the local-part              GEN dane/smimeaname:text (local "User")
  tlsaname-no-fqdn      TLSAName accepts a relative name                   GEN dane/tlsaname:accepts
  tlsaname-service      TLSAName writes the service as given               GEN dane/tlsaname:text ("https", "0443")
  sign-rrtype           TLSA.Sign leaves Hdr.Rrtype alone                  GEN dane/sign:rrtype:TLSA
"""
import os, json
import vp


def make_inputs(ctx, binp, ncert):
    path = os.path.join(ctx.out, "dane_in.ndjson")
    ctx.run(binp, ["inputs", path, str(ncert)])
    return path


def gen(ctx, binp, inp, mode):
    def one():
        r, _ = ctx.tlc_vectors("Gen_Dane", workers=1, xmx="3g", timeout=1800, consts={"Mode": '"%s"' % mode},
                               files={"dane_in.ndjson": open(inp).read()})
        path = os.path.join(r.dir, "vectors.ndjson")
        if not os.path.exists(path):
            raise vp.Infra("Gen_Dane %s produced no vectors" % mode)
        vp.absorb(ctx, ctx.run_json(binp, ["replay", path, inp], timeout=1800))
    return one


def text(b):
    return bytes(b or []).decode("latin1")


def keyfn(e):
    ev = e["ev"]
    k = "dane/trace:" + ev
    if ev == "verify":
        t = text(e.get("text"))
        if not e.get("ok") and t != t.lower():
            return k + ":rejects:uppercase-hex"
    if ev == "sign":
        if e.get("ok") and not (0 <= e.get("sel", 0) <= 255 and 0 <= e.get("mt", 0) <= 255):
            return k + ":accepts-unsupported:arg-outside-uint8"
    if ev == "tlsaname" and text(e.get("name")) == ".":
        return k + ":root"
    if ev == "smimeaname" and text(e.get("domain")) == ".":
        return k + ":root"
    return k


def tv(ctx, binp, n, k):
    def one():
        out = os.path.join(ctx.out, "trace-%d.ndjson" % k)
        s = ctx.run_json(binp, ["record", out, str(n)], env={"VERIF_SEED": str(ctx.seed * 1000 + k)})
        vp.absorb(ctx, s, traces=False)
        tr = ctx.tlc_trace("Trace_Dane", out, xmx="3g", timeout=1800)
        vp.absorb_trace(ctx, tr, vp.read_ndjson(out), keyfn)
    return one


def run(ctx):
    binp = ctx.build("dane")
    inp = make_inputs(ctx, binp, 4 if ctx.quick else 8)
    ctx.tlc("MC_Dane", workers=4, xmx="3g", timeout=900)
    jobs = [gen(ctx, binp, inp, "dane"), gen(ctx, binp, inp, "names")] + [tv(ctx, binp, 600 if ctx.quick else 2500, k) for k in range(1 if ctx.quick else 3)]
    vp.parallel(jobs, maxpar=4)
    ctx.assumptions += [
        "the digests are uninterpreted: the binding tabulates crypto/sha256 and crypto/sha512 over candidate pre-images (right ones and decoys), the specification selects the pre-image, the truncation and the rendering",
        "AMBIG: a usage outside 0..255 given to Sign (the library does not interpret usages): an error or the usage modulo 256",
        "AMBIG: SMIMEAName with a domain that is not fully qualified: an error or the plain concatenation",
        "service NAMES are judged only for (https|smtp|imaps, tcp), (domain, tcp|udp) and names that are no service; other pairs depend on the system's services database",
        "TLSAName with a network that is no transport protocol name (tcp4, empty) is not in the universe",
        "the certificates are generated at run time (self-signed); nothing depends on their validity",
    ]
    return ctx.finish(rule="4 (quick) / 8 certificates x 5 usages x 8 selectors x 9 matching types, each with CertificateToDANE, 2 x Sign, "
                      "up to 10 x 2 Verify; 200+ owner-name cases; random calls judged by Trace_Dane. distinct = vectors / events")


def replay(ctx, path):
    binp = ctx.build("dane")
    rp = json.load(open(path))
    case = rp["case"]
    if "event" in case:
        pin, pout = os.path.join(ctx.out, "event-in.ndjson"), os.path.join(ctx.out, "event-out.ndjson")
        vp.write_ndjson(pin, [case["event"]])
        ctx.run_json(binp, ["reexec", pin, pout])
        tr = ctx.tlc_trace("Trace_Dane", pout)
        bad = bool(tr.bad) or not tr.accepted
    else:
        # the vectors depend on certificates made at run time: make new ones and ask the specification again
        inp = make_inputs(ctx, binp, 4)
        mode = "names" if rp["key"].startswith(("dane/tlsaname", "dane/smimeaname")) else "dane"
        r, _ = ctx.tlc_vectors("Gen_Dane", workers=1, xmx="3g", consts={"Mode": '"%s"' % mode}, files={"dane_in.ndjson": open(inp).read()})
        s = ctx.run_json(binp, ["replay", os.path.join(r.dir, "vectors.ndjson"), inp])
        bad = any(m["key"] == rp["key"] for m in s["mismatches"])
    if bad:
        print("VIOLATION property=%s replay=%s" % (ctx.id, path))
        return 1
    print("replay: discrepancy no longer present")
    return 0
