// Command fields binds spec/Fields.tla to format.go (dns.NumField, dns.Field).
//
//	fields record <layout> <vectors.ndjson> <out.ndjson>
//
// The vectors are Gen_WireRR's (abstract messages with the octets WireRR!EncMsg gives them).  Every record
// of every message becomes a Go value twice -- built field by field from the abstract record
// (harness/lib/wire, "build") and unpacked by the library from the specification's octets ("unpack") -- and
// NumField / Field(rr, i) are called for i = 0..NumField (and outside, once per type).  The events name the
// abstract value of the field the call looked at; Trace_Fields judges the texts.
package main

import (
	"fmt"
	"net"
	"os"
	"reflect"
	"sort"

	"github.com/miekg/dns"

	"verifharness/lib/hx"
	"verifharness/lib/wire"
)

type vec struct {
	G     string   `json:"g"`
	V     []int    `json:"v"`
	Msg   wire.Msg `json:"msg"`
	Ok    bool     `json:"ok"`
	Bytes hx.B     `json:"bytes"`
}

type Event struct {
	Ev    string      `json:"ev"`
	T     int         `json:"t"`
	Via   string      `json:"via"`
	N     *int        `json:"n,omitempty"`
	I     *int        `json:"i,omitempty"`
	Name  *string     `json:"name,omitempty"`
	Val   interface{} `json:"val,omitempty"`
	Sel   *int        `json:"sel,omitempty"`
	Panic *bool       `json:"panic,omitempty"`
	Text  *hx.B       `json:"text,omitempty"`
	Key   string      `json:"key"` // for findings: mnemonic + Go field name
}

func ip(i int) *int       { return &i }
func bp(b bool) *bool     { return &b }
func sp(s string) *string { return &s }

var (
	L    *wire.Layout
	seen = map[string]bool{}
	out  *hx.Writer
	sum  hx.Summary
)

func emit(e Event, dedupe string) {
	if dedupe != "" {
		if seen[dedupe] {
			return
		}
		seen[dedupe] = true
	}
	out.Emit(e)
	sum.Evaluations++
}

// gateway returns the layout entry whose address form or name form is the Go field `name`.
func gateway(t int, name string) (wire.Entry, bool) {
	for _, e := range L.FieldsOf(t) {
		if e.K == "gateway" && (e.N == name || e.Addr == name) {
			return e, true
		}
	}
	return wire.Entry{}, false
}

func kindOf(t int, name string) string {
	for _, e := range L.FieldsOf(t) {
		if e.N == name {
			return e.K
		}
	}
	return ""
}

func asInt(v interface{}) int {
	if f, ok := v.(float64); ok {
		return int(f)
	}
	return 0
}

func sortedInts(v interface{}) interface{} {
	s, ok := v.([]interface{})
	if !ok {
		return v
	}
	xs := make([]int, len(s))
	for i := range s {
		xs[i] = asInt(s[i])
	}
	sort.Ints(xs)
	o := make([]interface{}, len(xs))
	for i := range xs {
		o[i] = xs[i]
	}
	return o
}

func call(rr dns.RR, i int) (text string, panicked bool) {
	p := hx.Catch(func() { text = dns.Field(rr, i) })
	return text, p != ""
}

func observe(a *wire.RR, rr dns.RR, via string) {
	t := a.Type
	mn := L.Mnemonic(t)
	n := dns.NumField(rr)
	emit(Event{Ev: "numfield", T: t, Via: via, N: ip(n), Key: mn}, fmt.Sprint("n", t, via, n))
	st := reflect.TypeOf(rr).Elem()
	for _, i := range []int{-1, n + 1, n + 5} { // "Accessing non existing fields will cause a panic"
		text, pan := call(rr, i)
		b := hx.FromString(text)
		emit(Event{Ev: "field", T: t, Via: via, I: ip(i), Name: sp(""), Val: 0, Sel: ip(0), Panic: bp(pan), Text: &b, Key: mn + ":outside"},
			fmt.Sprint("o", t, via, i, pan, text))
	}
	for i := 0; i <= n; i++ {
		text, pan := call(rr, i)
		b := hx.FromString(text)
		e := Event{Ev: "field", T: t, Via: via, I: ip(i), Name: sp(""), Val: 0, Sel: ip(0), Panic: bp(pan), Text: &b, Key: mn + ":0"}
		if i > 0 && i < st.NumField() {
			name := st.Field(i).Name // which field of the abstract record the call looked at
			e.Name, e.Key = sp(name), mn+":"+name
			if g, ok := gateway(t, name); ok {
				e.Val = a.F[g.N]
				e.Sel = ip(asInt(a.F[g.Of]) % g.Mod)
			} else {
				e.Val = a.F[name]
				if k := kindOf(t, name); (k == "bitmap" || k == "bitmap0") && via == "unpack" {
					e.Val = sortedInts(e.Val) // on the wire a type list is a set; the library unpacks it in increasing order
				}
			}
			if e.Val == nil {
				e.Val = []int{}
			}
		}
		emit(e, fmt.Sprint("f", t, via, i, pan, text, wire.Canon(e.Val), *e.Sel))
	}
}

// with16 returns a copy of rr whose IPv4 address fields (layout kind "a") hold the 16-octet form, nil if it has none.
func with16(a *wire.RR, rr dns.RR) dns.RR {
	c := dns.Copy(rr)
	sv := reflect.ValueOf(c).Elem()
	any := false
	for _, e := range L.FieldsOf(a.Type) {
		if e.K != "a" {
			continue
		}
		fv := sv.FieldByName(e.N)
		if ip, ok := fv.Interface().(net.IP); ok && len(ip) == net.IPv4len {
			fv.Set(reflect.ValueOf(ip.To16()))
			any = true
		}
	}
	if !any {
		return nil
	}
	return c
}

func main() {
	if len(os.Args) < 5 || os.Args[1] != "record" {
		hx.Die("usage: fields record <layout> <vectors> <out>")
	}
	L = wire.LoadLayout(os.Args[2])
	wire.RegisterPrivate()
	out = hx.NewWriter(os.Args[4])
	types := map[int]bool{}
	hx.ReadNDJSON(os.Args[3], func(k int, v *vec) {
		rrs := v.Msg.RRs()
		var unpacked []dns.RR
		if v.Ok && len(v.Bytes) > 0 {
			m := new(dns.Msg)
			if err := m.Unpack(v.Bytes.Bytes()); err == nil {
				unpacked = append(append(append(unpacked, m.Answer...), m.Ns...), m.Extra...)
			}
		}
		for j, a := range rrs {
			if a.Nodata {
				continue
			}
			if _, private := dns.TypeToRR[uint16(a.Type)]; private && !L.Known(a.Type) {
				continue // the harness's own private type: a PrivateRR, not a struct of fields
			}
			if why := L.Inexpressible(a); why != "" {
				continue
			}
			types[a.Type] = true
			if rr, err := L.BuildRR(a); err == nil {
				observe(a, rr, "build")
				// an IPv4 address is also commonly held in its 16-octet form (net.ParseIP, the zone-file parser)
				if rr16 := with16(a, rr); rr16 != nil {
					observe(a, rr16, "build16")
				}
			}
			if len(unpacked) == len(rrs) && int(unpacked[j].Header().Rrtype) == a.Type {
				observe(a, unpacked[j], "unpack")
			}
		}
	})
	out.Close()
	sum.Nontrivial = len(types)
	sum.Note("types", len(types))
	sum.Print()
}
