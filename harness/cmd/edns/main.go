// Command edns binds spec/Edns.tla to the real code (extra check X01).
//
//	edns replay <vectors.ndjson>       TLC vectors (operation sequences on an OPT header; message-level
//	                                   RCODE split / join) -> real API, compared with the spec's values
//	edns record <out.ndjson> <n>       random operations / messages through the real API, logged for Trace_Edns
//	edns reexec <in.ndjson> <out.ndjson>   the inputs of recorded events once more through the real API (--replay)
package main

import (
	"bytes"
	"fmt"
	"os"
	"strconv"

	"github.com/miekg/dns"

	"verifharness/lib/hx"
)

// View is everything readable from an OPT header (spec: Edns!View).  W[i] = -1 in an
// expected view means "not constrained".
type View struct {
	W   []int `json:"w"`
	C   int   `json:"c"`
	Do  bool  `json:"do"`
	Co  bool  `json:"co"`
	Z   int   `json:"z"`
	Ver int   `json:"ver"`
	Xr  int   `json:"xr"`
	Udp int   `json:"udp"`
}

type step struct {
	Op  string `json:"op"`
	V   int    `json:"v"`
	Bs  []bool `json:"bs"`
	Exp View   `json:"exp"`
}

type vec struct {
	Kind  string `json:"kind"`
	W0    []int  `json:"w0"`
	C0    int    `json:"c0"`
	View0 View   `json:"view0"`
	Steps []step `json:"steps"`
	// msg
	Rcode    int      `json:"rcode"`
	Shape    []string `json:"shape"`
	Via      bool     `json:"via"`
	Udp      int      `json:"udp"`
	Do       bool     `json:"do"`
	OptIdx   int      `json:"optidx"`
	OptView  []View   `json:"optview"`
	Packable bool     `json:"packable"`
	Wire     hx.B     `json:"wire"`
	After    []View   `json:"after"`
	DecRcode int      `json:"dec_rcode"`
	DecView  []View   `json:"dec_view"`
}

func word(w []int) uint32 {
	return uint32(w[0])<<24 | uint32(w[1])<<16 | uint32(w[2])<<8 | uint32(w[3])
}

func newOpt(w []int, c int) *dns.OPT {
	o := new(dns.OPT)
	o.Hdr.Name = "."
	o.Hdr.Rrtype = dns.TypeOPT
	o.Hdr.Ttl = word(w)
	o.Hdr.Class = uint16(c)
	return o
}

func view(o *dns.OPT) View {
	t := o.Hdr.Ttl
	return View{W: []int{int(t >> 24), int(t >> 16 & 255), int(t >> 8 & 255), int(t & 255)}, C: int(o.Hdr.Class),
		Do: o.Do(), Co: o.Co(), Z: int(o.Z()), Ver: int(o.Version()), Xr: o.ExtendedRcode(), Udp: int(o.UDPSize())}
}

// diff names the first component in which the observed view differs from the expected one.
func diff(exp, got View) string {
	names := []string{"ttl.rcode", "ttl.version", "ttl.flags-hi", "ttl.flags-lo"}
	for i := 0; i < 4; i++ {
		if exp.W[i] != -1 && exp.W[i] != got.W[i] {
			return names[i]
		}
	}
	switch {
	case exp.C != got.C:
		return "class"
	case exp.Do != got.Do:
		return "Do"
	case exp.Co != got.Co:
		return "Co"
	case exp.Z != got.Z:
		return "Z"
	case exp.Ver != got.Ver:
		return "Version"
	case exp.Xr != -1 && exp.Xr != got.Xr:
		return "ExtendedRcode"
	case exp.Udp != got.Udp:
		return "UDPSize"
	}
	return ""
}

func apply(o *dns.OPT, op string, v int, bs []bool) {
	switch op {
	case "SetDo":
		o.SetDo(bs...)
	case "SetCo":
		o.SetCo(bs...)
	case "SetZ":
		o.SetZ(uint16(v))
	case "SetVersion":
		o.SetVersion(uint8(v))
	case "SetExtendedRcode":
		o.SetExtendedRcode(uint16(v))
	case "SetUDPSize":
		o.SetUDPSize(uint16(v))
	default:
		hx.Die("unknown operation %q", op)
	}
}

func main() {
	if len(os.Args) < 3 {
		hx.Die("usage: edns replay <vectors> | record <out> <n>")
	}
	switch os.Args[1] {
	case "replay":
		replay(os.Args[2])
	case "record":
		n, _ := strconv.Atoi(os.Args[3])
		record(os.Args[2], n)
	case "reexec": // reexec <events-in> <events-out>: redo the recorded inputs against the real code
		reexec(os.Args[2], os.Args[3])
	default:
		hx.Die("unknown mode %s", os.Args[1])
	}
}

func replay(path string) {
	var sum hx.Summary
	seen := map[string]bool{}
	hx.ReadNDJSON(path, func(i int, v *vec) {
		sum.Evaluations++
		if p := hx.Catch(func() { one(v, &sum, seen) }); p != "" {
			sum.Mis("edns/panic:"+v.Kind, "panic: "+p, v)
		}
		if i%9973 == 0 {
			sum.Sample(v)
		}
	})
	sum.Nontrivial = len(seen)
	sum.Print()
}

func one(v *vec, sum *hx.Summary, seen map[string]bool) {
	switch v.Kind {
	case "ops":
		o := newOpt(v.W0, v.C0)
		if d := diff(v.View0, view(o)); d != "" {
			sum.Mis("edns/get:"+d, fmt.Sprintf("fresh OPT ttl=%#08x class=%d reads %+v, spec %+v", o.Hdr.Ttl, v.C0, view(o), v.View0), v)
			return
		}
		for k, s := range v.Steps {
			before := view(o)
			apply(o, s.Op, s.V, s.Bs)
			got := view(o)
			seen[fmt.Sprint(before.W, before.C, s.Op, s.V, s.Bs)] = true
			if d := diff(s.Exp, got); d != "" {
				sum.Mis("edns/"+s.Op+":"+d, fmt.Sprintf("step %d: %s(%d %v) on %+v gives %+v, spec %+v", k+1, s.Op, s.V, s.Bs, before, got, s.Exp), v)
				return
			}
		}
	case "msg":
		msgVector(v, sum, seen)
	default:
		hx.Die("unknown vector kind %q", v.Kind)
	}
}

func aRec() dns.RR {
	return &dns.A{Hdr: dns.RR_Header{Name: "a.", Rrtype: dns.TypeA, Class: dns.ClassINET, Ttl: 3600}, A: []byte{192, 0, 2, 1}}
}

// buildMsg: id 0x1234, QR RD RA, question a. A IN, answer = one A record, additional = shape
func buildMsg(rcode int, shape []string, w0 []int, c0 int) *dns.Msg {
	m := new(dns.Msg)
	m.Id = 0x1234
	m.Response, m.RecursionDesired, m.RecursionAvailable = true, true, true
	m.Rcode = rcode
	m.Question = []dns.Question{{Name: "a.", Qtype: dns.TypeA, Qclass: dns.ClassINET}}
	m.Answer = []dns.RR{aRec()}
	for _, s := range shape {
		if s == "o" {
			m.Extra = append(m.Extra, newOpt(w0, c0))
		} else {
			m.Extra = append(m.Extra, aRec())
		}
	}
	return m
}

func optIndex(m *dns.Msg, o *dns.OPT) int {
	if o == nil {
		return 0
	}
	for i, rr := range m.Extra {
		if rr == dns.RR(o) {
			return i + 1
		}
	}
	return -1
}

func views(o *dns.OPT) []View {
	if o == nil {
		return []View{}
	}
	return []View{view(o)}
}

func cmpViews(exp, got []View) string {
	if len(exp) != len(got) {
		return "presence"
	}
	if len(exp) == 0 {
		return ""
	}
	return diff(exp[0], got[0])
}

func msgVector(v *vec, sum *hx.Summary, seen map[string]bool) {
	m := buildMsg(v.Rcode, v.Shape, v.W0, v.C0)
	if v.Via {
		if r := m.SetEdns0(uint16(v.Udp), v.Do); r != m {
			sum.Mis("edns/setedns0:result", "SetEdns0 does not return its receiver", v)
		}
	}
	seen[fmt.Sprint(v.Rcode, v.Shape, v.W0, v.C0, v.Via, v.Udp, v.Do)] = true
	o := m.IsEdns0()
	if ix := optIndex(m, o); ix != v.OptIdx {
		sum.Mis("edns/isedns0:index", fmt.Sprintf("IsEdns0 returns additional record %d, spec %d", ix, v.OptIdx), v)
		return
	}
	if d := cmpViews(v.OptView, views(o)); d != "" {
		k := "edns/isedns0:"
		if v.Via {
			k = "edns/setedns0:"
		}
		sum.Mis(k+d, fmt.Sprintf("OPT of the built message reads %+v, spec %+v", views(o), v.OptView), v)
		return
	}
	if v.Via && (o.Hdr.Name != "." || o.Hdr.Rrtype != dns.TypeOPT || len(o.Option) != 0) {
		sum.Mis("edns/setedns0:header", fmt.Sprintf("SetEdns0 made %q type %d with %d options", o.Hdr.Name, o.Hdr.Rrtype, len(o.Option)), v)
	}
	wire, err := m.Pack()
	if (err == nil) != v.Packable {
		k := "edns/pack-rejects:rcode"
		if err == nil {
			k = "edns/pack-accepts:rcode"
		}
		sum.Mis(k, fmt.Sprintf("Pack with Rcode=%d, OPT index %d: err=%v, spec packable=%v", v.Rcode, v.OptIdx, err, v.Packable), v)
		return
	}
	if err != nil {
		return
	}
	if !bytes.Equal(wire, v.Wire.Bytes()) {
		sum.Mis("edns/pack:octets", fmt.Sprintf("Pack with Rcode=%d gives %v, spec %v", v.Rcode, wire, v.Wire), v)
		return
	}
	if d := cmpViews(v.After, views(o)); d != "" {
		sum.Mis("edns/pack:caller-opt:"+d, fmt.Sprintf("after Pack the caller's OPT reads %+v, spec %+v", views(o), v.After), v)
	}
	// Unpack of the SPEC's octets
	var m2 dns.Msg
	if err := m2.Unpack(v.Wire.Bytes()); err != nil {
		sum.Mis("edns/unpack:error", fmt.Sprintf("Unpack of the spec's octets: %v", err), v)
		return
	}
	if m2.Rcode != v.DecRcode {
		sum.Mis("edns/unpack:rcode", fmt.Sprintf("Unpack gives Rcode %d, spec %d", m2.Rcode, v.DecRcode), v)
	}
	o2 := m2.IsEdns0()
	if ix := optIndex(&m2, o2); ix != v.OptIdx {
		sum.Mis("edns/unpack:isedns0", fmt.Sprintf("after Unpack IsEdns0 returns additional record %d, spec %d", ix, v.OptIdx), v)
		return
	}
	if d := cmpViews(v.DecView, views(o2)); d != "" {
		sum.Mis("edns/unpack:opt:"+d, fmt.Sprintf("after Unpack the OPT reads %+v, spec %+v", views(o2), v.DecView), v)
	}
}

// ---------------------------------------------------------------------------- record

type pre struct {
	W []int `json:"w"`
	C int   `json:"c"`
}

type event struct {
	Ev string `json:"ev"`
	// step
	Op   string `json:"op,omitempty"`
	V    int    `json:"v"`
	Bs   []bool `json:"bs"`
	Pre  *pre   `json:"pre,omitempty"`
	Post *View  `json:"post,omitempty"`
	// setedns0
	N     int    `json:"n"`
	N2    int    `json:"n2"`
	Udp   int    `json:"udp"`
	Do    bool   `json:"do"`
	Idx   int    `json:"idx"`
	Name  hx.B   `json:"name"`
	Type  int    `json:"type"`
	NOpts int    `json:"nopts"`
	View  []View `json:"view"`
	// pack / unpack
	Rcode int      `json:"rcode"`
	Shape []string `json:"shape"`
	W0    []int    `json:"w0"`
	C0    int      `json:"c0"`
	Ok    bool     `json:"ok"`
	Wire  hx.B     `json:"wire"`
	After []View   `json:"after"`
}

var boundary16 = []int{0, 1, 15, 16, 255, 256, 511, 512, 1232, 4095, 4096, 8191, 8192, 16383, 16384, 32767, 32768, 49151, 49152, 65534, 65535}

func record(out string, n int) {
	r := hx.Rand()
	w := hx.NewWriter(out)
	var sum hx.Summary
	seen := map[string]bool{}
	rnd16 := func() int {
		if r.Intn(3) == 0 {
			return boundary16[r.Intn(len(boundary16))]
		}
		return r.Intn(65536)
	}
	rndWord := func() []int {
		switch r.Intn(6) {
		case 0:
			return []int{0, 0, 0, 0}
		case 1:
			return []int{255, 255, 255, 255}
		}
		return []int{r.Intn(256), r.Intn(256), r.Intn(256), r.Intn(256)}
	}
	ops := []string{"SetDo", "SetCo", "SetZ", "SetVersion", "SetExtendedRcode", "SetUDPSize"}
	emit := func(e *event) {
		if e.Bs == nil {
			e.Bs = []bool{}
		}
		if e.Shape == nil {
			e.Shape = []string{}
		}
		if e.View == nil {
			e.View = []View{}
		}
		if e.After == nil {
			e.After = []View{}
		}
		if e.W0 == nil {
			e.W0 = []int{0, 0, 0, 0}
		}
		w.Emit(e)
		sum.Evaluations++
		if w.N%997 == 1 {
			sum.Sample(e)
		}
	}
	shapes := [][]string{{}, {"a"}, {"o"}, {"a", "a"}, {"a", "o"}, {"o", "a"}, {"a", "a", "a"}, {"o", "a", "a"}, {"a", "o", "a"}, {"a", "a", "o"}}
	for w.N < n {
		switch k := r.Intn(10); {
		case k < 6: // a run of setter calls on one live OPT
			o := newOpt(rndWord(), rnd16())
			for j := r.Intn(6) + 1; j > 0; j-- {
				e := &event{Ev: "step", Op: ops[r.Intn(len(ops))]}
				switch e.Op {
				case "SetDo", "SetCo":
					for b := r.Intn(4); b > 0; b-- {
						e.Bs = append(e.Bs, r.Intn(2) == 0)
					}
				case "SetVersion":
					e.V = r.Intn(256)
				case "SetExtendedRcode":
					if r.Intn(4) == 0 {
						e.V = rnd16()
					} else {
						e.V = r.Intn(4096)
					}
				default:
					e.V = rnd16()
				}
				b := view(o)
				e.Pre = &pre{b.W, b.C}
				if p := hx.Catch(func() { apply(o, e.Op, e.V, e.Bs) }); p != "" {
					sum.Mis("edns/panic:"+e.Op, "panic: "+p, e)
					continue
				}
				a := view(o)
				e.Post = &a
				seen[fmt.Sprint(b.W, b.C, e.Op, e.V, e.Bs)] = true
				emit(e)
			}
		case k == 6: // SetEdns0
			e := &event{Ev: "setedns0", N: r.Intn(3), Udp: rnd16(), Do: r.Intn(2) == 0}
			m := new(dns.Msg)
			for i := 0; i < e.N; i++ {
				m.Extra = append(m.Extra, aRec())
			}
			m.SetEdns0(uint16(e.Udp), e.Do)
			o := m.IsEdns0()
			e.N2, e.Idx, e.View = len(m.Extra), optIndex(m, o), views(o)
			if o != nil {
				e.Name, e.Type, e.NOpts = hx.FromString(o.Hdr.Name), int(o.Hdr.Rrtype), len(o.Option)
			}
			seen[fmt.Sprint("set", e.N, e.Udp, e.Do)] = true
			emit(e)
		default: // pack, then unpack of a tweaked copy
			e := &event{Ev: "pack", Shape: shapes[r.Intn(len(shapes))], W0: rndWord(), C0: rnd16()}
			switch r.Intn(8) {
			case 0:
				e.Rcode = []int{-1, 4096, 4097, 65535, 1 << 20}[r.Intn(5)]
			case 1:
				e.Rcode = r.Intn(16)
			default:
				e.Rcode = r.Intn(4096)
			}
			m := buildMsg(e.Rcode, e.Shape, e.W0, e.C0)
			o := m.IsEdns0()
			e.Idx = optIndex(m, o)
			wire, err := m.Pack()
			e.Ok = err == nil
			if err == nil {
				e.Wire = hx.FromBytes(wire)
				e.After = views(o)
			}
			seen[fmt.Sprint("pack", e.Rcode, e.Shape, e.W0, e.C0)] = true
			emit(e)
			if err != nil {
				continue
			}
			// tweak: RCODE nibble, OPT class + ttl octets (offsets follow from the fixed shape)
			tw := append([]byte(nil), wire...)
			tw[3] = tw[3]&0xF0 | byte(r.Intn(16))
			off := 12 + 6 + 16
			for _, s := range e.Shape {
				if s == "o" {
					for i := 3; i < 9; i++ { // CLASS(2) TTL(4) follow root owner (1) and TYPE (2)
						if r.Intn(2) == 0 {
							tw[off+i] = byte(r.Intn(256))
						}
					}
					off += 11
				} else {
					off += 16
				}
			}
			u := &event{Ev: "unpack", Wire: hx.FromBytes(tw)}
			var m2 dns.Msg
			uerr := m2.Unpack(tw)
			u.Ok = uerr == nil
			if uerr == nil {
				o2 := m2.IsEdns0()
				u.Rcode, u.Idx, u.View = m2.Rcode, optIndex(&m2, o2), views(o2)
			}
			emit(u)
		}
	}
	w.Close()
	sum.Nontrivial = len(seen)
	sum.Print()
}

// redo fills the observation fields of e from its input fields by running the real code.
func redo(e *event) {
	switch e.Ev {
	case "step":
		o := newOpt(e.Pre.W, e.Pre.C)
		apply(o, e.Op, e.V, e.Bs)
		a := view(o)
		e.Post = &a
	case "setedns0":
		m := new(dns.Msg)
		for i := 0; i < e.N; i++ {
			m.Extra = append(m.Extra, aRec())
		}
		m.SetEdns0(uint16(e.Udp), e.Do)
		o := m.IsEdns0()
		e.N2, e.Idx, e.View = len(m.Extra), optIndex(m, o), views(o)
		if o != nil {
			e.Name, e.Type, e.NOpts = hx.FromString(o.Hdr.Name), int(o.Hdr.Rrtype), len(o.Option)
		}
	case "pack":
		m := buildMsg(e.Rcode, e.Shape, e.W0, e.C0)
		o := m.IsEdns0()
		e.Idx = optIndex(m, o)
		wire, err := m.Pack()
		e.Ok, e.Wire, e.After = err == nil, nil, nil
		if err == nil {
			e.Wire = hx.FromBytes(wire)
			e.After = views(o)
		}
	case "unpack":
		var m2 dns.Msg
		uerr := m2.Unpack(e.Wire.Bytes())
		e.Ok, e.Rcode, e.Idx, e.View = uerr == nil, 0, 0, nil
		if uerr == nil {
			o2 := m2.IsEdns0()
			e.Rcode, e.Idx, e.View = m2.Rcode, optIndex(&m2, o2), views(o2)
		}
	default:
		hx.Die("unknown event %q", e.Ev)
	}
}

func norm(e *event) {
	if e.Bs == nil {
		e.Bs = []bool{}
	}
	if e.Shape == nil {
		e.Shape = []string{}
	}
	if e.View == nil {
		e.View = []View{}
	}
	if e.After == nil {
		e.After = []View{}
	}
	if e.W0 == nil {
		e.W0 = []int{0, 0, 0, 0}
	}
}

func reexec(in, out string) {
	var sum hx.Summary
	w := hx.NewWriter(out)
	hx.ReadNDJSON(in, func(i int, e *event) {
		if p := hx.Catch(func() { redo(e) }); p != "" {
			sum.Mis("edns/panic:"+e.Ev, "panic: "+p, e)
		}
		norm(e)
		w.Emit(e)
		sum.Evaluations++
	})
	w.Close()
	sum.Print()
}
