package main

import (
	"fmt"
	"os"

	"github.com/miekg/dns"

	rw "verifharness/lib/reflectwalk"
)

func main() {
	for _, k := range rw.Kinds() {
		rr := k.Build()
		buf := make([]byte, 4096)
		off, err := dns.PackRR(rr, buf, 0, nil, false)
		var rr2 dns.RR
		var err2 error
		if err == nil {
			rr2, _, err2 = dns.UnpackRR(buf[:off], 0)
		}
		s, cells := rw.WalkCells(rr)
		fmt.Printf("%-12s pack=%v unpack=%v regions=%d cells=%d\n", k.Name, err, err2, len(s.Regions), len(cells))
		if len(os.Args) > 1 && os.Args[1] == k.Name {
			for _, r := range s.Regions {
				fmt.Printf("   %s %x-%x %v\n      %s\n", r.Name, r.Lo, r.Hi, r.Paths, r.Exact)
			}
			fmt.Println("   bk:", s.Bk)
			for _, c := range cells {
				fmt.Printf("   cell %s (%s) part=%d ref=%v safe=%d\n", c.Path, c.Name, c.Part, c.Ref, c.Safe)
			}
			if rr2 != nil {
				s2 := rw.Walk(rr2)
				fmt.Println("  eq-after-roundtrip:", s2.Norm() == s.Norm())
				if s2.Norm() != s.Norm() {
					fmt.Println(s.Norm())
					fmt.Println(s2.Norm())
				}
			}
		}
	}
}
