// Command heap binds spec/Heap.tla to the real code (property C16).
//
//	heap replay <vectors.ndjson> <shard> <nshards> [case]
//	      executes every TLC-exported operation sequence on every record type of
//	      dns.TypeToRR (fully populated by reflection), on an unknown-type record, a
//	      registered private type and on whole messages (Msg.Copy and Msg.CopyTo), and
//	      compares the real heap after each step with what the specification predicts.
//	      Behaviours with the caller's Alias (cp := *m; one section slice assigned) and a
//	      CopyTo INTO A LIVE OBJECT run on whole messages.
//	heap record <out.ndjson> <episodes>
//	      random operation sequences over random types; each event carries the observed
//	      heap (region ids per backing store, content digests) for Trace_Heap.
//	heap kinds
//	      lists the cases.
//
// The harness does not decide what a correct copy is: which objects may change, which
// must be equal and which regions must be disjoint comes from the vector (replay) or is
// judged by TLC (record).  The harness observes: addresses, deep snapshots.
package main

import (
	"bytes"
	"crypto"
	"fmt"
	"os"
	"runtime/debug"
	"sort"
	"strconv"
	"strings"

	"github.com/miekg/dns"

	"verifharness/lib/hx"
	rw "verifharness/lib/reflectwalk"
)

// ---------------------------------------------------------------------------
// objects under test

type object interface {
	Root() interface{}
	Copy() object
	Persist(slot int) // a persistent, validity-preserving mutation
	RO(op string, other object, sum *hx.Summary, cs string) bool
	Pack() ([]byte, error)
}

type rrObj struct{ rr dns.RR }
type msgObj struct {
	m      *dns.Msg
	copyTo bool
}

var (
	signKey  crypto.Signer
	signDNS  *dns.DNSKEY
	allKinds = rw.Kinds()
)

func initKey() {
	k := &dns.DNSKEY{Hdr: dns.RR_Header{Name: "Example.ORG.", Rrtype: dns.TypeDNSKEY, Class: dns.ClassINET, Ttl: 3600},
		Flags: 257, Protocol: 3, Algorithm: dns.ED25519}
	p, err := k.Generate(256)
	if err != nil {
		hx.Die("keygen: %v", err)
	}
	signKey = p.(crypto.Signer)
	signDNS = k
}

func newSig() *dns.RRSIG {
	return &dns.RRSIG{Hdr: dns.RR_Header{Ttl: 3600}, Algorithm: dns.ED25519, KeyTag: signDNS.KeyTag(), SignerName: signDNS.Hdr.Name,
		Inception: 1700000000, Expiration: 1900000000}
}

// roStates: the argument states in which the current read-only step is executed (from the
// vector: Gen_Heap!ROStates; the recorder uses allVerifyStates).  verifyOK counts, per state, the
// verifications that succeeded (non-vacuity: reported as a note).
var (
	roStates        []string
	allVerifyStates = []string{"ttl=orig", "ttl<orig", "ttl>orig", "bad-signature"}
	verifyOK        = map[string]int{}
	verifyRuns      = map[string]int{}
)

// signVerify runs Sign (and Verify when asked) on rrset; the arguments of Verify other
// than the rrset -- the RRSIG and the key -- are observed here, the rrset by the caller.
// Verify is run once per state of roStates: the signature is made over an equal rrset whose
// TTL is the rrset's ("ttl=orig"), twice that ("ttl<orig": the rrset's TTL lies below the
// original TTL) or half of it ("ttl>orig"), with the RRSIG's own TTL following the copy's or
// (ttl>orig) staying at the rrset's; "bad-signature": one octet of the signature changed.
func signVerify(rrset []dns.RR, verify bool, sum *hx.Summary, cs string) bool {
	if len(rrset) == 0 {
		return false
	}
	if !verify {
		return newSig().Sign(signKey, rrset) == nil
	}
	states := roStates
	if len(states) == 0 {
		states = allVerifyStates[:1]
	}
	all := true
	for _, st := range states {
		sig := newSig()
		fix := make([]dns.RR, len(rrset)) // the signature to verify is made over an equal rrset
		ttl := rrset[0].Header().Ttl
		sig.Hdr.Ttl = ttl
		switch st {
		case "ttl<orig":
			ttl = ttl*2 + 1
		case "ttl>orig":
			ttl /= 2
		}
		for i, r := range rrset {
			fix[i] = dns.Copy(r)
			fix[i].Header().Ttl = ttl
		}
		if err := sig.Sign(signKey, fix); err != nil {
			all = false
			continue
		}
		if st == "bad-signature" && len(sig.Signature) > 4 {
			c := byte('A')
			if sig.Signature[3] == 'A' {
				c = 'B'
			}
			sig.Signature = sig.Signature[:3] + string(c) + sig.Signature[4:]
		}
		s0, k0 := rw.Walk(sig), rw.Walk(signDNS)
		err := sig.Verify(signDNS, rrset)
		s1, k1 := rw.Walk(sig), rw.Walk(signDNS)
		if s0.Exact() != s1.Exact() || s0.Bk != s1.Bk {
			name, _ := rw.FirstDiff(s0, s1)
			sum.Mis("readonly/verify-mutates:rrsig-argument", fmt.Sprintf("RRSIG.Verify (%s, error %v) changed its receiver (%s)", st, err, name), map[string]interface{}{"case": cs})
		}
		if k0.Exact() != k1.Exact() || k0.Bk != k1.Bk {
			sum.Mis("readonly/verify-mutates:dnskey-argument", fmt.Sprintf("RRSIG.Verify (%s) changed the key", st), map[string]interface{}{"case": cs})
		}
		verifyRuns[st]++
		if err == nil {
			verifyOK[st]++
		}
		if (err == nil) != (st != "bad-signature") {
			all = false
		}
	}
	return all
}

func (o *rrObj) Root() interface{} { return o.rr }
func (o *rrObj) Copy() object      { return &rrObj{dns.Copy(o.rr)} }
func (o *rrObj) Pack() ([]byte, error) {
	b := make([]byte, dns.Len(o.rr)+16)
	off, err := dns.PackRR(o.rr, b, 0, nil, false)
	if err != nil {
		return nil, err
	}
	return append([]byte(nil), b[:off]...), nil // a right-sized, separately allocated buffer
}
func (o *rrObj) Persist(slot int) {
	if slot == 2 {
		if persistNested(o.rr) {
			return
		}
		o.rr.Header().Ttl ^= 4
		return
	}
	o.rr.Header().Ttl ^= 2
}
func (o *rrObj) RO(op string, other object, sum *hx.Summary, cs string) bool {
	switch op {
	case "Pack":
		b := make([]byte, 8192)
		_, err := dns.PackRR(o.rr, b, 0, nil, false)
		_, err2 := dns.PackRR(o.rr, b, 0, map[string]int{}, true)
		return err == nil && err2 == nil
	case "Len":
		return dns.Len(o.rr) > 0
	case "String":
		return len(o.rr.String()) > 0
	case "IsDuplicate":
		r2 := o.rr
		if p, ok := other.(*rrObj); ok && p != nil {
			r2 = p.rr
		}
		dns.IsDuplicate(o.rr, r2)
		dns.IsDuplicate(r2, o.rr)
		return true
	case "Copy":
		return dns.Copy(o.rr) != nil
	case "Sign":
		return signVerify([]dns.RR{o.rr}, false, sum, cs)
	case "Verify":
		return signVerify([]dns.RR{o.rr}, true, sum, cs)
	}
	hx.Die("unknown read-only op %q", op)
	return false
}

func (o *msgObj) Root() interface{} { return o.m }
func (o *msgObj) Copy() object {
	if o.copyTo {
		dirty := buildMsg(true) // a used message: every section already populated
		return &msgObj{o.m.CopyTo(dirty), o.copyTo}
	}
	return &msgObj{o.m.Copy(), o.copyTo}
}
func (o *msgObj) Pack() ([]byte, error) {
	b, err := o.m.Pack()
	if err != nil {
		return nil, err
	}
	return append([]byte(nil), b...), nil
}
func (o *msgObj) Persist(slot int) {
	if slot == 2 {
		if sec, q := nestedOf(o.m); sec != nil {
			(*sec)[0].Header().Ttl ^= 2
			return
		} else if q {
			o.m.Question[0].Qtype ^= 1
			return
		}
	}
	o.m.Id ^= 1
}

// nestedOf: the nested store of a message that slot 2 of the specification's objects stands
// for -- the first record of its first non-empty section (an OPT, whose TTL is no TTL, only if
// there is nothing else), or its first question when it has no records.
func nestedOf(m *dns.Msg) (sec *[]dns.RR, question bool) {
	var opt *[]dns.RR
	for _, s := range []*[]dns.RR{&m.Answer, &m.Ns, &m.Extra} {
		if len(*s) == 0 {
			continue
		}
		if (*s)[0].Header().Rrtype == dns.TypeOPT {
			if opt == nil {
				opt = s
			}
			continue
		}
		return s, false
	}
	if len(m.Question) > 0 {
		return nil, true
	}
	return opt, false
}

// Alias is the CALLER's shallow copy of the message: "all" -- cp := *m, every section and record
// shared; "one" -- a message of its own (filled by an earlier CopyTo) to which the caller then
// assigned one section slice of m.  nil: the message has nothing to share.
func (o *msgObj) Alias(how string) object {
	sec, q := nestedOf(o.m)
	if sec == nil && !q {
		return nil
	}
	if how == "all" {
		cp := *o.m
		return &msgObj{&cp, o.copyTo}
	}
	t := new(dns.Msg)
	o.m.CopyTo(t)
	switch {
	case q:
		t.Question = o.m.Question
	case sec == &o.m.Answer:
		t.Answer = o.m.Answer
	case sec == &o.m.Ns:
		t.Ns = o.m.Ns
	default:
		t.Extra = o.m.Extra
	}
	return &msgObj{t, o.copyTo}
}

// CopyInto: Msg.CopyTo into the live message t.
func (o *msgObj) CopyInto(t object) bool {
	tm, ok := t.(*msgObj)
	if !ok {
		return false
	}
	return o.m.CopyTo(tm.m) == tm.m
}

// aliaser: the objects a caller can alias and that can be copied INTO a live object (messages).
type aliaser interface {
	Alias(how string) object
	CopyInto(t object) bool
}

func (o *msgObj) RO(op string, other object, sum *hx.Summary, cs string) bool {
	m := o.m
	switch op {
	case "Pack":
		_, err := m.Pack()
		_, err2 := m.PackBuffer(make([]byte, 16384))
		return err == nil && err2 == nil
	case "Len":
		return m.Len() > 0
	case "String":
		return len(m.String()) > 0
	case "IsDuplicate":
		m2 := m
		if p, ok := other.(*msgObj); ok && p != nil {
			m2 = p.m
		}
		for _, pr := range [][2][]dns.RR{{m.Answer, m2.Answer}, {m.Ns, m2.Ns}, {m.Extra, m2.Extra}} {
			for i := range pr[0] {
				if i < len(pr[1]) {
					dns.IsDuplicate(pr[0][i], pr[1][i])
					dns.IsDuplicate(pr[1][i], pr[0][i])
				}
			}
		}
		return true
	case "Copy":
		return m.Copy() != nil
	case "Sign":
		return signVerify(m.Answer, false, sum, cs)
	case "Verify":
		return signVerify(m.Answer, true, sum, cs)
	}
	hx.Die("unknown read-only op %q", op)
	return false
}

// persistNested changes, for good, one cell of a nested backing store such that the
// record stays well-formed (an octet, the last entry of a type list, a text).
func persistNested(root interface{}) bool {
	_, cells := rw.WalkCells(root)
	for i := len(cells) - 1; i >= 0; i-- {
		if cells[i].Safe > 0 && cells[i].Part > 0 {
			cells[i].Mutate()
			return true
		}
	}
	return false
}

func buildMsg(small bool) *dns.Msg {
	m := new(dns.Msg)
	m.Id = 0x1234
	m.Response = true
	m.RecursionDesired = true
	m.Compress = true
	m.Rcode = dns.RcodeBadVers // an extended RCODE: Pack writes its upper bits into the OPT header
	// the answer RRset: lower-case owner (no header rewrite when signing), mixed-case RDATA names
	m.Question = []dns.Question{{Name: "host.example.org.", Qtype: dns.TypeMX, Qclass: dns.ClassINET}}
	for i := 0; i < 2; i++ {
		mx := &dns.MX{}
		rw.Populate(mx, dns.TypeMX)
		rw.LowerOwner(mx)
		mx.Preference = uint16(10 * (i + 1))
		mx.Mx = "Mail" + strconv.Itoa(i) + ".Example.ORG."
		m.Answer = append(m.Answer, mx)
	}
	var opt dns.RR
	n := 0
	put := func(rr dns.RR) {
		if n%2 == 0 {
			m.Ns = append(m.Ns, rr)
		} else {
			m.Extra = append(m.Extra, rr)
		}
		n++
	}
	for _, k := range allKinds {
		rr := k.Build()
		pick := k.Type == dns.TypeAAAA || k.Type == dns.TypeAPL || k.Type == dns.TypeSVCB || k.Type == dns.TypeNSEC || k.Type == dns.TypeTXT
		switch k.Type {
		case dns.TypeOPT, dns.TypeSVCB, dns.TypeHTTPS, dns.TypeAPL:
			rw.Unsort(rr) // hand-built order: parameters, options, prefixes not sorted
		}
		if k.Type == dns.TypeOPT {
			opt = rr
			continue
		}
		if small && !pick {
			continue
		}
		put(rr)
		if pick { // and with zero-length fields (len 0, cap > 0) wherever the record still packs and unpacks
			for _, v := range rw.Variants(k) {
				if strings.HasSuffix(v.Name, "#emptycap") && v.BuildWire != nil {
					put(v.BuildWire())
				}
			}
		}
	}
	m.Extra = append(m.Extra, opt)
	return m
}

// shapeMsg: the small message rearranged.
func shapeMsg(shape string) *dns.Msg {
	m := buildMsg(true)
	opt := m.Extra[len(m.Extra)-1]
	rest := append([]dns.RR(nil), m.Extra[:len(m.Extra)-1]...)
	switch shape {
	case "opt-first":
		m.Extra = append([]dns.RR{opt}, rest...)
	case "opt-middle+tsig":
		ts := &dns.TSIG{}
		rw.Populate(ts, dns.TypeTSIG)
		ts.Hdr.Class, ts.Hdr.Ttl = dns.ClassANY, 0
		h := len(rest) / 2
		m.Extra = append(append(append([]dns.RR{}, rest[:h]...), opt), rest[h:]...)
		m.Extra = append(m.Extra, ts)
	case "two-questions+empty-sections":
		m.Question = append(m.Question, dns.Question{Name: "Other.Example.ORG.", Qtype: dns.TypeTXT, Qclass: dns.ClassCHAOS})
		m.Answer, m.Ns = nil, []dns.RR{}
		m.Extra = []dns.RR{opt}
	case "no-opt":
		m.Rcode = dns.RcodeNameError
		m.Extra = rest
	case "windowed-sections":
		// every section is a WINDOW with spare capacity into a larger array that others still use
		// (m.Answer = cache[:n]): the elements behind len are live records, visible in the exact snapshot
		win := func(rrs []dns.RR) []dns.RR {
			cache := make([]dns.RR, 0, len(rrs)+24)
			cache = append(cache, rrs...)
			for i := 0; i < 24; i++ { // the neighbours in the cache: more of them than the later sections have records
				a := &dns.A{}
				rw.Populate(a, dns.TypeA)
				cache = append(cache, a)
			}
			return cache[:len(rrs)]
		}
		m.Answer, m.Ns, m.Extra = win(m.Answer), win(m.Ns), win(m.Extra)
		qs := append(make([]dns.Question, 0, 3), m.Question[0], dns.Question{Name: "Cached.Example.ORG.", Qtype: dns.TypeA, Qclass: dns.ClassINET})
		m.Question = qs[:1]
	case "no-records/q0", "no-records/q1", "no-records/q2", "no-records/q1/uncompressed":
		// header and questions only (a query, an empty reply): nothing a compression pointer could
		// point to, every header flag set
		m.Rcode = dns.RcodeRefused
		m.Answer, m.Ns, m.Extra = nil, nil, nil
		m.Authoritative, m.Truncated, m.RecursionAvailable, m.Zero, m.AuthenticatedData, m.CheckingDisabled = true, true, true, true, true, true
		m.Compress = shape != "no-records/q1/uncompressed"
		switch shape {
		case "no-records/q0":
			m.Question = nil
		case "no-records/q2":
			m.Question = append(m.Question, dns.Question{Name: "Other.Example.ORG.", Qtype: dns.TypeTXT, Qclass: dns.ClassCHAOS})
		}
	}
	return m
}

// ---------------------------------------------------------------------------
// cases

type tcase struct {
	name   string
	build  func() object
	wire   func() object // the instance whose packing is the Unpack input (nil: build)
	base   func() object // fully populated instance of the same kind (fallback Unpack input)
	unpack func(buf []byte) (object, error)
}

// wireInput is the buffer the case's Unpack operations decode: the packing of the wire
// instance, of the instance itself, or (a variant the library refuses to pack or to read
// back, e.g. an unsorted type bitmap) of the fully populated instance of the kind.
func (tc *tcase) wireInput() []byte {
	var cands []func() object
	if tc.wire != nil {
		cands = append(cands, tc.wire)
	}
	cands = append(cands, tc.build)
	if tc.base != nil {
		cands = append(cands, tc.base)
	}
	for _, f := range cands {
		if b, err := f().Pack(); err == nil {
			if _, err := tc.unpack(b); err == nil {
				return b
			}
		}
	}
	hx.Die("case %s: no instance packs and unpacks", tc.name)
	return nil
}

func cases() []tcase {
	var cs []tcase
	for _, k0 := range allKinds {
		k0 := k0
		for _, k := range rw.Variants(k0) {
			k := k
			tc := tcase{name: k.Name,
				build: func() object { return &rrObj{k.Build()} },
				base:  func() object { return &rrObj{k0.Build()} },
				unpack: func(buf []byte) (object, error) {
					rr, _, err := dns.UnpackRR(buf, 0)
					if err != nil {
						return nil, err
					}
					return &rrObj{rr}, nil
				}}
			if k.BuildWire != nil {
				tc.wire = func() object { return &rrObj{k.BuildWire()} }
			}
			cs = append(cs, tc)
		}
	}
	for _, ct := range []bool{false, true} {
		ct := ct
		name := "Msg"
		if ct {
			name = "Msg/CopyTo"
		}
		cs = append(cs, tcase{name: name,
			build: func() object { return &msgObj{buildMsg(false), ct} },
			unpack: func(buf []byte) (object, error) {
				m := new(dns.Msg)
				if err := m.Unpack(buf); err != nil {
					return nil, err
				}
				return &msgObj{m, ct}, nil
			}})
	}
	// small messages in other shapes: where the OPT sits in the additional section, a TSIG after it,
	// two questions, empty sections, no OPT at all
	for _, shape := range []string{"opt-first", "opt-middle+tsig", "two-questions+empty-sections", "no-opt",
		"no-records/q0", "no-records/q1", "no-records/q2", "no-records/q1/uncompressed", "windowed-sections"} {
		shape := shape
		cs = append(cs, tcase{name: "Msg/small/" + shape,
			build: func() object { return &msgObj{shapeMsg(shape), false} },
			unpack: func(buf []byte) (object, error) {
				m := new(dns.Msg)
				if err := m.Unpack(buf); err != nil {
					return nil, err
				}
				return &msgObj{m, false}, nil
			}})
	}
	// a source without question section, copied into a used message
	cs = append(cs, tcase{name: "Msg/CopyTo/no-question",
		build: func() object {
			m := buildMsg(true)
			m.Question = nil
			return &msgObj{m, true}
		},
		unpack: func(buf []byte) (object, error) {
			m := new(dns.Msg)
			if err := m.Unpack(buf); err != nil {
				return nil, err
			}
			return &msgObj{m, true}, nil
		}})
	return cs
}

// ---------------------------------------------------------------------------
// replay

type step struct {
	Op    string  `json:"op"`
	Ro    string  `json:"ro"`
	States []string `json:"states"` // ro: the argument states in which the operation is executed (Gen_Heap!ROStates)
	X     int     `json:"x"`
	Y     int     `json:"y"`
	Slot  int     `json:"slot"`
	How   string  `json:"how"` // alias: "all" (shallow struct copy) | "one" (one section assigned)
	Live  []int   `json:"live"`
	Regs  [][]int `json:"regs"`
	Vals  [][]int `json:"vals"`
	Buf   int     `json:"buf"`
	BufOK bool    `json:"bufok"`
	Chg   []int   `json:"chg"`
	Tgt   []int   `json:"tgt"`
	BkMay []int   `json:"bkmay"`
	Eq    []int   `json:"eq"`
}

type vector struct {
	Ops  []step `json:"ops"`
	Case string `json:"case,omitempty"` // set in replay files: restrict to one case
}

func has(xs []int, v int) bool {
	for _, x := range xs {
		if x == v {
			return true
		}
	}
	return false
}

func disjointInts(a, b []int) bool {
	for _, x := range a {
		if has(b, x) {
			return false
		}
	}
	return true
}

func flip(b []byte) {
	b = b[:cap(b)]
	for i := range b {
		b[i] = ^b[i]
	}
}

type runner struct {
	sum    *hx.Summary
	seen   map[string]bool
	probed map[string]bool
}

func opName(s *step) string {
	if s.Op == "ro" {
		return strings.ToLower(s.Ro)
	}
	return s.Op
}

func (r *runner) mis(key, what string, tc *tcase, v *vector, k int) {
	r.sum.Mis(key, what, map[string]interface{}{"case": tc.name, "ops": v.Ops, "step": k + 1})
}

// episode executes one exported behaviour on one case.
func (r *runner) episode(tc *tcase, v *vector) {
	objs := map[int]object{1: tc.build()}
	how := map[int]string{1: "built"} // how each object was obtained (names findings; never judges)
	buf := tc.wireInput()
	bufSaved := append([]byte(nil), buf...)
	snaps := map[int]*rw.Snap{1: rw.Walk(objs[1].Root())}
	live := []int{1}
	for k := range v.Ops {
		s := &v.Ops[k]
		r.sum.Evaluations++
		ok := true
		switch s.Op {
		case "copy":
			objs[s.Y] = objs[s.X].Copy()
			how[s.Y] = "copy"
		case "unpack":
			if !s.BufOK {
				hx.Die("vector unpacks an invalid buffer")
			}
			o, err := tc.unpack(buf)
			if err != nil {
				hx.Die("case %s: cannot unpack its own packing: %v", tc.name, err)
			}
			objs[s.Y] = o
			how[s.Y] = "unpack"
		case "alias":
			a := objs[s.X].(aliaser).Alias(s.How)
			if a == nil {
				hx.Die("case %s has nothing to alias", tc.name)
			}
			objs[s.Y] = a
			how[s.Y] = "alias"
		case "copyto":
			if !objs[s.X].(aliaser).CopyInto(objs[s.Y]) {
				hx.Die("case %s: CopyTo did not return its target", tc.name)
			}
			how[s.Y] = "copyto"
		case "mutate":
			r.probe(tc, v, k, objs, snaps, live, s.X, buf, bufSaved, how, s)
			objs[s.X].Persist(s.Slot)
		case "scribble":
			flip(buf)
			flip(bufSaved)
		case "ro":
			var other object
			if s.Y != 0 {
				other = objs[s.Y]
			}
			roStates = s.States
			ok = objs[s.X].RO(s.Ro, other, r.sum, tc.name)
			roStates = nil
		default:
			hx.Die("unknown op %q", s.Op)
		}
		r.seen[tc.name+"/"+opName(s)+"/"+strconv.FormatBool(ok)] = true
		if !bytes.Equal(buf[:cap(buf)], bufSaved[:cap(buf)]) {
			r.mis(opName(s)+"/writes-into-buffer", fmt.Sprintf("%s: step %s changed the octets of the wire buffer", tc.name, opName(s)), tc, v, k)
			copy(bufSaved, buf)
		}
		// observe
		now := map[int]*rw.Snap{}
		for _, o := range s.Live {
			if objs[o] == nil {
				hx.Die("vector/harness disagree on live objects at step %d", k+1)
			}
			now[o] = rw.Walk(objs[o].Root())
		}
		// 1. values: exactly the objects the specification lets change did change
		for _, o := range live {
			if s.Op == "copyto" && o == s.Y {
				continue // the target: its value is compared with the source's below, whatever it was before
			}
			changed := now[o].Exact() != snaps[o].Exact()
			exp := has(s.Chg, o)
			if changed && !exp {
				name, path := rw.FirstDiff(snaps[o], now[o])
				var key string
				switch s.Op {
				case "copyto":
					key = "copyto/changes-third-object:" + name
					if o == s.X {
						key = "copyto/changes-source:" + name
					}
				case "mutate":
					key = "copy/" + name + "-shared"
					if how[o] == "copyto" || how[s.X] == "copyto" {
						key = "copyto/" + name + "-shared"
					}
				case "scribble":
					key = "unpack/" + name + "-aliases-buffer"
				case "ro":
					key = "readonly/" + opName(s) + "-mutates:" + name
				default:
					key = s.Op + "/mutates-existing-object:" + name
				}
				r.mis(key, fmt.Sprintf("%s: %s on object %d changed object %d (%s) at %s", tc.name, opName(s), s.X, o, how[o], path), tc, v, k)
			}
			if !changed && exp {
				hx.Die("case %s: mutation of object %d was not observable (harness defect)", tc.name, o)
			}
			if now[o].Bk != snaps[o].Bk && !has(s.BkMay, o) {
				r.mis(opName(s)+"/bookkeeping-changed-outside-arguments", fmt.Sprintf("%s: %s changed RDLENGTH/extended-RCODE bookkeeping of object %d", tc.name, opName(s), o), tc, v, k)
			}
		}
		// 2. Copy: equal value
		if len(s.Eq) == 2 {
			a, b := now[s.Eq[0]], now[s.Eq[1]]
			if a.Norm() != b.Norm() {
				name := "shape"
				a, b := valueParts(a), valueParts(b)
				for i := 0; i < len(a.Parts) && i < len(b.Parts); i++ {
					if a.Parts[i].Norm != b.Parts[i].Norm {
						name = b.Parts[i].Name
						if f := diffField(a.Parts[i].Norm, b.Parts[i].Norm); f != "" {
							name += "-" + f
						}
						break
					}
				}
				r.mis("copy/value-differs:"+name, fmt.Sprintf("%s: the copy differs from its source in %s", tc.name, name), tc, v, k)
			}
		}
		// 3. regions: disjoint wherever the specification's are
		for i, a := range s.Live {
			if s.Buf != 0 && !has(s.Regs[a-1], s.Buf) {
				for _, j := range rw.OverlapBuf(now[a], buf) {
					key := "unpack/" + now[a].Regions[j].Name + "-aliases-buffer"
					if how[a] != "unpack" {
						key = "pack/" + now[a].Regions[j].Name + "-aliases-buffer"
					}
					r.mis(key, fmt.Sprintf("%s: object %d (%s) overlaps the wire buffer at %s", tc.name, a, how[a], now[a].Regions[j].Paths[0]), tc, v, k)
				}
			}
			for _, b := range s.Live[i+1:] {
				if !disjointInts(s.Regs[a-1], s.Regs[b-1]) {
					continue
				}
				for _, pr := range rw.Overlap(now[a], now[b]) {
					ia, ib := pr[0], pr[1]
					org := how[b] // the library operation the younger object comes from (an alias is the caller's doing)
					if org == "alias" && how[a] != "built" && how[a] != "alias" {
						org = how[a]
					}
					if how[a] == "copyto" {
						org = "copyto"
					}
					key := org + "/" + now[b].Regions[ib].Name + "-shared"
					r.mis(key, fmt.Sprintf("%s: objects %d (%s) and %d (%s) share memory: %s / %s", tc.name, a, how[a], b, how[b],
						now[a].Regions[ia].Paths[0], now[b].Regions[ib].Paths[0]), tc, v, k)
				}
			}
		}
		snaps = now
		live = s.Live
	}
}

// probe performs a Mutate of EVERY writable cell of object x (scalars, strings, slice
// elements, slice headers, pointers, interfaces, map entries), one at a time, and looks
// at every other object and at the buffer after each; the cell is then restored.
func (r *runner) probe(tc *tcase, v *vector, k int, objs map[int]object, snaps map[int]*rw.Snap, live []int, x int, buf, bufSaved []byte, how map[int]string, st *step) {
	sig := tc.name + "|" + strconv.Itoa(x)
	for _, s := range v.Ops[:k] { // the aliasing structure depends on the creation history only
		if s.Op == "copy" || s.Op == "unpack" || s.Op == "alias" || s.Op == "copyto" {
			sig += fmt.Sprintf("|%s%s%d>%d", s.Op, s.How, s.X, s.Y)
		}
	}
	if r.probed[sig] {
		return
	}
	r.probed[sig] = true
	before, cells := rw.WalkCells(objs[x].Root())
	// quick tier, whole messages: every cell of the message's own stores (header, question,
	// section slices), one in `stride' of the cells inside its records (the per-type cases
	// probe every cell of every record type)
	stride := 1
	if !hx.Thorough() && strings.HasPrefix(tc.name, "Msg") {
		stride = 6
	}
	for ci, c := range cells {
		if stride > 1 && !strings.HasPrefix(c.Name, "msg") && (ci+int(hx.Seed()))%stride != 0 {
			continue
		}
		revert := c.Mutate()
		r.sum.Evaluations++
		for _, y := range live {
			if y == x || !disjointInts(st.Regs[x-1], st.Regs[y-1]) {
				continue // (an object the caller made share memory with x: the specification expects the write to show)
			}
			if got := rw.Walk(objs[y].Root()); got.Exact() != snaps[y].Exact() {
				name, path := rw.FirstDiff(snaps[y], got)
				pre := "copy/"
				if how[x] == "unpack" && how[y] == "unpack" {
					pre = "unpack/"
				}
				if how[x] == "copyto" || how[y] == "copyto" {
					pre = "copyto/"
				}
				r.mis(pre+name+"-shared", fmt.Sprintf("%s: writing %s of object %d (%s) is visible in object %d (%s) at %s", tc.name, c.Path, x, how[x], y, how[y], path), tc, v, k)
			}
		}
		if !bytes.Equal(buf, bufSaved) {
			pre := "pack/"
			if how[x] == "unpack" {
				pre = "unpack/"
			}
			r.mis(pre+c.Name+"-aliases-buffer", fmt.Sprintf("%s: writing %s of object %d (%s) changed the wire buffer", tc.name, c.Path, x, how[x]), tc, v, k)
			copy(bufSaved, buf)
		}
		revert()
	}
	if after := rw.Walk(objs[x].Root()); after.Exact() != before.Exact() {
		hx.Die("case %s: probe did not restore object %d", tc.name, x)
	}
}

func replay(path string, shard, nshards int, only string) {
	initKey()
	sum := &hx.Summary{}
	r := &runner{sum: sum, seen: map[string]bool{}, probed: map[string]bool{}}
	cs := cases()
	var vecs []*vector
	hx.ReadNDJSON(path, func(i int, v *vector) { vecs = append(vecs, v) })
	n := 0
	for ci := range cs {
		tc := &cs[ci]
		if ci%nshards != shard {
			continue
		}
		var extOK *bool
		for vi, v := range vecs {
			if only != "" && tc.name != only {
				continue
			}
			if v.Case != "" && v.Case != tc.name {
				continue
			}
			if isExt(v) {
				if extOK == nil {
					ok := extCase(tc, v.Case != "")
					extOK = &ok
				}
				if !*extOK {
					continue
				}
			}
			if p := hx.Catch(func() { r.episode(tc, v) }); p != "" {
				sum.Mis("panic:"+tc.name, "panic: "+p, map[string]interface{}{"case": tc.name, "ops": v.Ops})
			}
			n++
			if vi%499 == 0 && ci%23 == 0 {
				sum.Sample(map[string]interface{}{"case": tc.name, "ops": opNames(v)})
			}
		}
	}
	sum.Nontrivial = len(r.seen)
	sum.Note("episodes", n)
	sum.Note("verifications_run_by_state", verifyRuns)
	sum.Note("verifications_succeeded_by_state", verifyOK)
	sum.Print()
}

// isExt: the behaviour has the caller's Alias or a CopyTo into a live object.
func isExt(v *vector) bool {
	for i := range v.Ops {
		if v.Ops[i].Op == "alias" || v.Ops[i].Op == "copyto" {
			return true
		}
	}
	return false
}

// extCase: such behaviours run on whole messages that have a nested store to share -- the small
// shapes, the used-target case, and (thorough tier, replay files) the full-size message.
func extCase(tc *tcase, forced bool) bool {
	a, ok := tc.build().(aliaser)
	if !ok || a.Alias("all") == nil {
		return false
	}
	return forced || hx.Thorough() || strings.HasPrefix(tc.name, "Msg/small/") || tc.name == "Msg/CopyTo/no-question"
}

// valueParts: the stores that hold a value (empty slices do not).
func valueParts(s *rw.Snap) *rw.Snap {
	o := &rw.Snap{}
	for _, p := range s.Parts {
		if p.HiLen > p.Lo {
			o.Parts = append(o.Parts, p)
		}
	}
	return o
}

// diffField names the struct field in whose rendering two contents first differ.
func diffField(a, b string) string {
	i := 0
	for i < len(a) && i < len(b) && a[i] == b[i] {
		i++
	}
	if i > len(a) {
		i = len(a)
	}
	c := strings.LastIndexByte(a[:i], ':')
	if c < 0 {
		return ""
	}
	j := c
	for j > 0 && (a[j-1] >= 'A' && a[j-1] <= 'Z' || a[j-1] >= 'a' && a[j-1] <= 'z' || a[j-1] >= '0' && a[j-1] <= '9' || a[j-1] == '_') {
		j--
	}
	return strings.ToLower(a[j:c])
}

func opNames(v *vector) []string {
	var s []string
	for i := range v.Ops {
		s = append(s, fmt.Sprintf("%s(%d,%d)", opName(&v.Ops[i]), v.Ops[i].X, v.Ops[i].Y))
	}
	return s
}

// ---------------------------------------------------------------------------
// record

type evObj struct {
	O int      `json:"o"`
	S []int    `json:"s"`
	B int      `json:"b"`
	N []string `json:"n"`
}

type event struct {
	I    int      `json:"i"`
	Ev   string   `json:"ev"`
	T    string   `json:"t"`
	Op   string   `json:"op,omitempty"`
	X    int      `json:"x"`
	Y    int      `json:"y"`
	R    int      `json:"r"`
	Xs   []int    `json:"xs"`
	Objs []evObj  `json:"objs"`
	Mem  [][2]int `json:"mem"`
	Buf  int      `json:"buf"`
}

type ival struct {
	lo, hi uintptr
	id     int
}

type recorder struct {
	w       *hx.Writer
	intern  map[string]int
	table   []ival // region ids of the current episode
	nextReg int
	n       int
}

func (rc *recorder) digest(s string) int {
	if id, ok := rc.intern[s]; ok {
		return id
	}
	id := len(rc.intern) + 1
	rc.intern[s] = id
	return id
}

// regionID names the backing store an address interval belongs to: intervals that
// overlap are the same store.
func (rc *recorder) regionID(lo, hi uintptr) int {
	for i := range rc.table {
		t := &rc.table[i]
		if lo < t.hi && t.lo < hi {
			if lo < t.lo {
				t.lo = lo
			}
			if hi > t.hi {
				t.hi = hi
			}
			return t.id
		}
	}
	rc.nextReg++
	rc.table = append(rc.table, ival{lo, hi, rc.nextReg})
	return rc.nextReg
}

func (rc *recorder) emit(e *event, objs map[int]object, buf []byte) {
	ids := make([]int, 0, len(objs))
	for o := range objs {
		ids = append(ids, o)
	}
	sort.Ints(ids)
	mem := map[int]string{}
	var order []int
	for _, o := range ids {
		sn := rw.Walk(objs[o].Root())
		eo := evObj{O: o, B: rc.digest("bk:" + sn.Bk)}
		for _, g := range sn.Parts {
			if g.HiLen <= g.Lo {
				continue
			}
			id := rc.regionID(g.Lo, g.HiLen)
			if _, ok := mem[id]; !ok {
				order = append(order, id)
			}
			if has(eo.S, id) { // two stores of one object merged by a third interval: keep both contents
				mem[id] += "|" + g.Norm
				continue
			}
			mem[id] = g.Norm
			eo.S = append(eo.S, id)
			eo.N = append(eo.N, g.Name)
		}
		e.Objs = append(e.Objs, eo)
	}
	lo, hi := rw.BufInterval(buf)
	e.Buf = rc.regionID(lo, hi)
	if _, ok := mem[e.Buf]; !ok {
		order = append(order, e.Buf)
		mem[e.Buf] = "buf:" + string(buf[:cap(buf)])
	}
	for _, id := range order {
		e.Mem = append(e.Mem, [2]int{id, rc.digest(mem[id])})
	}
	rc.n++
	e.I = rc.n
	if e.Xs == nil {
		e.Xs = []int{}
	}
	rc.w.Emit(e)
}

func record(out string, episodes int) {
	initKey()
	rng := hx.Rand()
	sum := &hx.Summary{}
	rc := &recorder{w: hx.NewWriter(out), intern: map[string]int{}}
	cs := cases()
	small := tcase{name: "Msg/small",
		build: func() object { return &msgObj{buildMsg(true), false} },
		unpack: func(buf []byte) (object, error) {
			m := new(dns.Msg)
			if err := m.Unpack(buf); err != nil {
				return nil, err
			}
			return &msgObj{m, false}, nil
		}}
	smallTo := small
	smallTo.name = "Msg/small/CopyTo"
	smallTo.build = func() object { return &msgObj{buildMsg(true), true} }
	shapes := append([]tcase(nil), cs[len(cs)-10:len(cs)-1]...)
	cs = append(append(cs[:len(cs)-12], small, smallTo), shapes...) // the full-size messages and the value-equality case are for the replay tier
	ro := []string{"Pack", "Len", "String", "IsDuplicate", "Copy", "Sign", "Verify"}
	seen := map[string]bool{}
	var keep [][]byte     // scribbled and replaced buffers stay referenced: their addresses must not be reused within an episode
	var keepMsg []dns.Msg // likewise what a CopyTo target held before: its stores have region ids
	// who shares memory with whom by the recorder's own aliasing (conservative: an alias of x is taken
	// to share with everything x shares with).  CopyTo goes into targets that share with nobody but --
	// possibly -- the source: what a CopyTo that uses the target's storage again does to THIRD objects
	// aliased to the target is AMBIG (Heap!CopyToDisc).
	partners := map[int]map[int]bool{}
	mayCopyInto := func(src, dst int) bool {
		for o := range partners[dst] {
			if o != src {
				return false
			}
		}
		return true
	}
	copyInto := func(objs map[int]object, src, dst int) {
		if t, ok := objs[dst].(*msgObj); ok {
			keepMsg = append(keepMsg, *t.m)
		}
		objs[src].(aliaser).CopyInto(objs[dst])
		for o := range partners[dst] {
			delete(partners[o], dst)
		}
		delete(partners, dst)
	}
	for ep := 0; ep < episodes; ep++ {
		tc := &cs[rng.Intn(len(cs))]
		// the interesting types more often
		if rng.Intn(3) == 0 {
			pick := []string{"OPT", "SVCB", "HTTPS", "APL", "VERIFPRIV", "Msg/small", "Msg/small/CopyTo", "AAAA", "IPSECKEY", "Msg/small/opt-first", "Msg/small/opt-middle+tsig", "Msg/small/no-opt", "Msg/small/no-records/q1", "Msg/small/no-records/q0", "Msg/small/windowed-sections"}
			want := pick[rng.Intn(len(pick))]
			for i := range cs {
				if cs[i].name == want {
					tc = &cs[i]
				}
			}
		}
		rc.table, rc.nextReg = nil, 0
		keep, keepMsg = keep[:0], keepMsg[:0]
		partners = map[int]map[int]bool{}
		objs := map[int]object{1: tc.build()}
		buf := tc.wireInput()
		valid := true
		rc.emit(&event{Ev: "reset", T: tc.name}, objs, buf)
		nops := 4 + rng.Intn(5)
		for k := 0; k < nops; k++ {
			ids := make([]int, 0, len(objs))
			for o := range objs {
				ids = append(ids, o)
			}
			sort.Ints(ids)
			x := ids[rng.Intn(len(ids))]
			next := len(objs) + 1
			c := rng.Intn(10)
			al, canAlias := objs[x].(aliaser)
			if canAlias && rng.Intn(6) == 0 {
				c = 10 + rng.Intn(2) // the caller's shallow copy; CopyTo into a live message
			}
			sum.Evaluations++
			switch {
			case c == 10 && next <= 6:
				a := al.Alias([]string{"all", "one"}[rng.Intn(2)])
				if a == nil {
					continue
				}
				objs[next] = a
				partners[next] = map[int]bool{x: true}
				for o := range partners[x] {
					partners[next][o] = true
					partners[o][next] = true
				}
				if partners[x] == nil {
					partners[x] = map[int]bool{}
				}
				partners[x][next] = true
				rc.emit(&event{Ev: "alias", T: tc.name, X: x, Y: next}, objs, buf)
				seen[tc.name+"/alias"] = true
				if rng.Intn(2) == 0 { // ... and at once a CopyTo between the two, in either direction
					src, dst := x, next
					if rng.Intn(2) == 0 {
						src, dst = next, x
					}
					if mayCopyInto(src, dst) {
						copyInto(objs, src, dst)
						rc.emit(&event{Ev: "copyto", T: tc.name, X: src, Y: dst}, objs, buf)
						seen[tc.name+"/copyto-aliased"] = true
					}
				}
			case c >= 10:
				if len(ids) < 2 {
					continue
				}
				y := ids[rng.Intn(len(ids))]
				if y == x || !mayCopyInto(x, y) {
					continue
				}
				copyInto(objs, x, y)
				rc.emit(&event{Ev: "copyto", T: tc.name, X: x, Y: y}, objs, buf)
				seen[tc.name+"/copyto"] = true
			case c < 2 && next <= 6:
				objs[next] = objs[x].Copy()
				rc.emit(&event{Ev: "copy", T: tc.name, X: x, Y: next}, objs, buf)
				seen[tc.name+"/copy"] = true
			case c < 3 && next <= 6:
				if !valid {
					flip(buf)
					valid = true
					rc.emit(&event{Ev: "scribble", T: tc.name}, objs, buf)
				}
				o, err := tc.unpack(buf)
				if err != nil {
					hx.Die("case %s: cannot unpack its own packing: %v", tc.name, err)
				}
				objs[next] = o
				rc.emit(&event{Ev: "unpack", T: tc.name, Y: next}, objs, buf)
				seen[tc.name+"/unpack"] = true
			case c < 5:
				// Mutate(x, r): every scalar cell of one backing store; recorded, then restored (a second Mutate)
				sn, cells := rw.WalkCells(objs[x].Root())
				part := rng.Intn(len(sn.Parts))
				g := sn.Parts[part]
				if g.HiLen <= g.Lo {
					continue
				}
				rid := rc.regionID(g.Lo, g.HiLen)
				var reverts []func()
				for _, cl := range cells {
					if cl.RawPart == part && !cl.Ref {
						reverts = append(reverts, cl.Mutate())
					}
				}
				if len(reverts) == 0 {
					continue
				}
				rc.emit(&event{Ev: "mutate", T: tc.name, X: x, R: rid}, objs, buf)
				for i := len(reverts) - 1; i >= 0; i-- {
					reverts[i]()
				}
				rc.emit(&event{Ev: "mutate", T: tc.name, X: x, R: rid}, objs, buf)
				seen[tc.name+"/mutate"] = true
			case c < 6:
				flip(buf)
				valid = !valid
				rc.emit(&event{Ev: "scribble", T: tc.name}, objs, buf)
			case c < 7:
				nb, err := objs[x].Pack() // packing is itself a read-only operation on x (it writes RDLENGTH)
				if err != nil {
					continue
				}
				rc.emit(&event{Ev: "ro", T: tc.name, Op: "Pack", X: x, Xs: []int{x}}, objs, buf)
				if _, err := tc.unpack(nb); err != nil {
					continue // a variant the library packs but does not read back: not an Unpack input
				}
				keep = append(keep, buf)
				buf, valid = nb, true
				rc.emit(&event{Ev: "newbuf", T: tc.name, X: x}, objs, buf)
			default:
				op := ro[rng.Intn(len(ro))]
				xs := []int{x}
				var other object
				if op == "IsDuplicate" {
					y := ids[rng.Intn(len(ids))]
					other = objs[y]
					if y != x {
						xs = append(xs, y)
					}
				}
				var ok bool
				roStates = allVerifyStates
				if p := hx.Catch(func() { ok = objs[x].RO(op, other, sum, tc.name) }); p != "" {
					sum.Mis("panic:"+op+":"+tc.name, "panic: "+p, map[string]interface{}{"case": tc.name})
				}
				rc.emit(&event{Ev: "ro", T: tc.name, Op: op, X: x, Xs: xs}, objs, buf)
				seen[tc.name+"/"+op+"/"+strconv.FormatBool(ok)] = true
			}
		}
	}
	rc.w.Close()
	sum.Nontrivial = len(seen)
	sum.Note("events", rc.n)
	sum.Note("verifications_run_by_state", verifyRuns)
	sum.Note("verifications_succeeded_by_state", verifyOK)
	sum.Print()
}

func main() {
	if len(os.Args) < 2 {
		hx.Die("usage: heap replay|record|kinds ...")
	}
	debug.SetGCPercent(400)
	switch os.Args[1] {
	case "replay":
		if len(os.Args) < 5 {
			hx.Die("usage: heap replay <vectors> <shard> <nshards> [case]")
		}
		sh, _ := strconv.Atoi(os.Args[3])
		n, _ := strconv.Atoi(os.Args[4])
		only := ""
		if len(os.Args) > 5 {
			only = os.Args[5]
		}
		replay(os.Args[2], sh, n, only)
	case "record":
		n, _ := strconv.Atoi(os.Args[3])
		record(os.Args[2], n)
	case "kinds":
		for _, c := range cases() {
			o := c.build()
			sn, cells := rw.WalkCells(o.Root())
			fmt.Printf("%-14s regions=%d cells=%d\n", c.name, len(sn.Regions), len(cells))
		}
	default:
		hx.Die("unknown mode %s", os.Args[1])
	}
}
