// Command private binds spec/PrivateRR.tla to the private-type registry of privaterr.go (extra check X11).
//
//	private replay <vectors.ndjson>        every TLC behaviour (<= 4 PrivateHandle / PrivateHandleRemove actions) on the real
//	                                       registry, reset before each; after every action everything observable is compared
//	                                       with the specification's expectation
//	private record <out.ndjson> <n>        random longer sequences, one event per action, for Trace_PrivateRR
//	private reexec <in.ndjson> <out.ndjson>  the recorded actions once more (--replay)
package main

import (
	"bytes"
	"encoding/hex"
	"encoding/json"
	"fmt"
	"os"
	"reflect"
	"strconv"
	"strings"

	"github.com/miekg/dns"

	"verifharness/lib/hx"
)

// two kinds of private rdata: A = the octets of the text, B = marker octet 'B' + the octets
type privA struct{ s []byte }
type privB struct{ s []byte }

func (p *privA) String() string       { return string(p.s) }
func (p *privA) Parse(t []string) error { p.s = []byte(strings.Join(t, " ")); return nil }
func (p *privA) Pack(b []byte) (int, error) {
	if len(b) < len(p.s) {
		return 0, fmt.Errorf("buffer too small")
	}
	return copy(b, p.s), nil
}
func (p *privA) Unpack(b []byte) (int, error) { p.s = append([]byte(nil), b...); return len(b), nil }
func (p *privA) Copy(d dns.PrivateRdata) error {
	q, ok := d.(*privA)
	if !ok {
		return fmt.Errorf("copy of A into %T", d)
	}
	q.s = append([]byte(nil), p.s...)
	return nil
}
func (p *privA) Len() int { return len(p.s) }

func (p *privB) String() string       { return string(p.s) }
func (p *privB) Parse(t []string) error { p.s = []byte(strings.Join(t, " ")); return nil }
func (p *privB) Pack(b []byte) (int, error) {
	if len(b) < len(p.s)+1 {
		return 0, fmt.Errorf("buffer too small")
	}
	b[0] = 'B'
	return 1 + copy(b[1:], p.s), nil
}
func (p *privB) Unpack(b []byte) (int, error) {
	p.s = nil
	if len(b) > 0 {
		p.s = append([]byte(nil), b[1:]...)
	}
	return len(b), nil
}
func (p *privB) Copy(d dns.PrivateRdata) error {
	q, ok := d.(*privB)
	if !ok {
		return fmt.Errorf("copy of B into %T", d)
	}
	q.s = append([]byte(nil), p.s...)
	return nil
}
func (p *privB) Len() int { return 1 + len(p.s) }

func gen(k string) func() dns.PrivateRdata {
	if k == "A" {
		return func() dns.PrivateRdata { return &privA{} }
	}
	return func() dns.PrivateRdata { return &privB{} }
}

func kindText(d dns.PrivateRdata) (string, []byte, *[]byte) {
	switch p := d.(type) {
	case *privA:
		return "A", p.s, &p.s
	case *privB:
		return "B", p.s, &p.s
	}
	return "?", nil, nil
}

var codes = []uint16{65280, 65281, 65282}
var mnems = []string{"PRIVA", "PRIVB", "MX"}
var origMX = dns.TypeToRR[dns.TypeMX]

// reset: the registry as the library ships it (for the keys of the universe)
func reset() {
	for _, c := range codes {
		delete(dns.TypeToRR, c)
		delete(dns.TypeToString, c)
	}
	for _, m := range []string{"PRIVA", "PRIVB", "priva", "privb"} {
		delete(dns.StringToType, m)
	}
	dns.StringToType["MX"] = dns.TypeMX
	dns.TypeToString[dns.TypeMX] = "MX"
	dns.TypeToRR[dns.TypeMX] = origMX
}

type action struct {
	Op   string `json:"op"`
	Sp   string `json:"sp"`
	Mn   string `json:"mn"`
	Code int    `json:"code"`
	Gen  string `json:"gen"`
}

type res struct {
	K    string `json:"k"`
	Code int    `json:"code"`
	Gen  string `json:"gen"`
}
type gres struct {
	K    string `json:"k"`
	Gen  string `json:"gen"`
	Text hx.B   `json:"text"`
}
type liveView struct {
	CopyKind    string `json:"copykind"`
	CopyText    hx.B   `json:"copytext"`
	Independent bool   `json:"independent"`
	Len         int    `json:"len"`
	Wire        hx.B   `json:"wire"`
	TypeText    string `json:"typetext"`
	Re          gres   `json:"re"`
}
type obs struct {
	T2s     []string          `json:"t2s"`
	Rr      []bool            `json:"rr"`
	S2t     []int             `json:"s2t"`
	Parse   []res             `json:"parse"`
	Generic []gres            `json:"generic"`
	Unpack  []gres            `json:"unpack"`
	Fresh   []bool            `json:"fresh"`
	Std     map[string]string `json:"std"`
	Live    []liveView        `json:"live"`
}

// expectation as the spec emits it: admissible sets for s2t and parse
type expObs struct {
	T2s     []string          `json:"t2s"`
	Rr      []bool            `json:"rr"`
	S2t     [][]int           `json:"s2t"`
	Parse   [][]res           `json:"parse"`
	Generic []gres            `json:"generic"`
	Unpack  []gres            `json:"unpack"`
	Fresh   []bool            `json:"fresh"`
	Std     map[string]string `json:"std"`
	Live    []liveView        `json:"live"`
}

func classify(rr dns.RR, err error) gres {
	if err != nil || rr == nil {
		return gres{K: "err", Text: hx.B{}}
	}
	switch r := rr.(type) {
	case *dns.PrivateRR:
		k, t, _ := kindText(r.Data)
		return gres{K: "priv", Gen: k, Text: hx.FromBytes(t)}
	case *dns.RFC3597:
		b, _ := hex.DecodeString(r.Rdata)
		return gres{K: "rfc3597", Text: hx.FromBytes(b)}
	}
	return gres{K: "std", Text: hx.B{}}
}

func recWire(c uint16, rd []byte) []byte {
	w := []byte{1, 'x', 0, byte(c >> 8), byte(c), 0, 1, 0, 0, 0, 60, byte(len(rd) >> 8), byte(len(rd))}
	return append(w, rd...)
}

func observe(live []dns.RR) obs {
	var o obs
	o.Std = map[string]string{"MX": dns.TypeToString[dns.TypeMX]}
	for _, c := range codes {
		o.T2s = append(o.T2s, dns.TypeToString[c])
		mk := dns.TypeToRR[c]
		o.Rr = append(o.Rr, mk != nil)
		fresh := false
		if mk != nil {
			a, aok := mk().(*dns.PrivateRR)
			b, bok := mk().(*dns.PrivateRR)
			if aok && bok && a.Data != nil && b.Data != nil {
				a.Data.Parse([]string{"one"})
				b.Data.Parse([]string{"two"})
				_, ta, _ := kindText(a.Data)
				fresh = string(ta) == "one" && !sameData(a.Data, b.Data)
			}
		}
		o.Fresh = append(o.Fresh, fresh)
		g, err := dns.NewRR("x. 60 IN TYPE" + strconv.Itoa(int(c)) + " \\# 3 616263")
		o.Generic = append(o.Generic, classify(g, err))
		u, _, err := dns.UnpackRR(recWire(c, []byte("abc")), 0)
		o.Unpack = append(o.Unpack, classify(u, err))
	}
	for _, m := range mnems {
		o.S2t = append(o.S2t, int(dns.StringToType[m]))
		rr, err := dns.NewRR("x. 60 IN " + m + " 10 m.")
		switch {
		case err != nil || rr == nil:
			o.Parse = append(o.Parse, res{K: "err"})
		default:
			if p, ok := rr.(*dns.PrivateRR); ok {
				k, _, _ := kindText(p.Data)
				o.Parse = append(o.Parse, res{K: "priv", Code: int(p.Hdr.Rrtype), Gen: k})
			} else if _, ok := rr.(*dns.RFC3597); ok {
				o.Parse = append(o.Parse, res{K: "rfc3597", Code: int(rr.Header().Rrtype)})
			} else {
				o.Parse = append(o.Parse, res{K: "std", Code: int(rr.Header().Rrtype)})
			}
		}
	}
	o.Live = []liveView{}
	for _, r := range live {
		var v liveView
		c := dns.Copy(r)
		if pc, ok := c.(*dns.PrivateRR); ok {
			k, t, ptr := kindText(pc.Data)
			v.CopyKind, v.CopyText = k, hx.FromBytes(t)
			_, before, _ := kindText(r.(*dns.PrivateRR).Data)
			keep := append([]byte(nil), before...)
			if ptr != nil {
				*ptr = append(*ptr, '!')
			}
			_, after, _ := kindText(r.(*dns.PrivateRR).Data)
			v.Independent = bytes.Equal(keep, after) && !sameData(pc.Data, r.(*dns.PrivateRR).Data)
		}
		v.Len = dns.Len(r)
		buf := make([]byte, 512)
		n, err := dns.PackRR(r, buf, 0, nil, false)
		if err == nil {
			v.Wire = hx.FromBytes(buf[:n])
			u, _, uerr := dns.UnpackRR(buf[:n], 0)
			v.Re = classify(u, uerr)
		} else {
			v.Wire, v.Re = hx.B{}, gres{K: "err", Text: hx.B{}}
		}
		if f := strings.Split(r.String(), "\t"); len(f) >= 4 {
			v.TypeText = f[3]
		}
		o.Live = append(o.Live, v)
	}
	return o
}

func sameData(a, b dns.PrivateRdata) bool {
	return reflect.ValueOf(a).Pointer() == reflect.ValueOf(b).Pointer()
}

// do performs one action and makes one record per registered code
func do(a action, text []byte, live []dns.RR) []dns.RR {
	switch a.Op {
	case "handle":
		dns.PrivateHandle(a.Sp, uint16(a.Code), gen(a.Gen))
	case "remove":
		dns.PrivateHandleRemove(uint16(a.Code))
	default:
		hx.Die("unknown action %q", a.Op)
	}
	for _, c := range codes {
		if mk := dns.TypeToRR[c]; mk != nil {
			rr := mk()
			if p, ok := rr.(*dns.PrivateRR); ok {
				p.Hdr = dns.RR_Header{Name: "x.", Rrtype: c, Class: dns.ClassINET, Ttl: 60}
				p.Data.Parse([]string{string(text)})
			}
			live = append(live, rr)
		}
	}
	return live
}

func in[T comparable](x T, xs []T) bool {
	for _, y := range xs {
		if x == y {
			return true
		}
	}
	return false
}

func isPriv(c int) bool { return c >= 65280 && c <= 65534 }

// compare reports every component of the observation that is not admitted
func compare(e *expObs, o *obs) (keys []string, what []string) {
	add := func(k, w string) { keys, what = append(keys, k), append(what, w) }
	if !reflect.DeepEqual(e.T2s, o.T2s) {
		add("private/typetostring", fmt.Sprintf("TypeToString %q, spec %q", o.T2s, e.T2s))
	}
	if !reflect.DeepEqual(e.Rr, o.Rr) {
		add("private/typetorr", fmt.Sprintf("TypeToRR presence %v, spec %v", o.Rr, e.Rr))
	}
	for j, m := range mnems {
		if j < len(e.S2t) && !in(o.S2t[j], e.S2t[j]) {
			k := "private/stringtotype"
			switch {
			case o.S2t[j] == 0 && m == "MX":
				k += ":standard-mnemonic-lost"
			case isPriv(o.S2t[j]) && dns.TypeToString[uint16(o.S2t[j])] != m: // a mnemonic of an earlier life of the code
				k += ":stale-after-remove"
			}
			add(k, fmt.Sprintf("StringToType[%q] = %d, spec admits %v", m, o.S2t[j], e.S2t[j]))
		}
		if j < len(e.Parse) && !in(o.Parse[j], e.Parse[j]) {
			k := "private/parse"
			if o.Parse[j].K == "err" && m == "MX" {
				k += ":standard-mnemonic-lost"
			} else if o.Parse[j].K == "priv" && dns.TypeToString[uint16(o.Parse[j].Code)] != m {
				k += ":stale-after-remove"
			}
			add(k, fmt.Sprintf("NewRR(\"x. 60 IN %s 10 m.\") gives %+v, spec admits %+v", m, o.Parse[j], e.Parse[j]))
		}
	}
	if !reflect.DeepEqual(e.Generic, o.Generic) {
		add("private/parse-generic", fmt.Sprintf("NewRR of TYPEnnn \\# form gives %+v, spec %+v", o.Generic, e.Generic))
	}
	if !reflect.DeepEqual(e.Unpack, o.Unpack) {
		add("private/unpack", fmt.Sprintf("UnpackRR gives %+v, spec %+v", o.Unpack, e.Unpack))
	}
	if !reflect.DeepEqual(e.Fresh, o.Fresh) {
		add("private/fresh-shares-rdata", fmt.Sprintf("two new records per code independent: %v, spec %v", o.Fresh, e.Fresh))
	}
	if !reflect.DeepEqual(e.Std, o.Std) {
		add("private/standard-typetostring", fmt.Sprintf("TypeToString of standard types %v, spec %v", o.Std, e.Std))
	}
	if len(e.Live) != len(o.Live) {
		add("private/live:count", fmt.Sprintf("%d records could be made, spec %d", len(o.Live), len(e.Live)))
	} else {
		for i := range e.Live {
			x, y := e.Live[i], o.Live[i]
			switch {
			case x.CopyKind != y.CopyKind || !reflect.DeepEqual(x.CopyText, y.CopyText):
				add("private/live:copy", fmt.Sprintf("record %d: Copy gives %s %q, spec %s %q", i, y.CopyKind, y.CopyText.String(), x.CopyKind, x.CopyText.String()))
			case !y.Independent:
				add("private/live:copy-shares-rdata", fmt.Sprintf("record %d: the copy shares its PrivateRdata with the original", i))
			case x.Len != y.Len:
				add("private/live:len", fmt.Sprintf("record %d: Len %d, spec %d", i, y.Len, x.Len))
			case !reflect.DeepEqual(x.Wire, y.Wire):
				add("private/live:pack", fmt.Sprintf("record %d: packs to %v, spec %v", i, y.Wire, x.Wire))
			case x.TypeText != y.TypeText:
				add("private/live:type-text", fmt.Sprintf("record %d prints its type as %q, spec %q", i, y.TypeText, x.TypeText))
			case !reflect.DeepEqual(x.Re, y.Re):
				add("private/live:reunpack", fmt.Sprintf("record %d: unpacking its octets gives %+v, spec %+v", i, y.Re, x.Re))
			}
		}
	}
	return
}

type step struct {
	Act  action          `json:"act"`
	Text hx.B            `json:"text"`
	Exp  json.RawMessage `json:"exp"`
}
type vec struct {
	Kind  string `json:"kind"`
	Steps []step `json:"steps"`
}

type event struct {
	Ev    string `json:"ev"`
	First bool   `json:"first"`
	Act   action `json:"act"`
	Text  hx.B   `json:"text"`
	Obs   *obs   `json:"obs"`
}

func main() {
	if len(os.Args) < 3 {
		hx.Die("usage: private replay <vectors> | record <out> <n> | reexec <in> <out>")
	}
	switch os.Args[1] {
	case "replay":
		replay(os.Args[2])
	case "record":
		n, _ := strconv.Atoi(os.Args[3])
		record(os.Args[2], n)
	case "reexec":
		reexec(os.Args[2], os.Args[3])
	default:
		hx.Die("unknown mode %s", os.Args[1])
	}
}

func replay(path string) {
	var sum hx.Summary
	seen := map[string]bool{}
	nsteps := 0
	hx.ReadNDJSON(path, func(i int, v *vec) {
		sum.Evaluations++
		reset()
		var live []dns.RR
		sig := ""
		for k, st := range v.Steps {
			sig += fmt.Sprint(st.Act)
			var o obs
			if p := hx.Catch(func() { live = do(st.Act, st.Text.Bytes(), live); o = observe(live) }); p != "" {
				sum.Mis("private/panic:"+st.Act.Op, "panic: "+p, v)
				break
			}
			nsteps++
			var e expObs
			if err := json.Unmarshal(st.Exp, &e); err != nil {
				hx.Die("vector %d step %d: %v", i, k, err)
			}
			keys, what := compare(&e, &o)
			for j := range keys {
				sum.Mis(keys[j], fmt.Sprintf("after action %d (%s %s %d %s): %s", k+1, st.Act.Op, st.Act.Sp, st.Act.Code, st.Act.Gen, what[j]), v)
			}
		}
		seen[sig] = true
		if i%4999 == 0 {
			sum.Sample(v.Steps[len(v.Steps)-1].Act)
		}
	})
	reset()
	sum.Nontrivial = len(seen)
	sum.Note("steps_observed", nsteps)
	sum.Print()
}

var alphabet = func() []action {
	var as []action
	for _, sp := range []string{"priva", "PRIVB", "MX"} {
		for _, c := range []int{65280, 65281} {
			for _, g := range []string{"A", "B"} {
				as = append(as, action{Op: "handle", Sp: sp, Mn: strings.ToUpper(sp), Code: c, Gen: g})
			}
		}
	}
	for _, c := range []int{65280, 65281, 65282} {
		as = append(as, action{Op: "remove", Code: c})
	}
	return as
}()

func record(out string, n int) {
	r := hx.Rand()
	w := hx.NewWriter(out)
	var sum hx.Summary
	seen := map[string]bool{}
	for w.N < n {
		reset()
		var live []dns.RR
		sig := ""
		for k, ln := 0, 2+r.Intn(7); k < ln && w.N < n+8; k++ {
			a := alphabet[r.Intn(len(alphabet))]
			if r.Intn(3) == 0 { // removals more often, so that the after-removal rules are exercised
				a = alphabet[12+r.Intn(3)]
			}
			text := []byte{'s', byte('1' + k)}
			e := &event{Ev: "step", First: k == 0, Act: a, Text: hx.FromBytes(text)}
			if p := hx.Catch(func() { live = do(a, text, live); o := observe(live); e.Obs = &o }); p != "" {
				sum.Mis("private/panic:"+a.Op, "panic: "+p, e)
				break
			}
			sig += fmt.Sprint(a)
			w.Emit(e)
			sum.Evaluations++
		}
		seen[sig] = true
	}
	reset()
	w.Close()
	sum.Nontrivial = len(seen)
	sum.Print()
}

func reexec(in, out string) {
	var sum hx.Summary
	w := hx.NewWriter(out)
	var live []dns.RR
	hx.ReadNDJSON(in, func(i int, e *event) {
		if e.First || i == 0 {
			reset()
			live = nil
			e.First = true
		}
		if p := hx.Catch(func() { live = do(e.Act, e.Text.Bytes(), live); o := observe(live); e.Obs = &o }); p != "" {
			sum.Mis("private/panic:"+e.Act.Op, "panic: "+p, e)
			return
		}
		w.Emit(e)
		sum.Evaluations++
	})
	reset()
	w.Close()
	sum.Print()
}
