// Command comments binds spec/Comments.tla to the comment side of the zone-file reader (extra check X17):
// dns.ZoneParser.Next / Comment, and NewRR / ReadRR which drop comments.
//
//	comments replay <vectors.ndjson>            TLC vectors (zone text as octets, the $INCLUDE'd file, per expected record the
//	                                            ADMITTED set of Comment() texts) -> the real parser; membership only
//	comments record <out.ndjson> <pieces> <n>   n seeded-random zones assembled from the entries Gen_Comments exports
//	                                            ("pieces"), comments / glue / line ends varied; every Next() and Comment()
//	                                            call is logged with its result -- Trace_Comments judges them (and checks
//	                                            that the text this program rendered is the specification's Render)
//
// The oracle is the specification: the admitted sets in the vectors, or TLC reading the recorded events.
package main

import (
	"bytes"
	"fmt"
	"math/rand"
	"os"
	"path/filepath"
	"strconv"

	"github.com/miekg/dns"

	"verifharness/lib/hx"
)

type rec struct {
	Name hx.B   `json:"name"`
	Adm  []hx.B `json:"adm"`
	Part []hx.B `json:"part"`
	Cls  string `json:"cls"`
	Kind string `json:"kind"`
}

type first struct {
	St   string `json:"st"` // "rr" "err" "none"
	Name hx.B   `json:"name"`
}

type vec struct {
	Mode   string `json:"mode"`
	Text   hx.B   `json:"text"`
	Inc    hx.B   `json:"inc"`
	Crlf   bool   `json:"crlf"`
	Final  bool   `json:"final"`
	Err    bool   `json:"err"`
	Recs   []rec  `json:"recs"`
	After  []hx.B `json:"after"`
	NewRR  first  `json:"newrr"`
	ReadRR first  `json:"readrr"`
	// pieces
	K     int    `json:"k"`
	Entry *entry `json:"entry"`
}

type line struct {
	Items []hx.B `json:"items"`
	Com   []hx.B `json:"com"`
	Glue  bool   `json:"glue"`
}

type entry struct {
	Kind  string  `json:"kind"`
	Lines []line  `json:"lines"`
	Names []hx.B  `json:"names"`
	Sub   []entry `json:"sub"`
}

type zone struct {
	Entries []entry `json:"entries"`
	Crlf    bool    `json:"crlf"`
	Final   bool    `json:"final"`
}

type zoneEvent struct {
	Ev   string `json:"ev"`
	Zone *zone  `json:"zone"`
	Text hx.B   `json:"text"`
	Inc  hx.B   `json:"inc"`
	Z    int    `json:"z"`
}

type event struct {
	Ev   string `json:"ev"`
	OK   bool   `json:"ok"`
	Name hx.B   `json:"name"`
	C    hx.B   `json:"c"`
	Err  bool   `json:"err"`
	Z    int    `json:"z"` // number of the zone (for humans)
}

var dir string

func in(set []hx.B, s string) bool {
	for _, a := range set {
		if a.String() == s {
			return true
		}
	}
	return false
}

func parser(text, inc []byte) *dns.ZoneParser {
	if err := os.WriteFile(filepath.Join(dir, "inc.zone"), inc, 0o644); err != nil {
		hx.Die("write include file: %v", err)
	}
	zp := dns.NewZoneParser(bytes.NewReader(text), "", filepath.Join(dir, "zone"))
	zp.SetIncludeAllowed(true)
	zp.SetDefaultTTL(3600)
	return zp
}

func main() {
	if len(os.Args) < 3 {
		hx.Die("usage: comments replay <vectors> | record <out> <pieces> <n>")
	}
	var err error
	dir, err = os.MkdirTemp("", "x17-comments-")
	if err != nil {
		hx.Die("tempdir: %v", err)
	}
	defer os.RemoveAll(dir)
	var sum hx.Summary
	switch os.Args[1] {
	case "replay":
		seen := map[string]bool{}
		hx.ReadNDJSON(os.Args[2], func(i int, v *vec) {
			sum.Evaluations++
			seen[v.Text.String()] = true
			if p := hx.Catch(func() { replay(v, &sum) }); p != "" {
				sum.Mis("comments/panic:"+v.Mode, "panic: "+p, v)
			}
			if i%2503 == 0 {
				sum.Sample(map[string]interface{}{"mode": v.Mode, "text": v.Text.String(), "records": len(v.Recs)})
			}
		})
		sum.Nontrivial = len(seen)
	case "record":
		if len(os.Args) < 5 {
			hx.Die("usage: comments record <out> <pieces> <n>")
		}
		n, _ := strconv.Atoi(os.Args[4])
		record(os.Args[2], os.Args[3], n, &sum)
	case "redo": // redo <out> <zones.ndjson>: the zones of recorded "zone" events once more (replay of a trace finding)
		if len(os.Args) < 4 {
			hx.Die("usage: comments redo <out> <zones>")
		}
		w := hx.NewWriter(os.Args[2])
		r := hx.Rand()
		hx.ReadNDJSON(os.Args[3], func(i int, ze *zoneEvent) {
			if ze.Zone == nil {
				return
			}
			normalize(ze.Zone.Entries)
			text := render(ze.Zone.Entries, ze.Zone.Crlf, ze.Zone.Final)
			inc := []byte{}
			for k := range ze.Zone.Entries {
				if ze.Zone.Entries[k].Kind == "inc" {
					inc = render(ze.Zone.Entries[k].Sub, ze.Zone.Crlf, true)
					break
				}
			}
			w.Emit(zoneEvent{Ev: "zone", Zone: ze.Zone, Text: hx.FromBytes(text), Inc: hx.FromBytes(inc), Z: i})
			sum.Evaluations++
			for k := 0; k < 4; k++ {
				if p := hx.Catch(func() { drive(r, w, text, inc, i) }); p != "" {
					sum.Mis("comments/panic:record", "panic: "+p, map[string]interface{}{"text": string(text)})
				}
				if k < 3 {
					w.Emit(zoneEvent{Ev: "zone", Zone: ze.Zone, Text: hx.FromBytes(text), Inc: hx.FromBytes(inc), Z: i})
				}
			}
		})
		w.Close()
		sum.Note("events", w.N)
	default:
		hx.Die("unknown mode %q", os.Args[1])
	}
	os.RemoveAll(dir)
	sum.Print()
}

// clause names the discrepancy (the verdict is `got not in adm'); membership in sets the specification computed
func clause(r *rec, got string) string {
	switch {
	case len(r.Adm) == 1 && len(r.Adm[0]) == 0:
		return "spurious"
	case got == "":
		return "lost-all"
	case in(r.Part, got):
		return "lost-some"
	}
	return "wrong"
}

func replay(v *vec, sum *hx.Summary) {
	text, inc := v.Text.Bytes(), v.Inc.Bytes()
	zp := parser(text, inc)
	i := 0
	for {
		rr, ok := zp.Next()
		if !ok {
			break
		}
		c1 := zp.Comment()
		c2 := zp.Comment()
		if i >= len(v.Recs) {
			sum.Mis("comments/next:records:more", fmt.Sprintf("%q: record %d %q delivered, the specification expects %d records", text, i+1, rr.Header().Name, len(v.Recs)), v)
			return
		}
		r := &v.Recs[i]
		i++
		if rr.Header().Name != r.Name.String() {
			sum.Mis("comments/next:records:owner", fmt.Sprintf("%q: record %d is %q, the specification expects %q", text, i, rr.Header().Name, r.Name.String()), v)
			return
		}
		if !in(r.Adm, c1) {
			sum.Mis("comments/comment:"+clause(r, c1)+":"+r.Cls, fmt.Sprintf("%q: record %d %q: Comment() = %q, admitted %q", text, i, r.Name.String(), c1, strs(r.Adm)), v)
		} else if c2 != c1 && !in(r.Adm, c2) {
			sum.Mis("comments/comment:second-call", fmt.Sprintf("%q: record %d: second Comment() = %q after %q, admitted %q", text, i, c2, c1, strs(r.Adm)), v)
		}
	}
	gotErr := zp.Err() != nil
	if i < len(v.Recs) {
		sum.Mis("comments/next:records:fewer", fmt.Sprintf("%q: %d records delivered (err=%v), the specification expects %d", text, i, zp.Err(), len(v.Recs)), v)
		return
	}
	if gotErr != v.Err {
		sum.Mis("comments/next:error", fmt.Sprintf("%q: Err() = %v, the specification expects an error: %v", text, zp.Err(), v.Err), v)
	}
	for k := 0; k < 2; k++ {
		if c := zp.Comment(); !in(v.After, c) {
			sum.Mis("comments/comment:after-end", fmt.Sprintf("%q: Comment() = %q after Next() returned (nil, false) (err=%v), admitted %q", text, c, zp.Err(), strs(v.After)), v)
			break
		}
		zp.Next()
	}
	// NewRR / ReadRR read the first record and have no way to return a comment: they must not fail because of one
	os.WriteFile(filepath.Join(dir, "inc.zone"), inc, 0o644)
	rr, err := dns.NewRR(string(text))
	judgeFirst("newrr", &v.NewRR, rr, err, v, sum)
	rr, err = dns.ReadRR(bytes.NewReader(text), filepath.Join(dir, "zone"))
	judgeFirst("readrr", &v.ReadRR, rr, err, v, sum)
}

func judgeFirst(site string, f *first, rr dns.RR, err error, v *vec, sum *hx.Summary) {
	good := false
	switch f.St {
	case "rr":
		good = err == nil && rr != nil && rr.Header().Name == f.Name.String()
	case "err":
		good = err != nil
	case "none":
		good = err == nil && rr == nil
	default:
		hx.Die("vector without %s expectation", site)
	}
	if !good {
		sum.Mis("comments/"+site+":"+f.St, fmt.Sprintf("%q: %s gives %v, %v; the specification expects %s %q", v.Text.String(), site, rr, err, f.St, f.Name.String()), v)
	}
}

func strs(bs []hx.B) []string {
	var r []string
	for _, b := range bs {
		r = append(r, b.String())
	}
	return r
}

// ---------------------------------------------------------------------------------------------------------- record

// render: the zone text of the abstract zone.  Not trusted: Trace_Comments compares it with the specification's Render.
func renderLine(ln *line, first bool) []byte {
	var b []byte
	if !(first || (len(ln.Items) == 0 && ln.Glue)) {
		b = append(b, ' ')
	}
	for i, it := range ln.Items {
		if i > 0 {
			b = append(b, ' ')
		}
		b = append(b, it.Bytes()...)
	}
	if len(ln.Com) > 0 {
		if !(len(ln.Items) == 0 || ln.Glue) {
			b = append(b, ' ')
		}
		b = append(b, ';')
		b = append(b, ln.Com[0].Bytes()...)
	}
	return b
}

func render(es []entry, crlf, final bool) []byte {
	var lines [][]byte
	for i := range es {
		for j := range es[i].Lines {
			lines = append(lines, renderLine(&es[i].Lines[j], j == 0 && es[i].Kind != "blank" && es[i].Kind != "conly"))
		}
	}
	var b []byte
	for i, l := range lines {
		b = append(b, l...)
		if i < len(lines)-1 || final {
			if crlf {
				b = append(b, '\r')
			}
			b = append(b, '\n')
		}
	}
	return b
}

var kinds = []string{"none", "none", "sp", "sp", "sp", "empty", "nosp", "trail", "semi", "quote", "long"}

func comText(r *rand.Rand, tag string, must bool) []hx.B {
	k := kinds[r.Intn(len(kinds))]
	if must && k == "none" {
		k = "sp"
	}
	switch k {
	case "none":
		return []hx.B{}
	case "sp":
		return []hx.B{hx.FromString(" " + tag)}
	case "empty":
		return []hx.B{{}}
	case "nosp":
		return []hx.B{hx.FromString(tag)}
	case "trail":
		return []hx.B{hx.FromString(" " + tag + " \t ")}
	case "semi":
		return []hx.B{hx.FromString(" " + tag + ";x ; y")}
	case "quote":
		return []hx.B{hx.FromString(" " + tag + " \"q ( \\")}
	}
	return []hx.B{hx.FromString(" " + tag + " the quick brown fox (jumps) over $TTL $INCLUDE @ 1.2.3.4")}
}

func clone(e *entry) entry {
	c := entry{Kind: e.Kind, Names: e.Names}
	for _, l := range e.Lines {
		c.Lines = append(c.Lines, line{Items: l.Items, Com: l.Com, Glue: l.Glue})
	}
	for i := range e.Sub {
		c.Sub = append(c.Sub, clone(&e.Sub[i]))
	}
	if c.Sub == nil {
		c.Sub = []entry{}
	}
	if c.Names == nil {
		c.Names = []hx.B{}
	}
	return c
}

// normalize: no nil slices (they would be written as null)
func normalize(es []entry) {
	for i := range es {
		e := &es[i]
		if e.Names == nil {
			e.Names = []hx.B{}
		}
		if e.Sub == nil {
			e.Sub = []entry{}
		}
		for j := range e.Lines {
			if e.Lines[j].Items == nil {
				e.Lines[j].Items = []hx.B{}
			}
			if e.Lines[j].Com == nil {
				e.Lines[j].Com = []hx.B{}
			}
			for k := range e.Lines[j].Com {
				if e.Lines[j].Com[k] == nil {
					e.Lines[j].Com[k] = hx.B{}
				}
			}
		}
		normalize(e.Sub)
	}
}

// vary: new comments (tags unique per entry and line) and glue
func vary(r *rand.Rand, e *entry, k int) {
	for j := range e.Lines {
		ln := &e.Lines[j]
		if ln.Items == nil {
			ln.Items = []hx.B{}
		}
		if e.Kind == "blank" {
			ln.Com = []hx.B{}
			continue
		}
		ln.Com = comText(r, fmt.Sprintf("e%dl%d", k, j+1), e.Kind == "conly")
		ln.Glue = r.Intn(3) == 0
	}
	for i := range e.Sub {
		vary(r, &e.Sub[i], 6+i)
	}
}

func record(out, piecesPath string, n int, sum *hx.Summary) {
	pieces, special := map[int][]entry{}, map[int][]entry{}
	hx.ReadNDJSON(piecesPath, func(i int, v *vec) {
		if v.Entry != nil {
			if v.Entry.Kind == "rr" {
				pieces[v.K] = append(pieces[v.K], *v.Entry)
			} else {
				special[v.K] = append(special[v.K], *v.Entry)
			}
		}
	})
	for k := 1; k <= 4; k++ {
		if len(pieces[k]) == 0 || len(special[k]) == 0 {
			hx.Die("no pieces for position %d in %s", k, piecesPath)
		}
	}
	r := hx.Rand()
	w := hx.NewWriter(out)
	seen := map[string]bool{}
	for zi := 0; zi < n; zi++ {
		var z zone
		z.Crlf, z.Final = r.Intn(4) == 0, r.Intn(3) != 0
		ne := 1 + r.Intn(4)
		hasInc := false
		for k := 1; k <= ne; k++ {
			var e entry
			for {
				e = clone(&pieces[k][r.Intn(len(pieces[k]))])
				if r.Intn(3) == 0 { // the special entries are few among the records: draw them more often
					e = clone(&special[k][r.Intn(len(special[k]))])
				}
				if e.Kind == "inc" && hasInc {
					continue
				}
				break
			}
			hasInc = hasInc || e.Kind == "inc"
			vary(r, &e, k)
			z.Entries = append(z.Entries, e)
		}
		text := render(z.Entries, z.Crlf, z.Final)
		inc := []byte{}
		for i := range z.Entries {
			if z.Entries[i].Kind == "inc" {
				inc = render(z.Entries[i].Sub, z.Crlf, true)
				break
			}
		}
		seen[string(text)] = true
		w.Emit(zoneEvent{Ev: "zone", Zone: &z, Text: hx.FromBytes(text), Inc: hx.FromBytes(inc), Z: zi})
		sum.Evaluations++
		if p := hx.Catch(func() { drive(r, w, text, inc, zi) }); p != "" {
			sum.Mis("comments/panic:record", "panic: "+p, map[string]interface{}{"text": string(text)})
		}
		if zi%997 == 0 {
			sum.Sample(map[string]interface{}{"text": string(text)})
		}
	}
	w.Close()
	sum.Nontrivial = len(seen)
	sum.Note("events", w.N)
}

// drive: Next() until (nil, false), Comment() 0..3 times after each -- every call and result is logged
func drive(r *rand.Rand, w *hx.Writer, text, inc []byte, zi int) {
	zp := parser(text, inc)
	calls := func() {
		for k := r.Intn(4); k > 0; k-- {
			w.Emit(event{Ev: "comment", C: hx.FromString(zp.Comment()), Name: hx.B{}, Z: zi})
		}
	}
	if r.Intn(8) == 0 {
		calls() // before the first Next()
	}
	for {
		rr, ok := zp.Next()
		ev := event{Ev: "next", OK: ok, Name: hx.B{}, C: hx.B{}, Z: zi}
		if ok {
			ev.Name = hx.FromString(rr.Header().Name)
		}
		w.Emit(ev)
		if ok && r.Intn(10) != 0 {
			w.Emit(event{Ev: "comment", C: hx.FromString(zp.Comment()), Name: hx.B{}, Z: zi})
		}
		calls()
		if !ok {
			break
		}
	}
	w.Emit(event{Ev: "end", Err: zp.Err() != nil, Name: hx.B{}, C: hx.B{}, Z: zi})
	if r.Intn(2) == 0 { // Next() again after the end: still (nil, false), still no comment
		_, ok := zp.Next()
		w.Emit(event{Ev: "next", OK: ok, Name: hx.B{}, C: hx.B{}, Z: zi})
		w.Emit(event{Ev: "comment", C: hx.FromString(zp.Comment()), Name: hx.B{}, Z: zi})
	}
}
