package main

import (
	"fmt"
	"os"
	"strconv"
	"strings"
	"time"

	"verifharness/lib/hx"
	"verifharness/lib/sched"
)

// One line of a plan file (Gen_Server.tla Export, or a TLC counter-example turned into
// the same shape by the driver): the label of the action that led to the state and the
// observable projection of the state.  lvl = 1 starts a new behaviour.
type planLine struct {
	Lvl  int           `json:"lvl"`
	Act  []interface{} `json:"act"`
	Proj *proj         `json:"proj"`
}

type proj struct {
	Started bool     `json:"started"`
	NConns  int      `json:"nconns"`
	Inh     int      `json:"inh"`
	DL      []string `json:"dl"`
	COpen   []bool   `json:"copen"`
	LsnOpen []bool   `json:"lsnopen"`
	PCOpen  bool     `json:"pcopen"`
	PCDL    string   `json:"pcdl"`
}

type label struct {
	Name string
	Args []int
	Flag bool // first boolean argument (StLock: a call that cannot succeed)
}

func (l label) String() string {
	s := l.Name
	for _, a := range l.Args {
		s += ":" + strconv.Itoa(a)
	}
	return s
}

func mkLabel(act []interface{}) label {
	l := label{}
	if len(act) == 0 {
		return l
	}
	l.Name, _ = act[0].(string)
	for _, a := range act[1:] {
		if f, ok := a.(float64); ok {
			l.Args = append(l.Args, int(f))
		}
		if b, ok := a.(bool); ok && b {
			l.Flag = true
		}
	}
	switch l.Name { // arguments that are results, not identities
	case "SCloseChan", "ShCapture":
		l.Args = l.Args[:1]
	}
	return l
}

func lab(name string, args ...int) label { return label{Name: name, Args: args} }

// controller forces one plan onto one World.
type controller struct {
	w          *World
	mode       string
	seen       int // events already translated
	ahead      []label
	errNext    map[int]bool // starter p: the next isStarted() is the one after a failed Accept/read
	inHand     map[int]bool
	expired    map[int]bool
	expires    map[int]bool // shutdown callers whose ctx expires somewhere in the plan
	launched   map[string]bool
	pmap, hmap map[int]int // specification process id -> harness call number
	lockHeld   bool
	plan       []planLine
	wokePC     map[int]bool // the shutdown call h closed a PacketConn after its select (its wake-up is already counted)
	deferred   map[int]bool // starter p sits at gate.serve.defer with SDrain already counted
	dropDrain  map[int]bool
	diverged   string
	realised   int
	compared   int
	rechecks   int // projections that differed at first reading
}

const settle = 10 * time.Second

func (c *controller) quiet() {
	ok, snap := sched.WaitQuiet(settle)
	if !ok {
		hx.Die("gated run did not settle:\n%s\n%s", stacksOf(snap), strings.Join(c.w.R.Debug(), "\n"))
	}
	// Everything is parked at a gate, blocked in the fake net, in user code (handler, NotifyStartedFunc)
	// or finished; no gate is under srv.lock.  A goroutine that WAITS for srv.lock now is waiting
	// for a lock held across a gate or across user code.
	if c.lockHeld {
		return
	}
	for _, g := range snap {
		if (strings.HasPrefix(g.State, "sync.RWMutex.") || g.State == "sync.Mutex.Lock") && strings.Contains(g.Stack, "dns.(*Server).") {
			c.lockHeld = true
			c.w.sum.Mis("server/lock-held-across-user-code", "at quiescence a goroutine waits for srv.lock, which nothing running holds: "+firstFrames(g.Stack),
				map[string]interface{}{"mode": c.mode, "plan": c.plan, "events": c.w.R.Events()})
		}
	}
}

// observe translates the events logged since the last call into action labels.
func (c *controller) observe() []label {
	evs := c.w.R.Events()
	var out []label
	for _, e := range evs[c.seen:] {
		switch e.Ev {
		case "start.started":
			out = append(out, lab("StStarted", e.P))
		case "start.refused":
			out = append(out, lab("StRefused", e.P), lab("StErrReturn", e.P))
		case "serve.returned":
			switch e.Res {
			case "already":
			case "fail":
				out = append(out, lab("StFailed", e.P), lab("StErrReturn", e.P))
			default:
				out = append(out, lab("SReturn", e.P))
			}
		case "notify.exit":
			out = append(out, lab("SNotify", e.P))
		case "handler.hijack":
			out = append(out, lab("WHijack", e.C))
		case "h.sparepc":
			out = append(out, lab("HSparePC"))
		case "h.sparelsn":
			out = append(out, lab("HSpareLsn", e.L))
		case "h.clearpc":
			out = append(out, lab("HClearPC"))
		case "h.break":
			out = append(out, lab("HBreak"))
		case "h.fix":
			out = append(out, lab("HFix"))
		case "s.isstarted":
			if c.errNext[e.P] {
				c.errNext[e.P] = false
				out = append(out, lab("SErrCheck", e.P))
			} else {
				out = append(out, lab("SCheck", e.P))
			}
		case "lsn.accept":
			if e.Res == "ok" {
				out = append(out, lab("SAcceptOk", e.P, e.C))
			} else {
				c.errNext[e.P] = true
				out = append(out, lab("SAcceptErr", e.P))
			}
		case "conn.reg":
			out = append(out, lab("SRegister", e.P, e.C))
		case "w.start":
			out = append(out, lab("WStart", e.C))
		case "w.isstarted":
			out = append(out, lab("WLoop", e.C))
		case "conn.setdl":
			if e.Res == "past" && e.H != 0 {
				out = append(out, lab("ShKick", e.H, e.C))
			}
		case "read.dl":
			if e.C != 0 {
				out = append(out, lab("WSetDeadline", e.C))
			} else {
				out = append(out, lab("URdl", e.P))
			}
		case "conn.read":
			switch e.Res {
			case "ok":
				out = append(out, lab("WReadOk", e.C))
			case "timeout":
				out = append(out, lab("WReadTimeout", e.C))
			default:
				out = append(out, lab("WReadEOF", e.C))
			}
		case "handler.enter":
			if e.C != 0 {
				c.inHand[e.C] = true
				out = append(out, lab("WHandlerEnter", e.C))
			} else {
				out = append(out, lab("KEnter", e.K))
			}
		case "conn.write":
			out = append(out, lab("WReply", e.C))
		case "conn.close":
			if c.inHand[e.C] {
				out = append(out, lab("WHClose", e.C))
			} else {
				out = append(out, lab("WClose", e.C))
			}
		case "handler.exit":
			if e.C != 0 {
				c.inHand[e.C] = false
				out = append(out, lab("WHandlerExit", e.C))
			} else {
				out = append(out, lab("KExit", e.K))
			}
		case "pc.write":
			out = append(out, lab("KReply", e.K))
		case "conn.unreg":
			out = append(out, lab("WUnreg", e.C))
		case "worker.exit":
			if e.C != 0 {
				out = append(out, lab("WExit", e.C))
			} else {
				out = append(out, lab("KGone", e.K))
			}
		case "serve.drained":
			if c.dropDrain[e.P] { // already accounted for when the plan said SDrain
				c.dropDrain[e.P] = false
			} else {
				out = append(out, lab("SDrain", e.P))
			}
		case "serve.chanclosed":
			out = append(out, lab("SCloseChan", e.P))
		case "shutdown.begin":
			out = append(out, lab("ShBegin", e.H))
		case "shutdown.refused":
			out = append(out, lab("ShRefused", e.H))
		case "lsn.close":
			if e.H != 0 {
				out = append(out, lab("ShCloseL", e.H))
			}
		case "pc.setdl":
			if e.Res == "past" && e.H != 0 {
				out = append(out, lab("ShKickPC", e.H))
			}
		case "pc.read":
			if e.Res == "ok" {
				out = append(out, lab("UReadOk", e.P, e.K))
			} else {
				c.errNext[e.P] = true
				out = append(out, lab("UReadErr", e.P))
			}
		case "pc.close":
			if e.H != 0 {
				if !c.expired[e.H] {
					out = append(out, lab("ShWake", e.H))
				}
				c.wokePC[e.H] = true
				out = append(out, lab("ShClosePC", e.H))
			}
		case "shutdown.unlock":
			out = append(out, lab("ShUnlock", e.H))
		case "shutdown.returned":
			if e.Res == "ok" && c.mode == "tcp" && !c.wokePC[e.H] {
				out = append(out, lab("ShWake", e.H))
			}
		case "h.setlistener":
			out = append(out, lab("HSetListener", e.L))
		case "cli.connect":
			out = append(out, lab("CConnect", e.C, e.L))
		case "cli.send":
			out = append(out, lab("CSend", e.C))
		case "cli.close":
			out = append(out, lab("CClose", e.C))
		case "cli.pkt":
			out = append(out, lab("CSendPkt", e.K))
		}
	}
	c.seen = len(evs)
	return out
}

func (c *controller) parkedAt(role sched.Role, kinds ...string) bool {
	p := c.w.R.Parked(role)
	if p == nil {
		return false
	}
	for _, k := range kinds {
		if p.Kind == k {
			return true
		}
	}
	return false
}

// perform executes the operation that makes the real server take the step named by l.
// It returns the labels that happen by that operation without any observable event.
func (c *controller) perform(l label) (fiat []label, ok bool) {
	R := c.w.R
	a := func(i int) int {
		if i < len(l.Args) {
			return l.Args[i]
		}
		return 0
	}
	rel := func(role sched.Role, cmd string, kinds ...string) bool {
		if !c.parkedAt(role, kinds...) {
			return false
		}
		return R.Release(role, cmd)
	}
	s := func(i int) sched.Role { return sched.Role{Kind: "s", ID: a(i)} }
	wk := func(i int) sched.Role { return sched.Role{Kind: "w", ID: a(i)} }
	pk := func(i int) sched.Role { return sched.Role{Kind: "k", ID: a(i)} }
	h := func(i int) sched.Role { return sched.Role{Kind: "h", ID: a(i)} }
	switch l.Name {
	case "StLock":
		if c.w.nP+1 != a(0) {
			return nil, false
		}
		// The call is made but held before the library is entered: the specification's StLock only
		// takes the lock, and the real critical section (lock, check, init, started, unlock) runs as
		// one piece when the plan reaches StStarted / StRefused.
		c.w.Start(l.Flag)
		c.quiet()
		return []label{l}, c.parkedAt(s(0), "call.start")
	case "StStarted", "StRefused", "StFailed":
		return nil, rel(s(0), "", "call.start")
	case "ShBegin", "ShRefused":
		if c.w.nH+1 != a(0) {
			return nil, false
		}
		// a caller whose ctx never expires in this behaviour may as well have none: every other such call
		// goes through Shutdown(), the entry point without a context (a function of the plan alone)
		if !c.expires[a(0)] && (len(c.plan)+a(0))%2 == 0 {
			c.w.ShutdownPlain()
		} else {
			c.w.Shutdown()
		}
		c.quiet()
		return nil, rel(h(0), "", "gate.shutdown.enter")
	case "SNotify":
		return nil, rel(s(0), "", "h.notify")
	case "SCheck":
		return nil, rel(s(0), "", "gate.serve.top")
	case "SAcceptOk", "SAcceptErr":
		return nil, rel(s(0), "", "fn.lsn.accept")
	case "SRegister", "SErrCheck":
		return nil, rel(s(0), "", "gate.serve.got")
	case "USpawn":
		return []label{l}, rel(s(0), "", "gate.serve.got")
	case "SDrain":
		// wg.Wait() and close(srv.shutdown) have no gate between them.  SDrain changes nothing
		// another goroutine can see, so the goroutine is kept at the gate and released when the
		// plan reaches SCloseChan: the close happens exactly where the plan puts it.
		if !c.parkedAt(s(0), "gate.serve.defer") {
			return nil, false
		}
		c.deferred[a(0)] = true
		return []label{l}, true
	case "SCloseChan":
		if !c.deferred[a(0)] {
			return nil, false
		}
		c.deferred[a(0)] = false
		c.dropDrain[a(0)] = true
		return nil, rel(s(0), "", "gate.serve.defer")
	case "URdl":
		return nil, rel(s(0), "", "gate.read.enter")
	case "UReadOk", "UReadErr":
		return nil, rel(s(0), "", "fn.pc.read")
	case "WStart":
		return nil, rel(wk(0), "", "gate.conn.start")
	case "WLoop":
		return nil, rel(wk(0), "", "gate.conn.top")
	case "WSetDeadline":
		return nil, rel(wk(0), "", "gate.read.enter")
	case "WReadOk", "WReadTimeout", "WReadEOF":
		return nil, rel(wk(0), "", "fn.conn.read")
	case "WHandlerEnter":
		return nil, rel(wk(0), "", "h.accept")
	case "WReply":
		return nil, rel(wk(0), "reply", "h.park")
	case "WHClose":
		return nil, rel(wk(0), "close", "h.park")
	case "WHijack":
		return nil, rel(wk(0), "hijack", "h.park")
	case "WHandlerExit":
		return nil, rel(wk(0), "exit", "h.park")
	case "WUnreg":
		return nil, rel(wk(0), "", "gate.conn.closing")
	case "KStart":
		return []label{l}, rel(pk(0), "", "gate.pkt.start")
	case "KEnter":
		return nil, rel(pk(0), "", "h.accept")
	case "KReply":
		return nil, rel(pk(0), "reply", "h.park")
	case "KExit":
		return nil, rel(pk(0), "exit", "h.park")
	case "ShCapture":
		return []label{l}, rel(h(0), "", "gate.shutdown.select")
	case "ShCtx":
		if ch := c.w.shutCh[a(0)]; ch == nil || c.expired[a(0)] || len(ch) > 0 { // not called, or already back
			return nil, false
		}
		c.expired[a(0)] = true
		c.w.Expire(a(0))
		return []label{l}, true
	case "CConnect":
		if c.w.nC+1 != a(0) {
			return nil, false
		}
		return nil, c.w.Connect(a(1)) == a(0)
	case "CSend":
		return nil, c.w.Send(a(0))
	case "CClose":
		c.w.ClientClose(a(0))
		return nil, true
	case "CSendPkt":
		return nil, c.w.SendPkt() != 0
	case "HSparePC":
		c.w.SparePC()
		return nil, true
	case "HClearPC":
		c.w.ClearPC()
		return nil, true
	case "HSpareLsn":
		c.w.SpareListener()
		return nil, true
	case "HBreak":
		c.w.BreakConfig()
		return nil, true
	case "HFix":
		c.w.FixConfig()
		return nil, true
	case "HSetListener":
		if c.w.nL+1 != a(0) {
			return nil, false
		}
		c.w.SetListener()
		return nil, true
	}
	return nil, false // a label that can only happen inside another step's segment
}

// xlate renames the starter / shutdown-caller of a plan label to the harness' call numbers
// (the specification may start process 2 first; the harness numbers calls in call order).
func (c *controller) xlate(l label) label {
	if len(l.Args) == 0 {
		return l
	}
	out := label{Name: l.Name, Args: append([]int(nil), l.Args...), Flag: l.Flag}
	switch {
	case strings.HasPrefix(l.Name, "Sh"):
		if _, ok := c.hmap[l.Args[0]]; !ok {
			c.hmap[l.Args[0]] = c.w.nH + 1
		}
		out.Args[0] = c.hmap[l.Args[0]]
	case strings.HasPrefix(l.Name, "S") || strings.HasPrefix(l.Name, "U"):
		if _, ok := c.pmap[l.Args[0]]; !ok {
			c.pmap[l.Args[0]] = c.w.nP + 1
		}
		out.Args[0] = c.pmap[l.Args[0]]
	}
	return out
}

func (c *controller) takeAhead(l label) bool {
	for i, x := range c.ahead {
		if x.String() == l.String() {
			c.ahead = append(c.ahead[:i], c.ahead[i+1:]...)
			return true
		}
	}
	return false
}

// diffs lists where the observable projection of the real server differs from the specification's state.
func (c *controller) diffs(p *proj) [][3]string {
	w := c.w
	var out [][3]string
	bad := func(field string, real, spec interface{}) {
		out = append(out, [3]string{field, fmt.Sprint(real), fmt.Sprint(spec)})
	}
	// the two reads that take srv.lock: a lock held across a gate or across user code must not stop the harness
	var gotStarted bool
	var gotConns int
	if !w.readLocked(func() { gotStarted, gotConns = w.Srv.VerifStarted(), w.Srv.VerifConnCount() }) {
		c.lockHeld = true
		w.lockStuck("the projection (srv.started, len(srv.conns)) cannot be read", map[string]interface{}{"mode": c.mode, "plan": c.plan})
		return nil
	}
	if gotStarted != p.Started {
		bad("started", gotStarted, p.Started)
	}
	if gotConns != p.NConns {
		bad("len(conns)", gotConns, p.NConns)
	}
	if got := w.InHandlers(); got != p.Inh {
		bad("handlers-inside", got, p.Inh)
	}
	for i := range p.DL {
		conn := w.R.Conn(i + 1)
		if conn == nil {
			continue
		}
		st := conn.State()
		if st.Closed != !p.COpen[i] {
			bad("conn-closed", st.Closed, !p.COpen[i])
		}
		if !st.Closed && st.Deadline != p.DL[i] {
			bad("read-deadline", st.Deadline, p.DL[i])
		}
	}
	for i := range p.LsnOpen {
		if ls := w.R.Listener(i + 1); ls != nil && ls.Closed() != !p.LsnOpen[i] {
			bad("listener-closed", ls.Closed(), !p.LsnOpen[i])
		}
	}
	if w.R.PC != nil {
		st := w.R.PC.State()
		if st.Closed != !p.PCOpen {
			bad("packetconn-closed", st.Closed, !p.PCOpen)
		}
		if !st.Closed && st.Deadline != p.PCDL {
			bad("packetconn-deadline", st.Deadline, p.PCDL)
		}
	}
	return out
}

// compare checks the observable projection of the real server against the specification's state.  The state
// of a quiescent process does not change, so a difference is only reported when it is still there after the
// process has been found quiescent a second time (a goroutine caught between two blocked states cannot
// produce a finding).
func (c *controller) compare(step int, l label, p *proj, plan []planLine) {
	c.compared++
	first := c.diffs(p)
	if len(first) == 0 {
		return
	}
	time.Sleep(5 * time.Millisecond)
	c.quiet()
	c.w.R.Dbg("projection re-read after %v", first)
	c.rechecks++
	for _, d := range c.diffs(p) {
		_, snap := sched.Quiet()
		var gs []string
		for _, g := range snap {
			gs = append(gs, fmt.Sprintf("%d[%s] %s", g.ID, g.State, firstFrames(g.Stack)))
		}
		c.w.sum.Mis("server/projection:"+d[0], fmt.Sprintf("after step %d (%s) the real server has %s = %s, the specification %s", step, l, d[0], d[1], d[2]),
			map[string]interface{}{"mode": c.mode, "plan": plan[:step+1], "events": c.w.R.Events(), "goroutines": gs, "first": first})
	}
}

// run forces the plan, then lets everything finish.
func (c *controller) run(plan []planLine) {
	c.plan = plan
	c.expires = map[int]bool{}
	for _, st := range plan {
		if l := mkLabel(st.Act); l.Name == "ShCtx" && len(l.Args) > 0 {
			c.expires[l.Args[0]] = true
		}
	}
	for i, st := range plan {
		l := mkLabel(st.Act)
		if l.Name == "" {
			continue
		}
		l = c.xlate(l)
		c.w.R.Dbg("step %d %s ahead=%v", i, l, c.ahead)
		if !c.takeAhead(l) {
			fiat, ok := c.perform(l)
			if !ok {
				c.diverged = fmt.Sprintf("step %d %s: not available (parked: %v)", i, l, c.w.R.AllParked())
				break
			}
			c.quiet()
			got := append(fiat, c.observe()...)
			found := false
			for j, g := range got {
				if g.String() == l.String() {
					got = append(got[:j], got[j+1:]...)
					found = true
					break
				}
			}
			if !found {
				c.diverged = fmt.Sprintf("step %d %s: the real server did %v instead", i, l, got)
				c.ahead = append(c.ahead, got...)
				break
			}
			c.ahead = append(c.ahead, got...)
		}
		if l.Name == "StFailed" {
			c.w.CheckListeners(l.Args[0], "fail", map[string]interface{}{"plan": plan})
		}
		c.realised++
		if len(c.ahead) == 0 && st.Proj != nil {
			c.compare(i, l, st.Proj, plan)
		}
	}
	if c.diverged == "" && len(c.ahead) > 0 {
		c.diverged = fmt.Sprintf("end of plan: the real server also did %v", c.ahead)
	}
}

// finish stops gating and drives the server to completion the way a user would.
// It returns false when a call never returned (reported through the trace).
func (c *controller) finish() bool {
	w := c.w
	w.R.FreeRun()
	deadline := 15 * time.Second
	// a result, or the certainty that none will come: every goroutine is blocked
	await := func(ch chan string) bool {
		end := time.Now().Add(deadline)
		for time.Now().Before(end) {
			if _, ok := recvTimeout(ch, 2*time.Millisecond); ok {
				return true
			}
			if q, _ := sched.Quiet(); q {
				if q2, _ := sched.Quiet(); q2 && len(ch) == 0 {
					return false
				}
			}
		}
		return false
	}
	waitAll := func() bool {
		for hID, ch := range w.shutCh {
			if w.shutDone[hID] {
				continue
			}
			if !await(ch) {
				return false
			}
			w.shutDone[hID] = true
		}
		return true
	}
	ok := waitAll()
	stillStarted := false
	if ok && !w.readLocked(func() { stillStarted = w.Srv.VerifStarted() }) {
		w.lockStuck("srv.started cannot be read after every shutdown call has returned", map[string]interface{}{"mode": c.mode, "plan": c.plan})
		ok = false
	}
	if ok && stillStarted {
		w.Shutdown()
		ok = waitAll()
	}
	if ok {
		for p, ch := range w.startCh {
			if w.startDone[p] {
				continue
			}
			if !await(ch) {
				ok = false
				break
			}
			w.startDone[p] = true
		}
	}
	if !ok {
		q, snap := sched.WaitQuiet(5 * time.Second)
		if !q {
			hx.Die("a call did not return and the process is not quiescent:\n%s", stacksOf(snap))
		}
		w.R.Emit(sched.Event{Ev: "quiescent"})
		w.R.Dbg("quiescent with calls pending:\n%s", stacksOf(snap))
	}
	return ok
}

func newController(mode string, sum *hx.Summary, seed int64) *controller {
	w := NewWorld(mode, seed, true, 0, sum)
	return &controller{w: w, mode: mode, errNext: map[int]bool{}, inHand: map[int]bool{}, expired: map[int]bool{}, launched: map[string]bool{}, pmap: map[int]int{}, hmap: map[int]int{}, wokePC: map[int]bool{}, deferred: map[int]bool{}, dropDrain: map[int]bool{}}
}

func replay(mode, plans, out string) {
	var all [][]planLine
	prev, prevAct := 0, ""
	hx.ReadNDJSON(plans, func(i int, v *planLine) {
		act := fmt.Sprint(v.Act)
		if v.Lvl == prev && act == prevAct { // TLC evaluated the invariant twice on one state
			return
		}
		if v.Lvl <= prev || len(all) == 0 { // the level does not grow: a new behaviour starts
			all = append(all, nil)
		}
		prev, prevAct = v.Lvl, act
		all[len(all)-1] = append(all[len(all)-1], *v)
	})
	wr := hx.NewWriter(out)
	defer wr.Close()
	var sum hx.Summary
	realised, steps, done, compared, rechecks, kinds := 0, 0, 0, 0, 0, map[string]bool{}
	var notes []string
	for i, plan := range all {
		c := newController(mode, &sum, int64(i))
		wr.Emit(sched.Event{Ev: "reset", Res: "-"})
		c.run(plan)
		complete := c.finish()
		if complete {
			c.w.Census(map[string]interface{}{"plan": plan}, true)
		}
		c.w.R.Detach()
		if ps := c.w.Panics(); len(ps) > 0 {
			sum.Note("panic", ps[0])
		}
		evs := c.w.R.Events()
		for _, e := range evs {
			wr.Emit(e)
			kinds[e.Ev+"/"+e.Res] = true
		}
		sum.Evaluations += len(evs)
		for _, st := range plan {
			if len(st.Act) > 0 {
				steps++
			}
		}
		done += c.realised
		compared += c.compared
		rechecks += c.rechecks
		if c.diverged == "" {
			realised++
		} else if len(notes) < 5 {
			notes = append(notes, c.diverged)
		}
		if os.Getenv("VERIF_DEBUG") != "" {
			fmt.Fprintf(os.Stderr, "plan %d: realised %d/%d diverged=%q\n%s\n", i, c.realised, len(plan)-1, c.diverged, strings.Join(c.w.R.Debug(), "\n"))
		}
		if !complete {
			break // blocked goroutines stay behind; the driver runs such plans alone
		}
	}
	sum.Nontrivial = len(kinds)
	sum.Note("plans", len(all))
	sum.Note("plans_realised", realised)
	sum.Note("steps_planned", steps)
	sum.Note("steps_realised", done)
	sum.Note("projections_compared", compared)
	sum.Note("projections_reread", rechecks)
	sum.Note("not_realised_examples", notes)
	sum.Print()
}
