package main

import (
	"math/rand"
	"runtime"
	"time"

	"verifharness/lib/hx"
	"verifharness/lib/sched"
)

// scenario is one un-gated run, modelled on the repository's own server tests
// (TestShutdown*, TestInProgressQueriesAtShutdown*, TestHandlerCloseTCP,
// TestServerStartStopRace) plus ctx expiry, early client close and second calls.
type scenario struct {
	Mode       string `json:"mode"`
	N          int    `json:"n"`           // connections (tcp) / packets (pc)
	Reqs       []int  `json:"reqs"`        // tcp: requests per connection
	Hold       bool   `json:"hold"`        // handlers answer only after a shutdown began (InProgressQueriesAtShutdown)
	HClose     []bool `json:"hclose"`      // handler closes the connection (HandlerCloseTCP)
	NoReply    []bool `json:"noreply"`     // ... without replying first
	CliClose   []bool `json:"cliclose"`    // client closes early
	Ctx        bool   `json:"ctx"`         // ShutdownContext whose ctx expires while handlers are held
	Race       bool   `json:"race"`        // Shutdown right after the start call, not waiting for the server (StartStopRace)
	SecondStrt bool   `json:"secondstart"` // a second start while the server runs
	ConcShut   bool   `json:"concshut"`    // two Shutdown calls at once
	LateSend   bool   `json:"latesend"`    // some requests are sent while the shutdown is in progress
	Hijack     []bool `json:"hijack"`      // the handler hijacks the connection after its reply (zone-transfer style)
	BlockNtfy  bool   `json:"blocknotify"` // NotifyStartedFunc blocks; meanwhile a second start and a ShutdownContext with an expiring ctx
	Spare      bool   `json:"spare"`       // the value holds both fields: a spare PacketConn on the tcp server / a spare Listener on the packet server
	FailFirst  int    `json:"failfirst"`   // 1: a start with nothing to serve on fails first; 2: a call that cannot succeed (ListenAndServe)
	FailShut   bool   `json:"failshut"`    // ... then a Shutdown, which must be refused
	Restart    bool   `json:"restart"`     // after everything returned: fresh listener, start again, shut down again
	Seed       int64  `json:"seed"`
}

func genScenario(mode string, r *rand.Rand) scenario {
	sc := scenario{Mode: mode, Seed: r.Int63()}
	sc.N = r.Intn(4)
	if r.Intn(8) == 0 {
		sc.N = 6 + r.Intn(10) // the repository uses 15 in-flight queries
	}
	for i := 0; i < sc.N; i++ {
		sc.Reqs = append(sc.Reqs, r.Intn(3))
		sc.HClose = append(sc.HClose, mode == "tcp" && r.Intn(5) == 0)
		sc.NoReply = append(sc.NoReply, r.Intn(2) == 0)
		sc.CliClose = append(sc.CliClose, mode == "tcp" && r.Intn(5) == 0)
		sc.Hijack = append(sc.Hijack, mode == "tcp" && r.Intn(5) == 0)
	}
	sc.Hold = r.Intn(2) == 0
	sc.Ctx = sc.Hold && r.Intn(3) == 0
	sc.Race = r.Intn(4) == 0
	sc.SecondStrt = r.Intn(4) == 0
	sc.ConcShut = r.Intn(4) == 0
	sc.LateSend = r.Intn(3) == 0
	sc.Restart = mode == "tcp" && r.Intn(4) == 0
	sc.Spare = r.Intn(3) == 0
	sc.BlockNtfy = r.Intn(6) == 0
	if r.Intn(3) == 0 {
		sc.FailFirst = 1 + r.Intn(2)
		sc.FailShut = r.Intn(2) == 0
	}
	return sc
}

func jitter(r *rand.Rand) {
	switch r.Intn(6) {
	case 0:
		time.Sleep(time.Duration(r.Intn(400)) * time.Microsecond)
	case 1, 2:
		runtime.Gosched()
	}
}

// failedStart: a start that cannot succeed returns an error and leaves the server stopped, so a
// Shutdown right after it is refused and a corrected start is accepted (the generation that follows).
func failedStart(w *World, sc *scenario) bool {
	var p int
	if sc.FailFirst == 1 {
		w.BreakConfig()
		p = w.Start(false)
	} else {
		p = w.Start(true)
	}
	res, ok := w.Await(w.startCh[p])
	w.startDone[p] = true
	w.CheckListeners(p, res, sc)
	if sc.FailFirst == 1 {
		w.FixConfig()
	}
	if !ok {
		w.Hang("ActivateAndServe(cannot succeed)", sc)
		return false
	}
	if sc.FailShut {
		h := w.Shutdown()
		if _, ok := w.Await(w.shutCh[h]); !ok {
			w.Hang("ShutdownContext(after a failed start)", sc)
			return false
		}
	}
	return true
}

// notifyGeneration: NotifyStartedFunc is user code and may block.  The library runs it without srv.lock, so
// meanwhile a second start is refused at once and a ShutdownContext honours its ctx.
func notifyGeneration(w *World, sc *scenario, r *rand.Rand) bool {
	w.BlockNotify()
	defer w.ReleaseNotify()
	p := w.Start(false)
	select {
	case <-w.started:
	case <-time.After(waitLong):
		w.Hang("ActivateAndServe(start)", sc)
		return false
	}
	p2 := w.Start(false)
	if _, ok := w.Await(w.startCh[p2]); !ok {
		w.Hang("ActivateAndServe-while-NotifyStartedFunc-runs", sc)
		return false
	}
	w.startDone[p2] = true
	h := w.Shutdown()
	jitter(r)
	w.Expire(h)
	if _, ok := w.Await(w.shutCh[h]); !ok {
		w.Hang("ShutdownContext-while-NotifyStartedFunc-runs", sc)
		return false
	}
	w.ReleaseNotify()
	if _, ok := w.Await(w.startCh[p]); !ok {
		w.Hang("ActivateAndServe", sc)
		return false
	}
	return true
}

// oneGeneration drives one start .. shutdown cycle.  It returns false when the run
// had to be abandoned (a hang was reported).
func oneGeneration(w *World, sc *scenario, r *rand.Rand, first bool) (done bool) {
	for len(w.started) > 0 { // a tick nobody waited for
		<-w.started
	}
	p := w.Start(false)
	raced := sc.Race && first
	if !raced {
		select {
		case <-w.started:
		case res := <-w.startCh[p]:
			// the start came back without serving; the trace says why, the run ends here
			w.startCh[p] <- res
			return true
		case <-time.After(waitLong):
			w.Hang("ActivateAndServe(start)", sc)
			return false
		}
	}
	// clients
	var conns []int
	send := func(i, c int, n int) {
		for q := 0; q < n; q++ {
			if sc.Mode == "tcp" {
				w.Send(c)
			} else {
				w.SendPkt()
			}
			jitter(r)
		}
	}
	late := map[int]int{}
	if !raced {
		for i := 0; i < sc.N; i++ {
			if sc.Mode == "tcp" {
				c := w.Connect(0)
				if c == 0 {
					continue
				}
				conns = append(conns, c)
				w.SetBehaviour(sched.Role{Kind: "w", ID: c}, behaviour{hold: sc.Hold, reply: !(sc.HClose[i] && sc.NoReply[i]), close: sc.HClose[i], hijack: sc.Hijack[i]})
				n := sc.Reqs[i]
				if sc.LateSend && n > 0 && r.Intn(2) == 0 {
					late[c] = 1
					n--
				}
				jitter(r)
				send(i, c, n)
				if sc.CliClose[i] && r.Intn(2) == 0 {
					w.ClientClose(c)
				}
			} else {
				send(i, 0, 1)
			}
		}
		if sc.Mode != "tcp" {
			w.SetDefault(behaviour{hold: sc.Hold, reply: true})
		}
	}
	if sc.SecondStrt && !raced {
		p2 := w.Start(false)
		if res, ok := recvTimeout(w.startCh[p2], waitLong); !ok {
			w.Hang("ActivateAndServe(already started)", sc)
			return false
		} else if res != "already" {
			// judged by the specification through the serve.returned event; nothing to do here
			_ = res
		}
	}
	jitter(r)
	if sc.Spare && sc.Mode == "tcp" && !raced && !sc.SecondStrt {
		w.SparePC() // nobody is inside a critical section: the server runs, no call is being made
		defer func() {
			if done { // every call has returned
				w.ClearPC()
			}
		}()
	}
	// shutdown(s)
	// Shutdown() -- the entry point without a context -- unless a ctx has to expire
	shut := w.Shutdown
	if !sc.Ctx && sc.Seed%2 == 0 {
		shut = w.ShutdownPlain
	}
	hs := []int{shut()}
	if sc.ConcShut {
		hs = append(hs, w.Shutdown())
	}
	for c, n := range late {
		for i := 0; i < n; i++ {
			w.Send(c)
			jitter(r)
		}
	}
	for i, c := range conns {
		if sc.CliClose[i] && r.Intn(2) == 0 {
			w.ClientClose(c)
		}
	}
	if sc.Ctx {
		// the ctx expires while the handlers are still held; the holds are lifted afterwards
		jitter(r)
		for _, h := range hs {
			w.Expire(h)
		}
	}
	results := map[int]string{}
	for _, h := range hs {
		res, ok := recvTimeout(w.shutCh[h], waitLong)
		if !ok {
			w.ReleaseHolds()
			if res, ok = recvTimeout(w.shutCh[h], 2*time.Second); !ok {
				w.Hang("ShutdownContext", sc)
				return false
			}
		}
		results[h] = res
	}
	w.ReleaseHolds()
	if raced {
		// the shutdown may have come first ("server not started"): then the server is still
		// running, stop it for good
		stopped := false
		for _, res := range results {
			if res == "ok" || res == "ctx" {
				stopped = true
			}
		}
		if !stopped {
			select {
			case <-w.started:
			case <-time.After(waitLong):
				w.Hang("ActivateAndServe(start)", sc)
				return false
			}
			h := w.Shutdown()
			if _, ok := recvTimeout(w.shutCh[h], waitLong); !ok {
				w.Hang("ShutdownContext", sc)
				return false
			}
		}
	}
	if _, ok := recvTimeout(w.startCh[p], waitLong); !ok {
		w.Hang("ActivateAndServe", sc)
		return false
	}
	// a shutdown of a stopped server
	if r.Intn(3) == 0 {
		h := w.Shutdown()
		if _, ok := recvTimeout(w.shutCh[h], waitLong); !ok {
			w.Hang("ShutdownContext(not started)", sc)
			return false
		}
	}
	return true
}

func record(mode, out string, nruns int) {
	r := hx.Rand()
	wr := hx.NewWriter(out)
	defer wr.Close()
	var sum hx.Summary
	kinds := map[string]bool{}
	skipped := 0
	for i := 0; i < nruns; i++ {
		sc := genScenario(mode, r)
		w := NewWorld(mode, sc.Seed, false, 150, &sum)
		w.auto.Store(!sc.Ctx) // with an expiring ctx the handlers must still be inside when it expires
		wr.Emit(sched.Event{Ev: "reset", Res: "-"})
		ok := true
		if sc.Spare && mode != "tcp" && sc.FailFirst != 1 {
			w.SpareListener()
		}
		if sc.FailFirst != 0 {
			ok = failedStart(w, &sc)
		}
		if ok && sc.BlockNtfy {
			ok = notifyGeneration(w, &sc, r)
		} else if ok {
			ok = oneGeneration(w, &sc, r, true)
		}
		if ok && sc.Restart && !sc.BlockNtfy {
			w.Census(sc, false) // nobody is inside a critical section: DEV3
			w.SetListener()
			if sc.FailFirst != 0 {
				ok = failedStart(w, &sc)
			}
			sc2 := sc
			sc2.Race, sc2.Ctx = false, false
			w.RearmHolds(true)
			if ok {
				ok = oneGeneration(w, &sc2, r, false)
			}
		}
		if ok {
			w.Census(sc, true)
		}
		w.R.Detach()
		w.CloseSockets()
		if ps := w.Panics(); len(ps) > 0 {
			sum.Note("panic", ps[0])
		}
		evs := w.R.Events()
		if mode == "udp" && !inOrder(evs) {
			// The specification numbers datagrams in the order they are read.  A real socket may drop
			// or reorder; such a run is not judged (never a verdict).
			skipped++
			continue
		}
		for _, e := range evs {
			wr.Emit(e)
			kinds[e.Ev+"/"+e.Res] = true
		}
		sum.Evaluations += len(evs)
		if i < 2 {
			sum.Sample(map[string]interface{}{"scenario": sc, "events": len(evs)})
		}
		if !ok {
			break // a hang leaves goroutines behind that would disturb the next run's census
		}
	}
	sum.Nontrivial = len(kinds)
	sum.Note("events", wr.N)
	if mode == "udp" {
		sum.Note("udp_runs_not_judged", skipped)
	}
	sum.Print()
}

// inOrder reports whether the datagrams that reached a handler are exactly the first m sent.
func inOrder(evs []sched.Event) bool {
	seen := map[int]bool{}
	max := 0
	for _, e := range evs {
		if e.Ev == "handler.enter" && e.K != 0 {
			seen[e.K] = true
			if e.K > max {
				max = e.K
			}
		}
	}
	return len(seen) == max
}
