package main

import (
	"time"

	"verifharness/lib/hx"
	"verifharness/lib/sched"
)

// patience: time as part of the environment.
//
// Handlers are still running -- held by the harness -- long after Shutdown() was called: longer than every
// duration the server knows.  Shutdown() takes no context, so nothing but the drain may release it; the replies the
// held handlers write afterwards must still go out (the packet conn stays open until the drain).
//
//	variant "configured": ReadTimeout = WriteTimeout = IdleTimeout() = T (short), the handlers are held for 12 T
//	variant "defaults":   ReadTimeout, WriteTimeout zero and IdleTimeout nil (the library's 2 s / 8 s defaults),
//	                      the handlers are held for longer than the largest default
//
// Read deadlines do come in these runs (an idle connection is closed, the packet loop goes round): the specification
// explains those events with DeadlinesMayFire = TRUE (Trace_Server_<mode>_time.cfg).  Nothing is asserted here: the
// run is a sequence of observed events, `time.elapse` says how long the harness waited, TLC judges (a return of the
// plain call before the drain, or with a context error nobody asked for, has no step in the specification).
// Load only makes the harness wait longer; it cannot turn a correct run into a rejected one.
type patienceScenario struct {
	Mode    string `json:"mode"`
	Variant string `json:"variant"`
	N       int    `json:"n"`    // requests in flight
	Idle    bool   `json:"idle"` // tcp: one more connection that never sends (its read deadline comes)
	Wait    bool   `json:"wait"` // configured: the requests arrive only after the server idled for 2.5 T
	TmoMs   int    `json:"timeout_ms"`
	HoldMs  int    `json:"hold_ms"`
	Seed    int64  `json:"seed"`
}

const defaultsHold = 9500 * time.Millisecond // > tcpIdleTimeout (8 s), the largest duration the library defaults to

func patienceRun(w *World, sc *patienceScenario) (done bool) {
	hold := time.Duration(sc.HoldMs) * time.Millisecond
	p := w.Start(false)
	select {
	case <-w.started:
	case res := <-w.startCh[p]:
		w.startCh[p] <- res
		return true
	case <-time.After(waitLong):
		w.Hang("ActivateAndServe(start)", sc)
		return false
	}
	sent := 0
	if sc.Mode == "tcp" && sc.Idle {
		w.Connect(0)
	}
	if sc.Wait {
		// the server idles for longer than its read timeout before the requests arrive: read deadlines come,
		// the idle connection is closed, the packet loop goes round
		time.Sleep(time.Duration(sc.TmoMs) * 5 / 2 * time.Millisecond)
	}
	if sc.Mode == "tcp" {
		for i := 0; i < sc.N; i++ {
			c := w.Connect(0)
			if c == 0 {
				continue
			}
			w.SetBehaviour(sched.Role{Kind: "w", ID: c}, behaviour{hold: true, reply: true})
			if w.Send(c) {
				sent++
			}
		}
	} else {
		w.SetDefault(behaviour{hold: true, reply: true})
		for i := 0; i < sc.N; i++ {
			if w.SendPkt() != 0 {
				sent++
			}
		}
	}
	// the requests should be inside their handlers when Shutdown is called (whatever the order is, it is judged)
	for end := time.Now().Add(5 * time.Second); w.InHandlers() < sent && time.Now().Before(end); {
		time.Sleep(2 * time.Millisecond)
	}
	h := w.ShutdownPlain()
	t0 := time.Now()
	select {
	case res := <-w.shutCh[h]: // it is back although nothing was released: the events say so, no need to wait longer
		w.shutCh[h] <- res
	case <-time.After(hold):
	}
	w.R.Emit(sched.Event{Ev: "time.elapse", H: h, V: int(time.Since(t0) / time.Millisecond)})
	w.ReleaseHolds()
	if _, ok := recvTimeout(w.shutCh[h], waitLong); !ok {
		w.Hang("Shutdown", sc)
		return false
	}
	if _, ok := recvTimeout(w.startCh[p], waitLong); !ok {
		w.Hang("ActivateAndServe", sc)
		return false
	}
	h2 := w.ShutdownPlain() // not started any more: refused
	if _, ok := recvTimeout(w.shutCh[h2], waitLong); !ok {
		w.Hang("Shutdown(not started)", sc)
		return false
	}
	return true
}

func patience(mode, out, variant string, nruns int) {
	r := hx.Rand()
	wr := hx.NewWriter(out)
	defer wr.Close()
	var sum hx.Summary
	kinds := map[string]bool{}
	skipped, inflight := 0, 0
	for i := 0; i < nruns; i++ {
		sc := patienceScenario{Mode: mode, Variant: variant, N: 1 + i%3, Idle: mode == "tcp" && i%2 == 0, Wait: variant == "configured" && i%3 != 1, Seed: r.Int63()}
		w := NewWorld(mode, sc.Seed, false, 150, &sum)
		w.auto.Store(false) // the handlers stay inside until the harness has waited long enough
		switch variant {
		case "configured":
			t := time.Duration(80+20*(i%3)) * time.Millisecond
			w.Srv.ReadTimeout, w.Srv.WriteTimeout = t, t
			w.Srv.IdleTimeout = func() time.Duration { return t }
			sc.TmoMs = int(t / time.Millisecond)
			sc.HoldMs = 12 * sc.TmoMs
		case "defaults":
			w.Srv.ReadTimeout, w.Srv.WriteTimeout, w.Srv.IdleTimeout = 0, 0, nil
			sc.HoldMs = int(defaultsHold / time.Millisecond)
		default:
			hx.Die("unknown patience variant %q", variant)
		}
		wr.Emit(sched.Event{Ev: "reset", Res: "-"})
		ok := patienceRun(w, &sc)
		if ok {
			w.Census(sc, true)
		}
		w.R.Detach()
		w.CloseSockets()
		if ps := w.Panics(); len(ps) > 0 {
			sum.Note("panic", ps[0])
		}
		evs := w.R.Events()
		if mode == "udp" && !inOrder(evs) {
			skipped++ // a real socket may drop or reorder: not judged
			continue
		}
		for _, e := range evs {
			wr.Emit(e)
			kinds[e.Ev+"/"+e.Res] = true
		}
		w.mu.Lock()
		inflight += w.entered
		w.mu.Unlock()
		sum.Evaluations += len(evs)
		if i < 2 {
			sum.Sample(map[string]interface{}{"scenario": sc, "events": len(evs)})
		}
		if !ok {
			break
		}
	}
	sum.Nontrivial = len(kinds)
	sum.Note("events", wr.N)
	sum.Note("patience_handlers_held", inflight)
	if mode == "udp" {
		sum.Note("udp_runs_not_judged", skipped)
	}
	sum.Print()
}
