package main

import (
	"context"
	"crypto/tls"
	"encoding/binary"
	"fmt"
	"net"
	"os"
	"strings"
	"sync"
	"sync/atomic"
	"time"

	"github.com/miekg/dns"

	"verifharness/lib/fakenet"
	"verifharness/lib/hx"
	"verifharness/lib/sched"
)

const waitLong = 20 * time.Second

// behaviour of the harness' handler for one connection / packet (free mode).
type behaviour struct {
	hold   bool // wait until a shutdown has begun (or the run releases the holds)
	reply  bool
	close  bool
	hijack bool // w.Hijack() after the reply: the connection is the handler's (the harness') from then on
}

// World is one server under observation plus the harness-side actors.
type World struct {
	R      *sched.Run
	Srv    *dns.Server
	Mode   string
	Gated  bool
	UseLAS bool // start calls go through ListenAndServe (srv.Net / srv.Addr set by the caller)
	sum    *hx.Summary

	mu      sync.Mutex
	nP, nH  int
	nC, nL  int
	nK      int
	curL    *fakenet.Listener
	started chan struct{} // NotifyStartedFunc ticks
	startCh map[int]chan string
	shutCh  map[int]chan string
	// results already consumed by the driver (driver goroutine only)
	startDone, shutDone map[int]bool
	cancel              map[int]context.CancelFunc
	behav               map[sched.Role]behaviour
	defBeh              behaviour
	holdCh              chan struct{}
	holdOne             *sync.Once
	auto                atomic.Bool // lift the holds when a shutdown releases the lock
	nBad                int
	notifyCh            chan struct{} // non-nil: NotifyStartedFunc blocks until it is closed
	lsnBase             map[int]int   // listening sockets of the process before a start call that cannot succeed
	held                net.Listener  // kept by the harness for the address-in-use start
	saved               struct {
		l  net.Listener
		pc net.PacketConn
	}
	panics  []string // recovered from serve calls
	udpCli  net.Conn
	inh     int  // handlers inside (harness view)
	stuck   bool // srv.lock found held with nothing running (reported)
	entered int
}

func NewWorld(mode string, seed int64, gated bool, yield int, sum *hx.Summary) *World {
	w := &World{Mode: mode, Gated: gated, sum: sum, startCh: map[int]chan string{}, shutCh: map[int]chan string{},
		cancel: map[int]context.CancelFunc{}, behav: map[sched.Role]behaviour{}, defBeh: behaviour{reply: true},
		startDone: map[int]bool{}, shutDone: map[int]bool{},
		holdCh: make(chan struct{}), holdOne: new(sync.Once), started: make(chan struct{}, 16)}
	w.R = sched.NewRun(mode, seed, gated, yield)
	w.Srv = &dns.Server{ReadTimeout: time.Hour, WriteTimeout: time.Hour, IdleTimeout: func() time.Duration { return time.Hour }}
	w.Srv.Handler = dns.HandlerFunc(w.handle)
	w.Srv.MsgAcceptFunc = func(dh dns.Header) dns.MsgAcceptAction {
		// runs in serveDNS between the read and the handler: a gate between those two steps
		if role, ok := w.roleHere(); ok {
			w.R.ParkHere(role, "h.accept")
		}
		return dns.DefaultMsgAcceptFunc(dh)
	}
	w.Srv.NotifyStartedFunc = func() {
		// user code: the library must run it without srv.lock.  Gated: a park of its own; free
		// mode: it blocks while the scenario says so (BlockNotify / ReleaseNotify).
		role, known := w.roleHere()
		if known {
			w.R.Emit(sched.Event{Ev: "notify.enter", P: role.ID})
		}
		select {
		case w.started <- struct{}{}:
		default:
		}
		if known {
			w.R.ParkHere(role, "h.notify")
		}
		w.mu.Lock()
		ch := w.notifyCh
		w.mu.Unlock()
		if ch != nil {
			<-ch
		}
		if known {
			w.R.Emit(sched.Event{Ev: "notify.exit", P: role.ID})
		}
	}
	w.R.Srv = w.Srv
	w.auto.Store(true)
	w.R.OnRecord = func(ev string) {
		if ev == dns.VerifEvShutUnlock && w.auto.Load() {
			w.ReleaseHolds()
		}
	}
	switch mode {
	case "tcp":
		w.nL = 1
		w.curL = w.R.NewListener(1)
		w.Srv.Listener = w.curL
	case "pc":
		w.Srv.PacketConn = w.R.NewPacketConn()
	case "udp":
		// a real loopback socket: the *net.UDPConn paths (readUDP, ReadFromSessionUDP, WriteToSessionUDP)
		pc, err := net.ListenPacket("udp", "127.0.0.1:0")
		if err != nil {
			hx.Die("listen udp: %v", err)
		}
		cl, err := net.Dial("udp", pc.LocalAddr().String())
		if err != nil {
			hx.Die("dial udp: %v", err)
		}
		w.Srv.PacketConn, w.udpCli = pc, cl
	}
	return w
}

// BlockNotify makes NotifyStartedFunc block until ReleaseNotify.
func (w *World) BlockNotify() { w.mu.Lock(); w.notifyCh = make(chan struct{}); w.mu.Unlock() }

func (w *World) ReleaseNotify() {
	w.mu.Lock()
	ch := w.notifyCh
	w.notifyCh = nil
	w.mu.Unlock()
	if ch != nil {
		close(ch)
	}
}

// ReleaseHolds lets every held handler continue (idempotent, non-blocking).
func (w *World) ReleaseHolds() {
	w.mu.Lock()
	once, ch := w.holdOne, w.holdCh
	w.mu.Unlock()
	once.Do(func() { close(ch) })
}

// RearmHolds installs a fresh hold for the next generation.
func (w *World) RearmHolds(auto bool) {
	w.mu.Lock()
	w.holdCh, w.holdOne = make(chan struct{}), new(sync.Once)
	w.mu.Unlock()
	w.auto.Store(auto)
}

// SetBehaviour fixes what the handler does for role.
func (w *World) SetBehaviour(role sched.Role, b behaviour) {
	w.mu.Lock()
	w.behav[role] = b
	w.mu.Unlock()
}

// SetDefault fixes what the handler does for roles without an entry.
func (w *World) SetDefault(b behaviour) { w.mu.Lock(); w.defBeh = b; w.mu.Unlock() }

func (w *World) handle(rw dns.ResponseWriter, req *dns.Msg) {
	role, known := w.roleHere()
	if !known && w.Mode == "udp" {
		// no fakenet to tell which packet this worker serves: the DNS id is the packet number
		role = sched.Role{Kind: "k", ID: int(req.Id)}
		w.R.Bind(role)
		w.R.Emit(sched.Event{Ev: "handler.enter", K: role.ID})
	}
	w.mu.Lock()
	w.inh++
	w.entered++
	b, ok := w.behav[role]
	if !ok {
		b = w.defBeh
	}
	w.mu.Unlock()
	defer func() {
		w.mu.Lock()
		w.inh--
		w.mu.Unlock()
	}()
	reply := func() {
		m := new(dns.Msg)
		m.SetReply(req)
		err := rw.WriteMsg(m) // the outcome is observed by fakenet
		if w.Mode == "udp" {
			res := "ok"
			if err != nil {
				res = "closed"
			}
			w.R.Emit(sched.Event{Ev: "pc.write", K: role.ID, Res: res})
		}
	}
	if w.Gated {
		replied, closed := false, false
		for {
			switch cmd := w.R.ParkHere(role, "h.park"); cmd {
			case "reply":
				reply()
				replied = true
			case "close":
				rw.Close()
				closed = true
			case "hijack":
				rw.Hijack()
				w.R.Emit(sched.Event{Ev: "handler.hijack", C: role.ID})
			case "exit":
				return
			default: // free run after a divergence: finish politely
				if !replied && !closed {
					reply()
				}
				return
			}
		}
	}
	if b.hold {
		w.mu.Lock()
		ch := w.holdCh
		w.mu.Unlock()
		<-ch
	}
	if b.reply {
		reply()
	}
	if b.close {
		rw.Close()
	}
	if b.hijack && !b.close && role.Kind == "w" {
		rw.Hijack()
		w.R.Emit(sched.Event{Ev: "handler.hijack", C: role.ID})
	}
}

func (w *World) roleHere() (sched.Role, bool) {
	return w.R.RoleOf(sched.Goid())
}

// Panics returns what the serve calls panicked with.
func (w *World) Panics() []string {
	w.mu.Lock()
	defer w.mu.Unlock()
	return append([]string(nil), w.panics...)
}

// InHandlers returns how many handlers are inside, as the harness' handler sees it.
func (w *World) InHandlers() int { w.mu.Lock(); defer w.mu.Unlock(); return w.inh }

// ---------------------------------------------------------------- calls

func startResult(err error, pan interface{}) string {
	switch {
	case pan != nil:
		return "panic"
	case err == nil:
		return "nil"
	case strings.Contains(err.Error(), "server already started"):
		return "already"
	default:
		return "err"
	}
}

// Start launches a starter goroutine; the id is its process number in the specification.
// bad: a call that cannot succeed whatever the server holds -- ListenAndServe with an
// unsupported Net, an unusable address, or TLS without certificates (no socket is opened).
func (w *World) Start(bad bool) int {
	w.mu.Lock()
	w.nP++
	p := w.nP
	ch := make(chan string, 1)
	w.startCh[p] = ch
	w.nBad++
	kind := w.nBad % 5
	if bad {
		if w.lsnBase == nil {
			w.lsnBase = map[int]int{}
		}
		if kind == 4 && w.held == nil { // an address that is in use: the harness holds it
			l, err := net.Listen("tcp", "127.0.0.1:0")
			if err != nil {
				hx.Die("listen: %v", err)
			}
			w.held = l
		}
		w.lsnBase[p] = listeningSockets()
	}
	w.mu.Unlock()
	v := 0
	if bad {
		v = 1
	}
	w.R.Emit(sched.Event{Ev: "start.call", P: p, V: v})
	go func() {
		role := sched.Role{Kind: "s", ID: p}
		w.R.Bind(role)
		w.R.ParkHere(role, "call.start")
		var err error
		var pan interface{}
		func() {
			defer func() { pan = recover() }()
			if bad {
				saved := w.Srv.TLSConfig
				switch kind {
				case 0:
					w.Srv.Net, w.Srv.Addr = "bogus", ""
				case 1:
					w.Srv.Net, w.Srv.Addr = "tcp", "256.256.256.256:1"
				case 2:
					w.Srv.Net, w.Srv.Addr, w.Srv.TLSConfig = "tcp-tls", "127.0.0.1:0", nil
				case 3:
					w.Srv.Net, w.Srv.Addr, w.Srv.TLSConfig = "tcp-tls", "127.0.0.1:0", &tls.Config{}
				default:
					w.Srv.Net, w.Srv.Addr = "tcp", w.held.Addr().String()
				}
				err = w.Srv.ListenAndServe()
				w.Srv.TLSConfig = saved
			} else if w.UseLAS {
				err = w.Srv.ListenAndServe()
			} else {
				err = w.Srv.ActivateAndServe()
			}
		}()
		res := startResult(err, pan)
		if res == "err" && !w.R.Has("start.started", p) {
			res = "fail" // the call failed before serving
		}
		what := "-"
		if pan != nil {
			what = fmt.Sprint(pan)
		}
		w.R.Emit(sched.Event{Ev: "serve.returned", P: p, Res: res})
		if pan != nil {
			w.R.Dbg("starter %d panicked: %s", p, what)
			w.mu.Lock()
			w.panics = append(w.panics, what)
			w.mu.Unlock()
		}
		ch <- res
	}()
	return p
}

func shutResult(err error) string {
	switch {
	case err == nil:
		return "ok"
	case err == context.Canceled || err == context.DeadlineExceeded:
		return "ctx"
	case strings.Contains(err.Error(), "server not started"):
		return "notstarted"
	default:
		return "err:" + err.Error()
	}
}

// Shutdown launches a ShutdownContext call; its ctx is cancelled by Expire(h).
func (w *World) Shutdown() int { return w.shutdownCall(false) }

// ShutdownPlain launches a Shutdown() call: the entry point without a context.  Nothing can expire; the call
// comes back through the drain only (Expire(h) does nothing for it).
func (w *World) ShutdownPlain() int { return w.shutdownCall(true) }

func (w *World) shutdownCall(plain bool) int {
	w.mu.Lock()
	w.nH++
	h := w.nH
	ch := make(chan string, 1)
	w.shutCh[h] = ch
	ctx := context.Background()
	v := 1
	if !plain {
		var cancel context.CancelFunc
		ctx, cancel = context.WithCancel(ctx)
		w.cancel[h] = cancel
		v = 0
	}
	w.mu.Unlock()
	w.R.Emit(sched.Event{Ev: "shutdown.call", H: h, V: v})
	go func() {
		role := sched.Role{Kind: "h", ID: h}
		w.R.Bind(role)
		var err error
		if plain {
			err = w.Srv.Shutdown() // parks at the library's gate.shutdown.enter when gated
		} else {
			err = w.Srv.ShutdownContext(ctx)
		}
		res := shutResult(err)
		w.R.Emit(sched.Event{Ev: "shutdown.returned", H: h, Res: res})
		ch <- res
	}()
	return h
}

// Expire cancels the context of shutdown call h.
func (w *World) Expire(h int) {
	w.mu.Lock()
	c := w.cancel[h]
	w.mu.Unlock()
	if c != nil {
		w.R.Emit(sched.Event{Ev: "ctx.expire", H: h})
		c()
	}
}

// SparePC puts a packet conn nobody serves into srv.PacketConn of a running stream server: the
// field state a Server value has after an earlier udp run, or with a user-supplied PacketConn.
// SpareListener is the converse for a value that serves its PacketConn.  ClearPC sets the field
// back to nil.  The caller guarantees that no call is inside its critical section.
func (w *World) SparePC() {
	pc := w.R.NewPacketConn()
	w.R.Emit(sched.Event{Ev: "h.sparepc"})
	w.Srv.PacketConn = pc
}

func (w *World) ClearPC() {
	w.R.Emit(sched.Event{Ev: "h.clearpc"})
	w.Srv.PacketConn = nil
}

func (w *World) SpareListener() {
	l := w.R.NewListener(1)
	w.R.Emit(sched.Event{Ev: "h.sparelsn", L: 1})
	w.Srv.Listener = l
}

// listeningSockets counts the TCP sockets of this process that are in the LISTEN state
// (/proc/self/fd against /proc/self/net/tcp{,6}); -1 when /proc is not readable.
func listeningSockets() int {
	ents, err := os.ReadDir("/proc/self/fd")
	if err != nil {
		return -1
	}
	mine := map[string]bool{}
	for _, e := range ents {
		if t, err := os.Readlink("/proc/self/fd/" + e.Name()); err == nil && strings.HasPrefix(t, "socket:[") {
			mine[strings.TrimSuffix(strings.TrimPrefix(t, "socket:["), "]")] = true
		}
	}
	n := 0
	for _, f := range []string{"/proc/self/net/tcp", "/proc/self/net/tcp6"} {
		b, err := os.ReadFile(f)
		if err != nil {
			continue
		}
		for _, ln := range strings.Split(string(b), "\n")[1:] {
			fs := strings.Fields(ln)
			if len(fs) > 9 && fs[3] == "0A" && mine[fs[9]] {
				n++
			}
		}
	}
	return n
}

// CheckListeners: a start call that failed must leave nothing listening (what it bound, it closes).
func (w *World) CheckListeners(p int, res string, sc interface{}) {
	w.mu.Lock()
	base, ok := w.lsnBase[p]
	delete(w.lsnBase, p)
	held := w.held
	w.held = nil
	w.mu.Unlock()
	if ok && base >= 0 && res == "fail" {
		if now := listeningSockets(); now > base {
			w.sum.Mis("server/failed-start-leaves-listener", fmt.Sprintf("a start call that returned an error left %d listening socket(s) open (Net=%s Addr=%s)",
				now-base, w.Srv.Net, w.Srv.Addr), map[string]interface{}{"scenario": sc, "events": w.R.Events()})
		}
	}
	if held != nil {
		held.Close()
	}
}

// BreakConfig leaves the server without anything to serve on (nil listener / packet conn, or for
// real UDP every other time an already closed *net.UDPConn); FixConfig puts the usable one back.
// Like SetListener they may only be called while no call of the server is in progress.
func (w *World) BreakConfig() {
	w.saved.l, w.saved.pc = w.Srv.Listener, w.Srv.PacketConn
	w.R.Emit(sched.Event{Ev: "h.break"})
	w.Srv.Listener, w.Srv.PacketConn = nil, nil
	w.nBad++
	if w.Mode == "udp" && w.nBad%2 == 0 {
		pc, err := net.ListenPacket("udp", "127.0.0.1:0")
		if err != nil {
			hx.Die("listen udp: %v", err)
		}
		pc.Close()
		w.Srv.PacketConn = pc
	}
}

func (w *World) FixConfig() {
	w.R.Emit(sched.Event{Ev: "h.fix"})
	w.Srv.Listener, w.Srv.PacketConn = w.saved.l, w.saved.pc
}

// readLocked runs f -- a read of the server's state that takes srv.lock (VerifStarted, VerifConnCount) -- in such a way
// that the harness itself cannot be stopped by a lock the server holds across a gate or across user code: f runs in a
// goroutine of its own; it has returned, or the whole process is quiescent (seen twice) with f still waiting for the
// lock, which then nothing running holds -- false.  The reader goroutine stays behind until the lock is released.
func (w *World) readLocked(f func()) bool {
	done := make(chan struct{})
	go func() {
		defer close(done)
		f()
	}()
	for end := time.Now().Add(waitLong); time.Now().Before(end); {
		select {
		case <-done:
			return true
		case <-time.After(2 * time.Millisecond):
		}
		if q, _ := sched.Quiet(); q {
			if q2, _ := sched.Quiet(); q2 {
				select {
				case <-done:
					return true
				default:
					return false
				}
			}
		}
	}
	return false
}

// lockStuck reports (once per world) that srv.lock is held although nothing runs.
func (w *World) lockStuck(what string, cs map[string]interface{}) {
	w.mu.Lock()
	seen := w.stuck
	w.stuck = true
	w.mu.Unlock()
	if seen {
		return
	}
	_, snap := sched.Quiet()
	cs["events"] = w.R.Events()
	w.sum.Mis("server/lock-held-across-user-code", what+": srv.lock is held although every goroutine is parked at a gate, blocked in the transport or in user code (handler, NotifyStartedFunc)\n"+stacksOf(snap),
		cs)
}

// Await waits for a result, or for the certainty that none will come (every goroutine blocked).
func (w *World) Await(ch chan string) (string, bool) {
	end := time.Now().Add(waitLong)
	for time.Now().Before(end) {
		if r, ok := recvTimeout(ch, 2*time.Millisecond); ok {
			return r, true
		}
		if q, _ := sched.Quiet(); q {
			if q2, _ := sched.Quiet(); q2 && len(ch) == 0 {
				return "", false
			}
		}
	}
	return "", false
}

// SetListener assigns a fresh listener to srv.Listener (DEV3 of the specification:
// the caller guarantees that no call is inside its critical section).
func (w *World) SetListener() int {
	w.mu.Lock()
	w.nL++
	l := w.nL
	w.mu.Unlock()
	nl := w.R.Listener(l) // a client may have dialled it already
	if nl == nil {
		nl = w.R.NewListener(l)
	}
	w.R.Emit(sched.Event{Ev: "h.setlistener", L: l})
	w.Srv.Listener = nl
	w.mu.Lock()
	w.curL = nl
	w.mu.Unlock()
	return l
}

func query(id uint16) []byte {
	m := new(dns.Msg)
	m.SetQuestion("example.org.", dns.TypeA)
	m.Id = id
	b, err := m.Pack()
	if err != nil {
		hx.Die("pack: %v", err)
	}
	return b
}

// Connect dials listener l (0 = the current one); 0 when refused.
func (w *World) Connect(l int) int {
	w.mu.Lock()
	w.nC++
	c := w.nC
	ls := w.curL
	w.mu.Unlock()
	if l != 0 {
		if ls = w.R.Listener(l); ls == nil {
			ls = w.R.NewListener(l) // the listener exists before the harness hands it to the server
		}
	}
	conn := w.R.NewConn(c)
	if ls == nil || !ls.Connect(conn) {
		w.mu.Lock()
		w.nC--
		w.mu.Unlock()
		return 0
	}
	return c
}

func (w *World) Send(c int) bool {
	conn := w.R.Conn(c)
	if conn == nil {
		return false
	}
	q := query(uint16(c*100 + 1))
	msg := make([]byte, 2+len(q))
	binary.BigEndian.PutUint16(msg, uint16(len(q)))
	copy(msg[2:], q)
	return conn.ClientSend(msg)
}

func (w *World) ClientClose(c int) {
	if conn := w.R.Conn(c); conn != nil {
		conn.ClientClose()
	}
}

func (w *World) SendPkt() int {
	w.mu.Lock()
	w.nK++
	k := w.nK
	w.mu.Unlock()
	if w.Mode == "udp" {
		w.R.Emit(sched.Event{Ev: "cli.pkt", K: k})
		if _, err := w.udpCli.Write(query(uint16(k))); err != nil {
			hx.Die("udp send: %v", err)
		}
		return k
	}
	if w.R.PC.ClientSend(query(uint16(k))) == 0 {
		w.mu.Lock()
		w.nK--
		w.mu.Unlock()
		return 0
	}
	return k
}

// ---------------------------------------------------------------- waiting and census

func recvTimeout(ch chan string, d time.Duration) (string, bool) {
	select {
	case r := <-ch:
		return r, true
	case <-time.After(d):
		return "", false
	}
}

// stacksOf formats the server-related goroutines of a snapshot.
func stacksOf(snap []sched.GoInfo) string {
	var b strings.Builder
	for _, g := range snap {
		if strings.Contains(g.Stack, "miekg/dns") {
			lines := strings.Split(g.Stack, "\n")
			if len(lines) > 9 {
				lines = lines[:9]
			}
			b.WriteString(strings.Join(lines, "\n"))
			b.WriteString("\n")
		}
	}
	return b.String()
}

// CloseSockets releases what a udp run opened.
func (w *World) CloseSockets() {
	if w.udpCli != nil {
		w.udpCli.Close()
		if pc := w.Srv.PacketConn; pc != nil {
			pc.Close()
		}
	}
}

// Census waits for quiescence and reports what is left of the server.
// complete: the last shutdown returned and every serve call returned.
func (w *World) Census(sc interface{}, complete bool) {
	ok, snap := sched.WaitQuiet(waitLong)
	if !ok {
		hx.Die("run did not become quiescent:\n%s", stacksOf(snap))
	}
	if !complete {
		return
	}
	if left := sched.ServerGoroutines(snap); len(left) > 0 {
		where := "other"
		st := left[0].Stack
		switch {
		case strings.Contains(st, "serveTCPConn"):
			where = "serveTCPConn"
		case strings.Contains(st, "serveUDPPacket"):
			where = "serveUDPPacket"
		case strings.Contains(st, "serveTCP"):
			where = "serveTCP"
		case strings.Contains(st, "serveUDP"):
			where = "serveUDP"
		case strings.Contains(st, "ShutdownContext"):
			where = "ShutdownContext"
		}
		w.sum.Mis("server/leak-goroutine:"+where, fmt.Sprintf("%d goroutine(s) of the server remain after shutdown completed, e.g. [%s] %s",
			len(left), left[0].State, firstFrames(st)), map[string]interface{}{"scenario": sc, "events": w.R.Events()})
	}
	n := 0
	if !w.readLocked(func() { n = w.Srv.VerifConnCount() }) {
		w.lockStuck("len(srv.conns) cannot be read after shutdown completed", map[string]interface{}{"scenario": sc})
	} else if n != 0 {
		w.sum.Mis("server/leak-conn", fmt.Sprintf("len(srv.conns) = %d after shutdown completed", n),
			map[string]interface{}{"scenario": sc, "events": w.R.Events()})
	}
}

func firstFrames(st string) string {
	lines := strings.Split(st, "\n")
	var fr []string
	for _, l := range lines[1:] {
		if !strings.HasPrefix(l, "\t") {
			fr = append(fr, strings.TrimSpace(l))
		}
		if len(fr) == 4 {
			break
		}
	}
	return strings.Join(fr, " <- ")
}

// Hang is called when an expected return did not come: a quiescent process is an
// observed deadlock of the real code, anything else is infrastructure.
func (w *World) Hang(what string, sc interface{}) {
	ok, snap := sched.WaitQuiet(5 * time.Second)
	if !ok {
		hx.Die("%s did not return and the process is not quiescent:\n%s", what, stacksOf(snap))
	}
	key := strings.NewReplacer("(", "-", ")", "", " ", "-").Replace(what)
	w.sum.Mis("server/hang:"+key, what+" never returns: every goroutine is blocked\n"+stacksOf(snap),
		map[string]interface{}{"scenario": sc, "events": w.R.Events()})
}
