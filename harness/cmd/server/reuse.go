package main

import (
	"crypto/ecdsa"
	"crypto/elliptic"
	"crypto/rand"
	"crypto/tls"
	"crypto/x509"
	"crypto/x509/pkix"
	"math/big"
	"time"

	"github.com/miekg/dns"

	"verifharness/lib/hx"
)

// reuse: ONE Server value started again and again through ListenAndServe on real loopback
// sockets, switching transports in every order (udp->tcp, tcp->udp, tcp->tcp-tls, udp->udp, ...).
// ListenAndServe stores the socket it opens in srv.PacketConn / srv.Listener and never clears
// the other field, so from the second run on the value holds BOTH fields.  Each run answers one
// query and is shut down; Shutdown and the serve call must return (liveness bound: the exact
// quiescence test), nothing of the server may remain.  Mixed transports on one value are outside
// the single-transport specification, so these runs are not trace-validated: only what the
// runtime shows (an observed deadlock, a leak, a crash, a race report) is reported.

func selfSigned() tls.Certificate {
	key, err := ecdsa.GenerateKey(elliptic.P256(), rand.Reader)
	if err != nil {
		hx.Die("key: %v", err)
	}
	tmpl := &x509.Certificate{SerialNumber: big.NewInt(1), Subject: pkix.Name{CommonName: "localhost"},
		NotBefore: time.Now().Add(-time.Hour), NotAfter: time.Now().Add(24 * time.Hour), DNSNames: []string{"localhost"}}
	der, err := x509.CreateCertificate(rand.Reader, tmpl, tmpl, &key.PublicKey, key)
	if err != nil {
		hx.Die("cert: %v", err)
	}
	return tls.Certificate{Certificate: [][]byte{der}, PrivateKey: key}
}

var orders = [][]string{
	{"udp", "tcp"}, {"tcp", "udp"}, {"tcp", "tcp-tls"}, {"udp", "udp"}, {"tcp-tls", "udp"}, {"tcp", "tcp"},
	{"udp", "tcp-tls", "tcp"}, {"tcp", "udp", "tcp"}, {"udp", "tcp", "udp"},
}

func reuse(nruns int) {
	r := hx.Rand()
	var sum hx.Summary
	cert := selfSigned()
	gens := 0
	for i := 0; i < nruns; i++ {
		order := orders[(i+int(hx.Seed()))%len(orders)]
		w := NewWorld("reuse", r.Int63(), false, 150, &sum)
		w.UseLAS = true
		w.Srv.Addr = "127.0.0.1:0"
		w.Srv.TLSConfig = &tls.Config{Certificates: []tls.Certificate{cert}}
		sc := map[string]interface{}{"reuse": order}
		ok := true
		for gi, kind := range order {
			gens++
			if gi > 0 && r.Intn(2) == 0 { // a start that cannot succeed in between: nothing may stay bound
				pb := w.Start(true)
				res, got := w.Await(w.startCh[pb])
				w.startDone[pb] = true
				if !got {
					w.Hang("ListenAndServe-cannot-succeed", sc)
					ok = false
					break
				}
				w.CheckListeners(pb, res, sc)
				w.Srv.Addr = "127.0.0.1:0"
			}
			w.Srv.Net = kind // no call is in progress
			for len(w.started) > 0 {
				<-w.started
			}
			p := w.Start(false)
			select {
			case <-w.started:
			case res := <-w.startCh[p]:
				sum.Mis("server/reuse:start-failed", "ListenAndServe("+kind+") on a reused Server returned "+res, sc)
				ok = false
			case <-time.After(waitLong):
				w.Hang("ListenAndServe-"+kind, sc)
				ok = false
			}
			if !ok {
				break
			}
			// one query through the real socket (the reply is not judged here)
			c := &dns.Client{Net: kind, Timeout: 2 * time.Second, TLSConfig: &tls.Config{InsecureSkipVerify: true}}
			addr := ""
			if kind == "udp" {
				addr = w.Srv.PacketConn.LocalAddr().String()
			} else {
				addr = w.Srv.Listener.Addr().String()
			}
			m := new(dns.Msg)
			m.SetQuestion("example.org.", dns.TypeA)
			c.Exchange(m, addr)
			jitter(r)
			h := w.Shutdown()
			if _, got := w.Await(w.shutCh[h]); !got {
				w.Hang("ShutdownContext-reused-"+kind+"-after-"+order[0], sc)
				ok = false
				break
			}
			if _, got := w.Await(w.startCh[p]); !got {
				w.Hang("ListenAndServe-reused-"+kind, sc)
				ok = false
				break
			}
		}
		if ok {
			w.Census(sc, true)
		}
		w.R.Detach()
		if ps := w.Panics(); len(ps) > 0 {
			sum.Mis("server/reuse:panic", "serve call panicked: "+ps[0], sc)
		}
		sum.Evaluations += len(w.R.Events())
		if !ok {
			break
		}
	}
	sum.Nontrivial = gens
	sum.Note("reuse_generations", gens)
	sum.Print()
}
