// Command server binds spec/Server.tla to the real dns.Server (property C13).
//
//	server record <tcp|pc|udp> <out.ndjson> <nruns>   un-gated seeded scenarios, events logged for Trace_Server
//	server replay <tcp|pc> <plans.ndjson> <out.ndjson>  TLC behaviours forced onto the real server through the gates
//	server reuse <nruns>                              one Server value reused across transports (real sockets, ListenAndServe)
//	server patience <tcp|pc|udp> <out.ndjson> <configured|defaults> <nruns>
//	                                                  handlers held across a plain Shutdown() for longer than every timeout
//
// The restart-during-shutdown schedules are ordinary plans (TLC counter-examples of MC_Server_restart);
// the driver replays each in its own process with a time-out.
//
// The oracle is never here: record/replay only produce the observed event sequence
// (judged by TLC with Trace_Server.tla) and runtime observations the specification
// cannot make (goroutine census, connection map size, crashes, quiescent hangs).
package main

import (
	"os"
	"strconv"

	"verifharness/lib/hx"
)

func main() {
	if len(os.Args) < 2 {
		hx.Die("usage: server record|replay ...")
	}
	switch os.Args[1] {
	case "record":
		if len(os.Args) < 5 {
			hx.Die("usage: server record <tcp|pc|udp> <out.ndjson> <nruns>")
		}
		n, _ := strconv.Atoi(os.Args[4])
		record(os.Args[2], os.Args[3], n)
	case "reuse":
		if len(os.Args) < 3 {
			hx.Die("usage: server reuse <nruns>")
		}
		n, _ := strconv.Atoi(os.Args[2])
		reuse(n)
	case "patience":
		if len(os.Args) < 6 {
			hx.Die("usage: server patience <tcp|pc|udp> <out.ndjson> <configured|defaults> <nruns>")
		}
		n, _ := strconv.Atoi(os.Args[5])
		patience(os.Args[2], os.Args[3], os.Args[4], n)
	case "replay":
		if len(os.Args) < 5 {
			hx.Die("usage: server replay <tcp|pc> <plans.ndjson> <out.ndjson>")
		}
		replay(os.Args[2], os.Args[3], os.Args[4])
	default:
		hx.Die("unknown mode %s", os.Args[1])
	}
}
