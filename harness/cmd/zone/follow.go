package main

// The "follow" family (C06): every record text of the zoo (one or more per RR type) in FIRST, SECOND and THIRD position
// of a three-record zone
//
//	a.example.org. 300 <class i> <type i> <rdata i>
//	               7200 <class j> <type j> <rdata j>        (owner omitted)
//	c.example.org. <class k> <type k> <rdata k>             (TTL omitted: the last stated one, 7200)
//
// in several spellings of the record bodies (plain, trailing comment, trailing blanks, CRLF line ends, RDATA in
// parentheses on two lines, broken inside the parentheses without / with a comment on the break, RFC 3597 \# form, last line without a line end).  A parser
// of some type that leaves part of its line unread, or reads into the next line, breaks the records that FOLLOW it.
//
// What the three lines denote is Zone.tla's business (owner / TTL / class inheritance, one record per line, in
// order): the harness logs per-line events for Trace_Zone.  The RDATA of the ~85 types is opaque to Zone.tla; its
// octets are taken from parsing the record alone (the RDATA codec is C01 / C05's property, not this one's).
// Checked here directly: dns.NewRR accepts every single record with and without a final line end and agrees with
// that reference; dns.ReadRR on the zone returns the first record.

import (
	"encoding/hex"
	"fmt"
	"reflect"
	"sort"
	"strings"

	"github.com/miekg/dns"

	"verifharness/lib/hx"
	zg "verifharness/lib/zonegen"
	"verifharness/lib/zoo"
)

type zooRef struct {
	typ   string
	class string
	rdata string // presentation RDATA
	rec   zg.Rec // reference: the record parsed alone

	keywords map[string]bool // RDATA items that are keywords (see keywordValues)
	extra    bool            // one of keywordRefs(): only the spellings that concern keywords
}

func splitUnquoted(s string) (head, tail string, ok bool) {
	q, esc := false, false
	for i := 0; i < len(s); i++ {
		switch {
		case esc:
			esc = false
		case s[i] == '\\':
			esc = true
		case s[i] == '"':
			q = !q
		case s[i] == ' ' && !q && i > 0:
			return s[:i], s[i+1:], true
		}
	}
	return s, "", false
}

func packOf(rr dns.RR) (zg.Rec, bool) {
	r := zg.RecOf(rr, make([]byte, 70000))
	return r, r.Type != -1
}

// nameValues: the values of the fields of rr that the library's own struct tags declare to be domain names
// (dns:"domain-name", "cdomain-name", the IPSECKEY / AMTRELAY gateway hosts), whatever the type.
func nameValues(rr dns.RR) map[string]bool {
	out := map[string]bool{}
	v := reflect.ValueOf(rr)
	for v.Kind() == reflect.Ptr || v.Kind() == reflect.Interface {
		v = v.Elem()
	}
	if v.Kind() != reflect.Struct {
		return out
	}
	for i := 0; i < v.NumField(); i++ {
		if sf := v.Type().Field(i); sf.Anonymous && sf.Name != "Hdr" && v.Field(i).CanInterface() { // NXT{NSEC}, SIG{RRSIG}, ...
			if inner, ok := v.Field(i).Addr().Interface().(dns.RR); ok {
				for n := range nameValues(inner) {
					out[n] = true
				}
			}
			continue
		}
		tag := v.Type().Field(i).Tag.Get("dns")
		if !(strings.Contains(tag, "domain-name") || strings.HasSuffix(tag, "host")) {
			continue
		}
		switch f := v.Field(i); f.Kind() {
		case reflect.String:
			out[f.String()] = true
		case reflect.Slice:
			for k := 0; k < f.Len(); k++ {
				if f.Index(k).Kind() == reflect.String {
					out[f.Index(k).String()] = true
				}
			}
		}
	}
	return out
}

// keywordValues: the mnemonics a record's RDATA spells as KEYWORDS -- the members of its type bit map (fields the library
// tags dns:"nsec") and its "type covered": type mnemonics, read from the same table as the type of the record header.
// "Keyword case does not change the result": these items, like the class and the type of the record header, may be
// written in any case.  (AMBIG, not demanded: the case of algorithm / certificate-type mnemonics inside RDATA -- the
// pinned CERT parser takes them in upper case only, DS / TA in any case; whether they are "keywords" of the zone
// grammar the statement does not say.)
func keywordValues(rr dns.RR) map[string]bool {
	out := map[string]bool{}
	v := reflect.ValueOf(rr)
	for v.Kind() == reflect.Ptr || v.Kind() == reflect.Interface {
		v = v.Elem()
	}
	if v.Kind() != reflect.Struct {
		return out
	}
	for i := 0; i < v.NumField(); i++ {
		sf := v.Type().Field(i)
		if sf.Anonymous && sf.Name != "Hdr" && v.Field(i).CanInterface() {
			if inner, ok := v.Field(i).Addr().Interface().(dns.RR); ok {
				for n := range keywordValues(inner) {
					out[n] = true
				}
			}
			continue
		}
		f := v.Field(i)
		switch {
		case sf.Tag.Get("dns") == "nsec" && f.Kind() == reflect.Slice:
			for k := 0; k < f.Len(); k++ {
				out[dns.Type(uint16(f.Index(k).Uint())).String()] = true
			}
		case sf.Name == "TypeCovered" && f.Kind() == reflect.Uint16:
			out[dns.Type(uint16(f.Uint())).String()] = true
		}
	}
	return out
}

func capital(s string) string {
	if s == "" {
		return s
	}
	return strings.ToUpper(s[:1]) + strings.ToLower(s[1:])
}

// keywordSpelling: class, type and RDATA of a zoo record with every keyword rewritten by f (the other items untouched).
func keywordSpelling(z zooRef, f func(string) string) (class, body string) {
	items := strings.Split(z.rdata, " ")
	for i, it := range items {
		if z.keywords[it] {
			items[i] = f(it)
		}
	}
	body = f(z.typ)
	if z.rdata != "" {
		body += " " + strings.Join(items, " ")
	}
	return f(z.class), body
}

// keywordRefs: records that spell, as keywords of their RDATA, EVERY type mnemonic the library knows (the bit maps of NSEC,
// NSEC3, CSYNC and NXT; the type covered of RRSIG / SIG for the mnemonics that hold a digit or a hyphen): the zoo's own
// records name only a handful.  References as for the zoo: the record parsed
// alone, written in upper case.
func keywordRefs() []string {
	var nums []int
	for t := range dns.TypeToString {
		if t != dns.TypeNone && t != dns.TypeReserved {
			nums = append(nums, int(t))
		}
	}
	nums = append(nums, 1234, 65280) // (no mnemonic: written TYPE1234, TYPE65280)
	sort.Ints(nums)                  // (a bit map is packed in ascending order)
	var all, low []string
	for _, t := range nums {
		all = append(all, dns.Type(uint16(t)).String())
		if t < 128 {
			low = append(low, dns.Type(uint16(t)).String())
		}
	}
	bm := strings.Join(all, " ")
	out := []string{
		"OWNER 3600 IN NSEC next.example.org. " + bm,
		"OWNER 3600 IN NSEC3 1 1 12 aabbccdd 2vptu5timamqttgl4luu9kg21e0aor3s " + bm,
		"OWNER 3600 IN CSYNC 66 3 " + bm,
		"OWNER 3600 IN NXT next.example.org. " + strings.Join(low, " "),
	}
	k := 0
	for _, m := range all {
		if strings.ContainsAny(m, "0123456789-") {
			out = append(out, "OWNER 3600 IN "+[]string{"RRSIG", "SIG"}[k%2]+" "+m+" 13 2 3600 20300101000000 20200101000000 12345 example.org. oJMRESz5E4gYzS/q6XDrvU1qMPYIjCWzJaOau8XNEZeqCYKD5ar0IRd8KqXXFJkqmVfRvMGPmM1x8fGAa2XhSA==")
			k++
		}
	}
	return out
}

// relNames: "relative names are completed with the current origin and @ is the origin" for EVERY name field of the
// RDATA of every type, not only the first one.  For each zoo record and each RDATA item that is the value of a field
// the library tags as a domain name, the zone
//
//	$ORIGIN <the name without its first label>          resp.   $ORIGIN <the name>
//	o.example.org. 300 <class> <type> ... <first label> ...         ... @ ...
//
// denotes the same record as the absolute spelling (the reference: the record parsed alone).  Zone.tla judges the
// line events; that the two spellings are equivalent is the rule of the statement, applied by construction.
func relNames(refs []zooRef, w *hx.Writer, sum *hx.Summary) {
	cfg := zg.Cfg{DefTTL: -1, Origin: zg.NameOpt{Set: true, N: []hx.B{}}, IncAllowed: false, File: hx.FromString("db"), Files: []zg.File{}}
	classNum := map[string]int{"IN": 1, "CH": 3}
	owner := zg.Ref{K: "abs", N: []hx.B{hx.FromString("o"), hx.FromString("example"), hx.FromString("org")}}
	nfields := 0
	for _, z := range refs {
		rr, err := dns.NewRR("o.example.org. 300 " + z.class + " " + z.typ + " " + z.rdata)
		if err != nil || rr == nil {
			continue
		}
		names := nameValues(rr)
		items := strings.Split(z.rdata, " ")
		for i, it := range items {
			if !names[it] || it == "." || strings.ContainsAny(it, "\"\\") {
				continue
			}
			labels := dns.SplitDomainName(it)
			if len(labels) == 0 {
				continue
			}
			nfields++
			parent := strings.TrimPrefix(it, labels[0]+".")
			if parent == "" {
				parent = "."
			}
			for _, v := range []struct{ how, origin, spelled string }{{"relative", parent, labels[0]}, {"at", it, "@"}} {
				sum.Evaluations++
				spelt := append([]string{}, items...)
				spelt[i] = v.spelled
				text := "$ORIGIN " + v.origin + "\n" + "o.example.org. 300 " + z.class + " " + z.typ + " " + strings.Join(spelt, " ") + "\n"
				fam := fmt.Sprintf("relname|%s|%s|%d", v.how, z.typ, i+1)
				cs := map[string]interface{}{"follow": fam, "text": text}
				o, timedOut, _ := zg.RunBudget([]byte(text), zg.RunCfg{Origin: ".", DefTTL: -1, File: "db", NoMem: true}, budget)
				if timedOut {
					hang(sum, "relname:"+z.typ, "ZoneParser.Next", cs)
				}
				if o.Panic != "" {
					sum.Mis("zone/panic", "panic: "+o.Panic, cs)
					continue
				}
				var on []hx.B
				for _, l := range dns.SplitDomainName(v.origin) {
					on = append(on, hx.FromString(l))
				}
				recs := []zg.Rec5{}
				for _, r := range o.Recs {
					recs = append(recs, r.Five())
				}
				w.Emit(evStart{"start", cfg, text})
				w.Emit(evLine{"line", 1, zg.Line{K: "origin", Name: zg.Ref{K: "abs", N: on}}, []zg.Rec5{}, false, fam})
				w.Emit(evLine{"line", 2, zg.Line{K: "rr", Owner: owner, TTL: 300, Class: classNum[z.class], Order: "tc", Type: z.rec.Type,
					RD: zg.RD{IP: z.rec.Rdata, Pref: -1, Nm: zg.Ref{K: "omit", N: []hx.B{}}, Txt: []hx.B{}}}, recs, o.Err != nil, fam})
			}
		}
	}
	sum.Note("rdata_name_fields", nfields)
}

func follow(out string) {
	w := newWriter(out)
	defer w.Close()
	var sum hx.Summary
	var refs []zooRef
	for ti, t := range append(append([]string{}, zoo.Texts...), keywordRefs()...) {
		f := strings.SplitN(t, " ", 5)
		if len(f) < 4 || f[0] != "OWNER" {
			hx.Die("zoo text %q", t)
		}
		z := zooRef{typ: f[3], class: f[2], extra: ti >= len(zoo.Texts)}
		if len(f) == 5 {
			z.rdata = f[4]
		}
		rr, err := dns.NewRR("ref.example.org. 300 " + z.class + " " + z.typ + " " + z.rdata)
		if err != nil || rr == nil {
			hx.Die("zoo text %q does not parse alone: %v", t, err)
		}
		var ok bool
		if z.rec, ok = packOf(rr); !ok {
			if z.extra {
				hx.Die("keyword reference %q cannot be packed", t)
			}
			continue // (a text whose record cannot be packed is of no use as a reference)
		}
		z.keywords = keywordValues(rr)
		refs = append(refs, z)
	}
	variants := []string{"plain", "comment", "blanks", "crlf", "paren", "paren-break", "paren-comment", "generic", "noeol", "lower", "capital"}
	class := func(z zooRef, v string) string {
		switch v {
		case "lower":
			return strings.ToLower(z.class)
		case "capital":
			return capital(z.class)
		}
		return z.class
	}
	body := func(z zooRef, v string) (string, bool) {
		plain := z.typ
		if z.rdata != "" {
			plain += " " + z.rdata
		}
		switch v {
		case "lower": // every keyword (class, type, type bit map members, type covered, algorithm mnemonics) in lower case
			_, b := keywordSpelling(z, strings.ToLower)
			return b, true
		case "capital": // ... and Capitalised: a lower-case letter before a digit or a hyphen (Nsec3param, Nsap-ptr)
			_, b := keywordSpelling(z, capital)
			return b, true
		case "comment":
			return plain + " ; c ( \" $TTL 1", true
		case "blanks":
			return plain + "  \t ", true
		case "paren":
			return z.typ + " ( " + z.rdata + "\n\t)", z.rdata != ""
		case "paren-break":
			h, t, ok := splitUnquoted(z.rdata)
			return z.typ + " ( " + h + "\n " + t + " )", ok
		case "paren-comment":
			h, t, ok := splitUnquoted(z.rdata)
			return z.typ + " ( " + h + " ; c\n " + t + " )", ok
		case "generic":
			if len(z.rec.Rdata) == 0 {
				return z.typ + " \\# 0", true
			}
			return z.typ + " \\# " + fmt.Sprint(len(z.rec.Rdata)) + " " + hex.EncodeToString(z.rec.Rdata.Bytes()), true
		}
		return plain, true
	}
	classNum := map[string]int{"IN": 1, "CH": 3}
	absRef := func(first string) zg.Ref {
		return zg.Ref{K: "abs", N: []hx.B{hx.FromString(first), hx.FromString("example"), hx.FromString("org")}}
	}
	cfg := zg.Cfg{DefTTL: -1, Origin: zg.NameOpt{Set: true, N: []hx.B{}}, IncAllowed: false, File: hx.FromString("db"), Files: []zg.File{}}
	types := map[string]bool{}
	for i := range refs {
		tri := []zooRef{refs[i], refs[(i+1)%len(refs)], refs[(i+2)%len(refs)]}
		types[refs[i].typ] = true
		for _, v := range variants {
			if tri[0].extra && v != "plain" && v != "lower" && v != "capital" {
				continue
			}
			eol := "\n"
			if v == "crlf" {
				eol = "\r\n"
			}
			heads := []string{"a.example.org. 300 ", "\t7200 ", "c.example.org. "}
			owners := []zg.Ref{absRef("a"), {K: "omit", N: []hx.B{}}, absRef("c")}
			ttls := []int{300, 7200, -1}
			var text string
			var ends []int
			var lines []zg.Line
			ok := true
			for k, z := range tri {
				b, bok := body(z, v)
				ok = ok && bok
				text += heads[k] + class(z, v) + " " + b
				if !(v == "noeol" && k == 2) {
					text += eol
				}
				ends = append(ends, len(text))
				lines = append(lines, zg.Line{K: "rr", Owner: owners[k], TTL: ttls[k], Class: classNum[z.class], Order: "tc", Type: z.rec.Type,
					RD: zg.RD{IP: z.rec.Rdata, Pref: -1, Nm: zg.Ref{K: "omit", N: []hx.B{}}, Txt: []hx.B{}}})
			}
			// dns.NewRR: the single record, with and without a final line end (also when the zone of this spelling is skipped)
			if b, bok := body(tri[0], v); bok {
				single := "ref.example.org. 300 " + class(tri[0], v) + " " + b
				cs := map[string]interface{}{"follow": "single|" + v + "|" + tri[0].typ, "text": single}
				bad := map[string]string{}
				for _, tail := range []string{"", eol} {
					name := map[bool]string{true: "no-line-end", false: "line-end"}[tail == ""]
					if pn := hx.Catch(func() {
						rr, err := dns.NewRR(single + tail)
						if err != nil || rr == nil {
							bad[name] = fmt.Sprintf("dns.NewRR(%q): %v, %v", single+tail, rr, err)
						} else if got, _ := packOf(rr); zg.SameRec(got, tri[0].rec) != "" {
							bad[name] = fmt.Sprintf("dns.NewRR(%q) differs from the plain spelling in its %s", single+tail, zg.SameRec(got, tri[0].rec))
						}
					}); pn != "" {
						sum.Mis("zone/panic", "dns.NewRR panic: "+pn, cs)
					}
				}
				k := "zone/newrr:" + tri[0].typ + ":" + v
				switch {
				case len(bad) == 2:
					sum.Mis(k, bad["line-end"]+" (and without the final line end)", cs)
				case len(bad) == 1:
					for name, what := range bad {
						sum.Mis(k+":"+name, what, cs)
					}
				}
			}
			if !ok {
				continue
			}
			sum.Evaluations++
			fam := "follow|" + v + "|" + tri[0].typ + "|" + tri[1].typ + "|" + tri[2].typ
			cs := map[string]interface{}{"follow": fam, "text": text}
			rc := zg.RunCfg{Origin: ".", DefTTL: -1, File: "db", NoMem: true}
			o, timedOut, _ := zg.RunBudget([]byte(text), rc, budget)
			if timedOut {
				hang(&sum, "follow:"+tri[0].typ, "ZoneParser.Next", cs)
			}
			if o.Panic != "" {
				sum.Mis("zone/panic", "panic: "+o.Panic, cs)
				continue
			}
			w.Emit(evStart{"start", cfg, text})
			lineAt := func(off int) int {
				for j, e := range ends {
					if off <= e {
						return j
					}
				}
				return len(ends) - 1
			}
			per := make([][]zg.Rec5, 3)
			for k, rec := range o.Recs {
				j := lineAt(o.At[k])
				per[j] = append(per[j], rec.Five())
			}
			last := 2
			if o.Err != nil {
				last = lineAt(o.ErrAt)
			}
			for j := 0; j <= last; j++ {
				w.Emit(evLine{"line", j + 1, lines[j], nz(per[j]), o.Err != nil && j == last, fam})
			}
			// dns.ReadRR: the first record of the zone
			if pn := hx.Catch(func() {
				rr, err := dns.ReadRR(strings.NewReader(text), "db")
				if err != nil || rr == nil {
					sum.Mis("zone/readrr:first:"+tri[0].typ+":"+v, fmt.Sprintf("dns.ReadRR on a three-record zone: %v, %v", rr, err), cs)
				} else if got, _ := packOf(rr); got.Type != tri[0].rec.Type || got.Rdata.String() != tri[0].rec.Rdata.String() || got.TTL != 300 {
					sum.Mis("zone/readrr:first:"+tri[0].typ+":"+v, "dns.ReadRR did not return the first record of the zone: "+rr.String(), cs)
				}
			}); pn != "" {
				sum.Mis("zone/panic", "dns.ReadRR panic: "+pn, cs)
			}
			if sum.Evaluations%211 == 0 {
				sum.Sample(map[string]interface{}{"text": text, "records": len(o.Recs), "err": o.ErrText})
			}
		}
	}
	sum.Note("follow_zones", sum.Evaluations)
	relNames(refs, w, &sum)
	sum.Nontrivial = len(types)
	sum.Note("record_types", len(types))
	sum.Note("events", w.N)
	sum.Print()
}
