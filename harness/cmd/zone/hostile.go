package main

// Structured hostile families for C07.  Every case is run against the real parser under
// recover() and a wall-clock budget; what the run looked like from outside (next -> rr |
// err | eof, open(path)) is written as a history for Trace_Zone's sticky-error machine;
// where the text spells abstract lines, the line-level events (what the parser returned
// for each line) are written too, so that TLC -- not this file -- decides whether an error
// was due.

import (
	"fmt"
	"os"
	"path/filepath"
	"regexp"
	"strings"
	"testing/fstest"

	"verifharness/lib/hx"
	zg "verifharness/lib/zonegen"
)

type hcase struct {
	fam     string
	text    string
	files   map[string]string // include FS contents (nil: no FS configured)
	allowed bool
	chain   bool      // every Open is nested in the previous one
	lines   []zg.Line // the abstract lines the text spells (nil: none claimed)
	afiles  []zg.File // ... and the abstract include files
	spell   bool      // also ask TLC to confirm that the text spells `lines'
	ill     string    // != "": ask TLC to confirm the text is lexically ill-formed in this way; the parser must then report an error
	maxRecs int       // > 0: more records than this is a violation
	noLeak  string    // a record whose owner starts with this label must not appear (real file system reached)
	onePer  bool      // line events: one record per rr line in order (attribution by construction)
}

func omit() zg.Ref           { return zg.Ref{K: "omit", N: []hx.B{}} }
func rel(l ...string) zg.Ref { return zg.Ref{K: "rel", N: labs(l...)} }
func labs(l ...string) []hx.B {
	r := make([]hx.B, len(l))
	for i, s := range l {
		r[i] = hx.FromString(s)
	}
	return r
}
func rrA(owner zg.Ref, ttl int, d int) zg.Line {
	return zg.Line{K: "rr", Owner: owner, TTL: ttl, Class: 0, Order: "tc", Type: 1,
		RD: zg.RD{IP: hx.B{10, 0, 0, d}, Nm: omit(), Txt: []hx.B{}}}
}
func inc(file string, o zg.Ref) zg.Line {
	return zg.Line{K: "include", File: hx.FromString(file), Origin: o}
}
func genA(lo, hi, step int, lhs string) zg.Line {
	return zg.Line{K: "generate", Lo: lo, Hi: hi, Step: step, Lhs: hx.FromString(lhs), TTL: 5, Class: 0, Order: "tc", Type: 1,
		Rhs: []zg.Item{{Raw: hx.FromString("10.0.0.1"), Q: false}}}
}

func caseVariants(w string) []string {
	letters := []int{}
	for i := range w {
		if w[i] >= 'A' && w[i] <= 'Z' {
			letters = append(letters, i)
		}
	}
	var out []string
	for m := 0; m < 1<<len(letters); m++ {
		b := []byte(w)
		for k, i := range letters {
			if m>>k&1 == 1 {
				b[i] += 32
			}
		}
		out = append(out, string(b))
	}
	return out
}

var cmtInParens = regexp.MustCompile(`;(c+)\n`)

func families(tmp string) []hcase {
	var cs []hcase
	// 1. $INCLUDE in every case / whitespace variant with includes disabled: no Open, an error
	for vi, kw := range caseVariants("$INCLUDE") {
		for wi, ws := range []string{" ", "\t", "  ", " \t "} {
			withOrigin := (vi+wi)%2 == 0
			tail := []string{"", " ; c", "  "}[(vi+wi)%3]
			text := kw + ws + "inc.zone"
			l := inc("inc.zone", omit())
			if withOrigin {
				text += ws + "sub"
				l = inc("inc.zone", rel("sub"))
			}
			text += tail + "\n" + "after 5 A 10.0.0.9\n"
			c := hcase{fam: "include-disabled", text: text, allowed: false, lines: []zg.Line{l, rrA(rel("after"), 5, 9)}, spell: vi%8 == 0}
			c.files = map[string]string{"inc.zone": "x 5 A 10.0.0.1\n"}
			cs = append(cs, c)
			if vi%16 == 0 { // ... and without an include FS: the real file system must not be reached either
				c2 := c
				c2.files = nil
				c2.text = strings.Replace(text, "inc.zone", filepath.Join(tmp, "leak.zone"), 1)
				c2.lines = nil
				c2.spell = false
				c2.noLeak = "leak"
				cs = append(cs, c2)
			}
		}
	}
	// things that look like $INCLUDE but are not a directive: still no Open
	for _, text := range []string{" $INCLUDE inc.zone\n", "\t$include inc.zone\n", "\"$INCLUDE\" inc.zone\n", "\\$INCLUDE inc.zone\n", "$INCLUDE\n", "$INCLUDE ", "$INCLUDE(inc.zone)\n", "$INCLUDE ( inc.zone\n)\n", "$INCLUDE \"inc.zone\"\n", "$INCLUDEx inc.zone\n", "a 5 A 10.0.0.1\n$INCLUDE inc.zone", "$INCLUDE inc.zone sub extra\n", "$INCLUDE inc.zone ..\n"} {
		cs = append(cs, hcase{fam: "include-disabled", text: text, allowed: false, files: map[string]string{"inc.zone": "x 5 A 10.0.0.1\n"}})
	}
	// 1b. an unbalanced parenthesis after the $INCLUDE arguments: lexically ill-formed, an error is due
	for _, text := range []string{"$INCLUDE inc.zone )\nb 5 A 10.0.0.2\n", "$INCLUDE inc.zone (\n", "$INCLUDE inc.zone ) sub\nb 5 A 10.0.0.2\n", "$INCLUDE inc.zone )"} {
		ill := "close"
		if strings.Contains(text, "(") {
			ill = "open"
		}
		cs = append(cs, hcase{fam: "include-trailing-paren", text: text, allowed: true, files: map[string]string{"inc.zone": "x 5 A 10.0.0.1\n"}, ill: ill})
	}
	for _, text := range []string{"$INCLUDE inc.zone sub )\nb 5 A 10.0.0.2\n", "$TTL 5 )\nb A 10.0.0.2\n", "$ORIGIN x )\nb 5 A 10.0.0.2\n", "b 5 A 10.0.0.2 )\nc 5 A 10.0.0.3\n",
		"$GENERATE 1-2 h$ 5 A 10.0.0.1 )\nc 5 A 10.0.0.3\n", "$TTL ( 5\n", "$ORIGIN ( x\n", "b 5 A ( 10.0.0.2\nc 5 A 10.0.0.3\n", "$GENERATE 1-2 h$ 5 A ( 10.0.0.1\n", "b 5 TXT \"x\nc 5 A 10.0.0.3\n"} {
		ill := "close"
		if strings.Contains(text, "(") {
			ill = "open"
		} else if strings.Contains(text, "\"") {
			ill = "quote"
		}
		cs = append(cs, hcase{fam: "trailing-paren", text: text, allowed: true, files: map[string]string{"inc.zone": "x 5 A 10.0.0.1\n"}, ill: ill})
	}
	// 2. the include FS is the only file system: an absolute path that exists on disk but not in the FS
	real := filepath.Join(tmp, "leak.zone")
	cs = append(cs, hcase{fam: "realfs", text: "$INCLUDE " + real + "\n", allowed: true, files: map[string]string{"other": "x 5 A 10.0.0.1\n"}, noLeak: "leak"})
	cs = append(cs, hcase{fam: "realfs", text: "$INCLUDE " + real + "\n", allowed: false, files: nil, noLeak: "leak"})
	cs = append(cs, hcase{fam: "realfs", text: "$INCLUDE /nonexistent-verif-zone/none.zone\n", allowed: true, files: nil,
		lines: []zg.Line{inc("/nonexistent-verif-zone/none.zone", omit())}})
	// 3. a file that includes itself; two files that include each other
	self := []zg.Line{rrA(rel("s"), 1, 16), inc("self", omit())}
	cs = append(cs, hcase{fam: "self-include", text: "$INCLUDE self\n", allowed: true, chain: true,
		files: map[string]string{"self": "s 1 A 10.0.0.16\n$INCLUDE self\n"},
		lines: []zg.Line{inc("self", omit())}, afiles: []zg.File{{Name: hx.FromString("self"), Lines: self}}})
	cs = append(cs, hcase{fam: "self-include", text: "$INCLUDE db\n", allowed: true, chain: true,
		files: map[string]string{"db": "$INCLUDE db\n"},
		lines: []zg.Line{inc("db", omit())}, afiles: []zg.File{{Name: hx.FromString("db"), Lines: []zg.Line{inc("db", omit())}}}})
	cs = append(cs, hcase{fam: "mutual-include", text: "$INCLUDE m1\n", allowed: true, chain: true,
		files: map[string]string{"m1": "a 1 A 10.0.0.1\n$INCLUDE m2 sub\n", "m2": "$INCLUDE m1\nb 1 A 10.0.0.2\n"},
		lines: []zg.Line{inc("m1", omit())},
		afiles: []zg.File{{Name: hx.FromString("m1"), Lines: []zg.Line{rrA(rel("a"), 1, 1), inc("m2", rel("sub"))}},
			{Name: hx.FromString("m2"), Lines: []zg.Line{inc("m1", omit()), rrA(rel("b"), 1, 2)}}}})
	// 4. include chains of length 1..12
	for n := 1; n <= 12; n++ {
		files := map[string]string{}
		var af []zg.File
		for k := 1; k <= n; k++ {
			name := fmt.Sprintf("c%d", k)
			if k < n {
				files[name] = fmt.Sprintf("$INCLUDE c%d\n", k+1)
				af = append(af, zg.File{Name: hx.FromString(name), Lines: []zg.Line{inc(fmt.Sprintf("c%d", k+1), omit())}})
			} else {
				files[name] = "leaf 7 A 10.0.0.7\n"
				af = append(af, zg.File{Name: hx.FromString(name), Lines: []zg.Line{rrA(rel("leaf"), 7, 7)}})
			}
		}
		cs = append(cs, hcase{fam: "include-chain", text: "$INCLUDE c1\nafter 5 A 10.0.0.9\n", allowed: true, chain: true, files: files,
			lines: []zg.Line{inc("c1", omit()), rrA(rel("after"), 5, 9)}, afiles: af})
	}
	// 5. $GENERATE whose template expands to $GENERATE
	for _, lhs := range []string{"$$GENERATE", "\\$GENERATE", "$$generate", "$$Generate"} {
		cs = append(cs, hcase{fam: "nested-generate", text: "$GENERATE 1-2 " + lhs + " 5 A 10.0.0.1\n", allowed: false,
			lines: []zg.Line{genA(1, 2, 1, lhs)}, spell: true, maxRecs: 65536})
	}
	// ... with an inner directive that would be valid on its own (ill = "nested": TLC confirms that the third item
	// of the entry expands to $GENERATE; an error is then due)
	for _, text := range []string{"$GENERATE 1-2 $$GENERATE 1-2 a$ 5 A 10.0.0.1\n", "$GENERATE 1-3 $$GENERATE 1-65535 a$ 5 A 10.0.0.1\n",
		"$GENERATE 0-9 $$GENERATE 0-9 $$$$GENERATE 0-9 x$ 5 A 10.0.0.1\n", "$generate 1-1 \\$GENERATE 1-1 b 5 A 10.0.0.1\n",
		"$GENERATE 1-2 ( $$GENERATE 1-2\n a$ 5 A 10.0.0.1 )\n"} {
		cs = append(cs, hcase{fam: "nested-generate", text: text, allowed: false, maxRecs: 65536, ill: "nested"})
	}
	cs = append(cs, hcase{fam: "nested-generate", text: "$GENERATE 1-1 \\$GENERATE\n", allowed: false, maxRecs: 65536})
	// 6. ranges around 65535 / 65536 and malformed ranges
	for _, r := range [][3]int{{0, 5, 1}, {65530, 65535, 1}, {5, 4, 1}, {0, 4, 0}, {0, 65536, 1}, {1, 65537, 1}, {0, 131072, 2}, {0, 2147483647, 1}, {0, 2147483647, 32768}, {0, 2147483647, 32767}} {
		rng := fmt.Sprintf("%d-%d", r[0], r[1])
		if r[2] != 1 {
			rng += fmt.Sprintf("/%d", r[2])
		}
		cs = append(cs, hcase{fam: "generate", text: "$GENERATE " + rng + " h$ 5 A 10.0.0.1\nafter 5 A 10.0.0.9\n", allowed: false,
			lines: []zg.Line{genA(r[0], r[1], r[2], "h$"), rrA(rel("after"), 5, 9)}, spell: true, maxRecs: 65536 + 1})
	}
	for _, rng := range []string{"0-65534", "0-65535", "1-65536", "0-131070/2", "0-65535/1", "0-99999999999999999999", "0-4294967296", "-1-5", "0--5", "0-5/-1", "0-5/", "5", "0-9223372036854775807", "0-9223372036854775807/9223372036854775807", "1-65536/0"} {
		cs = append(cs, hcase{fam: "generate", text: "$GENERATE " + rng + " h$ 5 A 10.0.0.1\n", allowed: false, maxRecs: 65536})
	}
	for _, t := range []string{"h${0,255,d}", "h${0,256,d}", "h${0,0,q}", "h${", "h${}", "h${0,0,d,1}", "h${-9223372036854775808,0,d}", "h${2147483647,0,d}", "h${1,99999999999,d}", "h$$$$$", "h\\", "${0,63,d}.${0,63,d}.${0,63,d}.${0,63,d}"} {
		cs = append(cs, hcase{fam: "generate", text: "$GENERATE 0-3 " + t + " 5 A 10.0.0.1\n", allowed: false, maxRecs: 65536})
	}
	// 6b. ${offset,width,base} with widths around and far beyond the limit (width <= 255): a few octets of zone must not
	// expand to megabytes.  The spec says which are admissible; the allocation guard applies in any case.
	for _, wd := range []int{3, 255, 256, 1000, 65536, 3000000} {
		for _, b := range []string{"d", "x"} {
			m := fmt.Sprintf("${0,%d,%s}", wd, b)
			// in the owner template: an inadmissible width is an error before any record
			g := zg.Line{K: "generate", Lo: 1, Hi: 4, Step: 1, Lhs: hx.FromString("h" + m), TTL: 5, Class: 0, Order: "tc", Type: 16,
				Rhs: []zg.Item{{Raw: hx.FromString("x$"), Q: false}}}
			cs = append(cs, hcase{fam: "generate-width", text: "$GENERATE 1-4 h" + m + " 5 TXT x$\nafter 5 A 10.0.0.9\n", allowed: false,
				lines: []zg.Line{g, rrA(rel("after"), 5, 9)}, spell: true, maxRecs: 65536})
			// in the RDATA template
			g.Lhs, g.Rhs = hx.FromString("host-$"), []zg.Item{{Raw: hx.FromString(m), Q: false}}
			fam := "generate-width"
			if wd > 255 {
				fam = "generate-rhs-bad-modifier" // (the pinned code returns a TXT record without strings before the error: known finding)
			}
			cs = append(cs, hcase{fam: fam, text: "$GENERATE 1-4 host-$ 5 TXT " + m + "\nafter 5 A 10.0.0.9\n", allowed: false,
				lines: []zg.Line{g, rrA(rel("after"), 5, 9)}, spell: true, maxRecs: 65536})
		}
	}
	for _, t := range []string{"${0,3000000}", "${0,99999999999999999999,d}", "${0,-1,d}", "${9223372036854775807,0,d}", "${0,255,d}${0,255,d}${0,255,d}${0,255,d}"} {
		cs = append(cs, hcase{fam: "generate-width", text: "$GENERATE 1-4 host-$ 5 TXT " + t + "\n", allowed: false, maxRecs: 65536})
	}
	// 6c. lengths around the lexer's internal buffer size (512, and its multiples) in every lexer state, with something
	// FOLLOWING in the same entry: a comment inside parentheses of n octets, then a token, then a second comment; a token
	// / quoted string of n octets then a comment; two long comments; the same after a first entry has grown the buffers
	txtLine := func(ss ...string) zg.Line {
		l := zg.Line{K: "rr", Owner: rel("a"), TTL: 5, Class: 0, Order: "tc", Type: 16, RD: zg.RD{IP: hx.B{}, Nm: omit(), Txt: []hx.B{}}}
		for _, s := range ss {
			l.RD.Txt = append(l.RD.Txt, hx.FromString(s))
		}
		return l
	}
	for _, n := range []int{200, 255, 256, 510, 511, 512, 513, 514, 767, 1023, 1024, 1025, 1536, 2001} {
		c1 := strings.Repeat("c", n)
		tok := strings.Repeat("t", min(n, 255))
		after := rrA(rel("b"), 5, 2)
		tail := "\nb 5 A 10.0.0.2\n"
		for _, v := range []struct {
			text string
			ss   []string
		}{
			{"a 5 TXT ( ;" + c1 + "\n x ; second comment\n )", []string{"x"}},
			{"a 5 TXT ( x ;" + c1 + "\n y ;" + c1 + "\n z ; third\n )", []string{"x", "y", "z"}},
			{"a 5 TXT ( " + tok + " ;" + c1 + "\n \"" + tok + "\" ; c\n )", []string{tok, tok}},
			{"a 5 TXT ( \"" + tok + "\" ;" + c1 + "\n ) ;" + c1, []string{tok}},
			{"a 5 TXT x ;" + c1, []string{"x"}},
			{"a 5 TXT ( ;" + c1[:n-1] + "\n ;" + c1 + "\n ;\n x ;" + c1 + "\n ) ; end", []string{"x"}},
		} {
			fam := "buffer-boundary"
			for _, m := range cmtInParens.FindAllStringSubmatch(v.text, -1) {
				if (len(m[1])+1)%512 == 511 && strings.Contains(v.text[strings.Index(v.text, m[0])+len(m[0]):], ";") {
					// (the pinned lexer refuses a comment of 511 + 512k octets inside parentheses when another comment follows:
					// "comment length insufficient for parsing" -- a finding on record; its own class)
					fam = "buffer-boundary-comment-511"
				}
			}
			cs = append(cs, hcase{fam: fam, text: v.text + tail, allowed: false,
				lines: []zg.Line{txtLine(v.ss...), after}, spell: true, onePer: true})
		}
		// unquoted / quoted item of exactly n octets, then a comment (TXT strings longer than 255 are not this property's business)
		long := strings.Repeat("t", n)
		cs = append(cs, hcase{fam: "buffer-boundary", text: "a 5 TXT ( " + long + " ; c\n ) ; d" + tail, allowed: false})
		cs = append(cs, hcase{fam: "buffer-boundary", text: "a 5 TXT ( \"" + long + "\" ;" + c1 + "\n x ; d\n )" + tail, allowed: false})
		cs = append(cs, hcase{fam: "buffer-boundary", text: "$TTL 5 ;" + c1 + "\n$ORIGIN x ;" + c1 + "\na A ( ;" + c1 + "\n 10.0.0.1 ; e\n )" + tail, allowed: false})
	}
	// 7. tokens and comments of 511 / 512 / 513 / 2047 / 2048 / 10^6 octets
	for _, n := range []int{511, 512, 513, 2047, 2048, 1000000} {
		small := n <= 2048
		cmt := strings.Repeat("c", n-1)
		cs = append(cs, hcase{fam: "long-comment", text: "a 5 A 10.0.0.1 ;" + cmt + "\nb 5 A 10.0.0.2\n", allowed: false,
			lines: []zg.Line{rrA(rel("a"), 5, 1), rrA(rel("b"), 5, 2)}, spell: small, onePer: true})
		cs = append(cs, hcase{fam: "long-comment", text: ";" + cmt + "\na 5 A ( 10.0.0.1 ;" + cmt + "\n )\n", allowed: false,
			lines: []zg.Line{{K: "blank"}, rrA(rel("a"), 5, 1)}, spell: small, onePer: true})
		cs = append(cs, hcase{fam: "long-token", text: strings.Repeat("a", n) + " 5 A 10.0.0.1\n", allowed: false,
			lines: []zg.Line{rrA(rel(strings.Repeat("a", n)), 5, 1)}, spell: small})
		dotted := strings.TrimSuffix(strings.Repeat("abcdefg.", (n+7)/8)[:n], ".")
		cs = append(cs, hcase{fam: "long-token", text: dotted + " 5 A 10.0.0.1\n", allowed: false})
		cs = append(cs, hcase{fam: "long-token", text: "a 5 A " + strings.Repeat("1", n) + "\n", allowed: false})
		cs = append(cs, hcase{fam: "long-token", text: "a 5 TXT " + strings.Repeat("t", n) + "\n", allowed: false})
		cs = append(cs, hcase{fam: "long-token", text: "a 5 TXT \"" + strings.Repeat("t", n) + "\"\n", allowed: false})
		cs = append(cs, hcase{fam: "long-token", text: "a 5 TXT \"" + strings.Repeat("t", n), allowed: false, ill: condStr(small, "quote")})
		cs = append(cs, hcase{fam: "long-token", text: "a 5 A ( " + strings.Repeat("\n", n) + " 10.0.0.1 )\n", allowed: false,
			lines: []zg.Line{rrA(rel("a"), 5, 1)}, spell: small, onePer: true})
		cs = append(cs, hcase{fam: "long-token", text: "a 5 A " + strings.Repeat("(", n) + " 10.0.0.1\n", allowed: false, ill: condStr(small, "open")})
		cs = append(cs, hcase{fam: "long-token", text: "a 5 TXT " + strings.Repeat("\\", n) + "\n", allowed: false})
		cs = append(cs, hcase{fam: "long-token", text: "$TTL " + strings.Repeat("9", n) + "\n", allowed: false})
		cs = append(cs, hcase{fam: "long-token", text: "$ORIGIN " + strings.Repeat("a", n) + "\n", allowed: false})
		cs = append(cs, hcase{fam: "long-token", text: "$INCLUDE " + strings.Repeat("f", n) + "\n", allowed: true, files: map[string]string{}})
		cs = append(cs, hcase{fam: "long-token", text: "$GENERATE 1-2 " + strings.Repeat("$", n) + " 5 A 10.0.0.1\n", allowed: false, maxRecs: 65536})
	}
	// 8. every way a parser comes to hold an error -- a syntax error of each kind, a lexical one, a $INCLUDE that cannot be
	// opened (include FS, real file system, a directory), each kind of bad $GENERATE, an error in the k-th generated record --
	// at the top level, in an included file and in a file included from an included file, with records FOLLOWING the failing
	// entry in every file: the consumer keeps calling Next (zonegen.Run) and must be handed nothing more, from whichever
	// place in the parser the error was raised.  At the top level TLC confirms (ill = "bad" / the lexical class) that an
	// error is due.
	for _, e := range []struct{ name, text, ill string }{
		{"rdata", "e 5 A not-an-address", "bad"},
		{"rdata-extra", "e 5 A 10.0.0.1 10.0.0.2", "bad"},
		{"type", "e 5 BOGUS x", "bad"},
		{"ttl", "e 5 5 A 10.0.0.1", "bad"},
		{"mx-preference", "e 5 MX 70000 m", "bad"},
		{"ttl-directive", "$TTL x", "bad"},
		{"origin-directive", "$ORIGIN a..b", "bad"},
		{"unknown-directive", "$BOGUS 5", "bad"},
		{"include-garbage", "$INCLUDE e9 sub extra", "bad"},
		{"include-missing", "$INCLUDE nofile", ""},
		{"include-missing-origin", "$INCLUDE nofile sub", ""},
		{"include-directory", "$INCLUDE dir", ""},
		{"generate-range", "$GENERATE 5-4 h$ 5 A 10.0.0.1", ""},
		{"generate-nested", "$GENERATE 1-2 $$GENERATE 1-2 a$ 5 A 10.0.0.1", ""},
		{"generate-modifier", "$GENERATE 1-2 h${0,0,q} 5 A 10.0.0.1", ""},
		{"generate-kth-record", "$GENERATE 254-257 h$ 5 A 10.0.0.$", ""},
		{"close", "e 5 A 10.0.0.1 )", "close"},
		{"quote", "e 5 TXT \"x", "quote"},
	} {
		wrap := func(pre, mid, post string) string { return pre + mid + "\n" + post }
		for d := 0; d <= 2; d++ {
			files := map[string]string{"dir/x.zone": "q 5 A 10.0.3.1\n", "e9": "n 5 A 10.0.3.2\n"}
			top := wrap("pre 5 A 10.0.0.1\n", e.text, "after 5 A 10.0.0.9\nlast 5 A 10.0.0.10\n")
			ill := e.ill
			if d >= 1 {
				top = wrap("pre 5 A 10.0.0.1\n", "$INCLUDE e1 sub", "after 5 A 10.0.0.9\nlast 5 A 10.0.0.10\n")
				files["e1"] = wrap("x1 5 A 10.0.1.1\n", e.text, "y1 5 A 10.0.1.2\nz1 5 A 10.0.1.3\n")
				ill = ""
			}
			if d == 2 {
				files["e2"] = files["e1"]
				files["e1"] = wrap("x0 5 A 10.0.2.1\n", "$INCLUDE e2", "y0 5 A 10.0.2.2\n")
			}
			cs = append(cs, hcase{fam: fmt.Sprintf("error-then-more:%s:depth%d", e.name, d), text: top, allowed: true, files: files, ill: ill, maxRecs: 65536})
		}
	}
	// ... the same for a $INCLUDE the real file system cannot open (no include FS), absolute and relative
	for _, t := range []string{"$INCLUDE /nonexistent-verif-zone/none.zone", "$INCLUDE nonexistent-verif-zone-none.zone sub"} {
		cs = append(cs, hcase{fam: "error-then-more:include-missing-os:depth0", text: "pre 5 A 10.0.0.1\n" + t + "\nafter 5 A 10.0.0.9\nlast 5 A 10.0.0.10\n", allowed: true, files: nil})
	}
	return cs
}

func condStr(c bool, s string) string {
	if c {
		return s
	}
	return "?"
}

type evIll struct {
	Ev   string `json:"ev"`
	Text hx.B   `json:"text"`
	Ill  string `json:"ill"`
}

// ioErrors: a reader that fails with an I/O error (not a syntax error) after k bytes: the zone's own reader, an
// included file (every offset of small files, sampled offsets of one larger than the lexer's buffer), a file
// included at depth 2, a directory as include target.  Records follow the failure point in every file.  "Reports
// the first problem as an error and returns no further records": Err() non-nil and sticky, nothing returned after
// the reader failed.  The wrapper that injects the error logs it as a `readfail' event, so that Trace_Zone's
// machine (after readfail only next -> err) judges the history too.
func ioErrors(sum *hx.Summary, w *hx.Writer) {
	top := "a 5 A 10.0.0.1\n$INCLUDE inc\nafter 5 A 10.0.0.9\nlast 5 A 10.0.0.10\n"
	inc := "x 5 A 10.0.0.2\ny 5 MX 10 mail\n$INCLUDE inc2 sub\nz 5 TXT \"z z\" ( \"q\"\n ) ; c\nw 5 A 10.0.0.4\n"
	inc2 := "p 5 A 10.0.0.5\nq 5 NS ns\n"
	big := strings.Repeat("r 5 TXT \"0123456789012345678901234567890123456789012345678901234567890123\"\n", 40) // 3 KiB
	base := func() fstest.MapFS {
		return fstest.MapFS{"inc": {Data: []byte(inc)}, "inc2": {Data: []byte(inc2)}, "big": {Data: []byte(big)}, "dir/x.zone": {Data: []byte(inc2)}}
	}
	type ioCase struct {
		where   string
		text    string
		failTop int
		failFS  map[string]int
	}
	var cs []ioCase
	var flagged []interface{}
	for k := 0; k <= len(top); k++ {
		cs = append(cs, ioCase{"top", top, k + 1, nil})
	}
	for k := 0; k <= len(inc)+1; k++ {
		cs = append(cs, ioCase{"include", top, 0, map[string]int{"inc": k}})
	}
	for k := 0; k <= len(inc2)+1; k++ {
		cs = append(cs, ioCase{"nested", top, 0, map[string]int{"inc2": k}})
	}
	for k := 0; k <= len(big)+1; k += 97 {
		cs = append(cs, ioCase{"include-big", "a 5 A 10.0.0.1\n$INCLUDE big\nafter 5 A 10.0.0.9\n", 0, map[string]int{"big": k}})
	}
	cs = append(cs, ioCase{"directory", "a 5 A 10.0.0.1\n$INCLUDE dir\nafter 5 A 10.0.0.9\n", 0, nil})
	// a TRANSIENT failure: the reader hands out the I/O error once, between two entries, and would go on delivering the
	// rest if asked again.  An error has occurred all the same: nothing more may come back (where = ...-transient)
	for k := 0; k < len(top); k++ {
		if k == 0 || top[k-1] == '\n' {
			cs = append(cs, ioCase{"top-transient", top, k + 1, nil})
		}
	}
	for k := 0; k < len(inc); k++ {
		if (k == 0 || inc[k-1] == '\n') && inc[k] != ' ' { // (not the line break inside the parentheses: that is the middle of an entry)
			cs = append(cs, ioCase{"include-transient", top, 0, map[string]int{"inc": k}})
		}
	}
	for k := 0; k < len(inc2); k++ {
		if k == 0 || inc2[k-1] == '\n' {
			cs = append(cs, ioCase{"nested-transient", top, 0, map[string]int{"inc2": k}})
		}
	}
	for _, c := range cs {
		sum.Evaluations++
		rc := zg.RunCfg{Origin: "example.", DefTTL: -1, IncAllowed: true, FS: base(), File: "db", NoMem: true, FailTop: c.failTop, FailFS: c.failFS,
			FailOnce: strings.HasSuffix(c.where, "-transient")}
		o, timedOut, _ := zg.RunBudget([]byte(c.text), rc, budget)
		info := map[string]interface{}{"family": "io-error:" + c.where, "text": c.text, "failTop": c.failTop - 1, "failFS": c.failFS}
		safety("io-error", len(c.text), &o, timedOut, rc, false, sum, info)
		if o.Panic != "" {
			continue
		}
		failed := o.ReadFails > 0 || c.where == "directory"
		switch {
		case failed && o.Err == nil:
			sum.Mis("zone/hostile:io-error-lost:"+c.where, fmt.Sprintf("a reader failed with an I/O error after %d records; Err() is nil and %d records were returned in all", o.RecsAtFail, o.NRecs), info)
		case o.ReadFails > 0 && o.NRecs == o.RecsAtFail+1:
			// the entry that was being read when the reader failed comes back as a record with the RDATA read so far
			sum.Mis("zone/hostile:half-read-record-at-io-error:"+c.where, "the reader failed in the middle of an entry (after its type) and that entry was returned as a record, with truncated or empty RDATA, before the error", info)
		case o.ReadFails > 0 && o.NRecs > o.RecsAtFail && inIncludeLine(c.text, c.failTop-1, c.failFS, base()):
			// the reader failed inside a $INCLUDE line, after the file name: the include is performed all the same
			sum.Mis("zone/hostile:include-performed-at-io-error:"+c.where, fmt.Sprintf("the reader failed inside a $INCLUDE line after the file name; the file was included (with what had been read of the origin argument) and %d of its records were returned before the error", o.NRecs-o.RecsAtFail), info)
		case o.ReadFails > 0 && o.NRecs > o.RecsAtFail:
			sum.Mis("zone/hostile:record-after-io-error:"+c.where, fmt.Sprintf("%d records were returned after a reader had failed with an I/O error", o.NRecs-o.RecsAtFail), info)
		case c.where == "directory":
			for _, r := range o.Recs {
				if len(r.Owner) > 0 && r.Owner[0].String() == "after" {
					sum.Mis("zone/hostile:record-after-io-error:directory", "a directory was the $INCLUDE target and the records after the $INCLUDE line were returned", info)
				}
			}
		}
		hist := append([]interface{}{map[string]interface{}{"ev": "parser", "allowed": true, "chain": false}}, o.Events...)
		if failed && (o.Err == nil || o.NRecs > o.RecsAtFail) {
			flagged = append(flagged, hist...) // (the machine blocks at the first history it rejects: these go last)
			continue
		}
		for _, e := range hist {
			w.Emit(e)
		}
	}
	for _, e := range flagged {
		w.Emit(e)
	}
}

// inIncludeLine: does the failure offset fall inside a $INCLUDE line of the file whose reader fails?
func inIncludeLine(top string, failTop int, failFS map[string]int, fsys fstest.MapFS) bool {
	content, k := top, failTop
	for n, kk := range failFS {
		content, k = string(fsys[n].Data), kk
	}
	if k < 0 || k > len(content) {
		return false
	}
	start := strings.LastIndex(content[:k], "\n") + 1
	return strings.HasPrefix(strings.ToUpper(content[start:]), "$INCLUDE")
}

func hostile(out string) {
	tmp, err := os.MkdirTemp("", "zone-realfs-")
	if err != nil {
		hx.Die("tmp: %v", err)
	}
	tmpDirs = append(tmpDirs, tmp)
	defer os.RemoveAll(tmp)
	if err := os.WriteFile(filepath.Join(tmp, "leak.zone"), []byte("leak 5 A 9.9.9.9\n"), 0o644); err != nil {
		hx.Die("tmp: %v", err)
	}
	w := newWriter(out)
	defer w.Close()
	var sum hx.Summary
	fams := map[string]int{}
	for i, c := range families(tmp) {
		sum.Evaluations++
		fams[c.fam]++
		rc := zg.RunCfg{Origin: "example.", DefTTL: -1, IncAllowed: c.allowed, File: "db", MaxRecs: 70000}
		if c.files != nil {
			rc.FS = fstest.MapFS{}
			for n, d := range c.files {
				rc.FS[n] = &fstest.MapFile{Data: []byte(d)}
			}
		}
		o, timedOut, _ := zg.RunBudget([]byte(c.text), rc, budget)
		short := c.text
		if len(short) > 300 {
			short = short[:300] + fmt.Sprintf("...(%d octets)", len(c.text))
		}
		cs := map[string]interface{}{"family": c.fam, "text": short, "allowed": c.allowed, "fs": c.files != nil}
		fam := c.fam
		if strings.Contains(c.text, "$GENERATE") {
			fam = "generate"
		}
		if strings.Contains(c.fam, ":include-directory:") {
			fam = "io-error" // (reading a directory fails with an I/O error, which is reported as it is: not a ParseError)
		}
		safety(fam, len(c.text), &o, timedOut, rc, c.chain, &sum, cs)
		if timedOut || o.Panic != "" {
			continue
		}
		if c.maxRecs > 0 && o.NRecs > c.maxRecs {
			sum.Mis("zone/hostile:gen>65536", fmt.Sprintf("%d records from one $GENERATE", o.NRecs), cs)
		}
		if c.noLeak != "" {
			for _, r := range o.Recs {
				if len(r.Owner) > 0 && r.Owner[0].String() == c.noLeak {
					sum.Mis("zone/hostile:realfs", "a record of a file outside the include FS (or with includes disabled) was returned: the real file system was read", cs)
				}
			}
		}
		if c.ill != "" && o.Err == nil {
			sum.Mis("zone/hostile:ill-formed-accepted:"+c.fam, fmt.Sprintf("lexically ill-formed text (%s) and the parser reported no error", c.ill), cs)
		}
		if c.ill != "" && c.ill != "?" {
			w.Emit(evIll{"illtext", hx.FromString(c.text), c.ill})
		}
		// the history for the sticky-error machine
		w.Emit(map[string]interface{}{"ev": "parser", "allowed": c.allowed, "chain": c.chain})
		for _, e := range o.Events {
			w.Emit(e)
		}
		// line-level events: TLC decides whether the records / the error are what the lines denote
		if c.lines != nil {
			if c.spell {
				w.Emit(evSpell{"spell", hx.FromString(c.text), c.lines})
			}
			cfg := zg.Cfg{DefTTL: -1, Origin: zg.NameOpt{Set: true, N: labs("example")}, IncAllowed: c.allowed, File: hx.FromString("db"), Files: c.afiles}
			w.Emit(evStart{"start", cfg, ""})
			// attribution: the first line owns what was returned before "after"; an error belongs to the first line
			// unless records of later lines were seen (position-based attribution is `record' mode's job)
			var first, rest []zg.Rec5
			for _, r := range o.Recs {
				if len(r.Owner) > 0 && (r.Owner[0].String() == "after" || (c.onePer && len(first) >= 1)) {
					rest = append(rest, r.Five())
				} else {
					first = append(first, r.Five())
				}
			}
			if o.NRecs > len(o.Recs) {
				hx.Die("case %d: record cap reached", i)
			}
			li := 0
			if c.lines[0].K == "blank" {
				w.Emit(evLine{"line", 1, c.lines[0], []zg.Rec5{}, false, c.fam})
				li = 1
			}
			errFirst := o.Err != nil && len(rest) == 0
			if len(first) <= 8 { // (the 65536-record expansions are judged through the gen vectors, by sampling)
				w.Emit(evLine{"line", li + 1, c.lines[li], nz(first), errFirst, c.fam})
				if !errFirst && len(c.lines) > li+1 {
					w.Emit(evLine{"line", li + 2, c.lines[li+1], nz(rest), o.Err != nil, c.fam})
				}
			}
		}
		if i%97 == 0 {
			sum.Sample(map[string]interface{}{"family": c.fam, "text": short, "records": o.NRecs, "opens": len(o.Opens), "err": o.ErrText, "alloc": o.Alloc, "ms": o.Dur.Milliseconds()})
		}
	}
	wio := newWriter(out + ".io")
	defer wio.Close()
	ioErrors(&sum, wio)
	fams["io-error"] = sum.Evaluations - len(families(tmp))
	sum.Nontrivial = sum.Evaluations
	sum.Note("events", w.N)
	sum.Note("families", fams)
	sum.Print()
}

func nz(r []zg.Rec5) []zg.Rec5 {
	if r == nil {
		return []zg.Rec5{}
	}
	return r
}
