package main

// Every truncation point of every record text (C07): for each presentation-format record of the
// zoo (one or more per RR type the library knows) every prefix -- cut after every character -- is
// fed to the real parser, as it stands (the input ends there), followed by a newline, and at token
// boundaries also followed by a blank, an opening / closing parenthesis or a comment.  Through
// NewZoneParser(...).Next() and through dns.ReadRR (dns.NewRR appends a newline and would hide
// end-of-input cases).  Nothing is expected of the outcome except safety: no panic, termination,
// bounded allocation, an error that is a *dns.ParseError with a position, and stickiness.
// The same for the control entries ($GENERATE with its modifiers, $ORIGIN, $TTL, $INCLUDE), and for the zoo records
// with one token repeated, dropped, exchanged with or joined to its neighbour (family mutate:<TYPE>).

import (
	"errors"
	"fmt"
	"strings"
	"testing/fstest"
	"time"

	"github.com/miekg/dns"

	"verifharness/lib/hx"
	zg "verifharness/lib/zonegen"
	"verifharness/lib/zoo"
)

func readRR(text string) (panicked string, err error, timedOut bool) {
	type res struct {
		p   string
		err error
	}
	for try := 0; try < 3; try++ {
		ch := make(chan res, 1)
		go func() {
			var r res
			r.p = hx.Catch(func() { _, r.err = dns.ReadRR(strings.NewReader(text), "db") })
			ch <- r
		}()
		select {
		case r := <-ch:
			return r.p, r.err, false
		case <-time.After(budget):
		}
	}
	return "", nil, true
}

// directiveTexts: the control entries of RFC 1035 s.5 / BIND, with every feature of their own little grammars: ranges
// with and without step, ${offset,width,base} modifiers in the owner and in the RDATA template (complete, short,
// negative offset, every base), $$ and \$, quoted and parenthesised RDATA, an origin argument, TTL units.  They get
// the treatment of the zoo records: every prefix (the input may END anywhere: inside "${", after "$", inside the
// range, after the directive), as it stands / followed by a line end / by the tails below.
var directiveTexts = []string{
	"$GENERATE 1-3 h${0,3,d}.sub 5 IN A 10.0.${1,2,x}.$",
	"$GENERATE 0-6/2 $.${-0,1,o}x\\$y$$ 1h TXT \"v${2,4,X} $\" ${0} ${1,2}",
	"$GENERATE 1-2 @ 300 CNAME t${1,0,d}.x.org.",
	"$GENERATE 10-12 ${0,2} MX $ mx${0,2,d}",
	"$GENERATE 1-2 h$ 5 A ( 10.0.0.${0,1,d}\n )",
	"$GENERATE 65534-65535 ${1,5,d} IN 5 NS ns${-65534}",
	"$ORIGIN sub.example.org.",
	"$TTL 1h30m",
	"$INCLUDE inc.zone sub.example.org. ; c",
	"$INCLUDE inc.zone",
}

// mutate: the tokens of an entry after the owner -- TTL, class, type and every RDATA item -- written twice in a row,
// left out, exchanged with their neighbour, or joined to it: lists with a REPEATED member (type bit maps, SVCB keys,
// APL items, TXT strings), a member missing, members out of order.  A second, valid record follows.
func mutate(full string) []string {
	var toks []string
	for rest := full; rest != ""; {
		h, t, ok := splitUnquoted(rest)
		toks = append(toks, h)
		if !ok {
			break
		}
		rest = t
	}
	join := func(t []string) string { return strings.Join(t, " ") }
	var out []string
	for i := 1; i < len(toks); i++ {
		cp := func() []string { return append([]string{}, toks...) }
		dup := append(cp()[:i+1], toks[i:]...)
		out = append(out, join(dup))
		out = append(out, join(append(cp()[:i+1], dup[i:]...))) // three times
		out = append(out, join(append(cp()[:i], toks[i+1:]...)))
		if i+1 < len(toks) {
			sw := cp()
			sw[i], sw[i+1] = sw[i+1], sw[i]
			out = append(out, join(sw))
			out = append(out, join(append(append(cp()[:i], toks[i]+toks[i+1]), toks[i+2:]...)))
		}
		if up, lo := strings.ToUpper(toks[i]), strings.ToLower(toks[i]); up != lo { // the same member in another spelling
			out = append(out, join(append(append(cp()[:i+1], map[bool]string{true: lo, false: up}[toks[i] == up]), toks[i+1:]...)))
		}
	}
	return out
}

func prefixes(out string) {
	w := newWriter(out)
	defer w.Close()
	var sum hx.Summary
	types := map[string]bool{}
	n := 0
	second := "after.example.org. 3600 IN A 192.0.2.9\n"
	run := func(fam, text string, rc zg.RunCfg, cs map[string]interface{}, every int) zg.Observed {
		n++
		sum.Evaluations++
		rc.NoMem = n%16 != 0
		o, timedOut, _ := zg.RunBudget([]byte(text), rc, budget)
		safety(fam, len(text), &o, timedOut, rc, false, &sum, cs)
		pn, err, to := readRR(text)
		switch {
		case to:
			hang(&sum, fam, "dns.ReadRR", cs)
		case pn != "":
			sum.Mis("zone/hostile:panic:"+fam, "dns.ReadRR panicked: "+pn, cs)
		case err != nil:
			var pe *dns.ParseError
			if !errors.As(err, &pe) {
				sum.Mis("zone/hostile:err-type", fmt.Sprintf("dns.ReadRR error is a %T, not a *dns.ParseError: %v", err, err), cs)
			}
		}
		if n%every == 0 && !timedOut && o.Panic == "" {
			w.Emit(map[string]interface{}{"ev": "parser", "allowed": rc.IncAllowed, "chain": false})
			for _, e := range o.Events {
				w.Emit(e)
			}
		}
		return o
	}
	// 1. the control entries
	for _, full := range directiveTexts {
		fam := "prefix:" + strings.Fields(full)[0]
		for cut := 0; cut <= len(full); cut++ {
			tails := []string{"", "\n", "\n" + second, "${", "$", "}", "\\", "{0,0,d} x\n"}
			if cut == len(full) || full[cut] == ' ' || (cut > 0 && full[cut-1] == ' ') {
				tails = append(tails, " ", " \n", "\t;c", " (", " )\n", " \"", "\n\n")
			}
			for _, tail := range tails {
				text := full[:cut] + tail
				rc := zg.RunCfg{Origin: "example.", DefTTL: -1, IncAllowed: true, FS: fstest.MapFS{"inc.zone": {Data: []byte("x 5 A 10.0.0.1\n")}}, File: "db"}
				cs := map[string]interface{}{"family": fam, "text": text, "record": full, "cut": cut}
				if o := run(fam, text, rc, cs, 10); o.NRecs > 65536+1 {
					sum.Mis("zone/hostile:gen>65536", fmt.Sprintf("%d records from one $GENERATE", o.NRecs), cs)
				}
			}
		}
	}
	// 2. the records of the zoo: prefixes, and token-level mutations
	for ti, t := range zoo.Texts {
		full := strings.Replace(t, "OWNER", "example.org.", 1)
		typ := "?"
		if f := strings.Fields(full); len(f) > 3 {
			typ = f[3]
		}
		types[typ] = true
		for _, text := range mutate(full) {
			fam := "mutate:" + typ
			rc := zg.RunCfg{Origin: "", DefTTL: -1, IncAllowed: false, FS: fstest.MapFS{}, File: "db"}
			run(fam, text+"\n"+second, rc, map[string]interface{}{"family": fam, "text": text + "\n" + second, "record": full}, 10)
		}
		fam := "prefix:" + typ
		for cut := 0; cut <= len(full); cut++ {
			p := full[:cut]
			tails := []string{"", "\n"}
			if cut == len(full) || full[cut] == ' ' || (cut > 0 && full[cut-1] == ' ') {
				tails = append(tails, " ", " \n", "\t;c", " (", " )\n", " \"", "\n\n")
			}
			for _, tail := range tails {
				text := p + tail
				rc := zg.RunCfg{Origin: "", DefTTL: -1, IncAllowed: false, FS: fstest.MapFS{}, File: "db"}
				cs := map[string]interface{}{"family": fam, "text": text, "record": full, "cut": cut}
				o := run(fam, text, rc, cs, 40)
				if (ti*131+cut)%9973 == 0 {
					sum.Sample(map[string]interface{}{"family": fam, "text": text, "records": o.NRecs, "err": o.ErrText})
				}
			}
		}
	}
	sum.Nontrivial = len(types)
	sum.Note("prefix_texts", n)
	sum.Note("record_types", len(types))
	sum.Note("events", w.N)
	sum.Print()
}

// insertions writes, for every record text of the zoo, the texts obtained by inserting a stray parenthesis,
// an unterminated quote or a lone backslash at every token boundary of the RDATA, each followed by a second,
// valid record.  The harness does not say which of them are ill-formed (an insertion may fall inside a quoted
// string): the texts go to Gen_Present (Mode "file"), whose classification comes back with them as "text"
// vectors for `zone replay`: lexically ill-formed => an error must be reported (the silent loss of the
// second record is the failure to look for).
func insertions(out string) {
	w := newWriter(out)
	defer w.Close()
	var sum hx.Summary
	second := "after.example.org. 3600 IN A 192.0.2.9\n"
	for _, t := range zoo.Texts {
		full := strings.Replace(t, "OWNER", "example.org.", 1)
		f := strings.Fields(full)
		if len(f) < 5 {
			continue
		}
		start := strings.Index(full, " "+f[3]+" ") + len(f[3]) + 1 // the blank after the type
		for i := start; i <= len(full); i++ {
			if i < len(full) && full[i] != ' ' {
				continue
			}
			for _, ins := range []string{" )", " (", ")", "(", " ( ", " ) (", " \"", " ( )", " ;)"} {
				w.Emit(map[string]interface{}{"text": hx.FromString(full[:i] + ins + full[i:] + "\n" + second)})
				sum.Evaluations++
			}
			w.Emit(map[string]interface{}{"text": hx.FromString(full[:i] + " \\")}) // a lone backslash at the end of input
			w.Emit(map[string]interface{}{"text": hx.FromString(full[:i] + " (")})  // never closed, end of input
			sum.Evaluations += 2
		}
	}
	sum.Note("texts", w.N)
	sum.Print()
}
