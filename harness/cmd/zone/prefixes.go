package main

// Every truncation point of every record text (C07): for each presentation-format record of the
// zoo (one or more per RR type the library knows) every prefix -- cut after every character -- is
// fed to the real parser, as it stands (the input ends there), followed by a newline, and at token
// boundaries also followed by a blank, an opening / closing parenthesis or a comment.  Through
// NewZoneParser(...).Next() and through dns.ReadRR (dns.NewRR appends a newline and would hide
// end-of-input cases).  Nothing is expected of the outcome except safety: no panic, termination,
// bounded allocation, an error that is a *dns.ParseError with a position, and stickiness.

import (
	"errors"
	"fmt"
	"strings"
	"testing/fstest"
	"time"

	"github.com/miekg/dns"

	"verifharness/lib/hx"
	zg "verifharness/lib/zonegen"
	"verifharness/lib/zoo"
)

func readRR(text string) (panicked string, err error, timedOut bool) {
	type res struct {
		p   string
		err error
	}
	for try := 0; try < 3; try++ {
		ch := make(chan res, 1)
		go func() {
			var r res
			r.p = hx.Catch(func() { _, r.err = dns.ReadRR(strings.NewReader(text), "db") })
			ch <- r
		}()
		select {
		case r := <-ch:
			return r.p, r.err, false
		case <-time.After(budget):
		}
	}
	return "", nil, true
}

func prefixes(out string) {
	w := newWriter(out)
	defer w.Close()
	var sum hx.Summary
	types := map[string]bool{}
	n := 0
	for ti, t := range zoo.Texts {
		full := strings.Replace(t, "OWNER", "example.org.", 1)
		typ := "?"
		if f := strings.Fields(full); len(f) > 3 {
			typ = f[3]
		}
		types[typ] = true
		fam := "prefix:" + typ
		for cut := 0; cut <= len(full); cut++ {
			p := full[:cut]
			tails := []string{"", "\n"}
			if cut == len(full) || full[cut] == ' ' || (cut > 0 && full[cut-1] == ' ') {
				tails = append(tails, " ", " \n", "\t;c", " (", " )\n", " \"", "\n\n")
			}
			for _, tail := range tails {
				text := p + tail
				n++
				sum.Evaluations++
				rc := zg.RunCfg{Origin: "", DefTTL: -1, IncAllowed: false, FS: fstest.MapFS{}, File: "db", NoMem: n%16 != 0}
				o, timedOut, _ := zg.RunBudget([]byte(text), rc, budget)
				cs := map[string]interface{}{"family": fam, "text": text, "record": full, "cut": cut}
				safety(fam, len(text), &o, timedOut, rc, false, &sum, cs)
				pn, err, to := readRR(text)
				switch {
				case to:
					hang(&sum, fam, "dns.ReadRR", cs)
				case pn != "":
					sum.Mis("zone/hostile:panic:"+fam, "dns.ReadRR panicked: "+pn, cs)
				case err != nil:
					var pe *dns.ParseError
					if !errors.As(err, &pe) {
						sum.Mis("zone/hostile:err-type", fmt.Sprintf("dns.ReadRR error is a %T, not a *dns.ParseError: %v", err, err), cs)
					}
				}
				if n%40 == 0 && !timedOut && o.Panic == "" {
					w.Emit(map[string]interface{}{"ev": "parser", "allowed": false, "chain": false})
					for _, e := range o.Events {
						w.Emit(e)
					}
				}
				if (ti*131+cut)%9973 == 0 {
					sum.Sample(map[string]interface{}{"family": fam, "text": text, "records": o.NRecs, "err": o.ErrText})
				}
			}
		}
	}
	sum.Nontrivial = len(types)
	sum.Note("prefix_texts", n)
	sum.Note("record_types", len(types))
	sum.Note("events", w.N)
	sum.Print()
}

// insertions writes, for every record text of the zoo, the texts obtained by inserting a stray parenthesis,
// an unterminated quote or a lone backslash at every token boundary of the RDATA, each followed by a second,
// valid record.  The harness does not say which of them are ill-formed (an insertion may fall inside a quoted
// string): the texts go to Gen_Present (Mode "file"), whose classification comes back with them as "text"
// vectors for `zone replay`: lexically ill-formed => an error must be reported (the silent loss of the
// second record is the failure to look for).
func insertions(out string) {
	w := newWriter(out)
	defer w.Close()
	var sum hx.Summary
	second := "after.example.org. 3600 IN A 192.0.2.9\n"
	for _, t := range zoo.Texts {
		full := strings.Replace(t, "OWNER", "example.org.", 1)
		f := strings.Fields(full)
		if len(f) < 5 {
			continue
		}
		start := strings.Index(full, " "+f[3]+" ") + len(f[3]) + 1 // the blank after the type
		for i := start; i <= len(full); i++ {
			if i < len(full) && full[i] != ' ' {
				continue
			}
			for _, ins := range []string{" )", " (", ")", "(", " ( ", " ) (", " \"", " ( )", " ;)"} {
				w.Emit(map[string]interface{}{"text": hx.FromString(full[:i] + ins + full[i:] + "\n" + second)})
				sum.Evaluations++
			}
			w.Emit(map[string]interface{}{"text": hx.FromString(full[:i] + " \\")}) // a lone backslash at the end of input
			w.Emit(map[string]interface{}{"text": hx.FromString(full[:i] + " (")})  // never closed, end of input
			sum.Evaluations += 2
		}
	}
	sum.Note("texts", w.N)
	sum.Print()
}
