// Command zone binds spec/Zone.tla and spec/Present.tla to the real dns.ZoneParser
// (properties C06 and C07).
//
//	zone replay <vectors.ndjson> [spell.ndjson] [events.ndjson]
//	     TLC vectors -> real parser.  kind "zone": abstract lines + everything they may denote;
//	     every vector is rendered in >= 4 equivalent spellings, each parsed under the vector's
//	     configuration and compared with the specification's record lists.  kind "gen": the
//	     $GENERATE matrix.  kind "text": hostile strings with the specification's lexical
//	     classification.  spell.ndjson receives {text, lines} events (each rendering with the
//	     abstract lines it claims to spell) for Trace_Zone; events.ndjson receives sampled
//	     next/open histories of hostile texts.
//	zone record <out.ndjson> <n>
//	     n random zones written from random abstract lines, parsed by the real parser; events
//	     {abstract line, records the parser returned while reading it / error} for Trace_Zone.
//	zone hostile <out.ndjson>
//	     structured hostile families (C07): safety observed here, histories written for Trace_Zone.
//	zone prefixes <out.ndjson>
//	     every prefix of every record text of lib/zoo (every RR type), see prefixes.go.
//	zone follow <out.ndjson>
//	     every zoo record (every RR type) in first / second / third position of a three-record zone, see follow.go.
//	zone insertions <texts.ndjson>
//	     stray parentheses / quotes / backslashes inserted into the RDATA of every zoo text (texts only: they are
//	     classified by Gen_Present and come back as "text" vectors for replay).
//
// The harness never decides what a zone denotes: it compares with the vector's expected
// values or logs what it saw for TLC to judge.  What it does decide is what the
// specification cannot (DESIGN 1.3): panic, termination, allocation, error type/position.
package main

import (
	"errors"
	"fmt"
	"hash/fnv"
	"math/rand"
	"os"
	"path"
	"path/filepath"
	"regexp"
	"strconv"
	"strings"
	"testing/fstest"
	"time"

	"verifharness/lib/hx"
	zg "verifharness/lib/zonegen"
)

type outcome struct {
	Undef bool     `json:"undef"`
	Err   bool     `json:"err"`
	Errln int      `json:"errln"`
	Recs  []zg.Rec `json:"recs"`
	Nopen int      `json:"nopen"`
}

type fsText struct {
	Name hx.B `json:"name"`
	Text hx.B `json:"text"`
}

type sample struct {
	J   int    `json:"j"`
	Rec zg.Rec `json:"rec"`
}

type vec struct {
	Kind     string    `json:"kind"`
	Cfg      zg.Cfg    `json:"cfg"`
	Lines    []zg.Line `json:"lines"`
	Outs     []outcome `json:"outs"`
	Explicit []zg.Line `json:"explicit"`
	Minimal  []zg.Line `json:"minimal"`
	Given    hx.B      `json:"given"`
	GivenFS  []fsText  `json:"givenfs"`
	OText    *hx.B     `json:"otext"` // the initial origin as text, handed to the parser as it is (Gen_Zone "ofile"); nil: cfg.origin rendered
	OSt      string    `json:"ost"`   // ... and what the specification makes of it: ok | err | amb
	// gen
	Undef  bool     `json:"undef"`
	Err    bool     `json:"err"`
	N      int      `json:"n"`
	Sample []sample `json:"sample"`
	// text
	Text hx.B   `json:"text"`
	Ill  string `json:"ill"`
	Odd  bool   `json:"odd"`
	Amb  bool   `json:"amb"`
}

// budget: wall-clock limit of one parse.  Far beyond anything legitimate (the largest inputs, 10^6 octets or
// 65536 generated records, take well under a second); a parse that exceeds it is run again, up to three times
// in fresh goroutines, and only a hang that reproduces every time is reported.
const budget = 20 * time.Second

var writers []*hx.Writer
var tmpDirs []string // temporary directories to remove if the process ends through hang()

func newWriter(path string) *hx.Writer {
	w := hx.NewWriter(path)
	writers = append(writers, w)
	return w
}

// hang: "reading records terminates" failed, reproducibly.  The goroutines stuck in the parser cannot be
// killed (they keep a core busy each, and may keep allocating), so the finding is recorded, the summary is
// printed and the harness process ends normally; the remaining cases of this process are skipped.
func hang(sum *hx.Summary, fam, what string, cs interface{}) {
	sum.Mis("zone/hostile:hang:"+fam, what+" did not return within "+budget.String()+", three times in a row (fresh goroutine each time)", cs)
	sum.Note("aborted_after_hang", "the harness process stopped after the first reproducible hang: later cases were not run")
	for _, w := range writers {
		w.Close()
	}
	for _, d := range tmpDirs {
		os.RemoveAll(d)
	}
	sum.Print()
	os.Exit(0)
}

func main() {
	if len(os.Args) < 3 {
		hx.Die("usage: zone replay|record|hostile ...")
	}
	switch os.Args[1] {
	case "replay":
		sp, ev := "", ""
		if len(os.Args) > 3 {
			sp = os.Args[3]
		}
		if len(os.Args) > 4 {
			ev = os.Args[4]
		}
		replay(os.Args[2], sp, ev)
	case "record":
		n, _ := strconv.Atoi(os.Args[3])
		record(os.Args[2], n)
	case "hostile":
		hostile(os.Args[2])
	case "prefixes":
		prefixes(os.Args[2])
	case "insertions":
		insertions(os.Args[2])
	case "follow":
		follow(os.Args[2])
	default:
		hx.Die("unknown mode %s", os.Args[1])
	}
}

func seedFor(parts ...interface{}) int64 {
	h := fnv.New64a()
	fmt.Fprint(h, hx.Seed())
	for _, p := range parts {
		fmt.Fprint(h, "|", p)
	}
	return int64(h.Sum64() >> 1)
}

func originText(o zg.NameOpt) string {
	if !o.Set {
		return ""
	}
	st := zg.Style{}
	return st.NameText(o.N, true)
}

// ---------------------------------------------------------------- spell events (TV of the renderings)

type evSpell struct {
	Ev    string    `json:"ev"`
	Text  hx.B      `json:"text"`
	Lines []zg.Line `json:"lines"`
}

type speller struct {
	w    *hx.Writer
	seen map[string]bool
}

func (s *speller) line(text string, l zg.Line) {
	if s == nil || s.w == nil {
		return
	}
	k := l.K + "\x00" + text
	if s.seen[k] || !spellSampled(text, 400) {
		return
	}
	s.seen[k] = true
	s.w.Emit(evSpell{"spell", hx.FromString(text), []zg.Line{l}})
}

// spellSampled: reading a rendering back through Present!Lex costs TLC time quadratic in its length (~1 s for a line of
// 1000 characters: the names written with \DDD escapes); of the lines longer than 400 characters (whole files: 2000)
// one in eight, chosen by a hash of the text, is sent back.  (This is the harness' self-check, not a verdict on the code.)
func spellSampled(text string, limit int) bool {
	if len(text) <= limit {
		return true
	}
	h := fnv.New32a()
	h.Write([]byte(text))
	return h.Sum32()%8 == 0
}

func (s *speller) file(text []byte, ls []zg.Line) {
	if s == nil || s.w == nil || !spellSampled(string(text), 2000) {
		return
	}
	s.w.Emit(evSpell{"spell", hx.FromBytes(text), ls})
}

// ---------------------------------------------------------------- replay

func replay(path, spellPath, evPath string) {
	var sum hx.Summary
	sp := &speller{seen: map[string]bool{}}
	if spellPath != "" {
		sp.w = newWriter(spellPath)
		defer sp.w.Close()
	}
	var evw *hx.Writer
	if evPath != "" {
		evw = newWriter(evPath)
		defer evw.Close()
	}
	nontrivial := 0
	spellings := 0
	hx.ReadNDJSON(path, func(i int, v *vec) {
		sum.Evaluations++
		switch v.Kind {
		case "zone":
			nt, ns := replayZone(i, v, &sum, sp, evw)
			if nt {
				nontrivial++
			}
			spellings += ns
		case "gen":
			if replayGen(i, v, &sum, sp) {
				nontrivial++
			}
			spellings += 2
		case "text":
			if replayText(i, v, &sum, evw) {
				nontrivial++
			}
		default:
			hx.Die("unknown vector kind %q", v.Kind)
		}
	})
	sum.Nontrivial = nontrivial
	sum.Note("spellings", spellings)
	if sp.w != nil {
		sum.Note("spell_events", sp.w.N)
	}
	if evw != nil {
		sum.Note("history_events", evw.N)
	}
	sum.Print()
}

func flipOrder(ls []zg.Line, r *rand.Rand) []zg.Line {
	out := make([]zg.Line, len(ls))
	copy(out, ls)
	for i := range out {
		if (out[i].K == "rr" || out[i].K == "generate") && out[i].TTL >= 0 && out[i].Class != 0 && r.Intn(2) == 0 {
			if out[i].Order == "tc" {
				out[i].Order = "ct"
			} else {
				out[i].Order = "tc"
			}
		}
	}
	return out
}

func hasInclude(ls []zg.Line) bool {
	for _, l := range ls {
		if l.K == "include" {
			return true
		}
	}
	return false
}

func renderFS(files []zg.File, st *zg.Style, sp *speller) fstest.MapFS {
	m := fstest.MapFS{}
	for _, f := range files {
		s := st.RenderFile(f.Lines)
		for j := range s.Lines {
			if len(files) <= 6 || st.R == nil || st.R.Intn(4) == 0 { // (big trees: a sample of the file lines is enough)
				sp.line(s.Texts[j], s.Lines[j])
			}
		}
		m[f.Name.String()] = &fstest.MapFile{Data: s.Text}
	}
	return m
}

func tmplClass(t hx.B) string {
	s := t.String()
	for i := 0; i+1 < len(s); i++ {
		if s[i] == '\\' {
			if s[i+1] != '$' {
				return "esc"
			}
			i++
		}
	}
	if strings.Contains(s, "${") {
		return "mod"
	}
	return "plain"
}

func refIsMnemonic(r zg.Ref) bool {
	return r.K == "rel" && len(r.N) == 1 && zg.IsMnemonic(r.N[0].String())
}

// fieldKey names the class of a wrong record field: the kind of line the record was written as
// (rr / generate), the field, for TTLs where the value should have come from, for $GENERATE
// templates whether they use backslash escapes or ${} modifiers, and for records spliced in by
// an $INCLUDE whose origin argument spells a type/class mnemonic that special class.
func fieldKey(l zg.Line, rec zg.Rec, field string) string {
	kind := l.K
	if rec.Via == "generate" {
		kind = "generate"
	}
	k := "zone/" + kind + ":" + field
	if field == "ttl" {
		k += ":" + rec.Src
	}
	if l.K == "include" && refIsMnemonic(l.Origin) && (field == "owner" || field == "rdata") {
		return "zone/include:" + field + ":mnemonic-origin"
	}
	if kind == "generate" && (field == "owner" || field == "rdata") {
		if l.K != "generate" {
			return k + ":nested"
		}
		c := tmplClass(l.Lhs)
		if field == "rdata" {
			c = "plain"
			for _, it := range l.Rhs {
				if x := tmplClass(it.Raw); x == "esc" || (x == "mod" && c == "plain") {
					c = x
				}
			}
		}
		k += ":" + c
	}
	return k
}

var knownKeys = func() map[string]bool {
	m := map[string]bool{}
	for _, k := range strings.Split(os.Getenv("VERIF_KNOWN"), ",") {
		if k != "" {
			m[k] = true
		}
	}
	return m
}()

// judge compares what the parser did with what the lines may denote; "" = admissible.
// The lines may denote several record lists (one per AMBIG reading).  If the parser's list is
// none of them, the discrepancy is described against the reading that agrees longest -- unless
// against some other admissible reading it is an instance of a finding already on record
// (VERIF_KNOWN): then that description is used, so that a known defect does not come back
// under a second name through a reading the code does not even follow.
func judge(lines []zg.Line, outs []outcome, o *zg.Observed, lineOfErr func() string) (key, what string) {
	if len(outs) == 0 {
		return "zone/no-outcome", "the specification gave no outcome"
	}
	bestKey, bestWhat, bestScore := "", "", -1
	for _, out := range outs {
		if out.Undef {
			return "", ""
		}
		k, w, score := judgeOne(lines, out, o, lineOfErr)
		if k == "" {
			return "", ""
		}
		if knownKeys[k] {
			score += 1 << 30
		}
		if score > bestScore {
			bestKey, bestWhat, bestScore = k, w, score
		}
	}
	return bestKey, bestWhat
}

func judgeOne(lines []zg.Line, out outcome, o *zg.Observed, lineOfErr func() string) (key, what string, score int) {
	gotErr := o.Err != nil
	pre := 0
	for pre < len(out.Recs) && pre < len(o.Recs) && zg.SameRec(out.Recs[pre], o.Recs[pre]) == "" {
		pre++
	}
	score = pre*2 + b2i(out.Err == gotErr)
	if pre == len(out.Recs) && pre == len(o.Recs) && out.Err == gotErr {
		return "", "", score
	}
	kindAt := func(ln int) zg.Line {
		if ln >= 1 && ln <= len(lines) {
			return lines[ln-1]
		}
		if ln == 0 && out.Err { // the specification's error belongs to no line: the parser was in error before the first one
			return zg.Line{K: "initial-origin"}
		}
		return zg.Line{K: "none"}
	}
	switch {
	case pre < len(out.Recs) && pre < len(o.Recs):
		f := zg.SameRec(out.Recs[pre], o.Recs[pre])
		l := kindAt(out.Recs[pre].Ln)
		return fieldKey(l, out.Recs[pre], f), fmt.Sprintf("record %d (line %d, %s): %s differs: spec %v, parser %v", pre+1, out.Recs[pre].Ln, l.K, f, show(out.Recs[pre]), show(o.Recs[pre])), score
	case pre < len(out.Recs): // the parser stopped early
		l := kindAt(out.Recs[pre].Ln)
		if gotErr && !out.Err {
			return "zone/rejects:" + lineOfErr(), fmt.Sprintf("parser error %q after %d records; the lines denote %d records and no error", o.ErrText, len(o.Recs), len(out.Recs)), score
		}
		return "zone/" + l.K + ":missing-record", fmt.Sprintf("record %d (line %d) is missing: spec %v; parser returned %d records, err=%v", pre+1, out.Recs[pre].Ln, show(out.Recs[pre]), len(o.Recs), o.ErrText), score
	case pre < len(o.Recs): // the parser went on
		if out.Err {
			return "zone/accepts:" + kindAt(out.Errln).K, fmt.Sprintf("line %d must be refused; parser returned %d further records, first %v", out.Errln, len(o.Recs)-pre, show(o.Recs[pre])), score
		}
		return "zone/extra-record", fmt.Sprintf("parser returned %d records, the lines denote %d; first extra %v", len(o.Recs), len(out.Recs), show(o.Recs[pre])), score
	case out.Err && !gotErr:
		return "zone/accepts:" + kindAt(out.Errln).K, fmt.Sprintf("line %d (%s) must be refused; parser reported no error", out.Errln, kindAt(out.Errln).K), score
	default:
		return "zone/rejects:" + lineOfErr(), fmt.Sprintf("parser error %q; the lines denote %d records and no error", o.ErrText, len(out.Recs)), score
	}
}

func b2i(b bool) int {
	if b {
		return 1
	}
	return 0
}

func show(r zg.Rec) string {
	st := zg.Style{}
	return fmt.Sprintf("{%s ttl=%d class=%d type=%d rdata=%v}", st.NameText(r.Owner, true), r.TTL, r.Class, r.Type, []int(r.Rdata))
}

var quotedTok = regexp.MustCompile(`: ("(?:[^"\\]|\\.)*") at line: \d+:\d+$`)

// errClass: the kind of line the real parser refused (from the error's line number), and
// ":mnemonic-token" when the token it complains about spells a type / class mnemonic.
func errClass(o *zg.Observed, rf *zg.Spelling) string {
	kind := "include"
	if o.PEFile == rf.File {
		kind = "none"
		ln := 1
		for j, t := range rf.Texts {
			n := strings.Count(t, "\n")
			if o.PELine < ln+max(n, 1) {
				kind = rf.Lines[j].K
				break
			}
			ln += n
		}
	}
	if strings.Contains(o.ErrText, "dns: no blank after owner:") {
		// never a property of our renderings (an owner is always followed by a blank): the lexer lost the blank
		return kind + ":no-blank-after-owner"
	}
	if m := quotedTok.FindStringSubmatch(o.ErrText); m != nil {
		if tok, err := strconv.Unquote(m[1]); err == nil && zg.IsMnemonic(tok) {
			kind += ":mnemonic-token"
		}
	}
	return kind
}

type spelling struct {
	name  string
	lines []zg.Line
	noise bool
}

func runCfgOf(c zg.Cfg, fs fstest.MapFS) zg.RunCfg {
	return zg.RunCfg{Origin: originText(c.Origin), DefTTL: c.DefTTL, IncAllowed: c.IncAllowed, FS: fs, File: c.File.String(), NoMem: true}
}

// persistent: the consumer of a C07 run (events file given) keeps calling Next after the first (nil, false); whatever
// it is handed then counts as returned, so that the specification's record list ("no further records once an error
// has occurred") judges it, and the history goes to Trace_Zone's sticky-error machine.
func persistent(o *zg.Observed) *zg.Observed {
	if len(o.After) == 0 {
		return o
	}
	p := *o
	p.Recs = append(append([]zg.Rec{}, o.Recs...), o.After...)
	return &p
}

func emitHistory(evw *hx.Writer, i int, spelling string, c zg.RunCfg, otext *hx.B, o *zg.Observed) {
	// (i, sp: the vector and the spelling the history belongs to -- for the driver, the specification does not look at them)
	p := map[string]interface{}{"ev": "parser", "allowed": c.IncAllowed, "chain": false, "i": i, "sp": spelling}
	if otext != nil {
		p["origin"] = *otext
	}
	evw.Emit(p)
	for _, e := range o.Events {
		evw.Emit(e)
	}
}

func replayZone(i int, v *vec, sum *hx.Summary, sp *speller, evw *hx.Writer) (nontrivial bool, nspell int) {
	unconstrained := false
	for _, o := range v.Outs {
		if o.Undef {
			unconstrained = true
		}
	}
	sps := []spelling{{"canonical", v.Lines, false}, {"noisy", v.Lines, true}}
	if len(v.Explicit) == len(v.Lines) {
		sps = append(sps, spelling{"explicit", v.Explicit, true})
	}
	if len(v.Minimal) == len(v.Lines) {
		sps = append(sps, spelling{"minimal", v.Minimal, true})
	}
	if hx.Thorough() {
		sps = append(sps, spelling{"noisy2", v.Lines, true}, spelling{"explicit2", v.Explicit, true})
	}
	if len(v.Given) > 0 {
		sps = append(sps, spelling{"given", v.Lines, false})
	}
	for k, s := range sps {
		r := rand.New(rand.NewSource(seedFor("zone", i, k, len(v.Lines))))
		st := &zg.Style{R: r, Noise: s.noise}
		lines := s.lines
		if s.noise {
			lines = flipOrder(lines, r)
		}
		rf := st.RenderFile(lines)
		if s.name == "given" { // a spelling supplied with the case: one entry per physical line
			rf = zg.Spelling{Text: v.Given.Bytes(), Lines: lines}
			for _, t := range strings.SplitAfter(v.Given.String(), "\n") {
				if t != "" {
					rf.Texts = append(rf.Texts, t)
				}
			}
			if len(rf.Texts) != len(lines) {
				rf.Texts = []string{v.Given.String()}
				rf.Lines = []zg.Line{{K: "none"}}
				if len(lines) == 1 {
					rf.Lines = lines
				}
			}
			sp.file(rf.Text, lines)
		} else {
			for j := range rf.Lines {
				sp.line(rf.Texts[j], rf.Lines[j])
			}
			if (i+k)%97 == 0 {
				sp.file(rf.Text, rf.Lines)
			}
		}
		fs := fstest.MapFS{}
		var fsTexts []fsText
		switch {
		case s.name == "given" && len(v.GivenFS) > 0:
			for _, f := range v.GivenFS {
				fs[f.Name.String()] = &fstest.MapFile{Data: f.Text.Bytes()}
			}
		case hasInclude(lines): // (otherwise the include FS is never consulted)
			fs = renderFS(v.Cfg.Files, st, sp)
		}
		for n, f := range fs {
			fsTexts = append(fsTexts, fsText{hx.FromString(n), hx.FromBytes(f.Data)})
		}
		rf.File = v.Cfg.File.String()
		rc := runCfgOf(v.Cfg, fs)
		if v.OText != nil {
			rc.Origin = v.OText.String()
		}
		o, timedOut, _ := zg.RunBudget(rf.Text, rc, budget)
		// the case is the failing parse itself: the exact text and include files go with it, so that the
		// confirmation and the replay file re-execute this spelling and not another draw of the random ones
		cs := map[string]interface{}{"cfg": v.Cfg, "lines": lines, "spelling": s.name, "text": string(rf.Text),
			"given": hx.FromBytes(rf.Text), "givenfs": fsTexts}
		if v.OText != nil {
			cs["otext"], cs["origin"] = *v.OText, v.OText.String()
		}
		nspell++
		if timedOut {
			hang(sum, "zone", "ZoneParser.Next", cs)
		}
		if o.Panic != "" {
			sum.Mis("zone/panic", "panic: "+o.Panic, cs)
			continue
		}
		if !v.Cfg.IncAllowed && len(o.Opens) > 0 {
			sum.Mis("zone/open-when-disallowed", fmt.Sprintf("Open(%q) although includes are not allowed", o.Opens[0]), cs)
		}
		lineOfErr := func() string { return errClass(&o, &rf) }
		seen := &o
		if evw != nil {
			seen = persistent(&o)
			emitHistory(evw, i, s.name, rc, v.OText, &o)
		}
		key, what := judge(lines, v.Outs, seen, lineOfErr)
		if key != "" {
			if len(seen.Recs) > len(o.Recs) {
				what += fmt.Sprintf(" (%d of the records were handed out after Next had returned (nil, false), Err() = %q)", len(o.After), o.ErrText)
			}
			sum.Mis(key, s.name+" spelling: "+what, cs)
		}
		if i%501 == 0 && k == 1 {
			sum.Sample(map[string]interface{}{"text": string(rf.Text), "records": len(o.Recs), "err": o.ErrText})
		}
	}
	selfInc := false
	for _, l := range v.Lines {
		selfInc = selfInc || (l.K == "include" && l.File.String() == "self") // (no Open cap without an include FS)
	}
	if v.Cfg.IncAllowed && hasInclude(v.Lines) && !unconstrained && !selfInc && (i%7 == 0 || len(v.Cfg.File) > 2) {
		osRun(i, v, sum, evw)
		nspell++
	}
	return !unconstrained, nspell
}

// osRun: the same zone on the real file system (no include FS): the files are written under a temporary
// directory, the parser is given the path of the zone file, absolute $INCLUDE names get the directory as prefix.
func osRun(i int, v *vec, sum *hx.Summary, evw *hx.Writer) {
	tmp, err := os.MkdirTemp("", "zone-os-")
	if err != nil {
		hx.Die("tmp: %v", err)
	}
	tmpDirs = []string{tmp}
	defer os.RemoveAll(tmp)
	st := &zg.Style{R: rand.New(rand.NewSource(seedFor("os", i))), Noise: false, AbsPrefix: tmp}
	write := func(name string, data []byte) {
		p := filepath.Join(tmp, filepath.FromSlash(strings.TrimLeft(name, "/")))
		if err := os.MkdirAll(filepath.Dir(p), 0o755); err != nil {
			hx.Die("tmp: %v", err)
		}
		if err := os.WriteFile(p, data, 0o644); err != nil {
			hx.Die("tmp: %v", err)
		}
	}
	for _, f := range v.Cfg.Files {
		write(f.Name.String(), st.RenderFile(f.Lines).Text)
	}
	rf := st.RenderFile(v.Lines)
	top := v.Cfg.File.String()
	write(top, rf.Text)
	rc := runCfgOf(v.Cfg, nil)
	rc.File = filepath.Join(tmp, filepath.FromSlash(strings.TrimLeft(top, "/")))
	rf.File = rc.File
	if v.OText != nil {
		rc.Origin = v.OText.String()
	}
	o, timedOut, _ := zg.RunBudget(rf.Text, rc, budget)
	cs := map[string]interface{}{"cfg": v.Cfg, "lines": v.Lines, "spelling": "os file system", "text": string(rf.Text)}
	if v.OText != nil {
		cs["otext"] = *v.OText
	}
	switch {
	case timedOut:
		hang(sum, "zone", "ZoneParser.Next (real file system)", cs)
	case o.Panic != "":
		sum.Mis("zone/panic", "panic: "+o.Panic, cs)
	default:
		seen := &o
		if evw != nil { // (no Open events without an include FS: the history is next / poll only)
			seen = persistent(&o)
			emitHistory(evw, i, "os file system", rc, v.OText, &o)
		}
		if key, what := judge(v.Lines, v.Outs, seen, func() string { return errClass(&o, &rf) }); key != "" {
			sum.Mis(key, "on the real file system (no include FS): "+what, cs)
		}
	}
}

func replayGen(i int, v *vec, sum *hx.Summary, sp *speller) bool {
	g := v.Lines[0]
	for k := 0; k < 2; k++ {
		st := &zg.Style{R: rand.New(rand.NewSource(seedFor("gen", i, k))), Noise: k == 1}
		text := st.Render(g)
		sp.line(text, g)
		o, timedOut, _ := zg.RunBudget([]byte(text), runCfgOf(v.Cfg, nil), budget)
		cs := map[string]interface{}{"cfg": v.Cfg, "lines": v.Lines, "text": text}
		rng := fmt.Sprintf("%d-%d/%d", g.Lo, g.Hi, g.Step)
		switch {
		case timedOut:
			hang(sum, "generate", "ZoneParser.Next on $GENERATE "+rng, cs)
		case o.Panic != "":
			sum.Mis("zone/panic", "panic: "+o.Panic, cs)
		case o.NRecs > 65536:
			sum.Mis("zone/generate:more-than-65536", fmt.Sprintf("$GENERATE %s yielded %d records", rng, o.NRecs), cs)
		case v.Undef:
		case v.Err && o.Err == nil:
			c := "bad-range"
			if g.Hi >= g.Lo && g.Step >= 1 {
				c = "range>65536"
			}
			sum.Mis("zone/accepts:generate:"+c, fmt.Sprintf("$GENERATE %s must be refused; parser returned %d records and no error", rng, o.NRecs), cs)
		case !v.Err && o.Err != nil:
			sum.Mis("zone/rejects:generate", fmt.Sprintf("$GENERATE %s: parser error %q; the specification expects %d records", rng, o.ErrText, v.N), cs)
		case !v.Err && o.NRecs != v.N:
			sum.Mis("zone/generate:count", fmt.Sprintf("$GENERATE %s yielded %d records, the specification says %d", rng, o.NRecs, v.N), cs)
		case !v.Err:
			for _, s := range v.Sample {
				if s.J-1 >= len(o.Recs) {
					continue
				}
				if f := zg.SameRec(s.Rec, o.Recs[s.J-1]); f != "" {
					sum.Mis(fieldKey(g, zg.Rec{Via: "generate", Src: "stated"}, f), fmt.Sprintf("$GENERATE %s step %d: %s differs: spec %v, parser %v", rng, s.J, f, show(s.Rec), show(o.Recs[s.J-1])), cs)
					break
				}
			}
		}
	}
	return !v.Undef
}

// hostile text: two configurations; safety is observed here, the classification is the spec's
func replayText(i int, v *vec, sum *hx.Summary, evw *hx.Writer) bool {
	text := v.Text.Bytes()
	cfgs := []zg.RunCfg{
		{Origin: "example.", DefTTL: 300, IncAllowed: true, FS: fstest.MapFS{"a": {Data: []byte("a 1 A 10.0.0.1\n")}}, File: "db", NoMem: i%16 != 0},
		{Origin: "", DefTTL: -1, IncAllowed: false, FS: fstest.MapFS{}, File: "", NoMem: true},
	}
	for k, c := range cfgs {
		o, timedOut, _ := zg.RunBudget(text, c, budget)
		cs := map[string]interface{}{"text": v.Text, "ill": v.Ill, "odd": v.Odd, "config": k}
		safety("text", len(text), &o, timedOut, c, false, sum, cs)
		if v.Ill != "" && !v.Odd && !timedOut && o.Panic == "" && o.Err == nil {
			k := "zone/hostile:ill-formed-accepted:" + v.Ill
			if f := strings.Fields(string(text)); len(f) > 4 && (f[2] == "IN" || f[2] == "CH") { // a record of the zoo: one class per RR type
				k += ":" + strings.Trim(f[3], "()\"\\;")
			}
			sum.Mis(k, fmt.Sprintf("%q is lexically ill-formed (%s) and the parser reported no error after %d records", string(text), v.Ill, o.NRecs), cs)
		}
		if evw != nil && i%61 == 0 {
			evw.Emit(map[string]interface{}{"ev": "parser", "allowed": c.IncAllowed, "chain": false})
			for _, e := range o.Events {
				evw.Emit(e)
			}
		}
		if i%20011 == 0 && k == 0 {
			sum.Sample(map[string]interface{}{"text": string(text), "ill": v.Ill, "records": o.NRecs, "err": o.ErrText})
		}
	}
	return v.Ill != "" && !v.Odd
}

var errMsg = regexp.MustCompile(`dns: ([^:"]*)`)

// errSlug: the message of a ParseError without its token and position, as part of a finding key
func errSlug(text string) string {
	m := errMsg.FindStringSubmatch(text)
	if m == nil {
		return "?"
	}
	return strings.ReplaceAll(strings.ToLower(strings.TrimSpace(m[1])), " ", "-")
}

// safety: what DESIGN 1.3 leaves to the harness.
func safety(fam string, n int, o *zg.Observed, timedOut bool, c zg.RunCfg, chain bool, sum *hx.Summary, cs interface{}) {
	switch {
	case timedOut:
		hang(sum, fam, "ZoneParser.Next", cs)
		return
	case o.Panic != "":
		k := "zone/hostile:panic"
		if strings.HasPrefix(fam, "prefix:") { // one class per record type
			k += ":" + fam
		}
		sum.Mis(k, "panic: "+o.Panic, cs)
		return
	}
	if o.Sticky != "" {
		sum.Mis("zone/hostile:not-sticky", o.Sticky, cs)
	}
	if o.Err != nil {
		switch {
		case errors.Is(o.Err, zg.ErrIO) || fam == "io-error": // an I/O error of the reader is reported as it is
		case !o.IsPE:
			sum.Mis("zone/hostile:err-type", fmt.Sprintf("error is a %T, not a *dns.ParseError: %v", o.Err, o.Err), cs)
		case o.PELine == -1:
			sum.Mis("zone/hostile:err-position-missing", fmt.Sprintf("ParseError carries no line:column: %q", o.ErrText), cs)
		case o.PELine < 1:
			k := "zone/hostile:err-line"
			if strings.HasPrefix(fam, "prefix:$") { // control entries: one class per directive and message
				k += ":" + fam + ":" + errSlug(o.ErrText)
			}
			sum.Mis(k, fmt.Sprintf("ParseError line %d < 1: %q", o.PELine, o.ErrText), cs)
		case c.File != "" && o.PEFile == "":
			sum.Mis("zone/hostile:err-file", fmt.Sprintf("ParseError does not name a file: %q", o.ErrText), cs)
		}
	}
	if !c.IncAllowed && len(o.Opens) > 0 {
		sum.Mis("zone/hostile:open-when-disallowed", fmt.Sprintf("Open(%q) although includes are not allowed", o.Opens[0]), cs)
	}
	if chain && len(o.Opens) > 64 {
		sum.Mis("zone/hostile:opens>64", fmt.Sprintf("%d Opens on a chain of nested includes", len(o.Opens)), cs)
	}
	if !c.NoMem {
		limit := uint64(2048*n + 4<<20)
		if fam == "generate" {
			limit += uint64(o.NRecs+1) * 16384 // per generated record: re-lexed from the template (two 512-octet buffers per token) + the harness' copy
		}
		if o.Alloc > limit {
			sum.Mis("zone/hostile:alloc:"+fam, fmt.Sprintf("%d bytes allocated for %d bytes of input (limit %d)", o.Alloc, n, limit), cs)
		}
	}
}

// ---------------------------------------------------------------- record (C06 trace validation)

type evStart struct {
	Ev   string `json:"ev"`
	Cfg  zg.Cfg `json:"cfg"`
	Text string `json:"text,omitempty"` // the zone as written (for the reader of the trace; the spec does not look at it)
}
type evLine struct {
	Ev   string    `json:"ev"`
	Ln   int       `json:"ln"`
	Line zg.Line   `json:"line"`
	Recs []zg.Rec5 `json:"recs"`
	Err  bool      `json:"err"`
	Fam  string    `json:"fam,omitempty"` // hostile family (for the finding key; the spec does not look at it)
}

// labels: plain ones, and ones holding the octets whose text form is special (a dot as last / first / middle
// octet, backslash, blank, ; ( " @ $, a non-printable, digits only).  An owner written ONLY with \; \( \) \" \\ and
// escaped blanks is left to a dedicated case (the pinned lexer loses the blank after it when the line before ended
// in a blank or a comment), hence the k in ;("k.
var pool = []string{"a", "b", "c", "x", "y", "mail", "ns", "www", "w.w", "Up", "q1", "zz-9",
	"a.", ".b", "e\\", "x y", ";(\"k", "@", "$d", "\x00z", "123", "7.", "\xe9"}

type gen struct {
	r     *rand.Rand
	files []zg.File
	nfile int

	prevOwner *zg.Ref
}

func (g *gen) labels(n int) []hx.B {
	ls := make([]hx.B, n)
	for i := range ls {
		ls[i] = hx.FromString(pool[g.r.Intn(len(pool))])
	}
	return ls
}

func (g *gen) ref(allowOmit bool) zg.Ref {
	switch x := g.r.Intn(10); {
	case x == 0 && allowOmit, x == 1 && allowOmit:
		return zg.Ref{K: "omit", N: []hx.B{}}
	case x == 2:
		return zg.Ref{K: "at", N: []hx.B{}}
	case x <= 4:
		ls := g.labels(1 + g.r.Intn(2))
		return zg.Ref{K: "abs", N: append(ls, hx.FromString([]string{"example", "org", "test"}[g.r.Intn(3)]))}
	case x == 5 && g.r.Intn(4) == 0:
		return zg.Ref{K: "abs", N: []hx.B{}}
	default:
		return zg.Ref{K: "rel", N: g.labels(1 + g.r.Intn(2))}
	}
}

var ttls = []int{0, 1, 59, 60, 300, 3600, 5400, 86400, 90061, 604800, 1209600, 2000000000}

// argRef: a name in directive-argument position ($ORIGIN, $INCLUDE origin).  A single relative
// label that spells a type / class mnemonic is left to the dedicated cases (see IsMnemonic).
func (g *gen) argRef() zg.Ref {
	for {
		r := g.ref(false)
		if !refIsMnemonic(r) {
			return r
		}
	}
}

func (g *gen) hdr(l *zg.Line) {
	l.TTL, l.Class, l.Order = -1, 0, "tc"
	if g.r.Intn(2) == 0 {
		l.TTL = ttls[g.r.Intn(len(ttls))]
	}
	if g.r.Intn(3) == 0 {
		l.Class = []int{1, 1, 3}[g.r.Intn(3)]
	}
	if l.TTL >= 0 && l.Class != 0 && g.r.Intn(2) == 0 {
		l.Order = "ct"
	}
	l.Type = []int{1, 1, 2, 5, 15, 16}[g.r.Intn(6)]
}

func (g *gen) rr() zg.Line {
	l := zg.Line{K: "rr", Owner: g.ref(true)}
	if l.Owner.K != "omit" {
		// one explicit owner in three is spelled exactly like the previous explicit owner (whatever happened in
		// between: $ORIGIN, $INCLUDE, $GENERATE, ...): the same token must be completed again
		if g.prevOwner != nil && g.r.Intn(3) == 0 {
			l.Owner = *g.prevOwner
		}
		o := l.Owner
		g.prevOwner = &o
	}
	g.hdr(&l)
	rd := zg.RD{IP: hx.B{}, Nm: zg.Ref{K: "omit", N: []hx.B{}}, Txt: []hx.B{}}
	switch l.Type {
	case 1:
		rd.IP = hx.B{10, g.r.Intn(256), g.r.Intn(256), g.r.Intn(256)}
	case 2, 5:
		rd.Nm = g.ref(false)
	case 15:
		rd.Pref = []int{0, 1, 10, 65535}[g.r.Intn(4)]
		rd.Nm = g.ref(false)
	case 16:
		for k := 1 + g.r.Intn(3); k > 0; k-- {
			rd.Txt = append(rd.Txt, hx.FromString([]string{"", "a", "a b", "v=spf1 -all", "x;(\"y\\", "\x00\xff", "tab\there", "plain7"}[g.r.Intn(8)]))
		}
	}
	l.RD = rd
	return l
}

func (g *gen) generate() zg.Line {
	l := zg.Line{K: "generate"}
	g.hdr(&l)
	rs := [][3]int{{0, 0, 1}, {1, 3, 1}, {0, 10, 5}, {65530, 65535, 1}, {2, 9, 3}, {5, 4, 1}, {7, 7, 2}}
	x := rs[g.r.Intn(len(rs))]
	l.Lo, l.Hi, l.Step = x[0], x[1], x[2]
	mods := []string{"$", "${0,3,d}", "${7,0,x}", "${0,2,X}", "${1,4,o}", "$$", "\\$", "${0}", "${2,3}"}
	m := func() string { return mods[g.r.Intn(len(mods))] }
	l.Lhs = hx.FromString([]string{"h" + m(), "h" + m() + "-" + m(), "h$.sub", "h" + m() + ".example.", "@"}[g.r.Intn(5)])
	switch l.Type {
	case 1:
		l.Rhs = []zg.Item{{Raw: hx.FromString("10.0." + []string{"0", "$", "${0,1,d}"}[g.r.Intn(3)] + ".$"), Q: false}}
		if l.Hi > 255 {
			l.Rhs = []zg.Item{{Raw: hx.FromString("10.0.0.1"), Q: false}}
		}
	case 2, 5:
		l.Rhs = []zg.Item{{Raw: hx.FromString("t" + m() + []string{"", ".", ".x.org."}[g.r.Intn(3)]), Q: false}}
	case 15:
		l.Rhs = []zg.Item{{Raw: hx.FromString([]string{"10", "$"}[g.r.Intn(2)]), Q: false}, {Raw: hx.FromString("mx" + m()), Q: false}}
	case 16:
		l.Rhs = []zg.Item{{Raw: hx.FromString("v " + m() + " " + m()), Q: true}}
		if g.r.Intn(2) == 0 {
			l.Rhs = append(l.Rhs, zg.Item{Raw: hx.FromString("p" + m()), Q: false})
		}
	}
	return l
}

// written: how a file at path `target' is named from a file in directory `dir': relative where that is
// possible (and sometimes absolute all the same), absolute otherwise.
func (g *gen) written(dir, target string) string {
	if dir == "" && g.r.Intn(3) != 0 {
		return target
	}
	if dir != "" && strings.HasPrefix(target, dir+"/") && g.r.Intn(4) != 0 {
		return target[len(dir)+1:]
	}
	return "/" + target
}

func (g *gen) has(path string) bool {
	for _, f := range g.files {
		if f.Name.String() == path {
			return true
		}
	}
	return false
}

func (g *gen) lines(n, depth int, dir string) []zg.Line {
	var ls []zg.Line
	for i := 0; i < n; i++ {
		switch x := g.r.Intn(100); {
		case x < 58:
			ls = append(ls, g.rr())
		case x < 66:
			r := g.argRef()
			for r.K == "at" && g.r.Intn(2) == 0 {
				r = g.argRef()
			}
			ls = append(ls, zg.Line{K: "origin", Name: r})
		case x < 74:
			ls = append(ls, zg.Line{K: "ttl", V: ttls[g.r.Intn(len(ttls))]})
		case x < 80:
			ls = append(ls, zg.Line{K: "blank"})
		case x < 90:
			ls = append(ls, g.generate())
		default:
			l := zg.Line{K: "include", Origin: zg.Ref{K: "omit", N: []hx.B{}}}
			if g.r.Intn(2) == 0 {
				l.Origin = g.argRef()
			}
			switch {
			case g.r.Intn(8) == 0:
				l.File = hx.FromString("missing")
			case depth >= 3 || (len(g.files) > 0 && g.r.Intn(3) == 0):
				if len(g.files) == 0 {
					l.File = hx.FromString("missing")
				} else { // an earlier file: no cycles
					l.File = hx.FromString(g.written(dir, g.files[g.r.Intn(len(g.files))].Name.String()))
				}
			default:
				// a new file in this directory, below it, or somewhere else; decoys of the same base name elsewhere
				g.nfile++
				base := fmt.Sprintf("i%d.zone", g.nfile)
				dirs := []string{dir, path.Join(dir, "d1"), "", "x", "zones/inc"}
				tdir := dirs[g.r.Intn(len(dirs))]
				target := path.Join(tdir, base)
				body := g.lines(1+g.r.Intn(4), depth+1, tdir)
				g.files = append(g.files, zg.File{Name: hx.FromString(target), Lines: body})
				for k, d := range dirs {
					if p := path.Join(d, base); !g.has(p) && g.r.Intn(2) == 0 {
						decoy := zg.Line{K: "rr", Owner: zg.Ref{K: "rel", N: []hx.B{hx.FromString("decoy")}}, TTL: 5, Order: "tc", Type: 1,
							RD: zg.RD{IP: hx.B{10, 9, 9, k}, Nm: zg.Ref{K: "omit", N: []hx.B{}}, Txt: []hx.B{}}}
						g.files = append(g.files, zg.File{Name: hx.FromString(p), Lines: []zg.Line{decoy}})
					}
				}
				l.File = hx.FromString(g.written(dir, target))
			}
			ls = append(ls, l)
		}
	}
	return ls
}

func record(out string, n int) {
	r := hx.Rand()
	w := newWriter(out)
	defer w.Close()
	var sum hx.Summary
	nrec := 0
	for z := 0; z < n; z++ {
		sum.Evaluations++
		g := &gen{r: r}
		file := []string{"db", "db", "zones/db.example.org", "d1/db.zone", "/zones/inc/db"}[r.Intn(5)]
		top := g.lines(2+r.Intn(8), 0, strings.TrimLeft(path.Dir(file), "/."))
		cfg := zg.Cfg{DefTTL: []int{-1, -1, 0, 1800, 3600, 86400}[r.Intn(6)], IncAllowed: r.Intn(6) != 0, File: hx.FromString(file), Files: g.files}
		switch r.Intn(6) {
		case 0:
			cfg.Origin = zg.NameOpt{Set: false, N: []hx.B{}}
		case 1:
			cfg.Origin = zg.NameOpt{Set: true, N: []hx.B{}}
		case 2:
			cfg.Origin = zg.NameOpt{Set: true, N: []hx.B{hx.FromString("sub"), hx.FromString("example")}}
		default:
			cfg.Origin = zg.NameOpt{Set: true, N: []hx.B{hx.FromString("example")}}
		}
		st := &zg.Style{R: r, Noise: true}
		rf := st.RenderFile(top)
		fs := fstest.MapFS{}
		for _, f := range cfg.Files {
			fs[f.Name.String()] = &fstest.MapFile{Data: st.RenderFile(f.Lines).Text}
		}
		rc := runCfgOf(cfg, fs)
		o, timedOut, _ := zg.RunBudget(rf.Text, rc, budget)
		cs := map[string]interface{}{"cfg": cfg, "lines": rf.Lines, "text": string(rf.Text)}
		if timedOut {
			hang(&sum, "zone", "ZoneParser.Next", cs)
		}
		if o.Panic != "" {
			sum.Mis("zone/panic", "panic: "+o.Panic, cs)
			continue
		}
		w.Emit(evStart{"start", cfg, string(rf.Text)})
		// which rendered line was the parser reading when it returned record k / the error?
		lineAt := func(off int) int {
			for j, e := range rf.End {
				if off <= e {
					return j
				}
			}
			return len(rf.End) - 1
		}
		per := make([][]zg.Rec5, len(rf.Lines))
		for k, rec := range o.Recs {
			j := lineAt(o.At[k])
			per[j] = append(per[j], rec.Five())
		}
		last := len(rf.Lines) - 1
		if o.Err != nil {
			last = lineAt(o.ErrAt)
		}
		for j := 0; j <= last; j++ {
			recs := per[j]
			if recs == nil {
				recs = []zg.Rec5{}
			}
			w.Emit(evLine{"line", j + 1, rf.Lines[j], recs, o.Err != nil && j == last, ""})
		}
		nrec += len(o.Recs)
		if z < 3 {
			sum.Sample(map[string]interface{}{"text": string(rf.Text), "records": len(o.Recs), "err": o.ErrText})
		}
	}
	sum.Nontrivial = n
	sum.Note("events", w.N)
	sum.Note("records", nrec)
	sum.Print()
}
