// Command tsig binds spec/Tsig.tla to the real code (property C11; the judge is shared with C15).
//
//	tsig msgs   <out.ndjson>                 messages packed with the real Pack: the input of Gen_Tsig
//	tsig replay <vectors.ndjson>             Gen_Tsig "sign" vectors and MC_Tsig "chain" behaviours -> real API
//	tsig record <alter> <out.ndjson> <n>     signs with the real code, alters every bit / field / parameter,
//	                                         logs the real verdict of every verification for Trace_Tsig
//	                                         then client connections (dns.Conn, Client.ExchangeWithConn): several signed
//	                                         transactions per connection, several reads per transaction (cw / cr events);
//	                                         `record conn' records those alone
//	tsig record <server> <out.ndjson> <n>    a real dns.Server (in-memory TCP listener and datagram socket) with a key table:
//	                                         several signed / wrongly keyed / unsigned requests back to back on one
//	                                         connection, handlers answering with one message, with several messages
//	                                         (w.TsigTimersOnly(true)) or with Transfer.Out; request octets, the
//	                                         TsigStatus the handler saw and every response's octets for Trace_Tsig
//	tsig judge  <trace.ndjson> <spec.ndjson> second pass: the octets Trace_Tsig put into the HMAC -> crypto/hmac,
//	                                         compared with the real MACs and verdicts
//
// The specification never computes an HMAC; this command applies Go's crypto/hmac to the digest input the
// specification produced and never builds a digest input itself.
package main

import (
	"bytes"
	"crypto/hmac"
	"crypto/md5"
	"crypto/sha1"
	"crypto/sha256"
	"crypto/sha512"
	"encoding/base64"
	"encoding/binary"
	"encoding/hex"
	"fmt"
	"hash"
	"net"
	"os"
	"strconv"
	"strings"
	"sync"
	"time"

	"github.com/miekg/dns"

	"verifharness/lib/hx"
	"verifharness/lib/pipe"
)

func main() {
	if len(os.Args) < 3 {
		hx.Die("usage: tsig msgs|replay|record|judge ...")
	}
	switch os.Args[1] {
	case "msgs":
		writeMsgs(os.Args[2])
	case "replay":
		replay(os.Args[2])
	case "record":
		n, _ := strconv.Atoi(os.Args[4])
		record(os.Args[2], os.Args[3], n)
	case "judge":
		judge(os.Args[2], os.Args[3])
	case "reverify":
		reverify(os.Args[2], os.Args[3])
	default:
		hx.Die("unknown mode %s", os.Args[1])
	}
}

// ---------------------------------------------------------------- shared vocabulary

// secrets by index; the third is longer than every hash block size
var secrets = [][]byte{
	{0x01},
	[]byte("0123456789abcdefghij"),
	bytes.Repeat([]byte{0xA5, 0x00, 0xFF, 0x5A}, 50),
}

func b64(b []byte) string { return base64.StdEncoding.EncodeToString(b) }

func nameText(labels []hx.B) string {
	if len(labels) == 0 {
		return "."
	}
	var sb strings.Builder
	for _, l := range labels {
		sb.WriteString(l.String()) // the key / algorithm names of this check are letters, digits and hyphens
		sb.WriteByte('.')
	}
	return sb.String()
}

func labelsOf(name string) []hx.B {
	var r []hx.B
	for _, l := range strings.Split(strings.TrimSuffix(name, "."), ".") {
		if l != "" {
			r = append(r, hx.FromString(l))
		}
	}
	return r
}

// stdHash maps a lower-cased algorithm name to the standard library's hash; md5 is known to the
// RFC but not to the library (ambiguous, see the driver), everything else is unknown.
func stdHash(alg string) (func() hash.Hash, bool) {
	switch strings.ToLower(alg) {
	case "hmac-sha1.":
		return sha1.New, true
	case "hmac-sha224.":
		return sha256.New224, true
	case "hmac-sha256.":
		return sha256.New, true
	case "hmac-sha384.":
		return sha512.New384, true
	case "hmac-sha512.":
		return sha512.New, true
	case "hmac-md5.sig-alg.reg.int.":
		return md5.New, false
	}
	return nil, false
}

func stdMac(alg string, secret, data []byte) []byte {
	h, _ := stdHash(alg)
	if h == nil {
		return nil
	}
	m := hmac.New(h, secret)
	m.Write(data)
	return m.Sum(nil)
}

func t48(l []int) uint64 {
	if len(l) != 3 {
		hx.Die("bad 48-bit time %v", l)
	}
	return uint64(l[0])<<32 | uint64(l[1])<<16 | uint64(l[2])
}

func limbs(t uint64) []int { return []int{int(t >> 32 & 0xffff), int(t >> 16 & 0xffff), int(t & 0xffff)} }

func errText(err error) string {
	if err == nil {
		return ""
	}
	return err.Error()
}

// ---------------------------------------------------------------- messages (input of the generator)

func rr(s string) dns.RR {
	r, err := dns.NewRR(s)
	if err != nil {
		hx.Die("NewRR(%q): %v", s, err)
	}
	return r
}

// buildMsgs is deterministic for a seed: `msgs' writes the packed octets, `replay' rebuilds the
// same Msg values to hand them to TsigGenerate (which packs them itself).
func buildMsgs() []*dns.Msg {
	var ms []*dns.Msg
	q := new(dns.Msg)
	q.SetQuestion("www.example.", dns.TypeA)
	q.Id = 0x1234
	ms = append(ms, q)

	r := new(dns.Msg)
	r.SetReply(q)
	r.Id = 0xBEEF
	r.Compress = true
	r.Answer = []dns.RR{rr("www.example. 300 IN A 192.0.2.1"), rr("www.example. 300 IN A 192.0.2.2")}
	r.Ns = []dns.RR{rr("example. 300 IN NS ns.example.")}
	ms = append(ms, r)

	e := new(dns.Msg)
	e.SetQuestion("example.", dns.TypeSOA)
	e.Id = 0x00FF
	e.SetEdns0(1232, true) // an additional record before the TSIG: ARCOUNT 1 -> 2
	ms = append(ms, e)

	h := new(dns.Msg) // header only
	h.Id = 0xFFFF
	h.Response = true
	h.Rcode = dns.RcodeRefused
	ms = append(ms, h)

	x := new(dns.Msg)
	x.SetAxfr("example.")
	x.Id = 0x8001
	x.Response = true
	x.Authoritative = true
	x.Answer = []dns.RR{rr("example. 3600 IN SOA ns.example. host.example. 4294967295 7200 3600 1209600 3600"),
		rr("example. 3600 IN TXT \"a b\" \"c\""), rr("*.example. 3600 IN MX 10 Mail.Example.")}
	ms = append(ms, x)

	rnd := hx.Rand()
	types := []string{"A 198.51.100.7", "AAAA 2001:db8::1", "TXT \"x\"", "NS n.example.org.", "CNAME Target.Example."}
	nrand := 3
	if hx.Thorough() {
		nrand = 16
	}
	for i := 0; i < nrand; i++ {
		m := new(dns.Msg)
		owner := fmt.Sprintf("h%d.Zone%d.example.", rnd.Intn(1000), rnd.Intn(10))
		m.SetQuestion(owner, dns.TypeANY)
		m.Id = uint16(0x4000 + rnd.Intn(0x3000))
		m.Response = rnd.Intn(2) == 0
		m.Compress = rnd.Intn(2) == 0
		for k := rnd.Intn(4); k > 0; k-- {
			m.Answer = append(m.Answer, rr(owner+" 60 IN "+types[rnd.Intn(len(types))]))
		}
		if rnd.Intn(2) == 0 {
			m.Extra = append(m.Extra, rr("n.example.org. 60 IN A 203.0.113.9"))
		}
		ms = append(ms, m)
	}
	return ms
}

type msgLine struct {
	Mi     int  `json:"mi"`
	Octets hx.B `json:"octets"`
}

func writeMsgs(out string) {
	w := hx.NewWriter(out)
	for i, m := range buildMsgs() {
		p, err := m.Pack()
		if err != nil {
			hx.Die("pack message %d: %v", i, err)
		}
		w.Emit(msgLine{i, hx.FromBytes(p)})
	}
	w.Close()
	var sum hx.Summary
	sum.Evaluations = w.N
	sum.Print()
}

// ---------------------------------------------------------------- replay

type fault struct {
	Kind string `json:"kind"`
	Pos  int    `json:"pos"`
}

type nowCase struct {
	Now []int `json:"now"`
	Ok  int   `json:"ok"`
}

type vec struct {
	Kind   string    `json:"kind"`
	Mi     int       `json:"mi"`
	Body   hx.B      `json:"body"`
	Key    []hx.B    `json:"key"`
	Alg    []hx.B    `json:"alg"`
	Maclen int       `json:"maclen"`
	Secret int       `json:"secret"`
	Reqmac hx.B      `json:"reqmac"`
	Timers bool      `json:"timers"`
	Origid int       `json:"origid"`
	Error  int       `json:"error"`
	Other  hx.B      `json:"other"`
	Time   []int     `json:"time"`
	Fudge  int       `json:"fudge"`
	Digest hx.B      `json:"digest"`
	Pre    hx.B      `json:"pre"`
	PreAlt hx.B      `json:"preAlt"`
	Post   hx.B      `json:"post"`
	Nows   []nowCase `json:"nows"`
	// chains
	L         int     `json:"L"`
	Faults    []fault `json:"faults"`
	Delivered int     `json:"delivered"`
	Verdicts  []int   `json:"verdicts"`
}

func replay(path string) {
	var sum hx.Summary
	seen := map[string]bool{}
	msgs := buildMsgs()
	hx.ReadNDJSON(path, func(i int, v *vec) {
		sum.Evaluations++
		var p string
		switch v.Kind {
		case "sign":
			p = hx.Catch(func() { signCase(v, msgs, &sum, seen) })
		case "chain":
			p = hx.Catch(func() { chainCase(v, i, &sum, seen) })
		default:
			hx.Die("unknown vector kind %q", v.Kind)
		}
		if p != "" {
			sum.Mis("tsig/panic:"+v.Kind, "panic: "+p, v)
		}
		if i%499 == 0 {
			sum.Sample(v)
		}
	})
	sum.Nontrivial = len(seen)
	sum.Print()
}

func stub(v *vec) *dns.TSIG {
	return &dns.TSIG{
		Hdr:        dns.RR_Header{Name: nameText(v.Key), Rrtype: dns.TypeTSIG, Class: dns.ClassANY, Ttl: 0},
		Algorithm:  nameText(v.Alg),
		TimeSigned: t48(v.Time),
		Fudge:      uint16(v.Fudge),
		OrigId:     uint16(v.Origid),
		Error:      uint16(v.Error),
		OtherLen:   uint16(len(v.Other)),
		OtherData:  hex.EncodeToString(v.Other.Bytes()),
	}
}

func featureClass(v *vec) string {
	var f []string
	if len(v.Reqmac) > 0 {
		f = append(f, "reqmac")
	}
	if v.Timers {
		f = append(f, "timers")
	}
	return strings.Join(f, "+")
}

func signCase(v *vec, msgs []*dns.Msg, sum *hx.Summary, seen map[string]bool) {
	if v.Mi < 0 || v.Mi >= len(msgs) {
		hx.Die("vector names message %d", v.Mi)
	}
	base := msgs[v.Mi]
	if p, err := base.Pack(); err != nil || !bytes.Equal(p, v.Body.Bytes()) {
		hx.Die("message %d of the vector file is not the message this binary builds (seed mismatch?)", v.Mi)
	}
	alg := nameText(v.Alg)
	key := nameText(v.Key)
	secret := secrets[v.Secret]
	reqmac := hex.EncodeToString(v.Reqmac.Bytes())
	h, supported := stdHash(alg)
	seen[fmt.Sprintf("%d|%s|%s|%d|%d|%v|%d|%d|%v|%d", v.Mi, alg, key, v.Secret, len(v.Reqmac), v.Timers, v.Origid, v.Error, v.Time, v.Fudge)] = true

	// (1) the real signer
	for _, viaProvider := range []bool{false, true} {
		m := base.Copy()
		m.Extra = append(m.Extra, stub(v))
		var out []byte
		var mac string
		var err error
		if viaProvider {
			out, mac, err = dns.TsigGenerateWithProvider(m, dns.VerifTsigSecretProvider(map[string]string{key: b64(secret)}), reqmac, v.Timers)
		} else {
			out, mac, err = dns.TsigGenerate(m, b64(secret), reqmac, v.Timers)
		}
		if h == nil || !supported {
			if err == nil && h == nil {
				sum.Mis("tsig/generate:unknown-algorithm-signed", fmt.Sprintf("TsigGenerate signed with algorithm %q", alg), v)
			}
			continue
		}
		if err != nil {
			sum.Mis("tsig/generate:error", fmt.Sprintf("TsigGenerate(%s, %s): %v", alg, key, err), v)
			continue
		}
		want := stdMac(alg, secret, v.Digest.Bytes())
		if mac != hex.EncodeToString(want) {
			sum.Mis("tsig/generate:mac-is-not-hmac-of-rfc-digest:"+featureClass(v),
				fmt.Sprintf("TsigGenerate MAC %s, HMAC over the specification's digest input %x (alg %s, reqmac %d octets, timersOnly %v, origid %d, id %d, error %d, other %d octets)",
					mac, want, alg, len(v.Reqmac), v.Timers, v.Origid, binary.BigEndian.Uint16(v.Body.Bytes()), v.Error, len(v.Other)), v)
			continue
		}
		layout := append(append(append([]byte(nil), v.Pre.Bytes()...), want...), v.Post.Bytes()...)
		layoutAlt := append(append(append([]byte(nil), v.PreAlt.Bytes()...), want...), v.Post.Bytes()...)
		if !bytes.Equal(out, layout) && !bytes.Equal(out, layoutAlt) {
			sum.Mis("tsig/generate:signed-octets", fmt.Sprintf("TsigGenerate output %x, specification %x", out, layout), v)
		}
	}
	if h == nil || !supported {
		return
	}

	// (2) the real verifier on the specification's octets around a standard-library MAC, at exact clock values
	want := stdMac(alg, secret, v.Digest.Bytes())
	signed := append(append(append([]byte(nil), v.Pre.Bytes()...), want...), v.Post.Bytes()...)
	prov := dns.VerifTsigSecretProvider(map[string]string{key: b64(secret)})
	names := []string{"-fudge-1", "-fudge", "-1", "0", "+1", "+fudge", "+fudge+1"}
	for k, nc := range v.Nows {
		err := dns.VerifTsigVerifyAt(append([]byte(nil), signed...), prov, reqmac, v.Timers, t48(nc.Now))
		if (err == nil) != (nc.Ok == 1) {
			cls := "?"
			if k < len(names) {
				cls = names[k]
			}
			if err != nil {
				sum.Mis("tsig/verify:rejects-valid:now=time"+cls, fmt.Sprintf("verification at now = time%s, fudge %d: %v", cls, v.Fudge, err), v)
			} else {
				sum.Mis("tsig/verify:accepts-outside-window:now=time"+cls, fmt.Sprintf("verification succeeded at now = time%s, fudge %d", cls, v.Fudge), v)
			}
		}
	}
	// ... under another secret, and unsigned
	other := secrets[(v.Secret+1)%len(secrets)]
	if err := dns.VerifTsigVerifyAt(append([]byte(nil), signed...), dns.VerifTsigSecretProvider(map[string]string{key: b64(other)}), reqmac, v.Timers, t48(v.Time)); err == nil {
		sum.Mis("tsig/verify:accepts-invalid:secret", "verification succeeded under a different secret", v)
	}
	if err := dns.VerifTsigVerifyAt(append([]byte(nil), v.Body.Bytes()...), prov, reqmac, v.Timers, t48(v.Time)); err == nil {
		sum.Mis("tsig/verify:accepts-unsigned", "a message without TSIG verified", v)
	}
}

// ---------------------------------------------------------------- chains

const (
	chainKey   = "chain.example."
	chainKeyUC = "Chain.example." // the spelling after the alter_keycase fault
	chainAlg   = dns.HmacSHA256
)

// tsigStart: offset of the TSIG record in a message this harness signed with key and algorithm names
// without compression (it is the last record).
func tsigRRLen(key, alg string, maclen, otherlen int) int {
	return len(key) + 1 + 10 + len(alg) + 1 + 6 + 2 + 2 + maclen + 2 + 2 + 2 + otherlen
}

func flipBit(p []byte, bit int) {
	p[bit/8] ^= 0x80 >> uint(bit%8)
}

func applyOctetFault(kind string, env []byte, key string) []byte {
	p := append([]byte(nil), env...)
	maclen := 32
	b := len(p) - tsigRRLen(key, chainAlg, maclen, 0)
	rd := b + len(key) + 1 + 10
	tm := rd + len(chainAlg) + 1
	switch kind {
	case "alter_id":
		flipBit(p, 15)
	case "alter_flags":
		flipBit(p, 23)
	case "alter_keycase":
		flipBit(p, 8*(b+1)+2)
	case "alter_class":
		flipBit(p, 8*(rd-8)+7)
	case "alter_ttl":
		flipBit(p, 8*(rd-6)+31)
	case "alter_time":
		flipBit(p, 8*(tm+5)+7)
	case "alter_mac":
		flipBit(p, 8*(tm+10))
	case "alter_origid":
		flipBit(p, 8*(tm+10+maclen+1)+7)
	case "unsign":
		p = p[:b]
		binary.BigEndian.PutUint16(p[10:], binary.BigEndian.Uint16(p[10:])-1)
	}
	return p
}

func has(fs []fault, kind string, pos int) bool {
	for _, f := range fs {
		if f.Kind == kind && f.Pos == pos {
			return true
		}
	}
	return false
}

// chainCase drives one MC_Tsig behaviour through the real session code.  Chains go through
// Transfer.In (inAxfr owns the timers-only switch; Transfer.ReadMsg verifies every envelope against
// the running MAC): envelope 1 opens with the SOA, envelope L ends with it.  Chains of one envelope
// also go through Transfer.ReadMsg and dns.Conn.WriteMsg / ReadMsg directly.
//
// The specification's verdicts do not depend on what the envelopes carry; the receiver's timers-only switch does
// (inAxfr / inIxfr decide it per envelope from the records they see), so every behaviour is driven through the
// transfer LAYOUTS a peer may legitimately choose (chainLayouts): AXFR and IXFR requests; the opening SOA sharing
// its envelope with data or standing alone (the one-answer format of RFC 5936 2.2); the closing SOA likewise.
func chainCase(v *vec, serial int, sum *hx.Summary, seen map[string]bool) {
	seen[fmt.Sprintf("chain|%d|%v", v.L, v.Faults)] = true
	secret := b64(secrets[1])
	bad := b64(secrets[2])
	tab := map[string]string{chainKey: secret, chainKeyUC: secret}
	soa := "example. 60 IN SOA ns.example. host.example. 7 3600 600 86400 60"

	// the sender: signs L envelopes chained on the query's MAC, applies the faults of the behaviour
	lay := chainLayout{}
	send := func(query []byte, now int64) [][]byte {
		qm := new(dns.Msg)
		if err := qm.Unpack(query); err != nil || qm.IsTsig() == nil {
			sum.Mis("tsig/chain:query-unsigned", fmt.Sprintf("the query on the wire carries no TSIG (%v)", err), v)
			return nil
		}
		prev := qm.IsTsig().MAC
		timers := false
		var envs [][]byte
		for i := 1; i <= v.L; i++ {
			r := new(dns.Msg)
			r.SetReply(qm)
			r.Extra = nil
			r.Answer = []dns.RR{rr(fmt.Sprintf("example. 60 IN TXT \"envelope %d\"", i))}
			if i == 1 {
				r.Answer = append([]dns.RR{rr(soa)}, r.Answer...)
				if lay.firstAlone {
					r.Answer = r.Answer[:1]
				}
			}
			if i == v.L {
				r.Answer = append(r.Answer, rr(soa))
				if lay.lastAlone {
					r.Answer = r.Answer[len(r.Answer)-1:]
				}
			}
			key, sec, ts := chainKey, secret, now
			if has(v.Faults, "unknownkey", i) {
				key, sec = "nokey.example.", bad
			}
			if has(v.Faults, "wrongkey", i) {
				sec = bad
			}
			if has(v.Faults, "stale", i) {
				ts = now - 300 - 900
			}
			p := prev
			if has(v.Faults, "wrongmac", i) {
				p = strings.Repeat("06", 32)
			}
			r.SetTsig(key, chainAlg, 300, ts)
			out, mac, err := dns.TsigGenerate(r, sec, p, timers)
			if err != nil {
				hx.Die("TsigGenerate in chain: %v", err)
			}
			prev, timers = mac, true
			for _, k := range []string{"alter_id", "alter_flags", "alter_keycase", "alter_class", "alter_ttl", "alter_time", "alter_mac", "alter_origid", "unsign"} {
				if has(v.Faults, k, i) {
					out = applyOctetFault(k, out, key)
				}
			}
			envs = append(envs, out)
		}
		for _, f := range v.Faults {
			i := f.Pos - 1
			switch f.Kind {
			case "drop":
				envs = append(envs[:i:i], envs[i+1:]...)
			case "dup":
				envs = append(envs[:i+1:i+1], envs[i:]...)
			case "swap":
				envs[i], envs[i+1] = envs[i+1], envs[i]
			}
		}
		if len(envs) != v.Delivered {
			hx.Die("chain %v: harness delivers %d envelopes, specification %d", v.Faults, len(envs), v.Delivered)
		}
		return envs
	}
	// what the receiver can observe of the specification's verdicts: it stops at the first rejection and
	// at the closing SOA (envelope L); when everything delivered verified but the chain is short, the
	// next read fails
	want := append([]int(nil), v.Verdicts...)
	if len(want) > v.L {
		want = want[:v.L]
	}
	short := true
	for _, x := range want {
		short = short && x == 1
	}
	short = short && len(want) < v.L
	if short {
		want = append(want, 0)
	}
	compare := func(via string, got []bool, errs []string) {
		for i := 0; i < len(want) || i < len(got); i++ {
			switch {
			case i >= len(got):
				sum.Mis("tsig/chain:"+via+":envelope-not-reported", fmt.Sprintf("envelope %d never reported; faults %v", i+1, v.Faults), v)
				return
			case i >= len(want):
				sum.Mis("tsig/chain:"+via+":extra-envelope", fmt.Sprintf("%d envelopes reported, expected %d; faults %v", len(got), len(want), v.Faults), v)
				return
			case got[i] && want[i] == 0 && i == 0 && onlyEffectiveOnFirst(v.Faults, "alter_class"):
				sum.Mis(keyClassAltered, fmt.Sprintf("envelope %d (%s): the class of its TSIG record was altered after signing, yet it is reported verified; faults %v", i+1, via, v.Faults), v)
				return
			case got[i] && want[i] == 0:
				sum.Mis("tsig/chain:"+via+":accepts-faulty-envelope:"+faultClass(v.Faults),
					fmt.Sprintf("envelope %d of the delivered chain reported verified; faults %v", i+1, v.Faults), v)
				return
			case !got[i] && want[i] == 1:
				sum.Mis("tsig/chain:"+via+":rejects-honest-envelope:"+faultClass(v.Faults),
					fmt.Sprintf("envelope %d of the delivered chain rejected (%s); faults %v", i+1, errs[i], v.Faults), v)
				return
			}
		}
	}
	query := func() *dns.Msg {
		q := new(dns.Msg)
		if lay.ixfr {
			q.SetIxfr("example.", 5, "ns.example.", "host.example.") // the client has serial 5, the chain carries serial 7
		} else {
			q.SetAxfr("example.")
		}
		q.Id = 0x3131
		return q
	}

	// (a) Transfer.In -- not for header-ID alterations: TSIG does not cover the ID (the verdict stays
	// "verified"), but a transfer has its own ID check (property C15) that hides the TSIG verdict
	altersID := false
	for _, f := range v.Faults {
		altersID = altersID || f.Kind == "alter_id"
	}
	for _, lay = range chainLayouts(v, serial) {
		if altersID {
			break
		}
		via := "in" + lay.suffix()
		seen[fmt.Sprintf("chain|%d|%v|%s", v.L, v.Faults, via)] = true
		fc := pipe.New()
		now := time.Now().Unix()
		fc.OnWrite = func(c *pipe.Conn, p []byte) {
			off := 0
			for _, e := range send(p[2:], now) {
				if v.L%2 == 0 { // TCP segmentation: a segment ends between the two length octets of every envelope ...
					c.Bounds = append(c.Bounds, off+1)
				}
				off += 2 + len(e)
				c.Feed(pipe.Frame(e))
			}
			if v.L%2 == 1 { // ... or every read returns a single octet
				c.MaxRead = 1
			}
			c.EOF = true
		}
		tr := &dns.Transfer{Conn: &dns.Conn{Conn: fc}, TsigSecret: tab}
		q := query()
		q.SetTsig(chainKey, chainAlg, 300, now)
		ch, err := tr.In(q, "pipe")
		if err != nil {
			sum.Mis("tsig/chain:"+via+":error", fmt.Sprintf("Transfer.In: %v", err), v)
			return
		}
		var got []bool
		var errs []string
		guard := time.After(20 * time.Second)
	drain:
		for {
			select {
			case e, ok := <-ch:
				if !ok {
					break drain
				}
				got = append(got, e.Error == nil)
				errs = append(errs, errText(e.Error))
			case <-guard:
				hx.Die("Transfer.In did not finish on an in-memory connection (faults %v)", v.Faults)
			}
		}
		compare(via, got, errs)
	}
	lay = chainLayout{}
	seq := false
	for _, f := range v.Faults {
		if f.Kind == "drop" || f.Kind == "dup" || f.Kind == "swap" {
			seq = true
		}
	}
	if v.L != 1 || seq {
		return
	}
	// (b) one envelope read with Transfer.ReadMsg, (c) with Conn.ReadMsg
	for _, via := range []string{"transfer", "conn"} {
		fc := pipe.New()
		now := time.Now().Unix()
		q := query()
		q.SetTsig(chainKey, chainAlg, 300, now)
		var tr *dns.Transfer
		var co *dns.Conn
		var err error
		if via == "conn" {
			co = &dns.Conn{Conn: fc, TsigSecret: tab}
			err = co.WriteMsg(q)
		} else {
			tr = &dns.Transfer{Conn: &dns.Conn{Conn: fc}, TsigSecret: tab}
			err = tr.WriteMsg(q)
		}
		if err != nil || len(fc.Written) != 1 {
			sum.Mis("tsig/chain:"+via+":query-not-written", fmt.Sprintf("WriteMsg of a signed query: %v", err), v)
			continue
		}
		for _, e := range send(fc.Written[0][2:], now) {
			fc.Feed(pipe.Frame(e))
		}
		fc.EOF = true
		var m *dns.Msg
		if via == "conn" {
			m, err = co.ReadMsg()
		} else {
			m, err = tr.ReadMsg()
		}
		// "verified" = no error and the message carries a TSIG (Conn.ReadMsg only verifies what is signed)
		ok := err == nil && m != nil && m.IsTsig() != nil
		compare(via, []bool{ok}, []string{errText(err)})
	}
}

// chainLayout: how the sender of a chain lays the zone out over the envelopes and which transfer was asked for.
type chainLayout struct {
	ixfr       bool // the request is an IXFR (inIxfr owns the timers-only switch), answered AXFR-style
	firstAlone bool // envelope 1 carries the opening SOA and nothing else
	lastAlone  bool // envelope L carries the closing SOA and nothing else
}

func (l chainLayout) suffix() string {
	s := ""
	if l.ixfr {
		s += ":ixfr"
	}
	if l.firstAlone {
		s += ":soa-alone-first"
	}
	if l.lastAlone {
		s += ":soa-alone-last"
	}
	return s
}

// chainLayouts: behaviours with at most one fault go through every layout; those with two through the plain one and
// one more in rotation (every layout meets every pair of faults within a few runs / in the thorough tier, which
// runs them all).  A chain of one envelope has one layout per request type: SOA, data, SOA.
func chainLayouts(v *vec, serial int) []chainLayout {
	var all []chainLayout
	for _, ixfr := range []bool{false, true} {
		all = append(all, chainLayout{ixfr: ixfr})
		if v.L >= 2 {
			all = append(all, chainLayout{ixfr, true, false}, chainLayout{ixfr, false, true}, chainLayout{ixfr, true, true})
		}
	}
	if len(v.Faults) <= 1 || hx.Thorough() || len(all) <= 2 {
		return all
	}
	return []chainLayout{all[0], all[1+(serial+int(hx.Seed()))%(len(all)-1)]}
}

// keyClassAltered: the finding key of "the CLASS of the TSIG record is not covered" (RFC 8945 4.3.3), shared by
// every stage that can see it.
const keyClassAltered = "tsig/verify:accepts-invalid:tsig-class-altered"

// onlyEffectiveOnFirst: the first delivered envelope is the sender's first one and the only fault on it that
// the MAC must catch is `kind' (header-ID and name-case alterations are never covered).
func onlyEffectiveOnFirst(fs []fault, kind string) bool {
	found := false
	for _, f := range fs {
		switch {
		case f.Pos != 1:
		case f.Kind == "alter_id" || f.Kind == "alter_keycase" || f.Kind == "dup":
		case f.Kind == kind:
			found = true
		default:
			return false
		}
	}
	return found
}

func faultClass(fs []fault) string {
	var k []string
	for _, f := range fs {
		k = append(k, f.Kind)
	}
	if len(k) == 0 {
		return "none"
	}
	return strings.Join(k, "+")
}

// ---------------------------------------------------------------- record: alterations

// verifyEv is one observation of the real verifier; Trace_Tsig emits, for the same index, what the
// specification reads in the octets (state, key, algorithm, digest input, MAC, time verdict).
type verifyEv struct {
	Ev      string         `json:"ev"`
	I       int            `json:"i"`
	What    string         `json:"what"`
	Octets  hx.B           `json:"octets"`
	Reqmac  hx.B           `json:"reqmac"`
	Timers  bool           `json:"timers"`
	Now     []int          `json:"now"`
	Via     string         `json:"via"`     // "hook" (secret table, exact clock) | "public" (TsigVerify, one secret, wall clock) | "server" | "transfer"
	Secrets map[string]int `json:"secrets"` // key name as spelled in the table -> secret index (via = public: "" -> index)
	Got     string         `json:"got"`     // "" = verified, else the error text
	Signed  bool           `json:"signed"`  // server: the handler saw IsTsig() != nil; conn: the message read carries a TSIG
	Handed  []int          `json:"handed,omitempty"` // env: the clock when the message was handed to the sender (48-bit limbs)
}

type tsigFields struct {
	key, alg   string
	time       uint64
	fudge      uint16
	mac        []byte
	macsize    int // -1 = len(mac)
	origid     uint16
	err        uint16
	other      []byte
	class      uint16
	ttl        uint32
}

// buildRR lays a TSIG record out octet by octet (a field-alteration tool, not an oracle: the
// expected verdict of every alteration comes from the specification reading these octets).
func (t *tsigFields) build() []byte {
	var b []byte
	name := func(s string) {
		for _, l := range strings.Split(strings.TrimSuffix(s, "."), ".") {
			if l == "" {
				continue
			}
			b = append(b, byte(len(l)))
			b = append(b, l...)
		}
		b = append(b, 0)
	}
	u16 := func(v uint16) { b = append(b, byte(v>>8), byte(v)) }
	name(t.key)
	u16(dns.TypeTSIG)
	u16(t.class)
	b = append(b, byte(t.ttl>>24), byte(t.ttl>>16), byte(t.ttl>>8), byte(t.ttl))
	rdpos := len(b)
	u16(0)
	name(t.alg)
	b = append(b, byte(t.time>>40), byte(t.time>>32), byte(t.time>>24), byte(t.time>>16), byte(t.time>>8), byte(t.time))
	u16(t.fudge)
	ms := t.macsize
	if ms < 0 {
		ms = len(t.mac)
	}
	u16(uint16(ms))
	b = append(b, t.mac...)
	u16(t.origid)
	u16(t.err)
	u16(uint16(len(t.other)))
	b = append(b, t.other...)
	binary.BigEndian.PutUint16(b[rdpos:], uint16(len(b)-rdpos-2))
	return b
}

func record(which, out string, n int) {
	if which == "server" {
		recordServer(out, n)
		return
	}
	if which != "alter" && which != "conn" {
		hx.Die("unknown recorder %q", which)
	}
	rnd := hx.Rand()
	w := hx.NewWriter(out)
	defer w.Close()
	var sum hx.Summary
	if which == "conn" { // the client-connection transactions alone (replay of a finding on a "cr" event)
		idx := 0
		recordConnSessions(w, &sum, &idx, n)
		sum.Nontrivial = idx
		sum.Print()
		return
	}
	msgs := buildMsgs()
	algs := []string{dns.HmacSHA1, dns.HmacSHA224, dns.HmacSHA256, dns.HmacSHA384, dns.HmacSHA512, "HMAC-SHA256."}
	keys := []string{"key.example.", "k.", "Mixed.Case.Key."}
	idx := 0
	for c := 0; c < n; c++ {
		m := msgs[rnd.Intn(len(msgs))].Copy()
		if c < len(msgs) {
			m = msgs[c].Copy()
		}
		body, _ := m.Pack()
		alg := algs[(c+int(hx.Seed()))%len(algs)]
		key := keys[rnd.Intn(len(keys))]
		si := rnd.Intn(len(secrets))
		var reqmac []byte
		if rnd.Intn(3) > 0 {
			reqmac = make([]byte, []int{16, 20, 32, 64, 10}[rnd.Intn(5)])
			rnd.Read(reqmac)
		}
		timers := rnd.Intn(3) == 0
		// the stub handed to the signer: explicit time and fudge, or the documented "fill in" values (Fudge 0: the signer
		// picks one, TimeSigned 0: the signer stamps the message), or a window of a single second.  Whatever the signer
		// picks, the specification reads it in the octets it emitted: the MAC must cover THOSE timers, the time signed must
		// not lie before the moment the message was handed over, and the window is the one on the wire.
		handed := uint64(time.Now().Unix())
		stubTime, stubFudge := handed, uint16(300)
		switch c % 7 {
		case 1:
			stubFudge = 0
		case 3:
			stubTime = 0
		case 5:
			stubFudge = 1
		case 6:
			stubTime, stubFudge = 0, 0
		}
		tf := tsigFields{key: key, alg: alg, macsize: -1, origid: m.Id, class: dns.ClassANY}
		if rnd.Intn(3) == 0 {
			tf.origid = m.Id + 77
		}
		if rnd.Intn(4) == 0 {
			tf.err, tf.other = dns.RcodeBadTime, []byte{0, 0, 1, 2, 3, 4}
		}
		m.Extra = append(m.Extra, &dns.TSIG{Hdr: dns.RR_Header{Name: key, Rrtype: dns.TypeTSIG, Class: dns.ClassANY}, Algorithm: alg,
			TimeSigned: stubTime, Fudge: stubFudge, OrigId: tf.origid, Error: tf.err, OtherLen: uint16(len(tf.other)), OtherData: hex.EncodeToString(tf.other)})
		signed, machex, err := dns.TsigGenerate(m, b64(secrets[si]), hex.EncodeToString(reqmac), timers)
		if err != nil {
			hx.Die("TsigGenerate: %v", err)
		}
		tf.mac, _ = hex.DecodeString(machex)
		// time and fudge as emitted (the alteration tool rebuilds the record around them; the clock values of the
		// verifications below are taken relative to the time on the wire)
		sm := new(dns.Msg)
		if err := sm.Unpack(signed); err != nil || sm.IsTsig() == nil {
			sum.Mis("tsig/generate:signed-octets", fmt.Sprintf("TsigGenerate output %x does not unpack to a message with a TSIG (%v)", signed, err), nil)
			continue
		}
		tf.time, tf.fudge = sm.IsTsig().TimeSigned, sm.IsTsig().Fudge
		now := tf.time
		stubClass := fmt.Sprintf("stub time %s, fudge %s", map[bool]string{true: "0 (signer's clock)", false: "given"}[stubTime == 0],
			map[uint16]string{0: "0 (signer's default)", 1: "1", 300: "300"}[stubFudge])
		// the public route verifies at the wall clock: only where that is well inside the window on the wire
		publicOK := tf.fudge >= 300 && tf.time+2 >= handed && tf.time <= handed+2
		var handedNext []int
		// body as emitted (the signer may have replaced the ID): everything before the TSIG record
		blen := len(signed) - len(tf.build())
		if blen != len(body) {
			hx.Die("unexpected signed length %d (body %d)", len(signed), len(body))
		}
		sbody := signed[:blen]
		table := map[string]int{key: si, strings.ToLower(key): si, "other.example.": (si + 1) % len(secrets)}

		emit := func(what string, octets []byte, rq []byte, to bool, at uint64, via string, tab map[string]int) {
			if via == "public" && !publicOK {
				return
			}
			idx++
			e := verifyEv{Ev: "verify", I: idx, What: what, Octets: hx.FromBytes(octets), Reqmac: hx.FromBytes(rq), Timers: to, Via: via, Secrets: tab, Handed: handedNext}
			buf := append([]byte(nil), octets...)
			var got error
			p := hx.Catch(func() {
				if via == "public" {
					e.Now = limbs(uint64(time.Now().Unix()))
					got = dns.TsigVerify(buf, b64(secrets[tab[""]]), hex.EncodeToString(rq), to)
				} else {
					e.Now = limbs(at)
					st := map[string]string{}
					for k, v := range tab {
						st[k] = b64(secrets[v])
					}
					got = dns.VerifTsigVerifyAt(buf, dns.VerifTsigSecretProvider(st), hex.EncodeToString(rq), to, at)
				}
			})
			if p != "" {
				sum.Mis("tsig/verify:panic", "panic: "+p, e)
				e.Got = "panic: " + p
			} else {
				e.Got = errText(got)
			}
			w.Emit(e)
			sum.Evaluations++
		}
		single := map[string]int{"": si}
		withRR := func(t tsigFields) []byte {
			o := append([]byte(nil), sbody...)
			binary.BigEndian.PutUint16(o[10:], binary.BigEndian.Uint16(body[10:])+1)
			return append(o, t.build()...)
		}
		if !bytes.Equal(withRR(tf), signed) {
			sum.Mis("tsig/generate:signed-octets", fmt.Sprintf("TsigGenerate output %x is not body + TSIG record %x", signed, withRR(tf)), nil)
			continue
		}

		// the unaltered message, both routes
		base := "base"
		if stubTime == 0 || stubFudge != 300 {
			base = "base (" + stubClass + ")"
		}
		handedNext = limbs(handed)
		emit(base, signed, reqmac, timers, now, "hook", table)
		handedNext = nil
		emit(base, signed, reqmac, timers, now, "public", single)
		// clock at and around the edges of the window on the wire (exact: hook only)
		for _, d := range []int64{-int64(tf.fudge) - 1, -int64(tf.fudge), int64(tf.fudge), int64(tf.fudge) + 1} {
			if at := int64(now) + d; at >= 0 && at < 1<<48 {
				emit("now", signed, reqmac, timers, uint64(at), "hook", table)
			}
		}
		// every single-bit alteration of the complete signed octets: message, TSIG owner name, type, class, TTL,
		// RDLENGTH and every RDATA field
		nb := 8 * len(signed)
		for b := 0; b < nb; b++ {
			o := append([]byte(nil), signed...)
			flipBit(o, b)
			if b%2 == 0 {
				emit("bit", o, reqmac, timers, now, "hook", table)
			} else {
				emit("bit", o, reqmac, timers, now, "public", single)
			}
		}
		// single-field alterations of the TSIG record
		fa := func(what string, f func(t *tsigFields)) {
			t := tf
			t.mac = append([]byte(nil), tf.mac...)
			f(&t)
			o := withRR(t)
			emit("field:"+what, o, reqmac, timers, now, "hook", table)
			emit("field:"+what, o, reqmac, timers, now, "public", single)
		}
		fa("key-other", func(t *tsigFields) { t.key = "other.example." })
		fa("key-unknown", func(t *tsigFields) { t.key = "unknown.example." })
		fa("key-case", func(t *tsigFields) { t.key = strings.ToLower(t.key) })
		fa("key-upper", func(t *tsigFields) { t.key = strings.ToUpper(t.key) })
		fa("alg-other", func(t *tsigFields) { t.alg = algs[(c+int(hx.Seed())+1)%5] })
		fa("alg-case", func(t *tsigFields) { t.alg = strings.ToUpper(t.alg) })
		fa("alg-unknown", func(t *tsigFields) { t.alg = "hmac-sha999." })
		fa("alg-md5", func(t *tsigFields) { t.alg = dns.HmacMD5 })
		fa("time+1", func(t *tsigFields) { t.time++ })
		fa("time-1", func(t *tsigFields) { t.time-- })
		fa("time+2^32", func(t *tsigFields) { t.time += 1 << 32 })
		fa("fudge+1", func(t *tsigFields) { t.fudge++ })
		fa("fudge-max", func(t *tsigFields) { t.fudge = 65535 })
		fa("mac-truncated-1", func(t *tsigFields) { t.mac = t.mac[:len(t.mac)-1] })
		fa("mac-truncated-10", func(t *tsigFields) { t.mac = t.mac[:10] })
		fa("mac-empty", func(t *tsigFields) { t.mac = nil })
		fa("mac-zero", func(t *tsigFields) { t.mac = make([]byte, len(t.mac)) })
		fa("mac-extended", func(t *tsigFields) { t.mac = append(t.mac, 0) })
		fa("macsize-lie", func(t *tsigFields) { t.macsize = len(t.mac) - 1 })
		fa("origid+1", func(t *tsigFields) { t.origid++ })
		fa("error", func(t *tsigFields) { t.err ^= 16 })
		fa("other-added", func(t *tsigFields) { t.other = append(t.other, 7) })
		fa("class-in", func(t *tsigFields) { t.class = dns.ClassINET }) // class and TTL are TSIG variables: not what was signed
		fa("ttl-1", func(t *tsigFields) { t.ttl = 1 })
		// parameters of the verification
		emit("param:secret", signed, reqmac, timers, now, "hook", map[string]int{key: (si + 1) % len(secrets), strings.ToLower(key): (si + 1) % len(secrets)})
		emit("param:secret", signed, reqmac, timers, now, "public", map[string]int{"": (si + 2) % len(secrets)})
		emit("param:no-such-key", signed, reqmac, timers, now, "hook", map[string]int{"other.example.": si})
		emit("param:timers", signed, reqmac, !timers, now, "hook", table)
		emit("param:timers", signed, reqmac, !timers, now, "public", single)
		if len(reqmac) > 0 {
			for _, b := range []int{0, 8*len(reqmac) - 1} {
				rq := append([]byte(nil), reqmac...)
				flipBit(rq, b)
				emit("param:reqmac-bit", signed, rq, timers, now, "hook", table)
			}
			emit("param:reqmac-none", signed, nil, timers, now, "public", single)
			emit("param:reqmac-shorter", signed, reqmac[:len(reqmac)-1], timers, now, "hook", table)
			emit("param:reqmac-longer", signed, append(append([]byte(nil), reqmac...), 0), timers, now, "public", single)
		} else {
			emit("param:reqmac-given", signed, bytes.Repeat([]byte{0}, 16), timers, now, "hook", table)
			emit("param:reqmac-given", signed, tf.mac, timers, now, "public", single)
		}
		// unsigned messages
		emit("unsigned", body, reqmac, timers, now, "hook", table)
		emit("unsigned", body, reqmac, timers, now, "public", single)
		o := append([]byte(nil), sbody...) // the TSIG replaced by another additional record
		binary.BigEndian.PutUint16(o[10:], binary.BigEndian.Uint16(body[10:])+1)
		o = append(o, 0, 0, 41, 4, 208, 0, 0, 0, 0, 0, 0)
		emit("unsigned:opt-last", o, reqmac, timers, now, "hook", table)
		emit("unsigned:opt-last", o, reqmac, timers, now, "public", single)
	}
	// the reading ends: dns.Conn.ReadMsg and Transfer.ReadMsg on signed messages -- on a connection that has written
	// nothing (the receiving end of a signed UPDATE / NOTIFY, a server built on Conn), that has written an unsigned
	// message, or (baseline) that has written the signed request the message answers.  "Verified" = no error and the
	// message carries a TSIG; the specification judges the octets against the request MAC the connection holds.
	for c := 0; c < 20*n; c++ {
		m := msgs[rnd.Intn(len(msgs))].Copy()
		alg := algs[rnd.Intn(5)]
		key := keys[rnd.Intn(2)]
		si := rnd.Intn(len(secrets))
		tab := map[string]int{key: si}
		st := map[string]string{key: b64(secrets[si])}
		prior := []string{"nothing", "nothing", "unsigned", "signed"}[rnd.Intn(4)]
		reader := []string{"conn", "conn", "transfer"}[rnd.Intn(3)]
		fc := pipe.New()
		var co *dns.Conn
		var tr *dns.Transfer
		if reader == "conn" {
			co = &dns.Conn{Conn: fc, TsigSecret: st}
			if rnd.Intn(2) == 0 {
				co = &dns.Conn{Conn: fc, TsigProvider: dns.VerifTsigSecretProvider(st)}
			}
		} else {
			tr = &dns.Transfer{Conn: &dns.Conn{Conn: fc}, TsigSecret: st}
		}
		write := func(q *dns.Msg) error {
			if co != nil {
				return co.WriteMsg(q)
			}
			return tr.WriteMsg(q)
		}
		now := time.Now().Unix()
		var reqmac []byte
		if prior != "nothing" {
			q := new(dns.Msg)
			q.SetQuestion("q.example.", dns.TypeSOA)
			if prior == "signed" {
				q.SetTsig(key, alg, 300, now)
			}
			if err := write(q); err != nil {
				hx.Die("writing the request: %v", err)
			}
			if prior == "signed" {
				qm := new(dns.Msg)
				if err := qm.Unpack(fc.Written[0][2:]); err != nil || qm.IsTsig() == nil {
					hx.Die("the written request carries no TSIG")
				}
				reqmac, _ = hex.DecodeString(qm.IsTsig().MAC)
			}
		}
		variant := []string{"right", "right", "wrong-secret", "altered-mac", "unknown-key", "unsigned", "altered-body"}[rnd.Intn(7)]
		var octets []byte
		if variant == "unsigned" {
			octets, _ = m.Pack()
		} else {
			k, sec := key, secrets[si]
			switch variant {
			case "wrong-secret":
				sec = secrets[(si+1)%len(secrets)]
			case "unknown-key":
				k = "nobody.example."
			}
			m.SetTsig(k, alg, 300, now)
			var err error
			octets, _, err = dns.TsigGenerate(m, b64(sec), hex.EncodeToString(reqmac), false)
			if err != nil {
				hx.Die("signing: %v", err)
			}
			switch variant {
			case "altered-mac":
				flipBit(octets, 8*(len(octets)-7)) // last MAC octet (original id, error, other len follow)
			case "altered-body":
				flipBit(octets, 23)
			}
		}
		fc.Feed(pipe.Frame(octets))
		fc.EOF = true
		var got *dns.Msg
		var err error
		p := hx.Catch(func() {
			if co != nil {
				got, err = co.ReadMsg()
			} else {
				got, err = tr.ReadMsg()
			}
		})
		idx++
		e := verifyEv{Ev: "verify", I: idx, What: fmt.Sprintf("%s.ReadMsg after writing %s: %s message (%s)", reader, prior, variant, alg),
			Octets: hx.FromBytes(octets), Reqmac: hx.FromBytes(reqmac), Now: limbs(uint64(time.Now().Unix())), Via: "conn", Secrets: tab,
			Got: errText(err), Signed: got != nil && got.IsTsig() != nil}
		if p != "" {
			sum.Mis("tsig/verify:panic", "panic: "+p, e)
			e.Got = "panic: " + p
		}
		w.Emit(e)
		sum.Evaluations++
	}
	recordConnSessions(w, &sum, &idx, 12*n)
	sum.Nontrivial = idx
	sum.Print()
}

// ---------------------------------------------------------------- record: transactions on client connections

// dgramConn is the client end of an in-memory datagram exchange (a net.PacketConn, so dns.Conn takes its UDP paths):
// datagrams queued with deliver are read one per Read; an empty queue is a timeout, never a wait.
type dgramConn struct {
	in      [][]byte
	written [][]byte
}

type dgAddr struct{}

func (dgAddr) Network() string { return "udp" }
func (dgAddr) String() string  { return "dgram" }

func (c *dgramConn) deliver(p []byte) { c.in = append(c.in, append([]byte(nil), p...)) }
func (c *dgramConn) Read(p []byte) (int, error) {
	if len(c.in) == 0 {
		return 0, os.ErrDeadlineExceeded
	}
	n := copy(p, c.in[0])
	c.in = c.in[1:]
	return n, nil
}
func (c *dgramConn) ReadFrom(p []byte) (int, net.Addr, error) {
	n, err := c.Read(p)
	return n, dgAddr{}, err
}
func (c *dgramConn) Write(p []byte) (int, error) {
	c.written = append(c.written, append([]byte(nil), p...))
	return len(p), nil
}
func (c *dgramConn) WriteTo(p []byte, _ net.Addr) (int, error) { return c.Write(p) }
func (c *dgramConn) Close() error                              { return nil }
func (c *dgramConn) LocalAddr() net.Addr                       { return dgAddr{} }
func (c *dgramConn) RemoteAddr() net.Addr                      { return dgAddr{} }
func (c *dgramConn) SetDeadline(time.Time) error               { return nil }
func (c *dgramConn) SetReadDeadline(time.Time) error           { return nil }
func (c *dgramConn) SetWriteDeadline(time.Time) error          { return nil }

// recordConnSessions: one dns.Conn value, one to three transactions on it, every transaction a signed request written
// and one to four messages read -- what a resolver sees on a datagram socket (late answers to earlier requests, junk with
// another ID, its own request reflected) or on a stream it keeps open.  Trace_Tsig carries the connection's state
// (cw / cr events: Tsig!ConnWrite, ConnReadDigest); every read is judged against the request MAC of ITS transaction.
//   conn      Conn.WriteMsg, then Conn.ReadMsg once per message (stream and datagram)
//   exchange  Client.ExchangeWithConn on a datagram socket: it reads on past messages with another ID; the result is
//             attributed to the datagram it belongs to (IDs are distinct), the skipped ones are not observations
func recordConnSessions(w *hx.Writer, sum *hx.Summary, idx *int, n int) {
	rnd := hx.Rand()
	algs := []string{dns.HmacSHA1, dns.HmacSHA224, dns.HmacSHA256, dns.HmacSHA384, dns.HmacSHA512}
	keys := []string{"key.example.", "k."}
	ord := func(k int) string {
		if k == 0 {
			return "first"
		}
		return "later"
	}
	for c := 0; c < n; c++ {
		key := keys[rnd.Intn(len(keys))]
		si := rnd.Intn(len(secrets))
		tab := map[string]int{key: si}
		st := map[string]string{key: b64(secrets[si])}
		stream := c%3 == 0
		api := []string{"conn", "exchange"}[c%2]
		if stream {
			api = "conn"
		}
		fc := pipe.New()
		dc := &dgramConn{}
		var nc net.Conn = dc
		transport := "datagram"
		if stream {
			nc, transport = fc, "stream"
		}
		co := &dns.Conn{Conn: nc, TsigSecret: st}
		if rnd.Intn(2) == 0 {
			co = &dns.Conn{Conn: nc, TsigProvider: dns.VerifTsigSecretProvider(st)}
		}
		w.Emit(verifyEv{Ev: "open", Octets: hx.B{}, Reqmac: hx.B{}, Now: limbs(0), Secrets: tab})
		var prevQ, prevMAC []byte // the previous transaction's request and its MAC on the wire
		ntx := 1 + rnd.Intn(3)
		for tx := 0; tx < ntx; tx++ {
			alg := algs[rnd.Intn(len(algs))]
			now := time.Now().Unix()
			q := new(dns.Msg)
			q.SetQuestion(fmt.Sprintf("t%d.example.", tx), dns.TypeSOA)
			q.Id = uint16(0x1000 + 16*rnd.Intn(0xE00)) // the messages fed use id .. id+15
			q.SetTsig(key, alg, 300, now)
			// what will be readable, decided before the request goes out (the exchange API reads inside the call)
			nstray := rnd.Intn(4)
			if tx == 0 && c%4 == 1 {
				nstray = 1 + rnd.Intn(2)
			}
			type fed struct {
				variant string
				id      uint16
			}
			var plan []fed
			for k := 0; k < nstray; k++ {
				plan = append(plan, fed{[]string{"stray-unsigned", "stray-unsigned", "stray-reflected-request", "stray-answer-to-previous-request", "stray-wrong-secret"}[rnd.Intn(5)], q.Id + 1 + uint16(k)})
			}
			plan = append(plan, fed{[]string{"answer", "answer", "answer", "answer-wrong-secret", "answer-altered-mac", "answer-unsigned", "reflected-request", "answer-without-request-mac"}[rnd.Intn(8)], q.Id})
			var fedOctets [][]byte
			build := func(qo []byte) {
				qm := new(dns.Msg)
				if err := qm.Unpack(qo); err != nil || qm.IsTsig() == nil {
					hx.Die("the written request carries no TSIG")
				}
				reqmac := qm.IsTsig().MAC
				for _, f := range plan {
					a := new(dns.Msg)
					a.SetReply(qm)
					a.Extra = nil
					a.Id = f.id
					a.Answer = []dns.RR{rr(fmt.Sprintf("%s 60 IN TXT \"%s\"", qm.Question[0].Name, f.variant))}
					var o []byte
					var err error
					sign := func(sec []byte, rq string) {
						a.SetTsig(key, alg, 300, now)
						o, _, err = dns.TsigGenerate(a, b64(sec), rq, false)
					}
					switch f.variant {
					case "stray-unsigned", "answer-unsigned":
						o, err = a.Pack()
					case "stray-reflected-request", "reflected-request":
						o = append([]byte(nil), qo...)
						binary.BigEndian.PutUint16(o, f.id) // the header ID is not covered (the original ID is)
					case "stray-answer-to-previous-request":
						if prevQ == nil {
							o, err = a.Pack()
						} else {
							sign(secrets[si], hex.EncodeToString(prevMAC))
						}
					case "stray-wrong-secret", "answer-wrong-secret":
						sign(secrets[(si+1)%len(secrets)], reqmac)
					case "answer-without-request-mac":
						sign(secrets[si], "")
					default:
						sign(secrets[si], reqmac)
						if f.variant == "answer-altered-mac" {
							flipBit(o, 8*(len(o)-7))
						}
					}
					if err != nil {
						hx.Die("building %s: %v", f.variant, err)
					}
					fedOctets = append(fedOctets, o)
					if stream {
						fc.Feed(pipe.Frame(o))
					} else {
						dc.deliver(o)
					}
				}
			}
			wire := func() []byte {
				if stream {
					if len(fc.Written) == 0 {
						return nil
					}
					return fc.Written[len(fc.Written)-1][2:]
				}
				if len(dc.written) == 0 {
					return nil
				}
				return dc.written[len(dc.written)-1]
			}
			emitW := func(qo []byte) {
				*idx++
				w.Emit(verifyEv{Ev: "cw", I: *idx, What: fmt.Sprintf("%s request of a %s connection", ord(tx), transport), Octets: hx.FromBytes(qo),
					Reqmac: hx.B{}, Now: limbs(uint64(now)), Via: "conn-out-noted", Secrets: tab})
				sum.Evaluations++
			}
			emitR := func(k int, got *dns.Msg, err error, pan string) {
				qm := new(dns.Msg)
				qm.Unpack(wire())
				rq, _ := hex.DecodeString(qm.IsTsig().MAC)
				*idx++
				e := verifyEv{Ev: "cr", I: *idx, What: fmt.Sprintf("%s on a %s connection, %s transaction, %s read: %s", api, transport, ord(tx), ord(k), plan[k].variant),
					Octets: hx.FromBytes(fedOctets[k]), Reqmac: hx.FromBytes(rq), Now: limbs(uint64(time.Now().Unix())), Via: "conn", Secrets: tab,
					Got: errText(err), Signed: got != nil && got.IsTsig() != nil}
				if pan != "" {
					sum.Mis("tsig/verify:panic", "panic: "+pan, e)
					e.Got = "panic: " + pan
				}
				w.Emit(e)
				sum.Evaluations++
			}
			if api == "conn" {
				if err := co.WriteMsg(q); err != nil || wire() == nil {
					hx.Die("writing the request: %v", err)
				}
				qo := wire()
				emitW(qo)
				build(qo)
				for k := range plan {
					var got *dns.Msg
					var err error
					p := hx.Catch(func() { got, err = co.ReadMsg() })
					emitR(k, got, err, p)
				}
				prevQ = qo
			} else {
				// the scripted peer answers when the request is written
				before := len(dc.written)
				var got *dns.Msg
				var err error
				hooked := &hookedConn{dgramConn: dc, onWrite: func(p []byte) { build(p) }}
				co.Conn = hooked
				cl := &dns.Client{TsigSecret: co.TsigSecret, TsigProvider: co.TsigProvider} // the exchange copies the client's TSIG configuration onto the connection
			p := hx.Catch(func() { got, _, err = cl.ExchangeWithConn(q, co) })
				if len(dc.written) != before+1 {
					hx.Die("ExchangeWithConn wrote %d datagrams (%v)", len(dc.written)-before, err)
				}
				qo := wire()
				emitW(qo)
				if got != nil {
					for k := range plan {
						if plan[k].id == got.Id {
							emitR(k, got, err, p)
						}
					}
				} else if p != "" {
					sum.Mis("tsig/verify:panic", "panic: "+p, nil)
				}
				dc.in = nil // whatever the call left unread belongs to this transaction
				prevQ = qo
			}
			qm := new(dns.Msg)
			qm.Unpack(prevQ)
			prevMAC, _ = hex.DecodeString(qm.IsTsig().MAC)
			if stream {
				fc.Feed(nil)
			}
		}
	}
}

// hookedConn lets the scripted peer of a datagram exchange see the request the moment it is written.
type hookedConn struct {
	*dgramConn
	onWrite func([]byte)
}

func (h *hookedConn) Write(p []byte) (int, error) {
	n, err := h.dgramConn.Write(p)
	h.onWrite(p)
	return n, err
}
func (h *hookedConn) WriteTo(p []byte, _ net.Addr) (int, error) { return h.Write(p) }

// ---------------------------------------------------------------- judge (second pass)

type specLine struct {
	I      int    `json:"i"`
	Ev     string `json:"ev"`
	St     string `json:"st"`
	Wf     bool   `json:"wf"`
	Strict bool   `json:"strict"`
	Class  int    `json:"class"`
	TTL    []int  `json:"ttl"`
	Key    []hx.B `json:"key"` // as spelled on the wire
	Alg    []hx.B `json:"alg"`
	Digest hx.B   `json:"digest"`
	Mac    hx.B   `json:"mac"`
	TimeOk bool   `json:"timeok"`
	Fresh  *bool  `json:"fresh"` // env events that say when the message was handed to the sender: time signed >= that - 1 s
}

func whatClass(w string) string { return w }

func ttlZero(t []int) bool {
	for _, x := range t {
		if x != 0 {
			return false
		}
	}
	return true
}

func judge(tracePath, specPath string) {
	var sum hx.Summary
	spec := map[int]*specLine{}
	hx.ReadNDJSON(specPath, func(i int, s *specLine) { spec[s.I] = s })
	nacc, nundet, ntsigoff, nnoted, nchained := 0, 0, 0, 0, 0
	hx.ReadNDJSON(tracePath, func(i int, e *verifyEv) {
		if e.Ev != "verify" && e.Ev != "env" && e.Ev != "cr" && e.Ev != "cw" {
			return
		}
		s := spec[e.I]
		if s == nil {
			hx.Die("no specification line for event %d", e.I)
		}
		sum.Evaluations++
		if e.Ev == "cw" {
			// a request written by a dns.Conn: does its MAC cover what RFC 8945 5.1 says a request's MAC covers (no request
			// MAC)?  Outside the statement for the later requests of a reused connection object (see Tsig.tla): counted only.
			if s.St == "ok" {
				alg := strings.ToLower(nameText(s.Alg))
				if si, known := e.Secrets[nameText(s.Key)]; known && !hmac.Equal(stdMac(alg, secrets[si], s.Digest.Bytes()), s.Mac.Bytes()) {
					nchained++
				}
			}
			return
		}
		real := e.Got == ""
		if e.Via == "server" || e.Via == "server-tsig-off" || e.Via == "conn" { // ResponseWriter.TsigStatus() is nil for an unsigned request too: verified = signed and nil
			real = real && e.Signed
		}
		if s.Fresh != nil && !*s.Fresh {
			sum.Mis("tsig/sign:stale-time-signed:"+e.Via, fmt.Sprintf("%s: the time signed of the TSIG is more than a second older than the moment the message was handed to the sender", e.What), e)
		}
		if e.Via == "server-out-noted" { // TSIG error replies the RFC wants unsigned: what the library sends is recorded, not judged
			nnoted++
			return
		}
		if e.Via == "server-tsig-off" { // a server without any TSIG configuration verifies nothing: outside the statement (AMBIG), counted only
			if real {
				ntsigoff++
			}
			return
		}
		// the specification's verdict, with the HMAC filled in by the standard library
		expect, determined, why := false, true, ""
		switch {
		case s.St != "ok":
			why = s.St
		default:
			keyWire := nameText(s.Key)
			alg := strings.ToLower(nameText(s.Alg))
			h, supported := stdHash(alg)
			var si int
			var known bool
			if e.Via == "public" {
				si, known = e.Secrets[""], true
			} else {
				for k, v := range e.Secrets { // names compare case-insensitively (RFC 4343)
					if strings.EqualFold(k, keyWire) {
						si, known = v, true
					}
				}
			}
			switch {
			case !known:
				why = "unknown-key"
			case h == nil:
				why = "unknown-algorithm"
			case !hmac.Equal(stdMac(alg, secrets[si], s.Digest.Bytes()), s.Mac.Bytes()):
				why = "mac"
			case !s.TimeOk:
				why = "time"
			default:
				expect = true
			}
			if expect && !supported {
				determined = false // hmac-md5 is an RFC 8945 algorithm the library does not implement: either verdict
			}
			if !s.Strict {
				determined = false // a valid MAC over an odd class / TTL, cut RDATA, trailing octets: may be refused (AMBIG in Tsig.tla)
			}
			if expect && e.Via != "public" {
				if _, exact := e.Secrets[keyWire]; !exact {
					determined = false // the library's table is keyed by spelling; the statement only bounds acceptance
				}
			}
		}
		if expect {
			nacc++
		}
		if !determined {
			nundet++
		}
		switch {
		case real && !expect && s.St == "ok" && s.Wf && why == "mac" && s.Class != dns.ClassANY && ttlZero(s.TTL):
			sum.Mis(keyClassAltered, fmt.Sprintf("%s (%s): verified although the MAC does not cover the class %d of the TSIG record as received", e.What, e.Via, s.Class), e)
		case real && !expect && (s.St != "ok" || s.Wf):
			sum.Mis("tsig/verify:accepts-invalid:"+why+":"+e.Via, fmt.Sprintf("%s: verified although the specification says %s", e.What, why), e)
		case !real && expect && determined:
			sum.Mis("tsig/verify:rejects-valid:"+whatClass(e.What)+":"+e.Via, fmt.Sprintf("%s: rejected (%s) although MAC and time are valid", e.What, e.Got), e)
		}
		if i%997 == 0 {
			sum.Sample(map[string]interface{}{"what": e.What, "via": e.Via, "got": e.Got, "spec": s.St, "expect": expect})
		}
	})
	sum.Nontrivial = nacc
	sum.Note("accepting_events", nacc)
	sum.Note("verdict_not_asserted_events", nundet)
	if nnoted > 0 {
		sum.Note("unsigned_tsig_error_replies_recorded", nnoted)
	}
	if nchained > 0 {
		sum.Note("requests_on_a_reused_conn_whose_mac_covers_an_earlier_request_mac_recorded", nchained)
	}
	if ntsigoff > 0 {
		sum.Note("signed_requests_with_nil_status_on_server_without_tsig_configuration", ntsigoff)
	}
	sum.Print()
}

// ---------------------------------------------------------------- reverify (replay of one recorded event)

// reverify re-executes the real verification of recorded events (their octets, request MAC, timers-only
// setting and clock value) and rewrites the observed verdict; used by `bin/check C11 --replay`.
func reverify(in, out string) {
	w := hx.NewWriter(out)
	defer w.Close()
	var sum hx.Summary
	hx.ReadNDJSON(in, func(i int, e *verifyEv) {
		sum.Evaluations++
		st := map[string]string{}
		for k, v := range e.Secrets {
			st[k] = b64(secrets[v])
		}
		if e.Via == "public" { // one secret whatever the key name: give it to the name on the wire
			m := new(dns.Msg)
			if m.Unpack(e.Octets.Bytes()) == nil && m.IsTsig() != nil {
				st[m.IsTsig().Hdr.Name] = b64(secrets[e.Secrets[""]])
			}
		}
		var got error
		p := hx.Catch(func() {
			got = dns.VerifTsigVerifyAt(e.Octets.Bytes(), dns.VerifTsigSecretProvider(st), hex.EncodeToString(e.Reqmac.Bytes()), e.Timers, t48(e.Now))
		})
		e.Got = errText(got)
		if p != "" {
			e.Got = "panic: " + p
		}
		w.Emit(e)
	})
	sum.Print()
}

// ---------------------------------------------------------------- record: the server side

// macLen: octets of a full MAC of the algorithm (0 = unknown)
func macLen(alg string) int {
	h, _ := stdHash(alg)
	if h == nil {
		return 0
	}
	return h().Size()
}

const (
	srvKey   = "srv.example."
	otherKey = "other.example."
)

// recordServer observes ResponseWriter.TsigStatus and response.WriteMsg.  Every transaction is validated from
// scratch by Trace_Tsig: "q" starts a session on the MAC of THAT request, its first response must carry a MAC over
// request MAC + message + full variables, later ones over the previous MAC + timers.  The response object of a TCP
// connection outlives the request, so the transactions of one connection show whether its TSIG state restarts.
func recordServer(out string, n int) {
	rnd := hx.Rand()
	w := hx.NewWriter(out)
	defer w.Close()
	var sum hx.Summary
	secret := b64(secrets[1])
	algs := []string{dns.HmacSHA1, dns.HmacSHA224, dns.HmacSHA256, dns.HmacSHA384, dns.HmacSHA512}

	type seen struct {
		err    error
		signed bool
	}
	var mu sync.Mutex
	status := map[uint16]seen{} // by request ID (unique per recorder run)
	handedAt := map[uint16][]uint64{} // transfers: the clock when each envelope was handed to Transfer.Out
	lateDone, lateID := false, -1
	answers := func(q *dns.Msg) int { // messages the handler writes for a verified request
		switch {
		case q.Question[0].Qtype == dns.TypeAXFR:
			return 3
		case strings.HasPrefix(q.Question[0].Name, "multi"):
			return 2 + int(q.Id%3)
		}
		return 1
	}
	handler := dns.HandlerFunc(func(rw dns.ResponseWriter, req *dns.Msg) {
		ts := req.IsTsig()
		st := rw.TsigStatus()
		mu.Lock()
		status[req.Id] = seen{st, ts != nil}
		mu.Unlock()
		verified := ts != nil && st == nil
		reply := func(i int) *dns.Msg {
			m := new(dns.Msg)
			m.SetReply(req)
			m.Answer = []dns.RR{rr(fmt.Sprintf("%s 60 IN TXT \"answer %d\"", req.Question[0].Name, i))}
			switch {
			case verified:
				m.SetTsig(ts.Hdr.Name, ts.Algorithm, 300, time.Now().Unix())
			case ts != nil && st != nil:
				// a TSIG error response (RFC 8945 5.2 / 5.3.2): the handler names the error in a TSIG on its reply and lets
				// WriteMsg sign it.  BADTIME and BADTRUNC replies are signed, over the request MAC as received; for BADSIG
				// and BADKEY the library (like the RFC) emits the TSIG without a MAC.
				now := time.Now().Unix()
				m.Rcode = dns.RcodeNotAuth
				m.SetTsig(ts.Hdr.Name, ts.Algorithm, 300, now)
				et := m.IsTsig()
				switch {
				case st == dns.ErrTime:
					et.Error = dns.RcodeBadTime
					et.OtherLen, et.OtherData = 6, fmt.Sprintf("%012x", now)
				case st == dns.ErrSecret:
					et.Error = dns.RcodeBadKey
				case st == dns.ErrSig && int(ts.MACSize) < macLen(ts.Algorithm):
					et.Error = dns.RcodeBadTrunc
				default:
					et.Error = dns.RcodeBadSig
				}
			}
			return m
		}
		// the number of messages written never depends on the verdict (the client knows how many to read); they are
		// signed iff the request verified, or carry the TSIG error (Transfer.Out itself signs verified requests only)
		switch {
		case req.Question[0].Qtype == dns.TypeAXFR:
			// Transfer.Out stamps every envelope itself: the clock is noted when each envelope is handed over, and ONE
			// verified transfer per run hands its last envelope over 2.1 s after the others (a large zone, a slow producer):
			// the time signed of an envelope is the time of ITS signing, not that of the start of the transfer
			mu.Lock()
			late := verified && !lateDone
			if late {
				lateDone = true
				lateID = int(req.Id)
			}
			mu.Unlock()
			ch := make(chan *dns.Envelope)
			done := make(chan error, 1)
			go func() { done <- new(dns.Transfer).Out(rw, req, ch) }()
			soa := rr("example. 60 IN SOA ns.example. host.example. 9 3600 600 86400 60")
			var outErr error
			ended := false
			hand := func(e *dns.Envelope) { // noted before the envelope can reach the wire
				if ended {
					return
				}
				mu.Lock()
				handedAt[req.Id] = append(handedAt[req.Id], uint64(time.Now().Unix()))
				mu.Unlock()
				select {
				case ch <- e:
				case outErr = <-done: // Out gave up (it could not sign or write): nothing more will be sent
					ended = true
				}
			}
			hand(&dns.Envelope{RR: []dns.RR{soa, rr("a.example. 60 IN A 192.0.2.1")}})
			hand(&dns.Envelope{RR: []dns.RR{rr("b.example. 60 IN A 192.0.2.2")}})
			if late {
				time.Sleep(2100 * time.Millisecond)
			}
			hand(&dns.Envelope{RR: []dns.RR{rr("c.example. 60 IN A 192.0.2.3"), soa}})
			close(ch)
			if !ended {
				outErr = <-done
			}
			if outErr != nil {
				rw.Close() // the client sees the end of the stream at once instead of waiting for envelopes that will not come
			}
		case strings.HasPrefix(req.Question[0].Name, "multi"):
			for i := 0; i < answers(req); i++ { // what Transfer.Out does, by hand
				if err := rw.WriteMsg(reply(i)); err != nil {
					rw.Close() // (as below)
					break
				}
				rw.TsigTimersOnly(true)
			}
		default:
			if err := rw.WriteMsg(reply(0)); err != nil {
				rw.Close() // nothing will come: the client sees the end of the stream at once (datagram clients wait their 20 s)
			}
		}
	})

	// server configurations: which keys the server has decides what TsigStatus must be (the specification's verdict
	// on the request under that table).  assert = false: TSIG switched off altogether (no table, no provider) -- the
	// library then verifies nothing and TsigStatus stays nil; the statement does not cover a server without TSIG
	// configuration (AMBIG), the observation is recorded but not judged.
	type config struct {
		name   string
		srv    *dns.Server
		ln     *pipe.Listener
		tab    map[string]int
		assert bool
	}
	both := map[string]string{srvKey: secret, otherKey: b64(secrets[0])}
	configs := []*config{
		{name: "table with the key", srv: &dns.Server{TsigSecret: map[string]string{srvKey: secret}}, tab: map[string]int{srvKey: 1}, assert: true},
		{name: "empty table", srv: &dns.Server{TsigSecret: map[string]string{}}, tab: map[string]int{}, assert: true},
		{name: "table without the key", srv: &dns.Server{TsigSecret: map[string]string{otherKey: b64(secrets[0])}}, tab: map[string]int{otherKey: 0}, assert: true},
		{name: "provider", srv: &dns.Server{TsigProvider: dns.VerifTsigSecretProvider(both)}, tab: map[string]int{srvKey: 1, otherKey: 0}, assert: true},
		{name: "provider over table", srv: &dns.Server{TsigProvider: dns.VerifTsigSecretProvider(map[string]string{srvKey: secret}),
			TsigSecret: map[string]string{srvKey: b64(secrets[2]), otherKey: b64(secrets[0])}}, tab: map[string]int{srvKey: 1}, assert: true},
		{name: "tsig off", srv: &dns.Server{}, tab: map[string]int{}, assert: false},
	}
	pc := pipe.NewPacketConn()
	udp := &config{name: "udp provider", srv: &dns.Server{PacketConn: pc, TsigProvider: dns.VerifTsigSecretProvider(both)}, tab: map[string]int{srvKey: 1, otherKey: 0}, assert: true}
	for _, c := range append(configs[:len(configs):len(configs)], udp) {
		if c != udp {
			c.ln = pipe.NewListener()
			c.srv.Listener = c.ln
		}
		c.srv.Handler = handler
		started := make(chan struct{})
		c.srv.NotifyStartedFunc = func() { close(started) }
		go c.srv.ActivateAndServe()
		<-started
		defer c.srv.Shutdown()
	}

	idx := 0
	nextID := uint16(rnd.Intn(1000))
	// one transaction: build the request, hand it to `send', read `want' responses with `recv'
	transact := func(cf *config, what string, send func([]byte) error, recv func() ([]byte, error), kinds []string) bool {
		tab := cf.tab
		what = cf.name + ", " + what
		kind := kinds[rnd.Intn(len(kinds))]
		variant := []string{"signed", "signed", "signed", "signed", "badsecret", "unsigned", "badtime", "badtime", "truncmac"}[rnd.Intn(9)]
		key, si := srvKey, 1
		if rnd.Intn(4) == 0 {
			key, si = otherKey, 0
		}
		_, has := tab[key]
		verifies := variant == "signed" && has // the specification's verdict on this request under the server's table
		alg := algs[rnd.Intn(len(algs))]
		q := new(dns.Msg)
		switch kind {
		case "axfr":
			q.SetAxfr("example.")
		case "multi":
			q.SetQuestion(fmt.Sprintf("multi%d.example.", rnd.Intn(100)), dns.TypeTXT)
		default:
			q.SetQuestion(fmt.Sprintf("single%d.example.", rnd.Intn(100)), dns.TypeTXT)
		}
		nextID++
		q.Id = nextID
		want := answers(q)
		now := uint64(time.Now().Unix())
		var qo []byte
		var err error
		if variant == "unsigned" {
			qo, err = q.Pack()
		} else {
			signed := int64(now)
			if variant == "badtime" { // a correct MAC over a signing time far outside the fudge window, either side
				signed += []int64{-3000, 3000}[rnd.Intn(2)]
			}
			q.SetTsig(key, alg, 300, signed)
			sec := b64(secrets[si])
			if variant == "badsecret" {
				sec = b64(secrets[2])
			}
			qo, _, err = dns.TsigGenerate(q, sec, "", false)
			if err == nil && variant == "truncmac" { // the MAC field cut to its first half (RFC 8945 5.2.2.1: admissible, the library refuses)
				qm := new(dns.Msg)
				if e := qm.Unpack(qo); e != nil || qm.IsTsig() == nil {
					hx.Die("truncating the request MAC: %v", e)
				}
				t := qm.IsTsig()
				cut := len(qo) - dns.Len(t)
				t.MACSize /= 2
				t.MAC = t.MAC[:2*int(t.MACSize)]
				buf := make([]byte, dns.Len(t)+16)
				off, e := dns.PackRR(t, buf, 0, nil, false)
				if e != nil {
					hx.Die("repacking the request TSIG: %v", e)
				}
				qo = append(append([]byte(nil), qo[:cut]...), buf[:off]...)
			}
		}
		if err != nil {
			hx.Die("request: %v", err)
		}
		if err := send(qo); err != nil {
			hx.Die("send request: %v", err)
		}
		var msgs [][]byte
		for len(msgs) < want {
			p, err := recv()
			if err != nil {
				break
			}
			msgs = append(msgs, p)
		}
		sum.Evaluations++
		mu.Lock()
		st, ok := status[q.Id]
		mu.Unlock()
		desc := fmt.Sprintf("%s: %s %s request (%s, %s)", what, variant, kind, key, alg)
		if !ok {
			sum.Mis("tsig/server:handler-not-called", desc, hx.FromBytes(qo))
			return false
		}
		// (1) ResponseWriter.TsigStatus: verified = the request carries a TSIG and the status is nil
		idx++
		via := "server"
		if !cf.assert {
			via = "server-tsig-off"
		}
		w.Emit(verifyEv{Ev: "verify", I: idx, What: "status, " + desc, Octets: hx.FromBytes(qo), Reqmac: hx.B{}, Now: limbs(now),
			Via: via, Secrets: tab, Got: errText(st.err), Signed: st.signed})
		// (2) the responses: a session that starts on this request
		w.Emit(verifyEv{Ev: "q", I: 0, What: desc, Octets: hx.FromBytes(qo), Reqmac: hx.B{}, Now: limbs(now), Secrets: tab})
		// Judged: the answers to a request that verifies, and the TSIG error responses RFC 8945 5.3.2 wants SIGNED -- BADTIME
		// (right MAC, time outside the window) and too-short MAC, under a key the server has: their MAC covers the request MAC
		// as received, the reply and the full variables (error and other data included), like any first response.
		// Noted only ("server-out-noted"): the replies to BADSIG / BADKEY requests, which carry a TSIG without MAC (RFC: unsigned).
		signedError := (variant == "badtime" || variant == "truncmac") && has && kind != "axfr"
		via2 := ""
		switch {
		case !cf.assert:
		case verifies || signedError:
			via2 = "server-out"
		case variant != "unsigned" && kind != "axfr":
			via2 = "server-out-noted"
		}
		if via2 != "" {
			mu.Lock()
			times, wasLate := handedAt[q.Id], lateID == int(q.Id)
			mu.Unlock()
			for k, p := range msgs {
				idx++
				ee := verifyEv{Ev: "env", I: idx, What: fmt.Sprintf("response %d of %d, %s", k+1, want, desc), Octets: hx.FromBytes(p), Reqmac: hx.B{},
					Now: limbs(uint64(time.Now().Unix())), Via: via2, Secrets: tab}
				if kind == "axfr" && via2 == "server-out" && k < len(times) {
					ee.Handed = limbs(times[k])
					if wasLate {
						ee.What += " (last envelope handed to Transfer.Out 2.1 s after the others)"
					}
				}
				w.Emit(ee)
			}
		}
		if len(msgs) != want {
			sum.Mis("tsig/server:responses-missing", fmt.Sprintf("%s: %d of %d responses arrived", desc, len(msgs), want), hx.FromBytes(qo))
			return false
		}
		return true
	}

	for c := 0; c < n; c++ {
		// a TCP connection with two to five transactions, to one of the server configurations
		cf := configs[(c+int(hx.Seed()))%len(configs)]
		conn, err := cf.ln.Dial()
		if err != nil {
			hx.Die("dial: %v", err)
		}
		for k, nreq := 0, 2+rnd.Intn(4); k < nreq; k++ {
			conn.SetDeadline(time.Now().Add(20 * time.Second))
			ok := transact(cf, fmt.Sprintf("tcp, transaction %d of %d on its connection", k+1, nreq),
				func(p []byte) error { _, err := conn.Write(pipe.Frame(p)); return err },
				func() ([]byte, error) { return pipe.ReadFrame(conn) },
				[]string{"single", "multi", "axfr"})
			if !ok {
				break
			}
		}
		conn.Close()
		// datagrams: one transaction at a time, so that responses are attributed to their request
		for k := 0; k < 2; k++ {
			transact(udp, "udp",
				func(p []byte) error { pc.Deliver(p); return nil },
				func() ([]byte, error) {
					select {
					case p := <-pc.Out:
						return p, nil
					case <-time.After(20 * time.Second):
						return nil, os.ErrDeadlineExceeded
					}
				},
				[]string{"single", "single", "multi"})
		}
	}
	sum.Nontrivial = idx
	sum.Print()
}
