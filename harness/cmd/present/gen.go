package main

// Random abstract records over every type with a presentation format (test DATA: the oracle
// is the specification judging the recorded event).  Values of fields whose RFC restricts the
// alphabet (X25, GPOS, CAA tag, LOC, NSEC3 hash, HIP) are drawn inside it -- the out-of-alphabet
// cases are the business of the "nasty" vectors, where the specification says which they are.

import (
	"math/rand"
	"sort"

	"verifharness/lib/hx"
	"verifharness/lib/wire"
)

type gen struct{ r *rand.Rand }

func (g *gen) pick(xs []int) int { return xs[g.r.Intn(len(xs))] }

func (g *gen) octets(n int) []int {
	b := make([]int, n)
	mode := g.r.Intn(5)
	for i := range b {
		switch mode {
		case 0:
			b[i] = g.r.Intn(256)
		case 1:
			b[i] = int("aZ09.\\ \"();@'$-_,=\t\n"[g.r.Intn(20)])
		case 2:
			b[i] = 'a' + g.r.Intn(26)
		case 3:
			b[i] = g.pick([]int{0, 9, 10, 13, 31, 32, 34, 40, 41, 46, 59, 92, 126, 127, 128, 255, 'A', 'z', '0', '9'})
		default:
			b[i] = int("abc \"\\;"[g.r.Intn(7)])
		}
	}
	return b
}

func (g *gen) strLen() int { return g.pick([]int{0, 1, 1, 2, 3, 5, 8, 20, 60, 254, 255}) }

func (g *gen) wide(n int) []int {
	b := make([]int, n)
	switch g.r.Intn(5) {
	case 0:
	case 1:
		for i := range b {
			b[i] = 255
		}
	case 2:
		b[0] = 128
	default:
		for i := range b {
			b[i] = g.r.Intn(256)
		}
	}
	return b
}

func (g *gen) u(bits uint) int {
	max := 1 << bits
	switch g.r.Intn(5) {
	case 0:
		return 0
	case 1:
		return max - 1
	}
	return g.r.Intn(max)
}

func (g *gen) name() [][]int {
	n := [][]int{}
	total := 1
	for k := g.pick([]int{0, 1, 2, 2, 3, 4}); k > 0; k-- {
		l := g.octets(g.pick([]int{1, 1, 2, 3, 5, 8, 20, 63}))
		if total+len(l)+1 > 255 {
			break
		}
		total += len(l) + 1
		n = append(n, l)
	}
	return n
}

func (g *gen) blob() []int { return g.octets(g.pick([]int{0, 1, 2, 3, 4, 5, 16, 20, 32, 64, 300})) }

func (g *gen) types() []int {
	set := map[int]bool{}
	for k := g.r.Intn(8); k > 0; k-- {
		switch g.r.Intn(4) {
		case 0:
			set[g.pick([]int{1, 2, 5, 6, 15, 16, 28, 33, 43, 46, 47, 48, 50, 51, 255, 256, 257, 32768, 32769})] = true
		case 1:
			set[g.r.Intn(65536)] = true
		default:
			set[1+g.r.Intn(300)] = true
		}
	}
	out := []int{}
	for t := range set {
		out = append(out, t)
	}
	sort.Ints(out)
	return out
}

func digits(g *gen, n int) []int {
	b := make([]int, n)
	for i := range b {
		b[i] = '0' + g.r.Intn(10)
	}
	return b
}

func (g *gen) float() []int {
	b := []int{}
	if g.r.Intn(2) == 0 {
		b = append(b, '-')
	}
	b = append(b, digits(g, 1+g.r.Intn(3))...)
	if g.r.Intn(2) == 0 {
		b = append(append(b, '.'), digits(g, 1+g.r.Intn(4))...)
	}
	return b
}

func (g *gen) svcb() []interface{} {
	keys := map[int]bool{}
	for k := g.r.Intn(5); k > 0; k-- {
		keys[g.pick([]int{1, 1, 2, 3, 4, 5, 6, 7, 8, 9, 100, 65280, 65534})] = true
	}
	ks := []int{}
	for k := range keys {
		ks = append(ks, k)
	}
	g.r.Shuffle(len(ks), func(i, j int) { ks[i], ks[j] = ks[j], ks[i] })
	out := []interface{}{}
	for _, k := range ks {
		f := map[string]interface{}{}
		switch k {
		case 1:
			ids := [][]int{}
			for n := 1 + g.r.Intn(3); n > 0; n-- {
				ids = append(ids, g.octets(1+g.r.Intn(6)))
			}
			f["Alpn"] = ids
		case 2, 8:
		case 3:
			f["Port"] = g.u(16)
		case 4:
			hs := [][]int{}
			for n := 1 + g.r.Intn(3); n > 0; n-- {
				hs = append(hs, g.wide(4))
			}
			f["Hint"] = hs
		case 5:
			f["ECH"] = g.blob()
		case 6:
			hs := [][]int{}
			for n := 1 + g.r.Intn(2); n > 0; n-- {
				h := g.wide(16)
				h[0] = 0x20 // never IPv4-mapped here (the vectors hold that case)
				hs = append(hs, h)
			}
			f["Hint"] = hs
		case 7:
			f["Template"] = g.octets(g.strLen())
		default:
			f["Data"] = g.octets(g.strLen())
		}
		out = append(out, map[string]interface{}{"key": k, "f": f})
	}
	return out
}

func (g *gen) apl() []interface{} {
	out := []interface{}{}
	for n := g.r.Intn(4); n > 0; n-- {
		fam := 1 + g.r.Intn(2)
		bits := 32
		if fam == 2 {
			bits = 128
		}
		prefix := g.pick([]int{0, 1, 7, 8, 9, 24, bits - 1, bits})
		if prefix > bits {
			prefix = bits
		}
		addr := g.wide(bits / 8)
		for i := range addr { // zero beyond the prefix
			switch {
			case i*8 >= prefix:
				addr[i] = 0
			case (i+1)*8 > prefix:
				addr[i] &= 0xff << (8 - uint(prefix-i*8)) & 0xff
			}
		}
		out = append(out, map[string]interface{}{"fam": fam, "neg": g.r.Intn(2) == 0, "prefix": prefix, "addr": addr})
	}
	return out
}

func (g *gen) value(t int, e wire.Entry) interface{} {
	switch e.K {
	case "u8":
		if t == 29 { // LOC: version 0, BCD-like nibbles
			if e.N == "Version" {
				return 0
			}
			if m := g.r.Intn(10); m > 0 { // a zero base has one spelling (0x00)
				return m<<4 | g.r.Intn(10)
			}
			return 0
		}
		return g.u(8)
	case "u16":
		return g.u(16)
	case "u32":
		if t == 29 {
			span := map[string]int{"Latitude": 90 * 3600000, "Longitude": 180 * 3600000}[e.N]
			if span > 0 {
				v := int64(1)<<31 + int64(g.r.Intn(2*span+1)-span)
				return []int{int(v >> 24 & 255), int(v >> 16 & 255), int(v >> 8 & 255), int(v & 255)}
			}
		}
		return g.wide(4)
	case "u48":
		return g.wide(6)
	case "u64":
		return g.wide(8)
	case "a":
		return g.wide(4)
	case "aaaa":
		return g.wide(16)
	case "name", "cname":
		return g.name()
	case "str":
		switch {
		case t == 19:
			return digits(g, 1+g.r.Intn(14))
		case t == 27:
			return g.float()
		case t == 257:
			return []int{'i', 's', 's', 'u', 'e'}[:1+g.r.Intn(5)]
		}
		return g.octets(g.strLen())
	case "strs":
		out := [][]int{}
		for n := 1 + g.r.Intn(3); n > 0; n-- {
			out = append(out, g.octets(g.strLen()))
		}
		return out
	case "ostr":
		return [][]int{g.octets(g.strLen())}
	case "octet":
		return g.octets(g.pick([]int{0, 1, 5, 30, 255, 256, 700}))
	case "hex", "b64", "b32", "raw":
		b := g.blob()
		if t == 50 && e.N == "NextDomain" && g.r.Intn(5) != 0 { // SHA-1, the only NSEC3 hash in use
			b = g.octets(20)
		}
		if e.Sz != "" {
			if (t == 50 && e.N == "NextDomain") || t == 55 {
				if len(b) == 0 {
					b = []int{7}
				}
			}
			if len(b) > 255 {
				b = b[:255]
			}
		}
		return b
	case "bitmap":
		return g.types()
	case "bitmap0":
		set := map[int]bool{}
		for k := g.r.Intn(5); k > 0; k-- {
			set[1+g.r.Intn(127)] = true
		}
		out := []int{}
		for t := range set {
			out = append(out, t)
		}
		sort.Ints(out)
		return out
	case "names":
		out := [][][]int{}
		for n := g.r.Intn(3); n > 0; n-- {
			out = append(out, g.name())
		}
		return out
	case "apl":
		return g.apl()
	case "svcb":
		return g.svcb()
	}
	panic("gen: kind " + e.K)
}

func (g *gen) record() *wire.RR {
	t := P.Pres[g.r.Intn(len(P.Pres))].T
	es := L.FieldsOf(t)
	f := wire.Fields{}
	for _, e := range es {
		if e.K == "gateway" {
			continue
		}
		f[e.N] = g.value(t, e)
	}
	for _, e := range es {
		if e.Sz != "" {
			f[e.Sz] = len(f[e.N].([]int))
		}
		if e.K == "gateway" {
			sel := g.r.Intn(4)
			f[e.Of] = sel
			if e.Mod == 128 {
				f[e.Of] = sel + 128*g.r.Intn(2)
			}
			switch sel {
			case 0:
				f[e.N] = []int{}
			case 1:
				f[e.N] = g.wide(4)
			case 2:
				h := g.wide(16)
				h[0] = 0x20
				f[e.N] = h
			case 3:
				f[e.N] = g.name()
			}
		}
	}
	name := make([]hx.B, 0)
	for _, l := range g.name() {
		name = append(name, hx.B(l))
	}
	return &wire.RR{Name: name, Type: t, Class: g.pick([]int{1, 1, 1, 1, 3, 4, 2, 254, 255, 0, 256, 65535, g.r.Intn(65536)}),
		Ttl: g.wide(4), F: f}
}
