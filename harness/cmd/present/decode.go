package main

// The exotic sub-grammars of the presentation format (DESIGN s.1.3): the specification
// lexes the text and places the items; the values of these items are decoded HERE with the
// Go standard library (net/netip, time, encoding/base64, strconv) -- never with miekg/dns --
// and handed to the specification as abstract values (hk entries).  Each decoder is written
// from the RFC that defines the syntax:
//
//	IPv6 text          RFC 4291 s.2.2 (netip.ParseAddr)
//	RRSIG times        RFC 4034 s.3.2: YYYYMMDDHHmmSS, UTC, value modulo 2^32
//	LOC                RFC 1876 s.3
//	APL items          RFC 3123 s.5: [!]afi:address/prefix
//	SvcParams          RFC 9460 s.2.1, appendix A (value-list escaping), s.7; RFC 9461 s.5; RFC 9540 s.4

import (
	"encoding/base64"
	"fmt"
	"net/netip"
	"sort"
	"strconv"
	"strings"
	"time"

	"verifharness/lib/hx"
)

// hkEntry is one pre-decoded item: the item text as it stands in the record text, whether it
// could be decoded, and the abstract value.
type hkEntry struct {
	T  hx.B        `json:"t"`
	Ok bool        `json:"ok"`
	V  interface{} `json:"v"`
}

// splitItems cuts text at blanks outside quotes; a backslash keeps the next character.
// It is only used to FIND the exotic items; the specification lexes the text itself and
// refuses an hk entry whose text is not the item it finds at that place.
func splitItems(s string) []string {
	var out []string
	cur := []byte{}
	have, inq := false, false
	for i := 0; i < len(s); i++ {
		c := s[i]
		switch {
		case c == '\\' && i+1 < len(s):
			cur = append(cur, c, s[i+1])
			i++
			have = true
		case c == '"':
			inq = !inq
			cur = append(cur, c)
			have = true
		case (c == ' ' || c == '\t') && !inq:
			if have {
				out = append(out, string(cur))
			}
			cur, have = cur[:0:0], false
		default:
			cur = append(cur, c)
			have = true
		}
	}
	if have {
		out = append(out, string(cur))
	}
	return out
}

func v6(tok string) hkEntry {
	e := hkEntry{T: hx.FromString(tok), V: hx.B{}}
	a, err := netip.ParseAddr(tok)
	if err != nil || !a.Is6() || a.Zone() != "" {
		return e
	}
	b := a.As16()
	e.Ok, e.V = true, hx.FromBytes(b[:])
	return e
}

func sigTime(tok string) hkEntry {
	e := hkEntry{T: hx.FromString(tok), V: hx.B{}}
	t, err := time.Parse("20060102150405", tok)
	if err != nil {
		return e
	}
	u := uint32(uint64(t.Unix()) & 0xffffffff)
	e.Ok, e.V = true, hx.B{int(u >> 24), int(u >> 16 & 255), int(u >> 8 & 255), int(u & 255)}
	return e
}

// fixed reads a non-negative decimal numeral with at most `dec` fractional digits and returns it
// scaled by 10^dec.
func fixed(s string, dec int) (int64, bool) {
	ip, fp, _ := strings.Cut(s, ".")
	if ip == "" || len(fp) > dec || len(ip) > 12 {
		return 0, false
	}
	for _, c := range ip + fp {
		if c < '0' || c > '9' {
			return 0, false
		}
	}
	for len(fp) < dec {
		fp += "0"
	}
	v, err := strconv.ParseInt(ip+fp, 10, 64)
	return v, err == nil
}

func be32(v int64) hx.B {
	return hx.B{int(v >> 24 & 255), int(v >> 16 & 255), int(v >> 8 & 255), int(v & 255)}
}

// locSize: centimetres -> RFC 1876 s.2 mantissa/exponent octet; exact values only.
func locSize(cm int64) (int, bool) {
	if cm == 0 {
		return 0, true
	}
	e := 0
	for cm%10 == 0 && cm >= 10 {
		cm /= 10
		e++
	}
	if cm > 9 || e > 9 {
		return 0, false
	}
	return int(cm)<<4 | e, true
}

// loc decodes  d1 [m1 [s1]] {N|S} d2 [m2 [s2]] {E|W} alt[m] [siz[m] [hp[m] [vp[m]]]]
func loc(items []string) hkEntry {
	e := hkEntry{T: hx.FromString(strings.Join(items, " ")), V: map[string]interface{}{}}
	i := 0
	angle := func(pos, neg string, maxDeg int64) (int64, bool) {
		var d, m, s int64
		var ok bool
		n := 0
		for ; i < len(items) && items[i] != pos && items[i] != neg; i++ {
			switch n {
			case 0:
				d, ok = fixed(items[i], 0)
			case 1:
				m, ok = fixed(items[i], 0)
			case 2:
				s, ok = fixed(items[i], 3)
			default:
				ok = false
			}
			if !ok {
				return 0, false
			}
			n++
		}
		if n == 0 || i >= len(items) || d > maxDeg || m > 59 || s > 59999 {
			return 0, false
		}
		v := ((d*60+m)*60)*1000 + s
		if v > maxDeg*3600000 {
			return 0, false
		}
		if items[i] == neg {
			v = -v
		}
		i++
		return 1<<31 + v, true
	}
	lat, ok1 := angle("N", "S", 90)
	if !ok1 {
		return e
	}
	lon, ok2 := angle("E", "W", 180)
	if !ok2 || i >= len(items) {
		return e
	}
	metres := func(s string) (int64, bool) {
		s = strings.TrimSuffix(s, "m")
		neg := strings.HasPrefix(s, "-")
		s = strings.TrimPrefix(strings.TrimPrefix(s, "-"), "+")
		v, ok := fixed(s, 2)
		if neg {
			v = -v
		}
		return v, ok
	}
	alt, ok := metres(items[i])
	i++
	alt += 10000000
	if !ok || alt < 0 || alt > 0xffffffff {
		return e
	}
	sz := []int{0x12, 0x16, 0x13} // defaults: 1m, 10000m, 10m
	for k := 0; k < 3 && i < len(items); k++ {
		cm, ok := metres(items[i])
		i++
		if !ok || cm < 0 {
			return e
		}
		if sz[k], ok = locSize(cm); !ok {
			return e
		}
	}
	if i != len(items) {
		return e
	}
	e.Ok = true
	e.V = map[string]interface{}{"Version": 0, "Size": sz[0], "HorizPre": sz[1], "VertPre": sz[2],
		"Latitude": be32(lat), "Longitude": be32(lon), "Altitude": be32(alt)}
	return e
}

func aplItem(tok string) hkEntry {
	e := hkEntry{T: hx.FromString(tok), V: map[string]interface{}{}}
	s := tok
	neg := strings.HasPrefix(s, "!")
	s = strings.TrimPrefix(s, "!")
	afi, rest, ok := strings.Cut(s, ":")
	if !ok {
		return e
	}
	p, err := netip.ParsePrefix(rest)
	if err != nil || p.Addr().Zone() != "" {
		return e
	}
	var fam int
	var addr []byte
	switch {
	case afi == "1" && p.Addr().Is4():
		fam = 1
		a := p.Addr().As4()
		addr = a[:]
	case afi == "2" && p.Addr().Is6():
		fam = 2
		a := p.Addr().As16()
		addr = a[:]
	default:
		return e
	}
	e.Ok = true
	e.V = map[string]interface{}{"fam": fam, "neg": neg, "prefix": p.Bits(), "addr": hx.FromBytes(addr)}
	return e
}

// charString decodes RFC 1035 s.5.1 escapes: \DDD and \X.
func charString(s string) ([]byte, bool) {
	out := []byte{}
	for i := 0; i < len(s); i++ {
		c := s[i]
		if c != '\\' {
			out = append(out, c)
			continue
		}
		if i+1 >= len(s) {
			return nil, false
		}
		if d := s[i+1]; d >= '0' && d <= '9' {
			if i+3 >= len(s) {
				return nil, false
			}
			v, err := strconv.Atoi(s[i+1 : i+4])
			if err != nil || v > 255 || s[i+2] < '0' || s[i+2] > '9' || s[i+3] < '0' || s[i+3] > '9' {
				return nil, false
			}
			out = append(out, byte(v))
			i += 3
		} else {
			out = append(out, d)
			i++
		}
	}
	return out, true
}

// valueList splits a decoded value at commas; inside it a backslash escapes a comma or a
// backslash (RFC 9460 appendix A.1).
func valueList(v []byte) ([][]byte, bool) {
	items := [][]byte{{}}
	for i := 0; i < len(v); i++ {
		switch {
		case v[i] == '\\':
			if i+1 >= len(v) {
				return nil, false
			}
			i++
			items[len(items)-1] = append(items[len(items)-1], v[i])
		case v[i] == ',':
			items = append(items, []byte{})
		default:
			items[len(items)-1] = append(items[len(items)-1], v[i])
		}
	}
	for _, it := range items {
		if len(it) == 0 {
			return nil, false
		}
	}
	return items, true
}

// svcParam decodes one SvcParam item:  key | key=value | key="value".
func svcParam(tok string, keys map[string]int) hkEntry {
	e := hkEntry{T: hx.FromString(tok), V: map[string]interface{}{"key": -1, "f": map[string]interface{}{}}}
	name, val, hasVal := strings.Cut(tok, "=")
	key, ok := keys[name]
	if !ok {
		if !strings.HasPrefix(name, "key") || len(name) < 4 || (name[3] == '0' && len(name) > 4) {
			return e
		}
		n, err := strconv.ParseUint(name[3:], 10, 16)
		if err != nil {
			return e
		}
		key = int(n)
	}
	if hasVal && len(val) >= 2 && val[0] == '"' && val[len(val)-1] == '"' {
		val = val[1 : len(val)-1]
	} else if strings.Contains(val, "\"") {
		return e
	}
	raw, ok := charString(val)
	if !ok {
		return e
	}
	f := map[string]interface{}{}
	fail := func() hkEntry { return e }
	switch key {
	case 0: // mandatory: key names, sorted on the wire (RFC 9460 s.8)
		var codes []int
		for _, n := range strings.Split(string(raw), ",") {
			c, ok := keys[n]
			if !ok {
				if !strings.HasPrefix(n, "key") {
					return fail()
				}
				u, err := strconv.ParseUint(n[3:], 10, 16)
				if err != nil {
					return fail()
				}
				c = int(u)
			}
			codes = append(codes, c)
		}
		sort.Ints(codes)
		f["Code"] = codes
	case 1: // alpn
		ids, ok := valueList(raw)
		if !ok {
			return fail()
		}
		out := make([]hx.B, len(ids))
		for i, id := range ids {
			if len(id) > 255 {
				return fail()
			}
			out[i] = hx.FromBytes(id)
		}
		f["Alpn"] = out
	case 2, 8: // no-default-alpn, ohttp: no value
		if len(raw) != 0 {
			return fail()
		}
	case 3:
		p, err := strconv.ParseUint(string(raw), 10, 16)
		if err != nil {
			return fail()
		}
		f["Port"] = int(p)
	case 4, 6:
		var out []hx.B
		for _, s := range strings.Split(string(raw), ",") {
			a, err := netip.ParseAddr(s)
			if err != nil || a.Zone() != "" || (key == 4) != a.Is4() {
				return fail()
			}
			out = append(out, hx.FromBytes(a.AsSlice()))
		}
		f["Hint"] = out
	case 5:
		b, err := base64.StdEncoding.DecodeString(string(raw))
		if err != nil {
			return fail()
		}
		f["ECH"] = hx.FromBytes(b)
	case 7:
		f["Template"] = hx.FromBytes(raw)
	default:
		f["Data"] = hx.FromBytes(raw)
	}
	e.Ok = true
	e.V = map[string]interface{}{"key": key, "f": f}
	return e
}

// decodeHk walks the items of a record text along the specification's PresKind table and
// decodes the exotic ones.  Text that does not have the expected shape yields fewer entries;
// the specification then refuses the event.
func decodeHk(text string) []hkEntry {
	hk := []hkEntry{}
	items := splitItems(text)
	if len(items) < 5 || items[4] == "\\#" {
		return hk
	}
	t, ok := typeCode(items[3])
	if !ok {
		return hk
	}
	ps, ok := P.byType[t]
	if !ok {
		return hk
	}
	rd := items[4:]
	j := 0
	sel := map[string]int{}
	for _, p := range ps {
		if j >= len(rd) && !P.rest[p.P] {
			break
		}
		switch p.P {
		case "aaaa":
			hk = append(hk, v6(rd[j]))
		case "time":
			if len(rd[j]) == 14 {
				hk = append(hk, sigTime(rd[j]))
			}
		case "gateway":
			if sel[p.Of] == 2 {
				hk = append(hk, v6(rd[j]))
			}
		case "loc":
			hk = append(hk, loc(rd[j:]))
		case "apl":
			for _, it := range rd[j:] {
				hk = append(hk, aplItem(it))
			}
		case "svcb":
			for _, it := range rd[j:] {
				hk = append(hk, svcParam(it, P.svckeys))
			}
		case "u8":
			if n, err := strconv.Atoi(rd[j]); err == nil {
				sel[p.N] = n
			}
		}
		j++
	}
	return hk
}

// typeCode: the type a header item names, by the SPECIFICATION's table (exported), or TYPEnnn.
func typeCode(s string) (int, bool) {
	u := strings.ToUpper(s)
	if c, ok := P.types[u]; ok {
		return c, true
	}
	if strings.HasPrefix(u, "TYPE") {
		n, err := strconv.ParseUint(u[4:], 10, 16)
		return int(n), err == nil
	}
	return 0, false
}

var _ = fmt.Sprint
