// Command present binds spec/PresentRR.tla to the real String() / NewRR pair (property C05).
//
//	present replay <layout> <pres> <vectors> <events.ndjson>   TLC vectors (Gen_PresentRR "c01" / "nasty") -> for each record with a
//	                                                           presentation format, from both origins (built from the abstract value /
//	                                                           unpacked from the spec's octets): String(), NewRR(text), header and
//	                                                           PackRR octets compared; the record re-rendered in RFC 3597 generic form
//	                                                           must parse to the spec's octets; every text goes to <events> for TLC
//	present codes  <layout> <pres> <vectors>                   type / class code points: TYPEnnn / CLASSnnn / mnemonic / the library's own
//	                                                           spelling, with generic RDATA -> NewRR -> PackRR = spec octets
//	present record <layout> <pres> <events.ndjson> <n>         zoo records + n random records -> same round trip, events for TLC
//	present reexec <layout> <pres> <events-in> <events-out>    re-run the records of events (confirmation / replay of a finding)
//	present regreplay | regrecord | regreexec ...              the same while the registry of type mnemonics changes: reg.go
//
// Events (Trace_PresentRR): {key, origin, text, wire, hk}: text = the real String(), wire = the real PackRR of the same record
// (trusted through C01), hk = the exotic items decoded with the standard library (decode.go).  TLC lexes the text with the
// specification's lexer and reads the record with the specification's reader.
//
// Finding keys: present/<stage>:<TYPE>[:<field>-<value class>].
package main

import (
	"bytes"
	"crypto/sha1"
	"encoding/hex"
	"fmt"
	"os"
	"sort"
	"strconv"
	"strings"

	"github.com/miekg/dns"

	"verifharness/lib/hx"
	"verifharness/lib/wire"
	"verifharness/lib/zoo"
)

// ---------------------------------------------------------------- the specification's presentation table (exported by Gen_PresentRR "pres")

type presItem struct {
	N  string `json:"n"`
	P  string `json:"p"`
	Of string `json:"of,omitempty"`
}
type pair struct {
	M hx.B `json:"m"`
	C int  `json:"c"`
}
type presTable struct {
	Pres []struct {
		T     int        `json:"t"`
		Items []presItem `json:"items"`
	} `json:"pres"`
	Nopres    []int    `json:"nopres"`
	Restkinds []string `json:"restkinds"`
	Types     []pair   `json:"types"`
	Classes   []pair   `json:"classes"`
	Svckeys   []pair   `json:"svckeys"`
	Certtypes []pair   `json:"certtypes"`

	byType    map[int][]presItem
	nopres    map[int]bool
	rest      map[string]bool
	types     map[string]int
	svckeys   map[string]int
	certtypes map[int]bool
}

var (
	L *wire.Layout
	P *presTable
)

func loadPres(path string) *presTable {
	var p *presTable
	hx.ReadNDJSON(path, func(i int, v *presTable) { p = v })
	if p == nil || len(p.Pres) == 0 {
		hx.Die("%s holds no presentation table", path)
	}
	p.byType, p.nopres, p.rest, p.types, p.svckeys = map[int][]presItem{}, map[int]bool{}, map[string]bool{}, map[string]int{}, map[string]int{}
	for _, e := range p.Pres {
		p.byType[e.T] = e.Items
	}
	for _, t := range p.Nopres {
		p.nopres[t] = true
	}
	for _, k := range p.Restkinds {
		p.rest[k] = true
	}
	for _, e := range p.Types {
		p.types[e.M.String()] = e.C
	}
	for _, e := range p.Svckeys {
		p.svckeys[e.M.String()] = e.C
	}
	p.certtypes = map[int]bool{}
	for _, e := range p.Certtypes {
		p.certtypes[e.C] = true
	}
	return p
}

func main() {
	if len(os.Args) < 5 {
		hx.Die("usage: present replay|codes|record|reexec|regreplay|regrecord|regreexec <layout> <pres> <file> ...")
	}
	L = wire.LoadLayout(os.Args[2])
	P = loadPres(os.Args[3])
	switch os.Args[1] {
	case "replay":
		replay(os.Args[4], os.Args[5])
	case "codes":
		codes(os.Args[4])
	case "record":
		n, _ := strconv.Atoi(os.Args[5])
		record(os.Args[4], n)
	case "reexec":
		reexec(os.Args[4], os.Args[5])
	case "regreplay":
		if len(os.Args) < 8 {
			hx.Die("usage: present regreplay <layout> <pres> <probes> <states> <behaviours> <events>")
		}
		regreplay(os.Args[4], os.Args[5], os.Args[6], os.Args[7])
	case "regrecord":
		n, _ := strconv.Atoi(os.Args[5])
		regrecord(os.Args[4], n)
	case "regreexec":
		regreexec(os.Args[4], os.Args[5])
	default:
		hx.Die("unknown mode %s", os.Args[1])
	}
}

// ---------------------------------------------------------------- events

// src says how to make the record again (reexec).
type src struct {
	Origin string   `json:"origin"`         // build | unpack | generic | zoo | random
	A      *wire.RR `json:"a,omitempty"`    // build / random: the abstract record
	Seg    hx.B     `json:"seg,omitempty"`  // unpack: the octets it was unpacked from
	Text   hx.B     `json:"text,omitempty"` // zoo / generic: the text it was parsed from
	Segs   []hx.B   `json:"segs,omitempty"` // zone: the octets each record of the sequence was unpacked from
}

type event struct {
	Key      string       `json:"key"`  // TYPE[:class]
	Text     hx.B         `json:"text"` // the real String() (generic origin: the harness' RFC 3597 rendering)
	Wire     hx.B         `json:"wire"` // the real PackRR of the record (generic origin: the spec's octets)
	Hk       []hkEntry    `json:"hk"`
	Src      src          `json:"src"`
	Alpha    bool         `json:"alpha"`           // informational; the trace spec decides on its own
	Neg      bool         `json:"neg,omitempty"`   // negative probe: a generic rendering with a wrong stated length ...
	Accepted bool         `json:"accepted"`        // ... and whether NewRR accepted it
	Gomis    *hx.Mismatch `json:"gomis,omitempty"` // record mode: what the Go-side round trip saw; the driver reports it unless
	// the specification places the record outside the alphabet of its type (the harness does not know the alphabets)
	// a SEQUENCE of records (zone): text = the real String() of each record, one per line; wire = all the octets;
	Zone  bool        `json:"zone,omitempty"`
	Wires []hx.B      `json:"wires,omitempty"` // the real PackRR of each record, in order
	Hks   [][]hkEntry `json:"hks,omitempty"`   // the exotic items of each line
	Keys  []string    `json:"keys,omitempty"`  // the finding-key class of each record
}

const maxEventText = 4000 // longer texts are round-tripped but not lexed by TLC (quadratic)

// Quick tier: the "lengths" family (hundreds of long blobs) sends texts up to 1100 characters to TLC (512 octets in hex,
// 769 in base64: the first multiples of every word size), the thorough tier up to maxEventText; zones up to 1500 characters
// in both tiers (longer ones are read by the zone parser only).
const (
	quickLengthsText = 1100
	quickZoneText    = 1500
)

type run struct {
	sum   hx.Summary
	ride  bool // mismatches ride on the events instead of going to the summary
	last  *hx.Mismatch
	dup   map[[20]byte]bool
	w     *hx.Writer
	seen  map[[20]byte]bool
	ambig map[string]int
	stat  map[string]int
	limit int // 0, or this run's bound on the text of an event sent to TLC
}

func newRun(out string) *run {
	r := &run{seen: map[[20]byte]bool{}, dup: map[[20]byte]bool{}, ambig: map[string]int{}, stat: map[string]int{}}
	if out != "" {
		r.w = hx.NewWriter(out)
	}
	return r
}

func (r *run) finish() {
	if r.w != nil {
		r.w.Close()
		r.sum.Note("events", r.w.N)
	}
	r.sum.Nontrivial = len(r.seen)
	r.sum.Note("ambig_counts", r.ambig)
	r.sum.Note("stat", r.stat)
	r.sum.Print()
}

func (r *run) mis(alpha bool, key, what string, c interface{}) {
	if !alpha { // outside the alphabet the RFC of the type defines: AMBIG, counted, not reported
		r.ambig[key]++
		return
	}
	if r.ride {
		r.last = &hx.Mismatch{Key: key, What: what}
		return
	}
	r.sum.Mis(key, what, c)
}

func packRR(rr dns.RR) ([]byte, error) {
	buf := make([]byte, 70000)
	off, err := dns.PackRR(rr, buf, 0, nil, false)
	if err != nil {
		return nil, err
	}
	return buf[:off], nil
}

// where two packed records first differ
func diffPart(a, b []byte) string {
	d := 0
	for d < len(a) && d < len(b) && a[d] == b[d] {
		d++
	}
	// owner name ends at the first zero length octet (uncompressed)
	o := 0
	for o < len(a) && a[o] != 0 {
		o += int(a[o]) + 1
	}
	o++
	switch {
	case d < o:
		return "owner"
	case d < o+2:
		return "type"
	case d < o+4:
		return "class"
	case d < o+8:
		return "ttl"
	}
	return "rdata"
}

// roundTrip: the C05 clauses observable in Go.  Returns the text and the original's octets.
func (r *run) roundTrip(rr dns.RR, key string, alpha bool, s src, c interface{}) (text string, ow []byte, alone bool) {
	r.sum.Evaluations++
	if p := hx.Catch(func() { text = rr.String() }); p != "" {
		r.mis(alpha, "present/string-panic:"+key, "String() panics: "+p, c)
		return
	}
	ow, err := packRR(rr)
	if err != nil {
		r.stat["original-does-not-pack"]++ // C01's business
		return
	}
	alone = true // read alone, the text gives the record back (what a SEQUENCE adds is the zone stage's question)
	r.seen[sha1.Sum([]byte(text))] = true
	var rr2 dns.RR
	var perr error
	if p := hx.Catch(func() { rr2, perr = dns.NewRR(text) }); p != "" {
		r.mis(alpha, "present/reparse-panic:"+key, "NewRR(String()) panics: "+p, c)
		alone = false
	} else if perr != nil || rr2 == nil {
		r.mis(alpha, "present/reparse-error:"+key, fmt.Sprintf("NewRR(%.300q): %v", text, perr), c)
		alone = false
	} else if w2, err := packRR(rr2); err != nil {
		r.mis(alpha, "present/reparse-pack-error:"+key, fmt.Sprintf("NewRR(%.300q) gives a record that does not pack: %v", text, err), c)
		alone = false
	} else if !bytes.Equal(ow, w2) {
		r.mis(alpha, "present/reparse-"+diffPart(ow, w2)+":"+key, fmt.Sprintf("text %.300q: original packs to %.200x, re-parsed to %.200x", text, ow, w2), c)
		alone = false
	}
	if r.last == nil && rr2 != nil && perr == nil {
		r.respelled(rr, text, ow, key, alpha, c)
	}
	r.emit(event{Key: key, Text: hx.FromString(text), Wire: hx.FromBytes(ow), Hk: decodeHk(text), Src: s, Alpha: alpha, Gomis: r.last})
	r.last = nil
	return
}

// ---------------------------------------------------------------- sequences of records (a zone)

// zent: one record of a sequence: it was unpacked from seg, prints as text, packs to ow, and text read ALONE gives it back.
type zent struct {
	seg  []byte
	text string
	ow   []byte
	key  string
}

const maxZoneRecords = 8

// zone: "the text produced by String() is accepted by the zone parser": the texts of a sequence of records, one per line,
// are a zone; the zone parser must give exactly these records, in order (octets of each = the original's).  Every text of
// the sequence has been read back alone before, so a failure here is about what FOLLOWS or PRECEDES a record.  Two texts:
// every line ended by a line break, and the last line not ended.  Key = the record the parser was at when it went wrong.
func (r *run) zone(es []zent, alpha bool, c interface{}) {
	if len(es) < 2 {
		return
	}
	if len(es) > maxZoneRecords {
		es = es[:maxZoneRecords]
	}
	lines := make([]string, len(es))
	for i, e := range es {
		lines[i] = e.text
	}
	full := strings.Join(lines, "\n") + "\n"
	for v, text := range []string{full, strings.TrimSuffix(full, "\n")} {
		r.sum.Evaluations++
		var got []dns.RR
		var zerr error
		if p := hx.Catch(func() {
			zp := dns.NewZoneParser(strings.NewReader(text), "", "")
			for rr, ok := zp.Next(); ok && len(got) < len(es)+4; rr, ok = zp.Next() {
				got = append(got, rr)
			}
			zerr = zp.Err()
		}); p != "" {
			r.mis(alpha, "present/zone-panic:"+es[min(len(got), len(es)-1)].key, fmt.Sprintf("the zone parser panics on %.400q: %s", text, p), c)
			break
		}
		bad := false
		for i, e := range es {
			if i >= len(got) {
				if zerr != nil {
					r.mis(alpha, "present/zone-error:"+e.key, fmt.Sprintf("zone text %.400q (the String() of %d records, each read back alone): record %d: %v", text, len(es), i+1, zerr), c)
				} else {
					r.mis(alpha, "present/zone-missing:"+e.key, fmt.Sprintf("zone text %.400q (the String() of %d records): the zone parser gives %d records", text, len(es), len(got)), c)
				}
				bad = true
				break
			}
			w, err := packRR(got[i])
			if err != nil {
				r.mis(alpha, "present/zone-pack-error:"+e.key, fmt.Sprintf("zone text %.400q: record %d does not pack: %v", text, i+1, err), c)
				bad = true
				break
			}
			if !bytes.Equal(w, e.ow) {
				r.mis(alpha, "present/zone-"+diffPart(e.ow, w)+":"+e.key, fmt.Sprintf("zone text %.400q: record %d packs to %.200x, the original to %.200x", text, i+1, w, e.ow), c)
				bad = true
				break
			}
		}
		if !bad && (len(got) > len(es) || zerr != nil) {
			r.mis(alpha, "present/zone-extra:"+es[len(es)-1].key, fmt.Sprintf("zone text %.400q (the String() of %d records): the zone parser gives %d records, error %v", text, len(es), len(got), zerr), c)
			bad = true
		}
		if bad || v == 1 {
			break
		}
	}
	// the specification reads the zone (Trace_PresentRR, zone events): as many entries as records, entry i is record i
	ev := event{Key: es[0].key, Zone: true, Text: hx.FromString(full), Hk: []hkEntry{}, Alpha: alpha, Gomis: r.last, Src: src{Origin: "zone"}}
	r.last = nil
	var all []byte
	for _, e := range es {
		ev.Wires = append(ev.Wires, hx.FromBytes(e.ow))
		ev.Hks = append(ev.Hks, decodeHk(e.text))
		ev.Keys = append(ev.Keys, e.key)
		ev.Src.Segs = append(ev.Src.Segs, hx.FromBytes(e.seg))
		all = append(all, e.ow...)
	}
	ev.Wire = hx.FromBytes(all)
	r.emit(ev)
}

// rezone: a zone event again (reexec): the records unpacked from the octets they were unpacked from.
func (r *run) rezone(e *event) {
	var es []zent
	for i, seg := range e.Src.Segs {
		rr, _, err := dns.UnpackRR(seg.Bytes(), 0)
		if err != nil {
			hx.Die("reexec: %v", err)
		}
		var text string
		if p := hx.Catch(func() { text = rr.String() }); p != "" {
			hx.Die("reexec: String() panics: %s", p)
		}
		ow, err := packRR(rr)
		if err != nil {
			hx.Die("reexec: %v", err)
		}
		key := e.Key
		if i < len(e.Keys) {
			key = e.Keys[i]
		}
		es = append(es, zent{seg: seg.Bytes(), text: text, ow: ow, key: key})
	}
	r.zone(es, e.Alpha, e)
}

// respelled: "type and class may be written as mnemonic or TYPEnnn / CLASSnnn": the same text with the type (and then
// also the class) respelled numerically must give the same record -- the typed RDATA under a TYPEnnn-spelled type.
func (r *run) respelled(rr dns.RR, text string, ow []byte, key string, alpha bool, c interface{}) {
	parts := strings.SplitN(text, "\t", 5)
	if len(parts) != 5 {
		return
	}
	h := rr.Header()
	for v := 0; v < 2; v++ {
		p := append([]string(nil), parts...)
		p[3] = fmt.Sprintf("TYPE%d", h.Rrtype)
		if v == 1 {
			p[2] = fmt.Sprintf("CLASS%d", h.Class)
			p[3] = strings.ToLower(p[3])
		}
		t2 := strings.Join(p, "\t")
		if t2 == text {
			continue
		}
		r.sum.Evaluations++
		var rr2 dns.RR
		var err error
		if pn := hx.Catch(func() { rr2, err = dns.NewRR(t2) }); pn != "" {
			r.mis(alpha, "present/numeric-header-panic:"+key, "NewRR panics on the text with TYPEnnn: "+pn, c)
		} else if err != nil || rr2 == nil {
			r.mis(alpha, "present/numeric-header-error:"+key, fmt.Sprintf("NewRR(%.300q) (String() with the type respelled TYPEnnn): %v", t2, err), c)
		} else if w2, err := packRR(rr2); err != nil {
			r.mis(alpha, "present/numeric-header-pack-error:"+key, fmt.Sprintf("NewRR(%.300q) gives a record that does not pack: %v", t2, err), c)
		} else if !bytes.Equal(ow, w2) {
			r.mis(alpha, "present/numeric-header-"+diffPart(ow, w2)+":"+key, fmt.Sprintf("text %.300q: original packs to %.200x, this text to %.200x", t2, ow, w2), c)
		}
		if r.last != nil {
			return
		}
	}
}

func (r *run) emit(e event) {
	if r.w == nil {
		return
	}
	limit := maxEventText
	if r.limit > 0 && !hx.Thorough() {
		limit = r.limit
	}
	if e.Zone && limit > quickZoneText { // both tiers: the thorough tier records thousands of random zones
		limit = quickZoneText
	}
	if len(e.Text) > limit {
		r.stat["text-too-long-for-tlc"]++
		if e.Gomis != nil { // nobody else will report it
			r.sum.Mis(e.Gomis.Key, e.Gomis.What, e.Src)
		}
		return
	}
	// the same text for the same octets (both origins usually agree) is judged once
	h := sha1.Sum(append(append(e.Text.Bytes(), 0xff, 0x00, 0xff), e.Wire.Bytes()...))
	if r.dup[h] && e.Gomis == nil {
		r.stat["events-deduplicated"]++
		return
	}
	r.dup[h] = true
	r.w.Emit(e)
}

// generic renders a record in RFC 3597 s.5 form from the specification's octets and header values.
func genericText(a *wire.RR, rd []byte) string {
	ttl := uint32(0)
	for _, b := range a.Ttl {
		ttl = ttl<<8 | uint32(b)
	}
	ls := make([][]byte, len(a.Name))
	for i, l := range a.Name {
		ls[i] = l.Bytes()
	}
	s := fmt.Sprintf("%s\t%d\tCLASS%d\tTYPE%d\t\\# %d", wire.PresentName(ls), ttl, a.Class, a.Type, len(rd))
	if len(rd) > 0 {
		s += " " + hex.EncodeToString(rd)
	}
	return s
}

func (r *run) generic(a *wire.RR, seg []byte, key string, c interface{}) {
	own := 1
	for _, l := range a.Name {
		own += 1 + len(l)
	}
	rd := seg[own+10:]
	text := genericText(a, rd)
	// "with the same result": the same as reading these octets from the wire.  (Whether THAT is lossless is C01's
	// question; its known defects -- ISDN, NXT, CAA / URI escapes -- are not reported a second time here.)
	u, _, uerr := dns.UnpackRR(seg, 0)
	var want []byte
	if uerr == nil {
		want, uerr = packRR(u)
	}
	if uerr != nil {
		r.stat["generic:octets-do-not-unpack-or-repack:"+key]++
	}
	r.sum.Evaluations++
	var rr dns.RR
	var err error
	if p := hx.Catch(func() { rr, err = dns.NewRR(text) }); p != "" {
		r.sum.Mis("present/generic-panic:"+key, "NewRR of the RFC 3597 form panics: "+p, c)
		return
	}
	if uerr == nil {
		if err != nil || rr == nil {
			r.sum.Mis("present/generic-error:"+key, fmt.Sprintf("NewRR(%.300q): %v", text, err), c)
		} else if w, err := packRR(rr); err != nil {
			r.sum.Mis("present/generic-pack-error:"+key, fmt.Sprintf("NewRR(%.300q) gives a record that does not pack: %v", text, err), c)
		} else if !bytes.Equal(w, want) {
			r.sum.Mis("present/generic-"+diffPart(want, w)+":"+key, fmt.Sprintf("text %.300q packs to %.200x, the same octets unpacked pack to %.200x", text, w, want), c)
		}
	}
	// the same hex cut into words wherever it spells a type / class mnemonic of the specification's tables (RFC 3597 s.5:
	// white space may separate the hex words), lower and upper case: `\\# 2 aaaa`, `\\# 5 a aaaa a caa 0`
	if uerr == nil && len(rd) > 0 && len(rd) <= 40 {
		for _, up := range []bool{false, true} {
			t2 := genericText(a, nil)
			t2 = strings.Replace(t2, "\\# 0", fmt.Sprintf("\\# %d %s", len(rd), mnemonicWords(hex.EncodeToString(rd), up)), 1)
			if t2 == text {
				continue
			}
			r.sum.Evaluations++
			var rr2 dns.RR
			var err2 error
			if p := hx.Catch(func() { rr2, err2 = dns.NewRR(t2) }); p != "" {
				r.sum.Mis("present/generic-panic:"+key, "NewRR of the RFC 3597 form panics: "+p, c)
			} else if err2 != nil || rr2 == nil {
				r.sum.Mis("present/generic-words-error:"+key, fmt.Sprintf("NewRR(%.300q): %v", t2, err2), c)
			} else if w, err := packRR(rr2); err != nil || !bytes.Equal(w, want) {
				r.sum.Mis("present/generic-words-rdata:"+key, fmt.Sprintf("text %.300q packs to %.200x (%v), the same octets unpacked pack to %.200x", t2, w, err, want), c)
			}
		}
	}
	// negative probes (a tenth of the records): the stated length one too large / one too small must be refused
	if h := sha1.Sum([]byte(text)); h[1]%10 == 0 && len(rd) > 0 {
		for _, n := range []int{len(rd) + 1, len(rd) - 1} {
			bad := strings.Replace(text, fmt.Sprintf("\\# %d", len(rd)), fmt.Sprintf("\\# %d", n), 1)
			var rr2 dns.RR
			var err2 error
			hx.Catch(func() { rr2, err2 = dns.NewRR(bad) })
			r.sum.Evaluations++
			r.emit(event{Key: key, Text: hx.FromString(bad), Wire: hx.FromBytes(seg), Hk: []hkEntry{}, Neg: true, Accepted: err2 == nil && rr2 != nil,
				Src: src{Origin: "generic-neg", Text: hx.FromString(bad)}, Alpha: true})
		}
	}
	// the specification reads the harness' rendering: must denote the spec's octets (a failure is a harness / spec bug).
	// Quick tier: a deterministic fifth of them.
	if !hx.Thorough() && sha1.Sum([]byte(text))[0]%5 != 0 {
		return
	}
	r.emit(event{Key: key, Text: hx.FromString(text), Wire: hx.FromBytes(seg), Hk: []hkEntry{}, Src: src{Origin: "generic", Text: hx.FromString(text)}, Alpha: true})
}

// mnemonicWords cuts a hex string into words so that every occurrence of a type or class mnemonic (specification tables)
// stands alone as a word.
func mnemonicWords(h string, upper bool) string {
	var words []string
	cur := ""
	for i := 0; i < len(h); {
		best := ""
		for m := range P.types {
			if len(m) > len(best) && len(h)-i >= len(m) && strings.EqualFold(h[i:i+len(m)], m) {
				best = m
			}
		}
		for _, e := range P.Classes {
			m := e.M.String()
			if len(m) > len(best) && len(h)-i >= len(m) && strings.EqualFold(h[i:i+len(m)], m) {
				best = m
			}
		}
		if best == "" {
			cur += h[i : i+1]
			i++
			continue
		}
		if cur != "" {
			words = append(words, cur)
			cur = ""
		}
		words = append(words, h[i:i+len(best)])
		i += len(best)
	}
	if cur != "" {
		words = append(words, cur)
	}
	out := strings.Join(words, " ")
	if upper {
		out = strings.ToUpper(out)
	}
	return out
}

// ---------------------------------------------------------------- replay

type vec struct {
	G     string   `json:"g"`
	V     []int    `json:"v"`
	Msg   wire.Msg `json:"msg"`
	Ok    bool     `json:"ok"`
	Bytes hx.B     `json:"bytes"`
	Rroff []int    `json:"rroff"`
	Alpha []bool   `json:"alpha"`
	Canon []bool   `json:"canon"`
}

func small(v *vec) interface{} {
	if len(v.Bytes) > 4096 {
		return map[string]interface{}{"g": v.G, "v": v.V, "big": true}
	}
	return v
}

func replay(path, out string) {
	r := newRun(out)
	hx.ReadNDJSON(path, func(i int, v *vec) {
		if !v.Ok {
			return
		}
		rrs := v.Msg.RRs()
		if len(v.Rroff) != len(rrs)+1 || len(v.Alpha) != len(rrs) {
			hx.Die("vector %s %v: %d offsets, %d alpha flags for %d records", v.G, v.V, len(v.Rroff), len(v.Alpha), len(rrs))
		}
		exp := v.Bytes.Bytes()
		r.limit = 0
		if v.G == "lengths" {
			r.limit = quickLengthsText
		}
		var seq []zent
		for k, a := range rrs {
			if a.Nodata || a.Type == int(dns.TypeOPT) {
				continue
			}
			if skipC01(a, r) {
				continue
			}
			seg := exp[v.Rroff[k]:v.Rroff[k+1]]
			key := keyOf(a)
			if i%97 == 0 {
				r.sum.Sample(map[string]interface{}{"g": v.G, "v": v.V, "key": key})
			}
			// any type may be written in the generic form
			r.generic(a, seg, key, small(v))
			if P.nopres[a.Type] {
				r.stat["no-presentation-format"]++
				continue
			}
			alpha := v.Alpha[k]
			// (i) built from the abstract value
			if len(v.Canon) == len(rrs) && !v.Canon[k] {
				// neither text nor the wire yields this value (APL address with host bits): the statement is about
				// records that came from one of the two; the unpacked twin below is exercised
				r.stat["build-origin-skipped:value-no-text-or-wire-produces"]++
			} else if L.Inexpressible(a) == "" {
				rr, err := L.BuildRR(a)
				if err != nil {
					hx.Die("vector %s %v: %v", v.G, v.V, err)
				}
				r.roundTrip(rr, key, alpha, src{Origin: "build", A: a}, small(v))
			}
			// (ii) unpacked from the specification's octets
			rr, _, err := dns.UnpackRR(seg, 0)
			if err != nil {
				r.stat["spec-octets-do-not-unpack:"+key]++ // C01's business
				continue
			}
			if text, ow, alone := r.roundTrip(rr, key, alpha, src{Origin: "unpack", Seg: hx.FromBytes(seg)}, small(v)); alone && alpha {
				seq = append(seq, zent{seg: seg, text: text, ow: ow, key: key})
			}
		}
		// the records of one vector, in the vector's order, as a zone
		r.zone(seq, true, small(v))
	})
	registry(&r.sum)
	r.finish()
}

// skipC01: records on which PackRR / UnpackRR are known not to be the wire format would be skipped here (C05 trusts the
// packer through C01).  None at present: the AMTRELAY discovery-bit defect was repaired in /repo (c2f3ab8).
func skipC01(a *wire.RR, r *run) bool { return false }

// registry compares the library's mnemonic registry with the specification's table (reported, never an oracle).
func registry(sum *hx.Summary) {
	var libOnly, specOnly []string
	for t, m := range dns.TypeToString {
		if int(t) == wire.PrivType {
			continue
		}
		if c, ok := P.types[strings.ToUpper(m)]; !ok || c != int(t) {
			libOnly = append(libOnly, fmt.Sprintf("%s=%d", m, t))
		}
	}
	for _, e := range P.Types {
		if m, ok := dns.TypeToString[uint16(e.C)]; !ok || strings.ToUpper(m) != e.M.String() {
			specOnly = append(specOnly, fmt.Sprintf("%s=%d", e.M.String(), e.C))
		}
	}
	sort.Strings(libOnly)
	sort.Strings(specOnly)
	sum.Note("library_mnemonics_not_in_spec_table", libOnly)
	sum.Note("spec_mnemonics_not_in_library", specOnly)
	var missing []string
	for t := range dns.TypeToRR {
		if _, ok := P.byType[int(t)]; !ok && !P.nopres[int(t)] && int(t) != wire.PrivType {
			missing = append(missing, dns.Type(t).String())
		}
	}
	sort.Strings(missing)
	sum.Note("registry_types_without_preskind", missing)
}

// ---------------------------------------------------------------- value classes (finding keys)

func strClass(b []byte) string {
	if len(b) == 0 {
		return "empty"
	}
	has := func(set string) bool { return bytes.ContainsAny(b, set) }
	switch {
	case has(" \t\n\r"):
		return "blank"
	case has(";()"):
		return "special"
	case has("\"\\"):
		return "escape"
	}
	for _, c := range b {
		if c < 0x20 || c > 0x7e {
			return "binary"
		}
	}
	if len(b) >= 255 {
		return "long"
	}
	return ""
}

func anyBytes(v interface{}) (out []byte) {
	defer func() { recover() }()
	for _, x := range v.([]interface{}) {
		out = append(out, byte(x.(float64)))
	}
	return out
}

func anySeq(v interface{}) []interface{} {
	s, _ := v.([]interface{})
	return s
}

// reservedTypeCode: the record holds type code 0 or 65535 in a type-valued field (bitmap, type covered).  The class is
// about the code, not about the record type it sits in, so the finding key carries no type (keyOf).
const reservedTypeCode = "reserved-type-code"

// gatewayV4Mapped: an IPSECKEY / AMTRELAY gateway of type 2 (IPv6) holding an IPv4-mapped address; both String() methods
// print it through net.IP.String(), one defect in two copies: no type in the key.
const gatewayV4Mapped = "gateway-ipv6-v4mapped"

// keyOf is the type + value-class part of a finding key.
func keyOf(a *wire.RR) string {
	c := classify(a)
	switch c {
	case "":
		return L.Mnemonic(a.Type)
	case reservedTypeCode, gatewayV4Mapped:
		return c
	}
	return L.Mnemonic(a.Type) + ":" + c
}

// classify names the field of the record whose value needs most care in text (finding keys): unprintable type codes
// first, then lengths the text leaves implicit, then strings by the characters they hold, in layout order.
func classify(a *wire.RR) string {
	best, bestPrio := "", 99
	put := func(prio int, field, c string) {
		if c != "" && prio < bestPrio {
			best, bestPrio = field+"-"+c, prio
			if field == "" {
				best = c
			}
		}
	}
	v4mapped := func(b []byte) bool {
		return len(b) == 16 && bytes.Equal(b[:12], []byte{0, 0, 0, 0, 0, 0, 0, 0, 0, 0, 0xff, 0xff})
	}
	labelClass := func(ls []interface{}) string {
		for _, l := range ls {
			if _, isNum := l.(float64); isNum { // an address, not a name
				return ""
			}
			b := anyBytes(l)
			if c := strClass(b); c != "" && c != "long" {
				return c
			}
			if bytes.ContainsAny(b, ".@'$") {
				return "special"
			}
		}
		return ""
	}
	for _, e := range L.FieldsOf(a.Type) {
		v := a.F[e.N]
		switch e.K {
		case "u16":
			if a.Type == 37 && e.N == "Type" && P.certtypes[int(v.(float64))] {
				put(6, e.N, strconv.Itoa(int(v.(float64))))
			}
			if e.N == "TypeCovered" {
				if t := int(v.(float64)); t == 0 || t == 65535 {
					put(1, "", reservedTypeCode)
				}
			}
		case "bitmap", "bitmap0":
			for _, t := range anySeq(v) {
				if t := int(t.(float64)); t == 0 || t == 65535 {
					put(1, "", reservedTypeCode)
				}
			}
		case "u32":
			if b := anyBytes(v); a.Type == 29 && len(b) == 4 && e.N == "Altitude" {
				if uint32(b[0])<<24|uint32(b[1])<<16|uint32(b[2])<<8|uint32(b[3]) < 10000000 {
					put(6, e.N, "below-origin") // printed with a minus sign
				}
			}
			if b := anyBytes(v); a.Type == 29 && len(b) == 4 && (e.N == "Latitude" || e.N == "Longitude") {
				if (uint32(b[0])<<24|uint32(b[1])<<16|uint32(b[2])<<8|uint32(b[3]))%1000 != 0 {
					put(7, "", "fractional-seconds")
				}
			}
		case "octet":
			if len(anyBytes(v)) > 255 {
				put(3, e.N, "longer-than-255")
			}
			put(10, e.N, strClass(anyBytes(v)))
		case "hex", "b32", "b64", "raw":
			if n := len(anyBytes(v)); n > 16383 { // text of one item beyond 32 K characters
				put(8, e.N, "longer-than-16383")
			}
			if n := len(anyBytes(v)); e.Sz != "" {
				if (a.Type == 55 && e.N == "Hit" || a.Type == 50 && e.N == "Salt") && n > 127 {
					put(3, e.N, "longer-than-127")
				}
				if a.Type == 50 && e.N == "NextDomain" && n != 20 {
					put(4, e.N, "length-not-20")
				}
			}
		case "str":
			put(10, e.N, strClass(anyBytes(v)))
		case "strs", "ostr":
			if len(anySeq(v)) > 64 {
				put(8, e.N, "more-than-64-strings")
			}
			for _, s := range anySeq(v) {
				put(10, e.N, strClass(anyBytes(s)))
			}
		case "name", "cname", "gateway":
			if e.K == "gateway" && v4mapped(anyBytes(v)) {
				put(5, "", gatewayV4Mapped)
			}
			put(10, e.N, labelClass(anySeq(v)))
		case "names":
			for _, n := range anySeq(v) {
				put(10, e.N, labelClass(anySeq(n)))
			}
		case "aaaa":
			if v4mapped(anyBytes(v)) {
				put(5, e.N, "v4mapped")
			}
		case "svcb":
			for _, p := range anySeq(v) {
				pm, _ := p.(map[string]interface{})
				f, _ := pm["f"].(map[string]interface{})
				k := int(pm["key"].(float64))
				for _, fv := range f {
					switch k {
					case 1:
						for _, id := range anySeq(fv) {
							if x := strClass(anyBytes(id)); x != "" {
								put(10, "", "alpn-"+x)
							} else if bytes.ContainsAny(anyBytes(id), ",") {
								put(10, "", "alpn-comma")
							}
						}
					case 6:
						for _, ip := range anySeq(fv) {
							if v4mapped(anyBytes(ip)) {
								put(5, "", "ipv6hint-v4mapped")
							}
						}
					case 0, 2, 3, 4, 5, 8:
					default:
						put(10, "", fmt.Sprintf("key%d-", k)+strClass(anyBytes(fv)))
					}
				}
			}
		}
	}
	if strings.HasSuffix(best, "-") { // keyNNN with a plain value
		return ""
	}
	return best
}

// ---------------------------------------------------------------- codes

type codeVec struct {
	G     string `json:"g"`
	V     []int  `json:"v"`
	K     string `json:"k"`
	Code  int    `json:"code"`
	Num   hx.B   `json:"num"`
	Mn    hx.B   `json:"mn"`
	Owner hx.B   `json:"owner"`
	Ttl   hx.B   `json:"ttl"`
	Ctext hx.B   `json:"ctext"`
	Ttext hx.B   `json:"ttext"`
	Known bool   `json:"known"`
	Rdata hx.B   `json:"rdata"`
	Wire  hx.B   `json:"wire"`
}

func codes(path string) {
	r := newRun("")
	hx.ReadNDJSON(path, func(i int, v *codeVec) {
		type form struct{ cls, tok string }
		forms := []form{{"numeric", v.Num.String()}, {"numeric-lowercase", strings.ToLower(v.Num.String())}}
		if len(v.Mn) > 0 {
			forms = append(forms, form{"mnemonic", v.Mn.String()}, form{"mnemonic-lowercase", strings.ToLower(v.Mn.String())})
		}
		lib := dns.Type(v.Code).String()
		if v.K == "class" {
			lib = dns.Class(v.Code).String()
		}
		if lib != v.Num.String() && lib != v.Mn.String() {
			forms = append(forms, form{"library-spelling", lib})
		}
		name := "unassigned"
		if len(v.Mn) > 0 {
			name = v.Mn.String()
		} else if lib != v.Num.String() {
			name = lib
		}
		failed := map[string]bool{}
		for _, f := range forms {
			if failed[strings.TrimSuffix(f.cls, "-lowercase")] {
				continue
			}
			cl, ty := v.Ctext.String(), v.Ttext.String()
			if v.K == "type" {
				ty = f.tok
			} else {
				cl = f.tok
			}
			text := fmt.Sprintf("%s %s %s %s \\# %d", v.Owner.String(), v.Ttl.String(), cl, ty, len(v.Rdata))
			if len(v.Rdata) > 0 {
				text += " " + hex.EncodeToString(v.Rdata.Bytes())
			}
			key := fmt.Sprintf("%s-%s:%s", v.K, f.cls, name)
			if f.cls == "library-spelling" && v.K == "type" && (v.Code == 0 || v.Code == 65535) {
				key = reservedTypeCode // the same defect as in bitmaps and type-covered fields
			}
			c := map[string]interface{}{"vec": v, "text": text}
			mis := func(k, what string) {
				failed[f.cls] = true
				r.sum.Mis(k, what, c)
			}
			r.sum.Evaluations++
			var rr dns.RR
			var err error
			if p := hx.Catch(func() { rr, err = dns.NewRR(text) }); p != "" {
				mis("present/code-panic:"+key, "NewRR panics: "+p)
				continue
			}
			if err != nil || rr == nil {
				mis("present/code-error:"+key, fmt.Sprintf("NewRR(%q): %v", text, err))
				continue
			}
			got := int(rr.Header().Rrtype)
			if v.K == "class" {
				got = int(rr.Header().Class)
			}
			if got != v.Code {
				mis("present/code-value:"+key, fmt.Sprintf("NewRR(%q) has %s %d", text, v.K, got))
				continue
			}
			w, err := packRR(rr)
			if err != nil {
				mis("present/code-pack-error:"+key, fmt.Sprintf("NewRR(%q) gives a record that does not pack: %v", text, err))
			} else if !bytes.Equal(w, v.Wire.Bytes()) {
				mis("present/code-"+diffPart(v.Wire.Bytes(), w)+":"+key, fmt.Sprintf("NewRR(%q) packs to %.200x, spec %.200x", text, w, v.Wire.Bytes()))
			}
			r.seen[sha1.Sum([]byte(text))] = true
		}
		if i%5003 == 0 {
			r.sum.Sample(map[string]interface{}{"k": v.K, "code": v.Code, "num": v.Num.String(), "mn": v.Mn.String()})
		}
	})
	r.finish()
}

// ---------------------------------------------------------------- record / reexec

func record(out string, n int) {
	r := newRun(out)
	r.ride = true
	rnd := hx.Rand()
	// the zoo, under every owner
	owners := zoo.Owners
	if !hx.Thorough() { // three of the eleven, rotating with the seed
		k := int(hx.Seed()) % len(owners)
		owners = []string{owners[k], owners[(k+4)%len(owners)], owners[(k+7)%len(owners)]}
	}
	for _, owner := range owners {
		for _, t := range zoo.Texts {
			text := strings.Replace(t, "OWNER", owner, 1)
			rr, err := dns.NewRR(text)
			if err != nil || rr == nil {
				// the zoo is data, not an oracle: on the pinned tree every text parses (notes.stat must not show this key)
				r.stat["zoo-text-does-not-parse"]++
				continue
			}
			if P.nopres[int(rr.Header().Rrtype)] {
				continue
			}
			r.roundTrip(rr, dns.Type(rr.Header().Rrtype).String(), true, src{Origin: "zoo", Text: hx.FromString(text)}, map[string]interface{}{"zoo": text})
		}
	}
	g := &gen{r: rnd}
	var seq []zent
	for i := 0; i < n; i++ {
		// sequences of 2..6 random records as a zone
		if len(seq) >= 2+i%5 {
			r.zone(seq, true, map[string]interface{}{"zone-of-random-records": len(seq)})
			seq = nil
		}
		a := wire.Normalize(g.record())
		if skipC01(a, r) {
			continue
		}
		key := keyOf(a)
		rr, err := L.BuildRR(a)
		if err != nil {
			hx.Die("random record: %v", err)
		}
		// the harness does not know the alphabets: TLC decides (events), the Go-side comparison of a random record is
		// reported only through the trace verdict, so pass alpha=true and let the driver drop what TLC marks AMBIG
		if rnd.Intn(2) == 0 {
			r.roundTrip(rr, key, true, src{Origin: "random", A: a}, map[string]interface{}{"random": a})
		} else if w, err := packRR(rr); err == nil {
			if u, _, err := dns.UnpackRR(w, 0); err == nil {
				if text, ow, alone := r.roundTrip(u, key, true, src{Origin: "unpack", Seg: hx.FromBytes(w)}, map[string]interface{}{"random": a}); alone {
					seq = append(seq, zent{seg: w, text: text, ow: ow, key: key})
				}
			}
		}
		if i < 3 {
			r.sum.Sample(a)
		}
	}
	r.finish()
}

func reexec(in, out string) {
	r := newRun(out)
	hx.ReadNDJSON(in, func(i int, e *event) {
		switch e.Src.Origin {
		case "build", "random":
			rr, err := L.BuildRR(e.Src.A)
			if err != nil {
				hx.Die("reexec: %v", err)
			}
			r.roundTrip(rr, e.Key, e.Alpha, e.Src, e)
		case "unpack":
			rr, _, err := dns.UnpackRR(e.Src.Seg.Bytes(), 0)
			if err != nil {
				hx.Die("reexec: %v", err)
			}
			r.roundTrip(rr, e.Key, e.Alpha, e.Src, e)
		case "zoo":
			rr, err := dns.NewRR(e.Src.Text.String())
			if err != nil || rr == nil {
				hx.Die("reexec: %v", err)
			}
			r.roundTrip(rr, e.Key, e.Alpha, e.Src, e)
		case "generic":
			r.emit(*e)
		case "zone":
			r.rezone(e)
		case "generic-neg":
			var rr2 dns.RR
			var err2 error
			hx.Catch(func() { rr2, err2 = dns.NewRR(e.Src.Text.String()) })
			e.Accepted = err2 == nil && rr2 != nil
			r.emit(*e)
		default:
			hx.Die("reexec: unknown origin %q", e.Src.Origin)
		}
	})
	r.finish()
}
