// Command present binds spec/PresentRR.tla to the real String() / NewRR pair (property C05).
//
//	present replay <layout> <pres> <vectors> <events.ndjson>   TLC vectors (Gen_PresentRR "c01" / "nasty") -> for each record with a
//	                                                           presentation format, from both origins (built from the abstract value /
//	                                                           unpacked from the spec's octets): String(), NewRR(text), header and
//	                                                           PackRR octets compared; the record re-rendered in RFC 3597 generic form
//	                                                           must parse to the spec's octets; every text goes to <events> for TLC
//	present codes  <layout> <pres> <vectors>                   type / class code points: TYPEnnn / CLASSnnn / mnemonic / the library's own
//	                                                           spelling, with generic RDATA -> NewRR -> PackRR = spec octets
//	present record <layout> <pres> <events.ndjson> <n>         zoo records + n random records -> same round trip, events for TLC
//	present reexec <layout> <pres> <events-in> <events-out>    re-run the records of events (confirmation / replay of a finding)
//
// Events (Trace_PresentRR): {key, origin, text, wire, hk}: text = the real String(), wire = the real PackRR of the same record
// (trusted through C01), hk = the exotic items decoded with the standard library (decode.go).  TLC lexes the text with the
// specification's lexer and reads the record with the specification's reader.
//
// Finding keys: present/<stage>:<TYPE>[:<field>-<value class>].
package main

import (
	"bytes"
	"crypto/sha1"
	"encoding/hex"
	"fmt"
	"os"
	"sort"
	"strconv"
	"strings"

	"github.com/miekg/dns"

	"verifharness/lib/hx"
	"verifharness/lib/wire"
	"verifharness/lib/zoo"
)

// ---------------------------------------------------------------- the specification's presentation table (exported by Gen_PresentRR "pres")

type presItem struct {
	N  string `json:"n"`
	P  string `json:"p"`
	Of string `json:"of,omitempty"`
}
type pair struct {
	M hx.B `json:"m"`
	C int  `json:"c"`
}
type presTable struct {
	Pres []struct {
		T     int        `json:"t"`
		Items []presItem `json:"items"`
	} `json:"pres"`
	Nopres    []int    `json:"nopres"`
	Restkinds []string `json:"restkinds"`
	Types     []pair   `json:"types"`
	Classes   []pair   `json:"classes"`
	Svckeys   []pair   `json:"svckeys"`

	byType  map[int][]presItem
	nopres  map[int]bool
	rest    map[string]bool
	types   map[string]int
	svckeys map[string]int
}

var (
	L *wire.Layout
	P *presTable
)

func loadPres(path string) *presTable {
	var p *presTable
	hx.ReadNDJSON(path, func(i int, v *presTable) { p = v })
	if p == nil || len(p.Pres) == 0 {
		hx.Die("%s holds no presentation table", path)
	}
	p.byType, p.nopres, p.rest, p.types, p.svckeys = map[int][]presItem{}, map[int]bool{}, map[string]bool{}, map[string]int{}, map[string]int{}
	for _, e := range p.Pres {
		p.byType[e.T] = e.Items
	}
	for _, t := range p.Nopres {
		p.nopres[t] = true
	}
	for _, k := range p.Restkinds {
		p.rest[k] = true
	}
	for _, e := range p.Types {
		p.types[e.M.String()] = e.C
	}
	for _, e := range p.Svckeys {
		p.svckeys[e.M.String()] = e.C
	}
	return p
}

func main() {
	if len(os.Args) < 5 {
		hx.Die("usage: present replay|codes|record|reexec <layout> <pres> <file> ...")
	}
	L = wire.LoadLayout(os.Args[2])
	P = loadPres(os.Args[3])
	wire.RegisterPrivate()
	switch os.Args[1] {
	case "replay":
		replay(os.Args[4], os.Args[5])
	case "codes":
		codes(os.Args[4])
	case "record":
		n, _ := strconv.Atoi(os.Args[5])
		record(os.Args[4], n)
	case "reexec":
		reexec(os.Args[4], os.Args[5])
	default:
		hx.Die("unknown mode %s", os.Args[1])
	}
}

// ---------------------------------------------------------------- events

// src says how to make the record again (reexec).
type src struct {
	Origin string   `json:"origin"`         // build | unpack | generic | zoo | random
	A      *wire.RR `json:"a,omitempty"`    // build / random: the abstract record
	Seg    hx.B     `json:"seg,omitempty"`  // unpack: the octets it was unpacked from
	Text   hx.B     `json:"text,omitempty"` // zoo / generic: the text it was parsed from
}

type event struct {
	Key   string    `json:"key"`   // TYPE[:class]
	Text  hx.B      `json:"text"`  // the real String() (generic origin: the harness' RFC 3597 rendering)
	Wire  hx.B      `json:"wire"`  // the real PackRR of the record (generic origin: the spec's octets)
	Hk    []hkEntry `json:"hk"`
	Src   src       `json:"src"`
	Alpha bool      `json:"alpha"` // informational; the trace spec decides on its own
}

const maxEventText = 4000 // longer texts are round-tripped but not lexed by TLC (quadratic)

type run struct {
	sum   hx.Summary
	w     *hx.Writer
	seen  map[[20]byte]bool
	ambig map[string]int
	stat  map[string]int
}

func newRun(out string) *run {
	r := &run{seen: map[[20]byte]bool{}, ambig: map[string]int{}, stat: map[string]int{}}
	if out != "" {
		r.w = hx.NewWriter(out)
	}
	return r
}

func (r *run) finish() {
	if r.w != nil {
		r.w.Close()
		r.sum.Note("events", r.w.N)
	}
	r.sum.Nontrivial = len(r.seen)
	r.sum.Note("ambig_counts", r.ambig)
	r.sum.Note("stat", r.stat)
	r.sum.Print()
}

func (r *run) mis(alpha bool, key, what string, c interface{}) {
	if !alpha { // outside the alphabet the RFC of the type defines: AMBIG, counted, not reported
		r.ambig[key]++
		return
	}
	r.sum.Mis(key, what, c)
}

func packRR(rr dns.RR) ([]byte, error) {
	buf := make([]byte, 70000)
	off, err := dns.PackRR(rr, buf, 0, nil, false)
	if err != nil {
		return nil, err
	}
	return buf[:off], nil
}

// where two packed records first differ
func diffPart(a, b []byte) string {
	d := 0
	for d < len(a) && d < len(b) && a[d] == b[d] {
		d++
	}
	// owner name ends at the first zero length octet (uncompressed)
	o := 0
	for o < len(a) && a[o] != 0 {
		o += int(a[o]) + 1
	}
	o++
	switch {
	case d < o:
		return "owner"
	case d < o+2:
		return "type"
	case d < o+4:
		return "class"
	case d < o+8:
		return "ttl"
	}
	return "rdata"
}

// roundTrip: the C05 clauses observable in Go.  Returns the text and the original's octets.
func (r *run) roundTrip(rr dns.RR, key string, alpha bool, s src, c interface{}) {
	r.sum.Evaluations++
	var text string
	if p := hx.Catch(func() { text = rr.String() }); p != "" {
		r.mis(alpha, "present/string-panic:"+key, "String() panics: "+p, c)
		return
	}
	ow, err := packRR(rr)
	if err != nil {
		r.stat["original-does-not-pack"]++ // C01's business
		return
	}
	r.seen[sha1.Sum([]byte(text))] = true
	var rr2 dns.RR
	var perr error
	if p := hx.Catch(func() { rr2, perr = dns.NewRR(text) }); p != "" {
		r.mis(alpha, "present/reparse-panic:"+key, "NewRR(String()) panics: "+p, c)
	} else if perr != nil || rr2 == nil {
		r.mis(alpha, "present/reparse-error:"+key, fmt.Sprintf("NewRR(%.300q): %v", text, perr), c)
	} else if w2, err := packRR(rr2); err != nil {
		r.mis(alpha, "present/reparse-pack-error:"+key, fmt.Sprintf("NewRR(%.300q) gives a record that does not pack: %v", text, err), c)
	} else if !bytes.Equal(ow, w2) {
		r.mis(alpha, "present/reparse-"+diffPart(ow, w2)+":"+key, fmt.Sprintf("text %.300q: original packs to %.200x, re-parsed to %.200x", text, ow, w2), c)
	}
	r.emit(event{Key: key, Text: hx.FromString(text), Wire: hx.FromBytes(ow), Hk: decodeHk(text), Src: s, Alpha: alpha})
}

func (r *run) emit(e event) {
	if r.w == nil {
		return
	}
	if len(e.Text) > maxEventText {
		r.stat["text-too-long-for-tlc"]++
		return
	}
	r.w.Emit(e)
}

// generic renders a record in RFC 3597 s.5 form from the specification's octets and header values.
func genericText(a *wire.RR, rd []byte) string {
	ttl := uint32(0)
	for _, b := range a.Ttl {
		ttl = ttl<<8 | uint32(b)
	}
	ls := make([][]byte, len(a.Name))
	for i, l := range a.Name {
		ls[i] = l.Bytes()
	}
	s := fmt.Sprintf("%s\t%d\tCLASS%d\tTYPE%d\t\\# %d", wire.PresentName(ls), ttl, a.Class, a.Type, len(rd))
	if len(rd) > 0 {
		s += " " + hex.EncodeToString(rd)
	}
	return s
}

func (r *run) generic(a *wire.RR, seg []byte, key string, c interface{}) {
	own := 1
	for _, l := range a.Name {
		own += 1 + len(l)
	}
	rd := seg[own+10:]
	text := genericText(a, rd)
	// "with the same result": the same as reading these octets from the wire.  (Whether THAT is lossless is C01's
	// question; its known defects -- ISDN, NXT, CAA / URI escapes -- are not reported a second time here.)
	u, _, uerr := dns.UnpackRR(seg, 0)
	var want []byte
	if uerr == nil {
		want, uerr = packRR(u)
	}
	if uerr != nil {
		r.stat["generic:octets-do-not-unpack-or-repack:"+key]++
	}
	r.sum.Evaluations++
	var rr dns.RR
	var err error
	if p := hx.Catch(func() { rr, err = dns.NewRR(text) }); p != "" {
		r.sum.Mis("present/generic-panic:"+key, "NewRR of the RFC 3597 form panics: "+p, c)
		return
	}
	if uerr == nil {
		if err != nil || rr == nil {
			r.sum.Mis("present/generic-error:"+key, fmt.Sprintf("NewRR(%.300q): %v", text, err), c)
		} else if w, err := packRR(rr); err != nil {
			r.sum.Mis("present/generic-pack-error:"+key, fmt.Sprintf("NewRR(%.300q) gives a record that does not pack: %v", text, err), c)
		} else if !bytes.Equal(w, want) {
			r.sum.Mis("present/generic-"+diffPart(want, w)+":"+key, fmt.Sprintf("text %.300q packs to %.200x, the same octets unpacked pack to %.200x", text, w, want), c)
		}
	}
	// the specification reads the harness' rendering: must denote the spec's octets (a failure is a harness / spec bug)
	r.emit(event{Key: key, Text: hx.FromString(text), Wire: hx.FromBytes(seg), Hk: []hkEntry{}, Src: src{Origin: "generic", Text: hx.FromString(text)}, Alpha: true})
}

// ---------------------------------------------------------------- replay

type vec struct {
	G     string   `json:"g"`
	V     []int    `json:"v"`
	Msg   wire.Msg `json:"msg"`
	Ok    bool     `json:"ok"`
	Bytes hx.B     `json:"bytes"`
	Rroff []int    `json:"rroff"`
	Alpha []bool   `json:"alpha"`
}

func small(v *vec) interface{} {
	if len(v.Bytes) > 4096 {
		return map[string]interface{}{"g": v.G, "v": v.V, "big": true}
	}
	return v
}

func replay(path, out string) {
	r := newRun(out)
	hx.ReadNDJSON(path, func(i int, v *vec) {
		if !v.Ok {
			return
		}
		rrs := v.Msg.RRs()
		if len(v.Rroff) != len(rrs)+1 || len(v.Alpha) != len(rrs) {
			hx.Die("vector %s %v: %d offsets, %d alpha flags for %d records", v.G, v.V, len(v.Rroff), len(v.Alpha), len(rrs))
		}
		exp := v.Bytes.Bytes()
		for k, a := range rrs {
			if a.Nodata || a.Type == int(dns.TypeOPT) {
				continue
			}
			seg := exp[v.Rroff[k]:v.Rroff[k+1]]
			key := L.Mnemonic(a.Type)
			if c := classify(a); c != "" {
				key += ":" + c
			}
			if i%97 == 0 {
				r.sum.Sample(map[string]interface{}{"g": v.G, "v": v.V, "key": key})
			}
			// any type may be written in the generic form
			r.generic(a, seg, key, small(v))
			if P.nopres[a.Type] {
				r.stat["no-presentation-format"]++
				continue
			}
			alpha := v.Alpha[k]
			// (i) built from the abstract value
			if L.Inexpressible(a) == "" {
				rr, err := L.BuildRR(a)
				if err != nil {
					hx.Die("vector %s %v: %v", v.G, v.V, err)
				}
				r.roundTrip(rr, key, alpha, src{Origin: "build", A: a}, small(v))
			}
			// (ii) unpacked from the specification's octets
			rr, _, err := dns.UnpackRR(seg, 0)
			if err != nil {
				r.stat["spec-octets-do-not-unpack:"+key]++ // C01's business
				continue
			}
			r.roundTrip(rr, key, alpha, src{Origin: "unpack", Seg: hx.FromBytes(seg)}, small(v))
		}
	})
	registry(&r.sum)
	r.finish()
}

// registry compares the library's mnemonic registry with the specification's table (reported, never an oracle).
func registry(sum *hx.Summary) {
	var libOnly, specOnly []string
	for t, m := range dns.TypeToString {
		if int(t) == wire.PrivType {
			continue
		}
		if c, ok := P.types[strings.ToUpper(m)]; !ok || c != int(t) {
			libOnly = append(libOnly, fmt.Sprintf("%s=%d", m, t))
		}
	}
	for _, e := range P.Types {
		if m, ok := dns.TypeToString[uint16(e.C)]; !ok || strings.ToUpper(m) != e.M.String() {
			specOnly = append(specOnly, fmt.Sprintf("%s=%d", e.M.String(), e.C))
		}
	}
	sort.Strings(libOnly)
	sort.Strings(specOnly)
	sum.Note("library_mnemonics_not_in_spec_table", libOnly)
	sum.Note("spec_mnemonics_not_in_library", specOnly)
	var missing []string
	for t := range dns.TypeToRR {
		if _, ok := P.byType[int(t)]; !ok && !P.nopres[int(t)] && int(t) != wire.PrivType {
			missing = append(missing, dns.Type(t).String())
		}
	}
	sort.Strings(missing)
	sum.Note("registry_types_without_preskind", missing)
}

// ---------------------------------------------------------------- value classes (finding keys)

func strClass(b []byte) string {
	if len(b) == 0 {
		return "empty"
	}
	has := func(set string) bool { return bytes.ContainsAny(b, set) }
	switch {
	case has(" \t\n\r"):
		return "blank"
	case has(";()"):
		return "special"
	case has("\"\\"):
		return "escape"
	}
	for _, c := range b {
		if c < 0x20 || c > 0x7e {
			return "binary"
		}
	}
	if len(b) >= 255 {
		return "long"
	}
	return ""
}

func anyBytes(v interface{}) (out []byte) {
	defer func() { recover() }()
	for _, x := range v.([]interface{}) {
		out = append(out, byte(x.(float64)))
	}
	return out
}

func anySeq(v interface{}) []interface{} {
	s, _ := v.([]interface{})
	return s
}

// classify names the first field of the record whose value needs care in text.
func classify(a *wire.RR) string {
	for _, e := range L.FieldsOf(a.Type) {
		v := a.F[e.N]
		c := ""
		switch e.K {
		case "u16":
			if e.N == "TypeCovered" {
				switch int(v.(float64)) {
				case 0:
					c = "type0"
				case 65535:
					c = "type65535"
				}
			}
		case "octet":
			if c = strClass(anyBytes(v)); len(anyBytes(v)) > 255 {
				c = "longer-than-255"
			}
		case "hex", "b32", "b64":
			if n := len(anyBytes(v)); e.Sz != "" {
				switch {
				case a.Type == 50 && e.N == "NextDomain" && n != 20:
					c = "length-not-20"
				case a.Type == 55 && e.N == "Hit" && n > 127:
					c = "longer-than-127"
				}
			}
		case "str":
			c = strClass(anyBytes(v))
		case "strs", "ostr":
			for _, s := range anySeq(v) {
				if c = strClass(anyBytes(s)); c != "" {
					break
				}
			}
			if e.K == "strs" && c == "" && len(anySeq(v)) > 1 {
				c = ""
			}
		case "name", "cname", "gateway":
			for _, l := range anySeq(v) {
				if _, isNum := l.(float64); isNum { // gateway address, not a name
					break
				}
				if c = strClass(anyBytes(l)); c != "" && c != "long" {
					break
				}
				if bytes.ContainsAny(anyBytes(l), ".@'$") {
					c = "special"
					break
				}
				c = ""
			}
		case "names":
			for _, n := range anySeq(v) {
				for _, l := range anySeq(n) {
					if c = strClass(anyBytes(l)); c != "" && c != "long" {
						break
					}
					c = ""
				}
				if c != "" {
					break
				}
			}
		case "bitmap", "bitmap0":
			for _, t := range anySeq(v) {
				switch int(t.(float64)) {
				case 0:
					c = "type0"
				case 65535:
					if c == "" {
						c = "type65535"
					}
				}
			}
		case "aaaa":
			b := anyBytes(v)
			if len(b) == 16 && bytes.Equal(b[:12], []byte{0, 0, 0, 0, 0, 0, 0, 0, 0, 0, 0xff, 0xff}) {
				c = "v4mapped"
			}
		case "svcb":
			for _, p := range anySeq(v) {
				pm, _ := p.(map[string]interface{})
				f, _ := pm["f"].(map[string]interface{})
				k := int(pm["key"].(float64))
				for _, fv := range f {
					switch k {
					case 1:
						for _, id := range anySeq(fv) {
							if x := strClass(anyBytes(id)); x != "" {
								c = "alpn-" + x
							} else if bytes.ContainsAny(anyBytes(id), ",") {
								c = "alpn-comma"
							}
						}
					case 6:
						for _, ip := range anySeq(fv) {
							b := anyBytes(ip)
							if len(b) == 16 && bytes.Equal(b[:12], []byte{0, 0, 0, 0, 0, 0, 0, 0, 0, 0, 0xff, 0xff}) {
								c = "ipv6hint-v4mapped"
							}
						}
					case 0, 2, 3, 4, 5, 8:
					default:
						if x := strClass(anyBytes(fv)); x != "" {
							c = fmt.Sprintf("key%d-%s", k, x)
						}
					}
				}
				if c != "" {
					break
				}
			}
		}
		if c != "" {
			if strings.Contains(c, "-") && e.K == "svcb" {
				return c
			}
			return e.N + "-" + c
		}
	}
	return ""
}

// ---------------------------------------------------------------- codes

type codeVec struct {
	G     string `json:"g"`
	V     []int  `json:"v"`
	K     string `json:"k"`
	Code  int    `json:"code"`
	Num   hx.B   `json:"num"`
	Mn    hx.B   `json:"mn"`
	Owner hx.B   `json:"owner"`
	Ttl   hx.B   `json:"ttl"`
	Ctext hx.B   `json:"ctext"`
	Ttext hx.B   `json:"ttext"`
	Known bool   `json:"known"`
	Rdata hx.B   `json:"rdata"`
	Wire  hx.B   `json:"wire"`
}

func codes(path string) {
	r := newRun("")
	hx.ReadNDJSON(path, func(i int, v *codeVec) {
		type form struct{ cls, tok string }
		forms := []form{{"numeric", v.Num.String()}, {"numeric-lowercase", strings.ToLower(v.Num.String())}}
		if len(v.Mn) > 0 {
			forms = append(forms, form{"mnemonic", v.Mn.String()}, form{"mnemonic-lowercase", strings.ToLower(v.Mn.String())})
		}
		lib := dns.Type(v.Code).String()
		if v.K == "class" {
			lib = dns.Class(v.Code).String()
		}
		if lib != v.Num.String() && lib != v.Mn.String() {
			forms = append(forms, form{"library-spelling", lib})
		}
		name := "unassigned"
		if len(v.Mn) > 0 {
			name = v.Mn.String()
		} else if lib != v.Num.String() {
			name = lib
		}
		for _, f := range forms {
			cl, ty := v.Ctext.String(), v.Ttext.String()
			if v.K == "type" {
				ty = f.tok
			} else {
				cl = f.tok
			}
			text := fmt.Sprintf("%s %s %s %s \\# %d", v.Owner.String(), v.Ttl.String(), cl, ty, len(v.Rdata))
			if len(v.Rdata) > 0 {
				text += " " + hex.EncodeToString(v.Rdata.Bytes())
			}
			key := fmt.Sprintf("%s-%s:%s", v.K, f.cls, name)
			c := map[string]interface{}{"vec": v, "text": text}
			r.sum.Evaluations++
			var rr dns.RR
			var err error
			if p := hx.Catch(func() { rr, err = dns.NewRR(text) }); p != "" {
				r.sum.Mis("present/code-panic:"+key, "NewRR panics: "+p, c)
				continue
			}
			if err != nil || rr == nil {
				r.sum.Mis("present/code-error:"+key, fmt.Sprintf("NewRR(%q): %v", text, err), c)
				continue
			}
			got := int(rr.Header().Rrtype)
			if v.K == "class" {
				got = int(rr.Header().Class)
			}
			if got != v.Code {
				r.sum.Mis("present/code-value:"+key, fmt.Sprintf("NewRR(%q) has %s %d", text, v.K, got), c)
				continue
			}
			w, err := packRR(rr)
			if err != nil {
				r.sum.Mis("present/code-pack-error:"+key, fmt.Sprintf("NewRR(%q) gives a record that does not pack: %v", text, err), c)
			} else if !bytes.Equal(w, v.Wire.Bytes()) {
				r.sum.Mis("present/code-"+diffPart(v.Wire.Bytes(), w)+":"+key, fmt.Sprintf("NewRR(%q) packs to %.200x, spec %.200x", text, w, v.Wire.Bytes()), c)
			}
			r.seen[sha1.Sum([]byte(text))] = true
		}
		if i%5003 == 0 {
			r.sum.Sample(map[string]interface{}{"k": v.K, "code": v.Code, "num": v.Num.String(), "mn": v.Mn.String()})
		}
	})
	r.finish()
}

// ---------------------------------------------------------------- record / reexec

func record(out string, n int) {
	r := newRun(out)
	rnd := hx.Rand()
	// the zoo, under every owner
	for _, owner := range zoo.Owners {
		for _, t := range zoo.Texts {
			text := strings.Replace(t, "OWNER", owner, 1)
			rr, err := dns.NewRR(text)
			if err != nil || rr == nil {
				hx.Die("zoo text %q does not parse: %v", text, err)
			}
			if P.nopres[int(rr.Header().Rrtype)] {
				continue
			}
			r.roundTrip(rr, dns.Type(rr.Header().Rrtype).String(), true, src{Origin: "zoo", Text: hx.FromString(text)}, map[string]interface{}{"zoo": text})
		}
	}
	g := &gen{r: rnd}
	for i := 0; i < n; i++ {
		a := wire.Normalize(g.record())
		key := L.Mnemonic(a.Type)
		if c := classify(a); c != "" {
			key += ":" + c
		}
		rr, err := L.BuildRR(a)
		if err != nil {
			hx.Die("random record: %v", err)
		}
		// the harness does not know the alphabets: TLC decides (events), the Go-side comparison of a random record is
		// reported only through the trace verdict, so pass alpha=true and let the driver drop what TLC marks AMBIG
		if rnd.Intn(2) == 0 {
			r.roundTrip(rr, key, true, src{Origin: "random", A: a}, map[string]interface{}{"random": a})
		} else if w, err := packRR(rr); err == nil {
			if u, _, err := dns.UnpackRR(w, 0); err == nil {
				r.roundTrip(u, key, true, src{Origin: "unpack", Seg: hx.FromBytes(w)}, map[string]interface{}{"random": a})
			}
		}
		if i < 3 {
			r.sum.Sample(a)
		}
	}
	r.finish()
}

func reexec(in, out string) {
	r := newRun(out)
	hx.ReadNDJSON(in, func(i int, e *event) {
		switch e.Src.Origin {
		case "build", "random":
			rr, err := L.BuildRR(e.Src.A)
			if err != nil {
				hx.Die("reexec: %v", err)
			}
			r.roundTrip(rr, e.Key, e.Alpha, e.Src, e)
		case "unpack":
			rr, _, err := dns.UnpackRR(e.Src.Seg.Bytes(), 0)
			if err != nil {
				hx.Die("reexec: %v", err)
			}
			r.roundTrip(rr, e.Key, e.Alpha, e.Src, e)
		case "zoo":
			rr, err := dns.NewRR(e.Src.Text.String())
			if err != nil || rr == nil {
				hx.Die("reexec: %v", err)
			}
			r.roundTrip(rr, e.Key, e.Alpha, e.Src, e)
		case "generic":
			r.emit(*e)
		default:
			hx.Die("reexec: unknown origin %q", e.Src.Origin)
		}
	})
	r.finish()
}
