package main

// C05 while the registry of type mnemonics changes (spec/PresentReg.tla).
//
//	present regreplay <layout> <pres> <probes> <states> <behaviours> <events.ndjson>
//	    TLC's behaviours (Gen_PresentReg "beh": sequences of PrivateHandle / PrivateHandleRemove, with the specification's
//	    state id after every action) are executed on the real registry (restored before each); in the state the
//	    behaviour ends in, for every probe record (Gen_PresentReg "probes": abstract value + octets):
//	      - every text the specification allows in that state (Gen_PresentReg "states": preferred spelling, TYPEnnn,
//	        lower case, written by PresentReg!TextOf) -> NewRR -> PackRR = the specification's octets
//	      - the record unpacked from the specification's octets, and built from the abstract value: String() ->
//	        NewRR -> PackRR = PackRR of the original; PackRR of the original = the specification's octets
//	      - the real String() and PackRR go to <events> behind the actions that led there: Trace_PresentReg reads
//	        the text under the registry of that moment
//	present regrecord <layout> <pres> <events.ndjson> <n>
//	    n seeded random sequences of 2..8 actions over random private codes and random mnemonics (inside the universe
//	    of PresentReg!CanHandle); after every action random NSEC / NSEC3 / CSYNC / RRSIG / SIG records mentioning the
//	    codes in play, and records OF those codes, are packed, unpacked, printed: events for Trace_PresentReg; what
//	    the Go-side round trip saw rides on the event
//	present regreexec <layout> <pres> <events-in> <events-out>
//	    redo the actions of recorded events on a restored registry and print the records again
//
// Finding keys: present/reg-<stage>:<TYPE>:type-code-<live|removed|never>   (the state of the code the record mentions
// that is most likely to matter: removed before live before never registered); a record OF a private code: TYPE =
// private-type.

import (
	"bytes"
	"crypto/sha1"
	"encoding/base32"
	"encoding/base64"
	"fmt"
	"math/rand"
	"sort"
	"strings"

	"github.com/miekg/dns"

	"verifharness/lib/hx"
	"verifharness/lib/wire"
)

// ---------------------------------------------------------------- the real registry

type regSnap struct {
	t2s map[uint16]string
	s2t map[string]uint16
	t2r map[uint16]func() dns.RR
}

var pristine *regSnap

func snapRegistry() {
	s := &regSnap{map[uint16]string{}, map[string]uint16{}, map[uint16]func() dns.RR{}}
	for k, v := range dns.TypeToString {
		s.t2s[k] = v
	}
	for k, v := range dns.StringToType {
		s.s2t[k] = v
	}
	for k, v := range dns.TypeToRR {
		s.t2r[k] = v
	}
	pristine = s
}

// restoreRegistry: the registry as the library ships it.
func restoreRegistry() {
	for k := range dns.TypeToString {
		if _, ok := pristine.t2s[k]; !ok {
			delete(dns.TypeToString, k)
		}
	}
	for k, v := range pristine.t2s {
		dns.TypeToString[k] = v
	}
	for k := range dns.StringToType {
		if _, ok := pristine.s2t[k]; !ok {
			delete(dns.StringToType, k)
		}
	}
	for k, v := range pristine.s2t {
		dns.StringToType[k] = v
	}
	for k := range dns.TypeToRR {
		if _, ok := pristine.t2r[k]; !ok {
			delete(dns.TypeToRR, k)
		}
	}
	for k, v := range pristine.t2r {
		dns.TypeToRR[k] = v
	}
}

type regAct struct {
	Op   string `json:"op"`
	Mn   hx.B   `json:"mn"`
	Code int    `json:"code"`
}

func (a regAct) String() string {
	if a.Op == "handle" {
		return fmt.Sprintf("PrivateHandle(%q, %d)", a.Mn.String(), a.Code)
	}
	return fmt.Sprintf("PrivateHandleRemove(%d)", a.Code)
}

// perform one action on the real registry; a panic is returned.
func perform(a regAct) string {
	return hx.Catch(func() {
		switch a.Op {
		case "handle":
			dns.PrivateHandle(a.Mn.String(), uint16(a.Code), func() dns.PrivateRdata { return new(wire.PrivData) })
		case "remove":
			dns.PrivateHandleRemove(uint16(a.Code))
		default:
			hx.Die("unknown registry action %q", a.Op)
		}
	})
}

// ---------------------------------------------------------------- events

type regEvent struct {
	Ev    string       `json:"ev"` // reset | act | print
	Act   *regAct      `json:"act,omitempty"`
	Key   string       `json:"key,omitempty"`
	Text  hx.B         `json:"text,omitempty"`
	Wire  hx.B         `json:"wire,omitempty"`
	Hk    []hkEntry    `json:"hk"`
	Src   *src         `json:"src,omitempty"`
	Gomis *hx.Mismatch `json:"gomis,omitempty"`
}

func printEvent(key, text string, w []byte, s src, g *hx.Mismatch) regEvent {
	return regEvent{Ev: "print", Key: key, Text: hx.FromString(text), Wire: hx.FromBytes(w), Hk: decodeHk(text), Src: &s, Gomis: g}
}

// emitGroup writes reset, the actions, and the print events.
func emitGroup(w *hx.Writer, acts []regAct, prints []regEvent) {
	w.Emit(regEvent{Ev: "reset"})
	for i := range acts {
		w.Emit(regEvent{Ev: "act", Act: &acts[i]})
	}
	for _, p := range prints {
		if p.Hk == nil {
			p.Hk = []hkEntry{}
		}
		w.Emit(p)
	}
}

// ---------------------------------------------------------------- the round trip of one record in the present state

type regRun struct {
	sum  hx.Summary
	ride bool // random records: the Go-side observation rides on the event (the driver drops it where TLC says AMBIG)
	stat map[string]int
}

// rt: String() -> NewRR -> PackRR against PackRR of the original.  Returns the text, the original's octets and what went wrong.
func (r *regRun) rt(rr dns.RR, key string, c interface{}) (text string, ow []byte, g *hx.Mismatch, ok bool) {
	r.sum.Evaluations++
	mis := func(k, what string) {
		g = &hx.Mismatch{Key: k, What: what}
		if !r.ride {
			r.sum.Mis(k, what, c)
		}
	}
	if p := hx.Catch(func() { text = rr.String() }); p != "" {
		mis("present/reg-string-panic:"+key, "String() panics: "+p)
		return "", nil, g, false
	}
	ow, err := packRR(rr)
	if err != nil {
		r.stat["original-does-not-pack"]++
		return text, nil, nil, false
	}
	var rr2 dns.RR
	var perr error
	if p := hx.Catch(func() { rr2, perr = dns.NewRR(text) }); p != "" {
		mis("present/reg-reparse-panic:"+key, "NewRR(String()) panics: "+p)
	} else if perr != nil || rr2 == nil {
		mis("present/reg-reparse-error:"+key, fmt.Sprintf("NewRR(%.300q): %v", text, perr))
	} else if w2, err := packRR(rr2); err != nil {
		mis("present/reg-reparse-pack-error:"+key, fmt.Sprintf("NewRR(%.300q) gives a record that does not pack: %v", text, err))
	} else if !bytes.Equal(ow, w2) {
		mis("present/reg-reparse-"+diffPart(ow, w2)+":"+key, fmt.Sprintf("text %.300q: original packs to %.200x, re-parsed to %.200x", text, ow, w2))
	}
	return text, ow, g, true
}

// typedPrivate: the text is the typed form of a record of a private type (its RDATA syntax is the registrant's own:
// the specification's reader has nothing to say about it; the Go-side round trip is all there is).
func typedPrivate(rr dns.RR) bool {
	_, ok := rr.(*dns.PrivateRR)
	return ok
}

// ---------------------------------------------------------------- regreplay

type regProbe struct {
	A     *wire.RR `json:"a"`
	Seg   hx.B     `json:"seg"`
	Own   bool     `json:"own"`
	Codes []int    `json:"codes"`
}
type regProbes struct {
	Kind      string     `json:"kind"`
	Codes     []int      `json:"codes"`
	Spellings []string   `json:"spellings"`
	Probes    []regProbe `json:"probes"`
}
type regState struct {
	Kind  string   `json:"kind"`
	Sid   int      `json:"sid"`
	Texts [][]hx.B `json:"texts"`
}
type regStep struct {
	Act regAct   `json:"act"`
	Sid int      `json:"sid"`
	Cls []string `json:"cls"`
}
type regBeh struct {
	G     string    `json:"g"`
	V     []int     `json:"v"`
	Steps []regStep `json:"steps"`
}

func probeKey(p *regProbe, all []int, cls []string) string {
	rank := map[string]int{"never": 0, "live": 1, "removed": 2}
	best := "never"
	for _, c := range p.Codes {
		for i, a := range all {
			if a == c && i < len(cls) && rank[cls[i]] > rank[best] {
				best = cls[i]
			}
		}
	}
	name := "private-type"
	if !p.Own {
		name = L.Mnemonic(p.A.Type)
	}
	return name + ":type-code-" + best
}

func regreplay(probesPath, statesPath, behPath, out string) {
	snapRegistry()
	var pr *regProbes
	hx.ReadNDJSON(probesPath, func(i int, v *regProbes) {
		if v.Kind == "probes" {
			pr = v
		}
	})
	if pr == nil || len(pr.Probes) == 0 {
		hx.Die("%s holds no probe records", probesPath)
	}
	states := map[int]*regState{}
	hx.ReadNDJSON(statesPath, func(i int, v *regState) {
		if v.Kind == "state" {
			states[v.Sid] = v
		}
	})
	r := &regRun{stat: map[string]int{}}
	w := hx.NewWriter(out)
	seen := map[[20]byte]bool{}
	texts := map[[20]byte]bool{}
	hx.ReadNDJSON(behPath, func(bi int, b *regBeh) {
		restoreRegistry()
		acts := make([]regAct, len(b.Steps))
		for k, st := range b.Steps {
			acts[k] = st.Act
			if p := perform(st.Act); p != "" {
				r.sum.Mis("present/reg-action-panic:"+st.Act.Op, st.Act.String()+" panics: "+p, map[string]interface{}{"reg": b})
				return
			}
		}
		last := b.Steps[len(b.Steps)-1]
		st := states[last.Sid]
		if st == nil || len(st.Texts) != len(pr.Probes) {
			hx.Die("behaviour %v ends in state %d, which the state table does not hold", b.V, last.Sid)
		}
		if bi%211 == 0 {
			r.sum.Sample(map[string]interface{}{"v": b.V, "sid": last.Sid})
		}
		var prints []regEvent
		for i := range pr.Probes {
			p := &pr.Probes[i]
			key := probeKey(p, pr.Codes, last.Cls)
			seg := p.Seg.Bytes()
			c := map[string]interface{}{"reg": b, "probe": i}
			// (1) every spelling the statement allows now
			done := map[string]bool{}
			for k, t := range st.Texts[i] {
				text := t.String()
				if done[text] {
					continue
				}
				done[text] = true
				texts[sha1.Sum([]byte(text))] = true
				r.sum.Evaluations++
				sp := pr.Spellings[k]
				var rr dns.RR
				var err error
				if pn := hx.Catch(func() { rr, err = dns.NewRR(text) }); pn != "" {
					r.sum.Mis("present/reg-spelling-panic:"+key, fmt.Sprintf("after %v NewRR(%q) panics: %s", acts, text, pn), c)
				} else if err != nil || rr == nil {
					r.sum.Mis("present/reg-spelling-error:"+key, fmt.Sprintf("after %v NewRR(%q) (spelling %s): %v", acts, text, sp, err), c)
				} else if w2, err := packRR(rr); err != nil {
					r.sum.Mis("present/reg-spelling-pack-error:"+key, fmt.Sprintf("after %v NewRR(%q) gives a record that does not pack: %v", acts, text, err), c)
				} else if !bytes.Equal(w2, seg) {
					r.sum.Mis("present/reg-spelling-"+diffPart(seg, w2)+":"+key, fmt.Sprintf("after %v NewRR(%q) packs to %.200x, spec %.200x", acts, text, w2, seg), c)
				}
			}
			// (2) what the library prints now: unpacked from the specification's octets / built from the abstract value
			var origins []dns.RR
			var srcs []src
			if u, _, err := dns.UnpackRR(seg, 0); err != nil {
				r.sum.Mis("present/reg-unpack-error:"+key, fmt.Sprintf("after %v UnpackRR(%x): %v", acts, seg, err), c)
			} else {
				origins, srcs = append(origins, u), append(srcs, src{Origin: "unpack", Seg: p.Seg})
			}
			if !p.Own {
				rr, err := L.BuildRR(p.A)
				if err != nil {
					hx.Die("probe %d: %v", i, err)
				}
				origins, srcs = append(origins, rr), append(srcs, src{Origin: "build", A: p.A})
			}
			for k, rr := range origins {
				text, ow, _, ok := r.rt(rr, key, c)
				if !ok {
					continue
				}
				if !bytes.Equal(ow, seg) {
					r.sum.Mis("present/reg-pack:"+key, fmt.Sprintf("after %v the record (%s) packs to %.200x, spec %.200x", acts, srcs[k].Origin, ow, seg), c)
					continue
				}
				if typedPrivate(rr) {
					r.stat["typed-text-of-a-private-type-not-read-by-tlc"]++
					continue
				}
				h := sha1.Sum([]byte(fmt.Sprintf("%d\x00%s\x00%x", last.Sid, text, ow)))
				if seen[h] {
					continue
				}
				seen[h] = true
				prints = append(prints, printEvent(key, text, ow, srcs[k], nil))
			}
		}
		if len(prints) > 0 {
			emitGroup(w, acts, prints)
		}
	})
	restoreRegistry()
	w.Close()
	r.sum.Nontrivial = len(texts)
	r.sum.Note("events", w.N)
	r.sum.Note("stat", r.stat)
	r.sum.Print()
}

// ---------------------------------------------------------------- regrecord

var mnAlphabet = "ABCDEFGHIJKLMNOPQRSTUVWXYZabcdefghijklmnopqrstuvwxyz0123456789-"

// randomMnemonic: a letter followed by letters, digits and hyphens, no mnemonic of the specification's type / class tables,
// not TYPEnnn / CLASSnnn (PresentReg!CanHandle).
func randomMnemonic(rnd *rand.Rand) string {
	for {
		n := 1 + rnd.Intn(12)
		b := make([]byte, n)
		b[0] = mnAlphabet[rnd.Intn(52)]
		for i := 1; i < n; i++ {
			b[i] = mnAlphabet[rnd.Intn(len(mnAlphabet))]
		}
		u := strings.ToUpper(string(b))
		if _, ok := P.types[u]; ok {
			continue
		}
		bad := strings.HasPrefix(u, "TYPE") || strings.HasPrefix(u, "CLASS")
		for _, e := range P.Classes {
			if e.M.String() == u {
				bad = true
			}
		}
		if !bad {
			return string(b)
		}
	}
}

var standardTypes = []uint16{1, 2, 5, 6, 12, 15, 16, 28, 33, 43, 46, 47, 48, 50, 51, 52, 64, 65, 99, 255, 256, 257, 32768, 32769}

func typeList(rnd *rand.Rand, pool []int) []uint16 {
	set := map[uint16]bool{}
	for _, c := range pool {
		if rnd.Intn(3) > 0 {
			set[uint16(c)] = true
		}
	}
	for i := rnd.Intn(4); i > 0; i-- {
		set[standardTypes[rnd.Intn(len(standardTypes))]] = true
	}
	for i := rnd.Intn(3); i > 0; i-- {
		set[uint16(65280+rnd.Intn(255))] = true // other private codes, registered or not
	}
	if rnd.Intn(4) == 0 {
		set[uint16(1+rnd.Intn(65534))] = true
	}
	out := make([]uint16, 0, len(set))
	for t := range set {
		out = append(out, t)
	}
	sort.Slice(out, func(i, j int) bool { return out[i] < out[j] })
	return out
}

func toB64(b []byte) string { return base64.StdEncoding.EncodeToString(b) }
func toB32(b []byte) string { return base32.HexEncoding.WithPadding(base32.NoPadding).EncodeToString(b) }

func randBytes(rnd *rand.Rand, n int) []byte {
	b := make([]byte, n)
	rnd.Read(b)
	return b
}

// randomRecords: records that hold type codes, over the codes in play.
func randomRecords(rnd *rand.Rand, pool []int) []dns.RR {
	h := func(t uint16) dns.RR_Header {
		return dns.RR_Header{Name: []string{"o.x.", "a.example.", "."}[rnd.Intn(3)], Rrtype: t, Class: dns.ClassINET, Ttl: uint32(rnd.Intn(100000))}
	}
	sig := func(t uint16) dns.RRSIG {
		return dns.RRSIG{Hdr: h(t), TypeCovered: uint16(pool[rnd.Intn(len(pool))]), Algorithm: uint8(1 + rnd.Intn(16)), Labels: uint8(rnd.Intn(5)),
			OrigTtl: rnd.Uint32(), Expiration: rnd.Uint32(), Inception: rnd.Uint32(), KeyTag: uint16(rnd.Intn(65536)), SignerName: "x.",
			Signature: toB64(randBytes(rnd, 1+rnd.Intn(40)))}
	}
	var out []dns.RR
	out = append(out, &dns.NSEC{Hdr: h(dns.TypeNSEC), NextDomain: "b.example.", TypeBitMap: typeList(rnd, pool)})
	out = append(out, &dns.NSEC3{Hdr: h(dns.TypeNSEC3), Hash: 1, Flags: uint8(rnd.Intn(2)), Iterations: uint16(rnd.Intn(100)), SaltLength: 2, Salt: "ab12",
		HashLength: 20, NextDomain: toB32(randBytes(rnd, 20)), TypeBitMap: typeList(rnd, pool)})
	out = append(out, &dns.CSYNC{Hdr: h(dns.TypeCSYNC), Serial: rnd.Uint32(), Flags: uint16(rnd.Intn(4)), TypeBitMap: typeList(rnd, pool)})
	s := sig(dns.TypeRRSIG)
	out = append(out, &s)
	s2 := sig(dns.TypeSIG)
	out = append(out, &dns.SIG{RRSIG: s2})
	out = append(out, &dns.RFC3597{Hdr: h(uint16(pool[rnd.Intn(len(pool))])), Rdata: fmt.Sprintf("%x", randBytes(rnd, 1+rnd.Intn(8)))})
	return out
}

func regrecord(out string, n int) {
	snapRegistry()
	r := &regRun{ride: true, stat: map[string]int{}}
	w := hx.NewWriter(out)
	rnd := hx.Rand()
	for s := 0; s < n; s++ {
		restoreRegistry()
		pool := []int{65280 + rnd.Intn(255)}
		for len(pool) < 2+rnd.Intn(3) {
			c := []int{65280, 65534, 65280 + rnd.Intn(255), 65280 + 8*rnd.Intn(31) + 7}[rnd.Intn(4)]
			dup := false
			for _, x := range pool {
				dup = dup || x == c
			}
			if !dup {
				pool = append(pool, c)
			}
		}
		names := []string{randomMnemonic(rnd), randomMnemonic(rnd), randomMnemonic(rnd)}
		holds := map[int]string{} // what this harness has registered (to stay inside the universe; TLC checks it: VP:ill)
		ever := map[int]bool{}
		var acts []regAct
		var prints []regEvent
		steps := 2 + rnd.Intn(7)
		for k := 0; k < steps; k++ {
			var a regAct
			for tries := 0; ; tries++ {
				c := pool[rnd.Intn(len(pool))]
				if rnd.Intn(5) < 2 && (len(holds) > 0 || tries > 3) {
					a = regAct{Op: "remove", Mn: hx.B{}, Code: c}
					break
				}
				m := names[rnd.Intn(len(names))]
				free := true
				for d, u := range holds {
					if d != c && u == strings.ToUpper(m) {
						free = false
					}
				}
				if free {
					a = regAct{Op: "handle", Mn: hx.FromString(m), Code: c}
					break
				}
			}
			acts = append(acts, a)
			if p := perform(a); p != "" {
				r.sum.Mis("present/reg-action-panic:"+a.Op, a.String()+" panics: "+p, map[string]interface{}{"acts": acts})
				break
			}
			if a.Op == "handle" {
				holds[a.Code], ever[a.Code] = strings.ToUpper(a.Mn.String()), true
			} else {
				delete(holds, a.Code)
			}
			// print events are tied to the actions so far: one group per step
			prints = prints[:0]
			for _, rr := range randomRecords(rnd, pool) {
				ow, err := packRR(rr)
				if err != nil {
					r.stat["random-record-does-not-pack"]++
					continue
				}
				u, _, err := dns.UnpackRR(ow, 0)
				if err != nil {
					r.stat["random-record-does-not-unpack"]++
					continue
				}
				cls := "never"
				for _, c := range mentioned(u) {
					if _, live := holds[c]; !live && ever[c] {
						cls = "removed"
					} else if live && cls == "never" {
						cls = "live"
					}
				}
				name := "private-type"
				if u.Header().Rrtype < 65280 {
					name = L.Mnemonic(int(u.Header().Rrtype))
				}
				key := name + ":type-code-" + cls
				text, w2, g, ok := r.rt(u, key, nil)
				if !ok || w2 == nil {
					if g != nil {
						r.sum.Mis(g.Key, g.What, map[string]interface{}{"acts": acts, "seg": hx.FromBytes(ow)})
					}
					continue
				}
				if typedPrivate(u) {
					if g != nil { // nobody else will report it
						r.sum.Mis(g.Key, g.What, map[string]interface{}{"acts": acts, "seg": hx.FromBytes(ow)})
					}
					r.stat["typed-text-of-a-private-type-not-read-by-tlc"]++
					continue
				}
				prints = append(prints, printEvent(key, text, w2, src{Origin: "unpack", Seg: hx.FromBytes(ow)}, g))
			}
			emitGroup(w, acts, prints)
		}
		if s < 3 {
			r.sum.Sample(map[string]interface{}{"acts": fmt.Sprint(acts)})
		}
	}
	restoreRegistry()
	w.Close()
	r.sum.Nontrivial = w.N
	r.sum.Note("events", w.N)
	r.sum.Note("stat", r.stat)
	r.sum.Print()
}

// mentioned: the type codes a record holds (its own type, type covered, type list).
func mentioned(rr dns.RR) []int {
	out := []int{int(rr.Header().Rrtype)}
	add := func(ts []uint16) {
		for _, t := range ts {
			out = append(out, int(t))
		}
	}
	switch x := rr.(type) {
	case *dns.NSEC:
		add(x.TypeBitMap)
	case *dns.NSEC3:
		add(x.TypeBitMap)
	case *dns.CSYNC:
		add(x.TypeBitMap)
	case *dns.RRSIG:
		out = append(out, int(x.TypeCovered))
	case *dns.SIG:
		out = append(out, int(x.TypeCovered))
	}
	return out
}

// ---------------------------------------------------------------- regreexec

// regreexec: events of one or more groups; the actions are taken again on a restored registry, every print event is
// made again from its source in the state reached.
func regreexec(in, out string) {
	snapRegistry()
	r := &regRun{ride: true, stat: map[string]int{}}
	w := hx.NewWriter(out)
	hx.ReadNDJSON(in, func(i int, e *regEvent) {
		switch e.Ev {
		case "reset":
			restoreRegistry()
			w.Emit(regEvent{Ev: "reset"})
		case "act":
			if p := perform(*e.Act); p != "" {
				r.sum.Mis("present/reg-action-panic:"+e.Act.Op, e.Act.String()+" panics: "+p, e)
			}
			w.Emit(regEvent{Ev: "act", Act: e.Act})
		case "print":
			var rr dns.RR
			var err error
			if e.Src.Origin == "build" {
				rr, err = L.BuildRR(e.Src.A)
			} else {
				rr, _, err = dns.UnpackRR(e.Src.Seg.Bytes(), 0)
			}
			if err != nil {
				hx.Die("regreexec: %v", err)
			}
			text, ow, g, ok := r.rt(rr, e.Key, nil)
			if !ok || ow == nil {
				if g != nil {
					r.sum.Mis(g.Key, g.What, e)
				}
				return
			}
			if g != nil {
				r.sum.Mis(g.Key, g.What, e)
			}
			p := printEvent(e.Key, text, ow, *e.Src, g)
			if p.Hk == nil {
				p.Hk = []hkEntry{}
			}
			w.Emit(p)
		default:
			hx.Die("regreexec: unknown event %q", e.Ev)
		}
	})
	restoreRegistry()
	w.Close()
	r.sum.Note("events", w.N)
	r.sum.Print()
}
