// Command clientconfig binds spec/ClientConfig.tla to clientconfig.go (extra check X03).
//
//	clientconfig replay <vectors.ndjson>     TLC vectors: resolv.conf line sequences (rendered to text here) ->
//	                                         ClientConfigFromReader, compared with the admissible configurations;
//	                                         (name, ndots, search) -> ClientConfig.NameList
//	clientconfig record <out.ndjson> <n>     random longer files / name lists, logged for Trace_ClientConfig
package main

import (
	"encoding/json"
	"errors"
	"fmt"
	"io"
	"os"
	"reflect"
	"strconv"
	"strings"

	"github.com/miekg/dns"

	"verifharness/lib/hx"
)

type tok struct {
	K      string   `json:"k"`
	S      string   `json:"s"`
	N      int      `json:"n"`
	Labels []string `json:"labels"`
	Dot    bool     `json:"dot"`
}

type line struct {
	Ws   bool  `json:"ws"`
	Toks []tok `json:"toks"`
	Pad  int   `json:"pad"`
}

type cfg struct {
	Servers  []string `json:"servers"`
	Search   []string `json:"search"`
	Port     string   `json:"port"`
	Ndots    int      `json:"ndots"`
	Timeout  int      `json:"timeout"`
	Attempts int      `json:"attempts"`
}

type vec struct {
	Kind   string `json:"kind"`
	Lines  []line `json:"lines"`
	FailAt int    `json:"failAt"`
	Err    bool   `json:"err"`
	ExpRaw json.RawMessage `json:"exp"`
	// names
	Labels []string `json:"labels"`
	Fq     bool     `json:"fq"`
	Ndots  int      `json:"ndots"`
	Search []string `json:"search"`
}

func (t tok) text() string {
	switch t.K {
	case "opt":
		return t.S + ":" + strconv.Itoa(t.N)
	case "dom":
		s := strings.Join(t.Labels, ".")
		if t.Dot {
			s += "."
		}
		return s
	}
	return t.S
}

var seps = []string{" ", "\t", "  ", " \t "}

// render one line; variant picks the white space used
func (l line) render(variant int) string {
	var b strings.Builder
	if l.Ws {
		b.WriteString([]string{"  ", "\t"}[variant%2])
	}
	for i, t := range l.Toks {
		if i > 0 {
			b.WriteString(seps[(variant+i)%len(seps)])
		}
		b.WriteString(t.text())
	}
	if l.Pad > 0 {
		b.WriteString(" ")
		b.WriteString(strings.Repeat("x", l.Pad))
	}
	if variant%3 == 1 && len(l.Toks) > 0 {
		b.WriteString(" ") // trailing white space
	}
	return b.String()
}

// failing reader: delivers data, then err instead of io.EOF
type failReader struct {
	data []byte
	err  error
}

func (f *failReader) Read(p []byte) (int, error) {
	if len(f.data) == 0 {
		if f.err != nil {
			return 0, f.err
		}
		return 0, io.EOF
	}
	n := copy(p, f.data)
	f.data = f.data[n:]
	return n, nil
}

func observe(c *dns.ClientConfig) cfg {
	o := cfg{Servers: c.Servers, Search: c.Search, Port: c.Port, Ndots: c.Ndots, Timeout: c.Timeout, Attempts: c.Attempts}
	if o.Servers == nil {
		o.Servers = []string{}
	}
	if o.Search == nil {
		o.Search = []string{}
	}
	return o
}

func eqs(a, b []string) bool {
	if len(a) == 0 && len(b) == 0 {
		return true
	}
	return reflect.DeepEqual(a, b)
}

// diffField names the first field in which got differs from exp ("" = equal)
func diffField(exp, got cfg) (string, int) {
	var fs []string
	if !eqs(exp.Servers, got.Servers) {
		fs = append(fs, "servers")
	}
	if !eqs(exp.Search, got.Search) {
		fs = append(fs, "search")
	}
	if exp.Port != got.Port {
		fs = append(fs, "port")
	}
	if exp.Ndots != got.Ndots {
		fs = append(fs, "ndots")
	}
	if exp.Timeout != got.Timeout {
		fs = append(fs, "timeout")
	}
	if exp.Attempts != got.Attempts {
		fs = append(fs, "attempts")
	}
	if len(fs) == 0 {
		return "", 0
	}
	return fs[0], len(fs)
}

func main() {
	if len(os.Args) < 3 {
		hx.Die("usage: clientconfig replay <vectors> | record <out> <n>")
	}
	switch os.Args[1] {
	case "replay":
		replay(os.Args[2])
	case "record":
		n, _ := strconv.Atoi(os.Args[3])
		record(os.Args[2], n)
	case "reexec": // reexec <events-in> <events-out>
		reexec(os.Args[2], os.Args[3])
	default:
		hx.Die("unknown mode %s", os.Args[1])
	}
}

func replay(path string) {
	var sum hx.Summary
	seen := map[string]bool{}
	hx.ReadNDJSON(path, func(i int, v *vec) {
		sum.Evaluations++
		if p := hx.Catch(func() { one(v, &sum, seen, i) }); p != "" {
			sum.Mis("clientconfig/panic:"+v.Kind, "panic: "+p, v)
		}
		if i%1999 == 0 {
			sum.Sample(v)
		}
	})
	sum.Nontrivial = len(seen)
	sum.Print()
}

func fileText(ls []line, variant int, finalNL bool) string {
	var b strings.Builder
	for i, l := range ls {
		b.WriteString(l.render(variant + i))
		if i < len(ls)-1 || finalNL {
			b.WriteString("\n")
		}
	}
	return b.String()
}

func hasLong(ls []line) bool {
	for _, l := range ls {
		if l.Pad > 60000 {
			return true
		}
	}
	return false
}

func nameText(labels []string, fq bool) string {
	s := strings.Join(labels, ".")
	if fq {
		s += "."
	}
	return s
}

func one(v *vec, sum *hx.Summary, seen map[string]bool, i int) {
	switch v.Kind {
	case "parse":
		if v.Err { // the reader fails after failAt-1 lines
			text := fileText(v.Lines[:v.FailAt-1], i, true)
			seen["E:"+text] = true
			c, err := dns.ClientConfigFromReader(&failReader{data: []byte(text), err: errors.New("verif: injected read error")})
			if err == nil {
				sum.Mis("clientconfig/read-error-swallowed", fmt.Sprintf("the reader failed after %d lines; ClientConfigFromReader returned %+v and no error", v.FailAt-1, c), v)
			}
			return
		}
		var exp []cfg
		if err := json.Unmarshal(v.ExpRaw, &exp); err != nil {
			hx.Die("vector %d: exp: %v", i, err)
		}
		for variant := 0; variant < 2; variant++ {
			text := fileText(v.Lines, i+variant*5, variant == 0)
			seen["P:"+text[:min(len(text), 300)]+strconv.Itoa(len(text))] = true
			c, err := dns.ClientConfigFromReader(strings.NewReader(text))
			if err != nil || c == nil {
				sum.Mis("clientconfig/parse:error", fmt.Sprintf("ClientConfigFromReader(%q): %v", clip(text), err), v)
				return
			}
			got := observe(c)
			best, bestN := "", 99
			for _, e := range exp {
				f, n := diffField(e, got)
				if n < bestN {
					best, bestN = f, n
				}
			}
			if bestN > 0 {
				k := "clientconfig/parse:" + best
				if hasLong(v.Lines) {
					k = "clientconfig/parse:long-line"
				}
				sum.Mis(k, fmt.Sprintf("ClientConfigFromReader(%q) = %+v, spec admits %+v", clip(text), got, exp), v)
				return
			}
		}
	case "names":
		var exp [][]string // the admissible lists
		if err := json.Unmarshal(v.ExpRaw, &exp); err != nil {
			hx.Die("vector %d: exp: %v", i, err)
		}
		c := &dns.ClientConfig{Ndots: v.Ndots, Search: append([]string{}, v.Search...)}
		name := nameText(v.Labels, v.Fq)
		seen["N:"+name+fmt.Sprint(v.Ndots, v.Search)] = true
		got := c.NameList(name)
		ok := false
		for _, e := range exp {
			ok = ok || eqs(e, got)
		}
		if !ok {
			sum.Mis("clientconfig/namelist:"+nlClass(v.Search, exp[0], got), fmt.Sprintf("NameList(%q) with ndots=%d search=%q gives %q, spec admits %q", name, v.Ndots, v.Search, got, exp), v)
		}
	default:
		hx.Die("unknown vector kind %q", v.Kind)
	}
}

// nlClass: parameter class of a NameList mismatch
func nlClass(search, exp, got []string) string {
	for _, s := range search {
		if s == "." {
			return "search-root"
		}
	}
	if len(exp) != len(got) {
		return "length"
	}
	a, b := append([]string{}, exp...), append([]string{}, got...)
	sortStrings(a)
	sortStrings(b)
	if reflect.DeepEqual(a, b) {
		return "order"
	}
	return "content"
}

func sortStrings(a []string) {
	for i := range a {
		for j := i + 1; j < len(a); j++ {
			if a[j] < a[i] {
				a[i], a[j] = a[j], a[i]
			}
		}
	}
}

func clip(s string) string {
	if len(s) > 200 {
		return s[:200] + "..."
	}
	return s
}

// ---------------------------------------------------------------------------- record

type event struct {
	Ev    string `json:"ev"`
	Lines []line `json:"lines"`
	Cfg   *cfg   `json:"cfg,omitempty"`
	// names
	Labels []string `json:"labels"`
	Fq     bool     `json:"fq"`
	Ndots  int      `json:"ndots"`
	Search []tok    `json:"search"`
	Got    []string `json:"got"`
}

func word(s string) tok { return tok{K: "word", S: s, Labels: []string{}} }

func record(out string, n int) {
	r := hx.Rand()
	w := hx.NewWriter(out)
	var sum hx.Summary
	seen := map[string]bool{}
	lab := []string{"a", "b", "example", "org", "test", "corp", "x1", "sub-2"}
	dom := func() tok {
		t := tok{K: "dom", Labels: []string{}, Dot: r.Intn(3) == 0}
		if r.Intn(12) == 0 {
			t.Dot = true // the root
			return t
		}
		for k := r.Intn(4); k >= 0; k-- {
			t.Labels = append(t.Labels, lab[r.Intn(len(lab))])
		}
		return t
	}
	num := func() int {
		return []int{-5, -1, 0, 1, 2, 3, 5, 6, 14, 15, 16, 29, 30, 31, 100, 2147483647}[r.Intn(16)]
	}
	addrs := []string{"10.0.0.1", "192.0.2.53", "2001:db8::53", "fe80::1%eth0", "ns.example.org"}
	randLine := func() line {
		l := line{Toks: []tok{}}
		l.Ws = r.Intn(12) == 0
		switch r.Intn(10) {
		case 0:
			l.Toks = append(l.Toks, word("nameserver"))
			for k := r.Intn(3); k > 0; k-- {
				l.Toks = append(l.Toks, word(addrs[r.Intn(len(addrs))]))
			}
		case 1:
			l.Toks = append(l.Toks, word("nameserver"), word(addrs[r.Intn(len(addrs))]))
		case 2:
			l.Toks = append(l.Toks, word("domain"))
			for k := r.Intn(3); k > 0; k-- {
				l.Toks = append(l.Toks, dom())
			}
		case 3, 4:
			l.Toks = append(l.Toks, word("search"))
			for k := r.Intn(5); k > 0; k-- {
				l.Toks = append(l.Toks, dom())
			}
		case 5, 6:
			l.Toks = append(l.Toks, word("options"))
			for k := r.Intn(4); k > 0; k-- {
				switch r.Intn(5) {
				case 0:
					l.Toks = append(l.Toks, word([]string{"rotate", "debug", "edns0", "ndots", "timeout"}[r.Intn(5)]))
				default:
					l.Toks = append(l.Toks, tok{K: "opt", S: []string{"ndots", "timeout", "attempts", "unknown"}[r.Intn(4)], N: num(), Labels: []string{}})
				}
			}
		case 7:
			c := tok{K: "cmt", S: []string{"#", ";", "#search", ";nameserver", "##"}[r.Intn(5)], Labels: []string{}}
			l.Ws = false
			l.Toks = append(l.Toks, c, word([]string{"nameserver", "search", "options"}[r.Intn(3)]), dom())
		case 8:
			// blank
		default:
			l.Toks = append(l.Toks, word([]string{"sortlist", "lookup", "family", "Nameserver", "SEARCH"}[r.Intn(5)]), word("10.0.0.0/8"))
		}
		return l
	}
	for w.N < n {
		if r.Intn(3) > 0 {
			ev := &event{Ev: "parse", Lines: []line{}, Labels: []string{}, Search: []tok{}, Got: []string{}}
			for k := r.Intn(10); k > 0; k-- {
				ev.Lines = append(ev.Lines, randLine())
			}
			text := fileText(ev.Lines, r.Intn(100), r.Intn(2) == 0)
			c, err := dns.ClientConfigFromReader(strings.NewReader(text))
			if err != nil || c == nil {
				sum.Mis("clientconfig/parse:error", fmt.Sprintf("ClientConfigFromReader(%q): %v", clip(text), err), ev)
				continue
			}
			o := observe(c)
			ev.Cfg = &o
			seen[text] = true
			w.Emit(ev)
		} else {
			ev := &event{Ev: "names", Lines: []line{}, Labels: []string{}, Search: []tok{}, Ndots: []int{0, 1, 1, 2, 3, 5, 15}[r.Intn(7)], Fq: r.Intn(4) == 0}
			for k := r.Intn(5); k >= 0; k-- {
				ev.Labels = append(ev.Labels, lab[r.Intn(len(lab))])
			}
			var search []string
			for k := r.Intn(4); k > 0; k-- {
				t := dom()
				ev.Search = append(ev.Search, t)
				search = append(search, t.text())
			}
			c := &dns.ClientConfig{Ndots: ev.Ndots, Search: search}
			name := nameText(ev.Labels, ev.Fq)
			ev.Got = c.NameList(name)
			seen[name+fmt.Sprint(ev.Ndots, search)] = true
			w.Emit(ev)
		}
		sum.Evaluations++
		if w.N%499 == 1 {
			sum.Sample("event " + strconv.Itoa(w.N))
		}
	}
	w.Close()
	sum.Nontrivial = len(seen)
	sum.Print()
}

func reexec(in, out string) {
	var sum hx.Summary
	w := hx.NewWriter(out)
	hx.ReadNDJSON(in, func(i int, e *event) {
		switch e.Ev {
		case "parse":
			text := fileText(e.Lines, i, true)
			c, err := dns.ClientConfigFromReader(strings.NewReader(text))
			if err != nil || c == nil {
				sum.Mis("clientconfig/parse:error", fmt.Sprintf("ClientConfigFromReader(%q): %v", clip(text), err), e)
				return
			}
			o := observe(c)
			e.Cfg = &o
		case "names":
			var search []string
			for _, t := range e.Search {
				search = append(search, t.text())
			}
			c := &dns.ClientConfig{Ndots: e.Ndots, Search: search}
			e.Got = c.NameList(nameText(e.Labels, e.Fq))
		default:
			hx.Die("unknown event %q", e.Ev)
		}
		if e.Lines == nil {
			e.Lines = []line{}
		}
		if e.Labels == nil {
			e.Labels = []string{}
		}
		if e.Search == nil {
			e.Search = []tok{}
		}
		if e.Got == nil {
			e.Got = []string{}
		}
		w.Emit(e)
		sum.Evaluations++
	})
	w.Close()
	sum.Print()
}
