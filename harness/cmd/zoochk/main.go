package main

import (
	"fmt"

	"github.com/miekg/dns"
	"verifharness/lib/zoo"
)

func main() {
	for _, o := range zoo.Owners {
		all, err := zoo.All(o)
		if err != nil {
			fmt.Println(err)
			return
		}
		m := &dns.Msg{Answer: all, Extra: []dns.RR{zoo.Opt()}}
		b, err := m.Pack()
		fmt.Println(o, len(all), len(b), err)
		var m2 dns.Msg
		if err := m2.Unpack(b); err != nil {
			fmt.Println("unpack", err)
		}
	}
	types := map[uint16]bool{}
	all, _ := zoo.All("x.")
	for _, rr := range all {
		types[rr.Header().Rrtype] = true
	}
	for t := range dns.TypeToRR {
		if !types[t] {
			fmt.Print(dns.TypeToString[t], " ")
		}
	}
	fmt.Println("<- not in zoo")
}
