// Command durations binds spec/Durations.tla to the zone reader's TTL / TYPEnnn / CLASSnnn / \# readers and the
// exported mnemonic tables (extra check X13).
//
//	durations replay <vectors.ndjson>   TLC vectors -> zone lines through NewRR / the ZoneParser ($TTL), the exported
//	                                    tables, Type.String / Class.String; compared with the admissible outcomes
package main

import (
	"encoding/hex"
	"fmt"
	"os"
	"strconv"
	"strings"

	"github.com/miekg/dns"

	"verifharness/lib/hx"
	"verifharness/lib/zoo"
)

type vec struct {
	Kind    string          `json:"kind"`
	Text    hx.B            `json:"text"`
	Adm     [][]interface{} `json:"adm"` // [ok, value]
	What    string          `json:"what"`
	Tok     hx.B            `json:"tok"`
	Code    int             `json:"code"`
	Names   []string        `json:"names"`
	Generic hx.B            `json:"generic"`
	T       int             `json:"t"`
	Words   []hx.B          `json:"words"`
}

func ints(x interface{}) []int {
	var r []int
	for _, v := range x.([]interface{}) {
		r = append(r, int(v.(float64)))
	}
	return r
}

var rdataOf = map[uint16]string{} // presentation RDATA of one zoo record per type

func initZoo() {
	for _, t := range zoo.Texts { // one by one: a text the library under test cannot read is left out, not fatal
		rr, err := dns.NewRR(strings.Replace(t, "OWNER", "x.", 1))
		if err != nil || rr == nil {
			continue
		}
		h := rr.Header()
		if _, ok := rdataOf[h.Rrtype]; ok || h.Class != dns.ClassINET {
			continue
		}
		f := strings.SplitN(rr.String(), "\t", 5)
		if len(f) == 5 && strings.TrimSpace(f[4]) != "" {
			// only types whose own text reads back (NULL, for one, has no presentation format)
			if back, err := dns.NewRR("x. 60 IN " + f[3] + " " + f[4]); err == nil && back != nil {
				rdataOf[h.Rrtype] = f[4]
			}
		}
	}
}

func hugeNumber(s string) bool {
	run := 0
	for _, c := range s {
		if c >= '0' && c <= '9' {
			run++
			if run >= 14 {
				return true
			}
		} else {
			run = 0
		}
	}
	return false
}

func main() {
	if len(os.Args) < 3 || os.Args[1] != "replay" {
		hx.Die("usage: durations replay <vectors>")
	}
	initZoo()
	var sum hx.Summary
	seen := map[string]bool{}
	hx.ReadNDJSON(os.Args[2], func(i int, v *vec) {
		sum.Evaluations++
		if p := hx.Catch(func() { one(v, &sum, seen) }); p != "" {
			sum.Mis("durations/panic:"+v.Kind, "panic: "+p, v)
		}
		if i%1999 == 0 {
			sum.Sample(v)
		}
	})
	sum.Nontrivial = len(seen)
	sum.Print()
}

// admitted: is (ok, value) one of the admissible outcomes; value compared as printed ints
func admitted(adm [][]interface{}, ok bool, val []int) (bool, bool) {
	anyOK := false
	for _, a := range adm {
		aok := a[0].(bool)
		anyOK = anyOK || aok
		if aok != ok {
			continue
		}
		if !ok || fmt.Sprint(ints(a[1])) == fmt.Sprint(val) {
			return true, anyOK
		}
	}
	for _, a := range adm {
		anyOK = anyOK || a[0].(bool)
	}
	return false, anyOK
}

func one(v *vec, sum *hx.Summary, seen map[string]bool) {
	switch v.Kind {
	case "ttl":
		t := v.Text.String()
		seen["ttl:"+t] = true
		lines := [][2]string{{"field", "x. " + t + " IN A 192.0.2.1"}, {"directive", "$TTL " + t + "\nx. IN A 192.0.2.1"},
			{"readrr", "x. " + t + " IN A 192.0.2.1\n"}}
		for _, wl := range lines {
			where, line := wl[0], wl[1]
			var rr dns.RR
			var err error
			if where == "readrr" {
				rr, err = dns.ReadRR(strings.NewReader(line), "vectors")
			} else {
				rr, err = dns.NewRR(line)
			}
			ok := err == nil && rr != nil
			var val []int
			if ok {
				val = []int{int(rr.Header().Ttl >> 16), int(rr.Header().Ttl & 0xffff)}
			}
			if good, anyOK := admitted(v.Adm, ok, val); !good {
				k := "durations/ttl:"
				switch {
				case ok && !anyOK:
					k += "accepts-invalid"
				case !ok:
					k += "rejects-valid"
				default:
					k += "value"
				}
				if hugeNumber(t) {
					k += ":huge-number"
				}
				sum.Mis(k, fmt.Sprintf("%s %q: accepted=%v ttl=%v err=%v, spec admits %v", where, line, ok, val, err, v.Adm), v)
				return
			}
		}
	case "gtok":
		tok := v.Tok.String()
		seen[v.What+":"+tok] = true
		var line string
		if v.What == "t" {
			rd := "\\# 0"
			for _, a := range v.Adm { // a known type needs an RDATA of its own
				if a[0].(bool) {
					if s, ok := rdataOf[uint16(a[1].(float64))]; ok {
						rd = s
					}
				}
			}
			line = "x. 60 IN " + tok + " " + rd
		} else {
			line = "x. 60 " + tok + " TYPE65280 \\# 0"
		}
		rr, err := dns.NewRR(line)
		ok := err == nil && rr != nil
		got := 0
		if ok {
			got = int(rr.Header().Rrtype)
			if v.What == "c" {
				got = int(rr.Header().Class)
			}
		}
		good := false
		for _, a := range v.Adm {
			good = good || (a[0].(bool) == ok && (!ok || int(a[1].(float64)) == got))
		}
		if !good {
			sum.Mis("durations/generic-token:"+v.What, fmt.Sprintf("%q: accepted=%v code=%d err=%v, spec admits %v", line, ok, got, err, v.Adm), v)
		}
		if v.What == "t" { // the same token inside a type bit map (another reader of the library)
			l2 := "x. 60 IN NSEC y. " + tok
			rr2, err2 := dns.NewRR(l2)
			ok2 := err2 == nil && rr2 != nil
			g2 := -1
			if ok2 {
				if n, isN := rr2.(*dns.NSEC); isN && len(n.TypeBitMap) == 1 {
					g2 = int(n.TypeBitMap[0])
				}
			}
			good = false
			for _, a := range v.Adm {
				good = good || (a[0].(bool) == ok2 && (!ok2 || int(a[1].(float64)) == g2))
			}
			if !good {
				sum.Mis("durations/generic-token:bitmap", fmt.Sprintf("%q: accepted=%v code=%d err=%v, spec admits %v", l2, ok2, g2, err2, v.Adm), v)
			}
		}
	case "mnem":
		seen[fmt.Sprint(v.What, v.Code)] = true
		gen := v.Generic.String()
		if v.What == "t" {
			got := dns.Type(v.Code).String()
			if len(v.Names) > 0 {
				name := v.Names[0]
				if got != name {
					sum.Mis("durations/type-string", fmt.Sprintf("Type(%d).String() = %q, spec %q", v.Code, got, name), v)
				}
				if c, ok := dns.StringToType[name]; !ok || int(c) != v.Code {
					sum.Mis("durations/stringtotype", fmt.Sprintf("StringToType[%q] = %d (present %v), spec %d", name, c, ok, v.Code), v)
				}
				if s, ok := dns.TypeToString[uint16(v.Code)]; !ok || s != name {
					sum.Mis("durations/typetostring", fmt.Sprintf("TypeToString[%d] = %q, spec %q", v.Code, s, name), v)
				}
				if rd, ok := rdataOf[uint16(v.Code)]; ok && rd != "" { // the mnemonic in any case, and TYPEnnn, as the type of a record
					for _, tok := range []string{name, strings.ToLower(name), strings.ToUpper(name[:1]) + strings.ToLower(name[1:]), gen} {
						rr, err := dns.NewRR("x. 60 IN " + tok + " " + rd)
						if err != nil || rr == nil || int(rr.Header().Rrtype) != v.Code {
							sum.Mis("durations/type-token", fmt.Sprintf("NewRR(\"x. 60 IN %s %s\"): %v %v, spec type %d", tok, rd, rr, err, v.Code), v)
							break
						}
					}
				}
				if v.Code != 41 && v.Code != 0 { // in a type bit map
					for _, tok := range []string{name, strings.ToLower(name), gen} {
						rr, err := dns.NewRR("x. 60 IN NSEC y. " + tok)
						n, isN := rr.(*dns.NSEC)
						if err != nil || !isN || len(n.TypeBitMap) != 1 || int(n.TypeBitMap[0]) != v.Code {
							sum.Mis("durations/type-token:bitmap", fmt.Sprintf("NewRR(\"x. 60 IN NSEC y. %s\"): %v %v, spec bit map [%d]", tok, rr, err, v.Code), v)
							break
						}
					}
				}
			} else if got != gen { // no mnemonic in the spec's table: TYPEnnn, or a mnemonic the tables map back
				if c, ok := dns.StringToType[got]; !ok || int(c) != v.Code {
					sum.Mis("durations/type-string:no-mnemonic", fmt.Sprintf("Type(%d).String() = %q: neither %q nor a mnemonic that StringToType maps back", v.Code, got, gen), v)
				}
			}
		} else {
			got := dns.Class(v.Code).String()
			okc := got == gen && (len(v.Names) == 0 || v.Code == 255) // AMBIG: ANY is also a type mnemonic
			for _, n := range v.Names {
				okc = okc || got == n
			}
			if !okc {
				sum.Mis("durations/class-string", fmt.Sprintf("Class(%d).String() = %q, spec %v or %q", v.Code, got, v.Names, gen), v)
			}
			toks := []string{gen}
			for _, n := range v.Names {
				if v.Code != 255 { // AMBIG: ANY is a QCLASS and also a type mnemonic; only CLASS255 is demanded to read
					toks = append(toks, n, strings.ToLower(n))
				}
			}
			for _, tok := range toks {
				rr, err := dns.NewRR("x. 60 " + tok + " TYPE65280 \\# 0")
				if err != nil || rr == nil || int(rr.Header().Class) != v.Code {
					sum.Mis("durations/class-token", fmt.Sprintf("NewRR(\"x. 60 %s TYPE65280 \\# 0\"): %v %v, spec class %d", tok, rr, err, v.Code), v)
					break
				}
			}
		}
	case "rdata":
		var ws []string
		nonhex := false
		for i, w := range v.Words {
			ws = append(ws, w.String())
			if i > 0 {
				for _, c := range w {
					if !strings.ContainsRune("0123456789abcdefABCDEF", rune(c)) {
						nonhex = true
					}
				}
			}
		}
		tname := "TYPE" + strconv.Itoa(v.T)
		if n, ok := dns.TypeToString[uint16(v.T)]; ok {
			tname = n
		}
		line := "x. 60 IN " + tname + " \\# " + strings.Join(ws, " ")
		seen["rd:"+line] = true
		rr, err := dns.NewRR(line)
		ok := err == nil && rr != nil
		var rd []int
		if ok {
			if r, is := rr.(*dns.RFC3597); is {
				b, herr := hex.DecodeString(r.Rdata)
				if herr != nil {
					rd = []int{-1} // the record holds text that is not hexadecimal
				}
				for _, x := range b {
					rd = append(rd, int(x))
				}
			} else if rr.Header().Rdlength == 0 && len(v.Adm) == 2 {
				// the RDATA-less record of a known type ("\# 0"): nothing to compare
			} else {
				buf := make([]byte, 600)
				n, perr := dns.PackRR(rr, buf, 0, nil, false)
				if perr != nil {
					rd = []int{-2}
				} else {
					for _, x := range buf[3+10 : n] {
						rd = append(rd, int(x))
					}
				}
			}
		}
		if good, anyOK := admitted(v.Adm, ok, rd); !good {
			k := "durations/generic-rdata:"
			switch {
			case ok && !anyOK:
				k += "accepts-invalid"
			case !ok:
				k += "rejects-valid"
			default:
				k += "value"
			}
			if nonhex {
				k += ":non-hex"
			} else if v.T < 65280 {
				k += ":known-type"
			}
			sum.Mis(k, fmt.Sprintf("%q: accepted=%v rdata=%v err=%v, spec admits %v", line, ok, rd, err, v.Adm), v)
		}
	default:
		hx.Die("unknown vector kind %q", v.Kind)
	}
}
